(* flatbool_drv: runs operation histories with boolean operations on the extracted model of
   flat_boolean_numerical_domain<interval_domain> (coq/Dom/FlatBool.v).
   Same case format and output as harness/domhist.hpp (harness/flatbool.cpp). *)
open Flatbool_model
open Zio
let n_of_int i = n_of_zarith (ZA.of_int i)
let int_of_n n = ZA.to_int (zarith_of_n n)
let string_of_bound = function MInf -> "-oo" | PInf -> "+oo" | Fin z -> string_of_z z
let string_of_itv i =
  if is_bot i then "_|_" else "[" ^ string_of_bound i.lb ^ ", " ^ string_of_bound i.ub ^ "]"
type tk = { t : string array; mutable p : int }
let next k = let s = k.t.(k.p) in k.p <- k.p + 1; s
let nexti k = int_of_string (next k)
let nextz k = z_of_string (next k)
let nextv k = n_of_int (nexti k)
let parse_exp k =
  ignore (next k);
  let n = nexti k in
  let terms = List.init n (fun _ -> let c = nextz k in let v = nextv k in (c, v)) in
  let c = nextz k in
  { le_terms = terms; le_cst = c }
let parse_cst k =
  ignore (next k);
  let kind = match next k with "eq" -> EQ | "ne" -> DISEQ | "le" -> INEQ | _ -> STRICT in
  let e = parse_exp k in
  { lc_kind = kind; lc_exp = e }
let show_cst c =
  let k = match c.lc_kind with EQ -> "eq" | DISEQ -> "ne" | INEQ -> "le" | STRICT -> "lt" in
  k ^ ":" ^ String.concat "+" (List.map (fun (co, v) -> string_of_z co ^ "*v" ^ string_of_int (int_of_n v)) c.lc_exp.le_terms)
  ^ ":" ^ string_of_z c.lc_exp.le_cst
let show_state nvar st =
  if fb_is_bot st then "_|_" else
    (if fb_is_top st then "T" else "") ^
    String.concat "|" (List.init nvar (fun i -> string_of_itv (fb_at st (n_of_int i))))
let show_csts st = "{" ^ String.concat "," (List.map show_cst (fb_to_csts st)) ^ "}"
let show_bat st b =
  if fb_is_bot st then "bottom" else
    match fb_bool_at st b with BvBot -> "bottom" | BvTrue -> "true" | BvFalse -> "false" | BvTop -> "top"
let split_ops toks =
  let rec go cur acc = function
    | [] -> List.rev (List.rev cur :: acc)
    | ";" :: r -> go [] (List.rev cur :: acc) r
    | x :: r -> go (x :: cur) acc r in
  go [] [] toks
let run_history toks =
  match split_ops toks with
  | ("hist" :: nregs :: nv :: rest) :: ops ->
    let nregs = int_of_string nregs and nv = int_of_string nv in
    let nb = match rest with x :: _ -> int_of_string x | [] -> 2 in
    let nvar = nv + nb in
    let isb v = int_of_n v >= nv in
    let bvar k = let b = nexti k in if b < 0 || b >= nb then failwith "bad boolean index" else n_of_int (nv + b) in
    let regs = ref (List.init nregs (fun _ -> fb_top)) in
    let out = ref [] in
    let emit s = out := s :: !out in
    let rg r = frget !regs (nat_of_int r) in
    let step h = regs := fstep isb !regs h in
    List.iter (fun op -> if op <> [] then begin
      let k = { t = Array.of_list op; p = 0 } in
      let o = next k in
      match o with
      | "q_leq" -> let s = nexti k in let t = nexti k in emit (if fb_leq (rg s) (rg t) then "true" else "false")
      | "q_entails" -> let r = nexti k in let c = parse_cst k in emit (if fb_entails c (rg r) then "true" else "false")
      | "q_csts" -> let r = nexti k in emit (show_csts (rg r))
      | "q_at" -> let r = nexti k in emit (show_state nvar (rg r))
      | "q_bat" -> let r = nexti k in let b = bvar k in emit (show_bat (rg r) b)
      | "leqprobe" ->
        let r = nexti k in let s = nexti k in let t = nexti k in let b = bvar k in let neg = nexti k <> 0 in
        let le = fb_leq (rg s) (rg t) in
        step (FProbe (nat_of_int r, nat_of_int t, b, neg));
        emit ((if le then "true" else "false") ^ " # " ^ show_state nvar (rg r) ^ " # " ^ show_csts (rg r))
      | _ ->
        let r = nexti k in
        let rn = nat_of_int r in
        let nat () = nat_of_int (nexti k) in
        let operand () = match next k with "v" -> OVar (nextv k) | _ -> OCst (nextz k) in
        let hops = match o with
          | "top" -> [FTop rn] | "bot" -> [FBot rn]
          | "copy" -> [FCopy (rn, nat ())]
          | "assign" -> let x = nextv k in [FAssign (rn, x, parse_exp k)]
          | "wassign" -> let x = nextv k in [FWeakAssign (rn, x, parse_exp k)]
          | "arith" ->
            let op = (match next k with "add" -> OpAdd | "sub" -> OpSub | "mul" -> OpMul | "sdiv" -> OpSDiv
                                      | "udiv" -> OpUDiv | "srem" -> OpSRem | _ -> OpURem) in
            let x = nextv k in let y = nextv k in [FArith (rn, op, x, y, operand ())]
          | "bit" ->
            let op = (match next k with "and" -> OpAnd | "or" -> OpOr | "xor" -> OpXor | "shl" -> OpShl
                                      | "lshr" -> OpLShr | _ -> OpAShr) in
            let x = nextv k in let y = nextv k in [FBit (rn, op, x, y, operand ())]
          | "cast" ->
            let op = (match next k with "trunc" -> CTrunc | "sext" -> CSExt | _ -> CZExt) in
            let dsti = nexti k in let srci = nexti k in
            [FCast (rn, op, n_of_int dsti, n_of_int srci, dsti >= nv, srci >= nv,
                    z_of_string (if srci >= nv then "1" else "32"))]
          | "assume" -> let n = nexti k in [FAssume (rn, List.init n (fun _ -> parse_cst k))]
          | "select" -> let l = nextv k in let c = parse_cst k in let e1 = parse_exp k in let e2 = parse_exp k in
            [FSelect (rn, l, c, e1, e2)]
          | "forget" -> let n = nexti k in [FForget (rn, List.init n (fun _ -> nextv k))]
          | "project" -> let n = nexti k in [FProject (rn, List.init n (fun _ -> nextv k))]
          | "rename" -> let n = nexti k in
            let f = List.init n (fun _ -> nextv k) in let t = List.init n (fun _ -> nextv k) in [FRename (rn, f, t)]
          | "expand" -> let x = nextv k in let nx = nextv k in [FExpand (rn, x, nx)]
          | "havoc" -> [FHavoc (rn, nextv k)]
          | "join" -> let s = nat () in let t = nat () in [FJoin (rn, s, t)]
          | "meet" -> let s = nat () in let t = nat () in [FMeet (rn, s, t)]
          | "widen" -> let s = nat () in let t = nat () in [FWiden (rn, s, t)]
          | "narrow" -> let s = nat () in let t = nat () in [FNarrow (rn, s, t)]
          | "widenthr" -> let s = nat () in let t = nat () in let n = nexti k in
            [FWidenThr (rn, s, t, List.init n (fun _ -> nextz k))]
          | "normalize" | "minimize" -> [FNormalize rn]
          | "bassign" -> let b = bvar k in [FBAssign (rn, b, parse_cst k)]
          | "bwassign" -> let b = bvar k in [FBWAssign (rn, b, parse_cst k)]
          | "bcopy" -> let b = bvar k in let b1 = bvar k in [FBCopy (rn, b, b1, nexti k <> 0)]
          | "bwcopy" -> let b = bvar k in let b1 = bvar k in [FBWCopy (rn, b, b1, nexti k <> 0)]
          | "bbin" ->
            let op = (match next k with "and" -> BAnd | "or" -> BOr | _ -> BXor) in
            let b = bvar k in let b1 = bvar k in let b2 = bvar k in [FBBin (rn, op, b, b1, b2)]
          | "bassume" -> let b = bvar k in [FBAssume (rn, b, nexti k <> 0)]
          | "bselect" -> let b = bvar k in let bc = bvar k in let b1 = bvar k in let b2 = bvar k in
            [FBSelect (rn, b, bc, b1, b2)]
          | "bforget" -> [FForget (rn, [bvar k])]
          | "bfromint" ->
            let b = bvar k in let v = nextv k in
            let z s = z_of_string s in
            (* v >= 0 is 0 - v <= 0, v <= 1 is v - 1 <= 0 *)
            [FAssume (rn, [{ lc_kind = INEQ; lc_exp = { le_terms = [(z "-1", v)]; le_cst = z "0" } };
                           { lc_kind = INEQ; lc_exp = { le_terms = [(z "1", v)]; le_cst = z "-1" } }]);
             FCast (rn, CTrunc, b, v, true, false, z "32")]
          | _ -> failwith ("unknown op " ^ o) in
        List.iter step hops;
        emit (show_state nvar (rg r))
    end) ops;
    String.concat " ; " (List.rev !out)
  | _ -> failwith "bad history"
let () =
  let lines = read_lines Sys.argv.(Array.length Sys.argv - 1) in
  List.iteri (fun i l ->
      let r = try run_history (split_ws l) with Failure m -> "MODEL-ERROR " ^ m in
      print_string ("R " ^ string_of_int i ^ " " ^ r ^ "\n")) lines
