(* wrapint_drv: evaluates the extracted wrapint / wrapped-interval models on a case file.
   line:  wi <op> <width> <args...>     (crab::wrapint; operands are uint64 decimals)
          wv <op> <width> <args...>     (wrapped_interval; intervals are bot | top | s:e)
   output: R <i> <answer>; ABORT where the model reaches a CRAB_ERROR, UB for a shift by
   64 or more. *)
open Wrapint_model
open Zio
let sb b = if b then "true" else "false"
let sw (a : wrapint) = string_of_z a.wn ^ " " ^ string_of_z a.ww
let so = function Some a -> sw a | None -> "ABORT"
let sub_ = function Some a -> sw a | None -> "UB"
exception Abort
let get = function Some a -> a | None -> raise Abort
let zs = z_of_string

let eval_wi toks =
  match toks with
  | [_; "mku64"; w; n] -> so (of_u64 (zs n) (zs w))
  | [_; "mkstr"; w; n] -> so (of_string_u64 (zs n) (zs w))
  | [_; "mkz"; w; z] -> so (of_z (zs z) (zs w))
  | [_; "mkq"; w; n; d] -> so (of_q (zs n) (zs d) (zs w))
  | [_; "fitsz"; w; z] -> sb (fits_wrapint (zs z) (zs w))
  | [_; "fitsq"; w; n; d] -> sb (fits_wrapint_q (zs n) (zs d) (zs w))
  | [_; op; w] ->
    let w = zs w in
    if not (valid_width w) then "ABORT" else
    (match op with
     | "smax" -> sw (get_signed_max w) | "smin" -> sw (get_signed_min w)
     | "umax" -> sw (get_unsigned_max w) | "umin" -> sw (get_unsigned_min w)
     | _ -> failwith ("unknown op " ^ op))
  | [_; op; w; a] ->
    let w = zs w in
    let a = get (of_u64 (zs a) w) in
    (match op with
     | "u64" -> string_of_z (get_uint64_t a)
     | "bw" -> string_of_z (get_bitwidth a)
     | "getu" | "ustr" | "write" -> string_of_z (get_unsigned_bignum a)
     | "gets" | "sstr" -> string_of_z (get_signed_bignum a)
     | "msb" -> sb (msb a)
     | "iszero" -> sb (is_zero a)
     | "neg" -> sw (wneg a)
     | "preinc" -> let r = wpreinc a in sw r ^ " " ^ sw r
     | "predec" -> let r = wpredec a in sw r ^ " " ^ sw r
     | "postinc" -> let (r, n) = wpostinc a in sw r ^ " " ^ sw n
     | "postdec" -> let (r, n) = wpostdec a in sw r ^ " " ^ sw n
     | "rtu" -> so (of_z (get_unsigned_bignum a) w)
     | "rts" -> so (of_z (get_signed_bignum a) w)
     | _ -> failwith ("unknown op " ^ op))
  | [_; op; w; a; b] ->
    let w = zs w in
    let a = get (of_u64 (zs a) w) in
    (match op with
     | "sext" -> so (wsext a (zs b))
     | "zext" -> so (wzext a (zs b))
     | "keep" -> so (wkeep_lower a (zs b))
     | _ ->
       let b = get (of_u64 (zs b) w) in
       (match op with
        | "add" -> sw (wadd a b) | "sub" -> sw (wsub a b) | "mul" -> sw (wmul a b)
        | "div" | "sdiv" -> so (wsdiv a b) | "rem" | "srem" -> so (wsrem a b)
        | "udiv" -> so (wudiv a b) | "urem" -> so (wurem a b)
        | "addeq" -> let r = wadd_assign a b in sw r ^ " " ^ sw r
        | "subeq" -> let r = wsub_assign a b in sw r ^ " " ^ sw r
        | "muleq" -> let r = wmul_assign a b in sw r ^ " " ^ sw r
        | "eq" -> sb (weq a b) | "ne" -> sb (wne a b) | "lt" -> sb (wlt a b)
        | "le" -> sb (wle a b) | "gt" -> sb (wgt a b) | "ge" -> sb (wge a b)
        | "and" -> sw (wand a b) | "or" -> sw (wor a b) | "xor" -> sw (wxor a b)
        | "shl" -> sub_ (wshl a b) | "lshr" -> sub_ (wlshr a b) | "ashr" -> sub_ (washr a b)
        | _ -> failwith ("unknown op " ^ op)))
  | _ -> failwith "bad line"

let eval toks =
  match toks with
  | "wi" :: _ -> eval_wi toks
  | _ -> failwith "bad line"

let () =
  let lines = read_lines Sys.argv.(1) in
  List.iteri (fun i l ->
      let r = try eval (split_ws l) with Failure m -> "MODEL-ERROR " ^ m | Abort -> "ABORT" in
      print_string ("R " ^ string_of_int i ^ " " ^ r ^ "\n")) lines
