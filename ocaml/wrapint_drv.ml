(* wrapint_drv: evaluates the extracted wrapint / wrapped-interval models on a case file.
   line:  wi <op> <width> <args...>     (crab::wrapint; operands are uint64 decimals)
          wv <op> <width> <args...>     (wrapped_interval; intervals are bot | top | s:e)
   output: R <i> <answer>; ABORT where the model reaches a CRAB_ERROR, UB for a shift by
   64 or more. *)
open Wrapint_model
open Zio
let sb b = if b then "true" else "false"
let sw (a : wrapint) = string_of_z a.wn ^ " " ^ string_of_z a.ww
let so = function Some a -> sw a | None -> "ABORT"
let sub_ = function Some a -> sw a | None -> "UB"
exception Abort
let get = function Some a -> a | None -> raise Abort
let zs = z_of_string

let eval_wi toks =
  match toks with
  | [_; "mku64"; w; n] -> so (of_u64 (zs n) (zs w))
  | [_; "mkstr"; w; n] -> so (of_string_u64 (zs n) (zs w))
  | [_; "mkz"; w; z] -> so (of_z (zs z) (zs w))
  | [_; "mkq"; w; n; d] -> so (of_q (zs n) (zs d) (zs w))
  | [_; "fitsz"; w; z] -> sb (fits_wrapint (zs z) (zs w))
  | [_; "fitsq"; w; n; d] -> sb (fits_wrapint_q (zs n) (zs d) (zs w))
  | [_; op; w] ->
    let w = zs w in
    if not (valid_width w) then "ABORT" else
    (match op with
     | "smax" -> sw (get_signed_max w) | "smin" -> sw (get_signed_min w)
     | "umax" -> sw (get_unsigned_max w) | "umin" -> sw (get_unsigned_min w)
     | _ -> failwith ("unknown op " ^ op))
  | [_; op; w; a] ->
    let w = zs w in
    let a = get (of_u64 (zs a) w) in
    (match op with
     | "u64" -> string_of_z (get_uint64_t a)
     | "bw" -> string_of_z (get_bitwidth a)
     | "getu" | "ustr" | "write" -> string_of_z (get_unsigned_bignum a)
     | "gets" | "sstr" -> string_of_z (get_signed_bignum a)
     | "msb" -> sb (msb a)
     | "iszero" -> sb (is_zero a)
     | "neg" -> sw (wneg a)
     | "preinc" -> let r = wpreinc a in sw r ^ " " ^ sw r
     | "predec" -> let r = wpredec a in sw r ^ " " ^ sw r
     | "postinc" -> let (r, n) = wpostinc a in sw r ^ " " ^ sw n
     | "postdec" -> let (r, n) = wpostdec a in sw r ^ " " ^ sw n
     | "rtu" -> so (of_z (get_unsigned_bignum a) w)
     | "rts" -> so (of_z (get_signed_bignum a) w)
     | _ -> failwith ("unknown op " ^ op))
  | [_; op; w; a; b] ->
    let w = zs w in
    let a = get (of_u64 (zs a) w) in
    (match op with
     | "sext" -> so (wsext a (zs b))
     | "zext" -> so (wzext a (zs b))
     | "keep" -> so (wkeep_lower a (zs b))
     | _ ->
       let b = get (of_u64 (zs b) w) in
       (match op with
        | "add" -> sw (wadd a b) | "sub" -> sw (wsub a b) | "mul" -> sw (wmul a b)
        | "div" | "sdiv" -> so (wsdiv a b) | "rem" | "srem" -> so (wsrem a b)
        | "udiv" -> so (wudiv a b) | "urem" -> so (wurem a b)
        | "addeq" -> let r = wadd_assign a b in sw r ^ " " ^ sw r
        | "subeq" -> let r = wsub_assign a b in sw r ^ " " ^ sw r
        | "muleq" -> let r = wmul_assign a b in sw r ^ " " ^ sw r
        | "eq" -> sb (weq a b) | "ne" -> sb (wne a b) | "lt" -> sb (wlt a b)
        | "le" -> sb (wle a b) | "gt" -> sb (wgt a b) | "ge" -> sb (wge a b)
        | "and" -> sw (wand a b) | "or" -> sw (wor a b) | "xor" -> sw (wxor a b)
        | "shl" -> sub_ (wshl a b) | "lshr" -> sub_ (wlshr a b) | "ashr" -> sub_ (washr a b)
        | _ -> failwith ("unknown op " ^ op)))
  | _ -> failwith "bad line"

(* ---------------------------------------------------------------- wrapped intervals *)
let parse_wv s w =
  if s = "bot" then wi_bottom else if s = "top" then wi_top else
  match String.index_opt s ':' with
  | Some k ->
    let a = get (of_u64 (zs (String.sub s 0 k)) w) in
    let b = get (of_u64 (zs (String.sub s (k+1) (String.length s - k - 1))) w) in
    wi_mk a b
  | None -> failwith ("bad interval " ^ s)
let swv (i : witv) =
  if is_bottom i then "_|_" else if is_top i then "top"
  else "[" ^ string_of_z i.wstart.wn ^ "," ^ string_of_z i.wend.wn ^ "]@" ^ string_of_z i.wstart.ww
let sowv = function Some i -> swv i | None -> "ABORT"
let sob = function Some b -> sb b | None -> "ABORT"
(* wrapped_interval::write prints signed numbers (PRINT_WRAPINT_AS_SIGNED) *)
let write_wv (i : witv) =
  if is_bottom i then "_|_" else if is_top i then "top"
  else "[[" ^ string_of_z (get_signed_bignum i.wstart) ^ ", " ^ string_of_z (get_signed_bignum i.wend)
       ^ "]]_" ^ string_of_z i.wstart.ww
let s_itv = function
  | None -> "ABORT"
  | Some IVBot -> "_|_"
  | Some IVTop -> "[-oo, +oo]"
  | Some (IVRange (l, u)) ->
    if ZA.gt (zarith_of_z l) (zarith_of_z u) then "_|_"
    else "[" ^ string_of_z l ^ ", " ^ string_of_z u ^ "]"

let eval_wv toks =
  match toks with
  | [_; "mkz"; w; z] -> sowv (mk_winterval1 (zs z) (zs w))
  | [_; "mkzz"; w; l; u] -> sowv (mk_winterval2 (zs l) (zs u) (zs w))
  | [_; "slimit"; w] -> if valid_width (zs w) then swv (signed_limit (zs w)) else "ABORT"
  | [_; "ulimit"; w] -> if valid_width (zs w) then swv (unsigned_limit (zs w)) else "ABORT"
  | [_; "default"; _] -> swv wi_top
  | [_; op; w; a] ->
    let a = parse_wv a (zs w) in
    (match op with
     | "isbot" -> sb (is_bottom a) | "istop" -> sb (is_top a)
     | "issingleton" -> sb (is_singleton a)
     | "crosss" -> sob (cross_signed_limit a) | "crossu" -> sob (cross_unsigned_limit a)
     | "neg" -> swv (wi_neg a)
     | "toitv" -> s_itv (wi_to_interval a)
     | "lowers" -> swv (wi_lower_half_line a true) | "loweru" -> swv (wi_lower_half_line a false)
     | "uppers" -> swv (wi_upper_half_line a true) | "upperu" -> swv (wi_upper_half_line a false)
     | "write" -> write_wv a
     | _ -> failwith ("unknown op " ^ op))
  | [_; op; w; a; b] ->
    let w = zs w in
    let a = parse_wv a w in
    (match op with
     | "at" -> sb (wi_at a (get (of_u64 (zs b) w)))
     | "zext" -> sowv (wi_zext a (zs b))
     | "sext" -> sowv (wi_sext a (zs b))
     | "trunc" -> sowv (wi_trunc a (zs b))
     | _ ->
       let b = parse_wv b w in
       (match op with
        | "leq" -> sb (wi_leq a b) | "eq" -> sb (wi_eq a b) | "ne" -> sb (not (wi_eq a b))
        | "join" -> swv (wi_join a b) | "meet" | "narrow" -> swv (wi_meet a b)
        | "widen" -> sowv (wi_widen a b)
        | "add" | "addeq" -> swv (wi_add a b) | "sub" | "subeq" -> swv (wi_sub a b)
        | "mul" | "muleq" -> sowv (wi_mul a b)
        | "div" | "sdiv" | "diveq" -> sowv (wi_sdiv a b)
        | "udiv" -> sowv (wi_udiv a b)
        | "srem" | "urem" | "and" | "or" | "xor" -> swv (default_implementation a b)
        | "shl" -> sowv (wi_shl a b) | "lshr" -> sowv (wi_lshr a b) | "ashr" -> sowv (wi_ashr a b)
        | "trim" -> swv (wi_trim_interval a b)
        | _ -> failwith ("unknown op " ^ op)))
  | _ -> failwith "bad line"

let eval toks =
  match toks with
  | "wi" :: _ -> eval_wi toks
  | "wv" :: _ -> eval_wv toks
  | _ -> failwith "bad line"

let () =
  let lines = read_lines Sys.argv.(1) in
  List.iteri (fun i l ->
      let r = try eval (split_ws l) with Failure m -> "MODEL-ERROR " ^ m | Abort -> "ABORT" in
      print_string ("R " ^ string_of_int i ^ " " ^ r ^ "\n")) lines
