(* scalar_drv: evaluates the extracted interval model on a case file.
   line:  itv <op> <A> [<B>]      A,B ::= bot | <lb>:<ub>   bounds: -oo | +oo | decimal
   output: R <i> <answer> *)
open Scalar_model
open Zio
let bound_of_string s = match s with "-oo" -> MInf | "+oo" -> PInf | _ -> Fin (z_of_string s)
let itv_of_string s =
  if s = "bot" then ibot else
  match String.index_opt s ':' with
  | Some k -> imk (bound_of_string (String.sub s 0 k))
                (bound_of_string (String.sub s (k+1) (String.length s - k - 1)))
  | None -> failwith ("bad interval " ^ s)
let string_of_bound = function MInf -> "-oo" | PInf -> "+oo" | Fin z -> string_of_z z
let string_of_itv i =
  if is_bot i then "_|_" else "[" ^ string_of_bound i.lb ^ ", " ^ string_of_bound i.ub ^ "]"
let sb b = if b then "true" else "false"
(* thresholds: a sorted list given as third operand  t1,t2,...; get_next/get_prev as in
   crab::thresholds (mirrored later in Fix/Thresholds.v); here only default widening *)
let eval toks =
  match toks with
  | ["itv"; op; a; b] ->
    let a = itv_of_string a and b' = b in
    (match op with
     | "mem" -> sb (imem a (z_of_string b'))
     | _ ->
    let b = itv_of_string b' in
    (match op with
     | "add" -> string_of_itv (iadd a b) | "sub" -> string_of_itv (isub a b)
     | "mul" -> string_of_itv (imul a b) | "div" -> string_of_itv (idiv a b)
     | "srem" -> string_of_itv (isrem a b) | "urem" -> string_of_itv (iurem a b)
     | "udiv" -> string_of_itv (iudiv a b)
     | "and" -> string_of_itv (iand a b) | "or" -> string_of_itv (ior a b)
     | "xor" -> string_of_itv (ixor a b) | "shl" -> string_of_itv (ishl a b)
     | "ashr" -> string_of_itv (iashr a b) | "lshr" -> string_of_itv (ilshr a b)
     | "join" -> string_of_itv (ijoin a b) | "meet" -> string_of_itv (imeet a b)
     | "widen" -> string_of_itv (iwiden a b) | "narrow" -> string_of_itv (inarrow a b)
     | "trim" -> string_of_itv (itrim a b)
     | "leq" -> sb (ileq a b) | "eq" -> sb (ieq a b)
     | _ -> failwith ("unknown op " ^ op)))
  | ["itv"; op; a] ->
    let a = itv_of_string a in
    (match op with
     | "neg" -> string_of_itv (ineg a)
     | "lower" -> string_of_itv (ilower_half a) | "upper" -> string_of_itv (iupper_half a)
     | "isbot" -> sb (is_bot a) | "istop" -> sb (is_top a)
     | "singleton" -> (match isingleton a with None -> "none" | Some z -> string_of_z z)
     | _ -> failwith ("unknown op " ^ op))
  | _ -> failwith "bad line"
let () =
  let lines = read_lines Sys.argv.(1) in
  List.iteri (fun i l ->
      let r = try eval (split_ws l) with Failure m -> "MODEL-ERROR " ^ m in
      print_string ("R " ^ string_of_int i ^ " " ^ r ^ "\n")) lines
