(* inter_drv: models of the inter-procedural analyzers (Ana/InterTD.v, Ana/InterBU.v) on textual
   inter-procedural programs; same format as harness/intertext.hpp / inter.cpp.
   Default mode: run the model (top-down: thr = 0 only; rec=1 runs the model of Ana/InterTDRec.v;
   bottom-up: interval summaries, call graph without cycles; with bumodel=rec any call graph:
   Ana/InterBURec.v), print tables and summaries, and
   run the Coq-verified certificate checker on the model's own result.
   Mode --validate: each line is "<case> ### <implementation answer>"; the Coq-verified checker
   (td_validate / bu_validate, theorems C09_validated_results_sound / C10_validated_results_sound)
   is run on the implementation's tables and summaries. *)
open Inter_model
open Zio
let n_of_int i = n_of_zarith (ZA.of_int i)
let string_of_bound = function MInf -> "-oo" | PInf -> "+oo" | Fin z -> string_of_z z
let string_of_itv i =
  if is_bot i then "_|_" else "[" ^ string_of_bound i.lb ^ ", " ^ string_of_bound i.ub ^ "]"
type tk = { t : string array; mutable p : int }
let more k = k.p < Array.length k.t
let next k = let s = k.t.(k.p) in k.p <- k.p + 1; s
let nexti k = int_of_string (next k)
let nextz k = z_of_string (next k)
let nextv k = n_of_int (nexti k)
let parse_exp k =
  ignore (next k);
  let n = nexti k in
  let terms = List.init n (fun _ -> let c = nextz k in let v = nextv k in (c, v)) in
  let c = nextz k in
  { le_terms = terms; le_cst = c }
let parse_cst k =
  ignore (next k);
  let kind = match next k with "eq" -> EQ | "ne" -> DISEQ | "le" -> INEQ | _ -> STRICT in
  { lc_kind = kind; lc_exp = parse_exp k }
let split_on sep toks =
  let rec go cur acc = function
    | [] -> List.rev (List.rev cur :: acc)
    | x :: r when x = sep -> go [] (List.rev cur :: acc) r
    | x :: r -> go (x :: cur) acc r in
  go [] [] toks
let parse_stmt toks =
  let k = { t = Array.of_list toks; p = 0 } in
  let operand () = match next k with "v" -> OVar (nextv k) | _ -> OCst (nextz k) in
  match next k with
  | "assign" -> let x = nextv k in IBase (SAssign (x, parse_exp k))
  | "arith" ->
    let op = (match next k with "add" -> OpAdd | "sub" -> OpSub | "mul" -> OpMul | "sdiv" -> OpSDiv
                              | "udiv" -> OpUDiv | "srem" -> OpSRem | _ -> OpURem) in
    let x = nextv k in let y = nextv k in IBase (SArith (op, x, y, operand ()))
  | "bit" ->
    let op = (match next k with "and" -> OpAnd | "or" -> OpOr | "xor" -> OpXor | "shl" -> OpShl
                              | "lshr" -> OpLShr | _ -> OpAShr) in
    let x = nextv k in let y = nextv k in IBase (SBit (op, x, y, operand ()))
  | "assume" -> IBase (SAssume (parse_cst k))
  | "assert" -> let c = parse_cst k in IBase (SAssert (c, nat_of_int (nexti k)))
  | "havoc" -> IBase (SHavoc (nextv k))
  | "select" -> let x = nextv k in let c = parse_cst k in let e1 = parse_exp k in let e2 = parse_exp k in IBase (SSelect (x, c, e1, e2))
  | "unreachable" -> IBase SUnreach
  | "call" ->
    let g = nexti k in
    let no = nexti k in
    let outs = List.init no (fun _ -> nextv k) in
    let ni = nexti k in
    let ins = List.init ni (fun _ -> nextv k) in
    ICall (outs, nat_of_int g, ins)
  | s -> failwith ("unknown statement " ^ s)
let show_state nv e =
  if e_is_bot e then "_|_" else String.concat "|" (List.init nv (fun i -> string_of_itv (e_at e (n_of_int i))))
let bound_of_string = function "-oo" -> MInf | "+oo" -> PInf | s -> Fin (z_of_string s)
let state_of_string s =
  let s = String.trim s in
  if String.length s >= 3 && String.sub s 0 3 = "_|_" then EBot else begin
    let parts = String.split_on_char '|' s in
    let e = ref e_top in
    List.iteri (fun i p ->
        let p = String.trim p in
        let inner = String.sub p 1 (String.length p - 2) in
        match String.split_on_char ',' inner with
        | [l; u] -> e := e_set !e (n_of_int i) (imk (bound_of_string (String.trim l)) (bound_of_string (String.trim u)))
        | _ -> failwith "bad state") parts;
    !e end
type fdesc = { nb : int; ex : int; fins : n list; fouts : n list; blocks : istmt list array; mutable edges : (nat * nat) list }
type pcase = { prog : iprog; nv : int; nf : int; nbs : int array; opts : (string * string) list; init : env }
let parse_case toks =
  match split_on "|" toks with
  | ("inter" :: nf :: nv :: optl) :: secs ->
    let nf = int_of_string nf and nv = int_of_string nv in
    let opts = List.filter_map (fun o -> match String.index_opt o '=' with
        | Some i -> Some (String.sub o 0 i, String.sub o (i+1) (String.length o - i - 1)) | None -> None) optl in
    let fs = Array.make nf { nb = 0; ex = -1; fins = []; fouts = []; blocks = [||]; edges = [] } in
    let init = ref e_top in
    let rec pairs = function a :: b :: r -> (nat_of_int (int_of_string a), nat_of_int (int_of_string b)) :: pairs r | _ -> [] in
    List.iter (fun sec -> match sec with
      | "F" :: id :: nb :: ex :: "I" :: rest ->
        let k = { t = Array.of_list rest; p = 0 } in
        let ni = nexti k in
        let ins = List.init ni (fun _ -> nextv k) in
        ignore (next k);
        let no = nexti k in
        let outs = List.init no (fun _ -> nextv k) in
        let nb = int_of_string nb in
        fs.(int_of_string id) <- { nb; ex = int_of_string ex; fins = ins; fouts = outs; blocks = Array.make nb []; edges = [] }
      | _ -> ()) secs;
    List.iter (fun sec -> match sec with
      | "B" :: f :: b :: rest ->
        fs.(int_of_string f).blocks.(int_of_string b) <-
          List.filter_map (fun st -> if st = [] then None else Some (parse_stmt st)) (split_on ";" rest)
      | "E" :: f :: l -> let d = fs.(int_of_string f) in d.edges <- d.edges @ pairs l
      | "I" :: l -> let k = { t = Array.of_list l; p = 0 } in let cs = ref [] in
        while more k do cs := !cs @ [parse_cst k] done; init := d_add !cs !init
      | _ -> ()) secs;
    let prog = Array.to_list (Array.map (fun d ->
        { f_ins = d.fins; f_outs = d.fouts; f_blocks = Array.to_list d.blocks; f_edges = d.edges;
          f_exit = (if d.ex < 0 then None else Some (nat_of_int d.ex)) }) fs) in
    { prog; nv; nf; nbs = Array.map (fun d -> d.nb) fs; opts; init = !init }
  | _ -> failwith "bad case"
(* first name for the fresh copies: above every variable of the program and of the pool (initial
   constraints and printed tables may mention pool variables the program does not use) *)
let voff_of c =
  let a = zarith_of_n (prog_voff c.prog) and b = ZA.of_int c.nv in
  n_of_zarith (if ZA.compare a b >= 0 then a else b)
let opt c k d = try List.assoc k c.opts with Not_found -> d
let efuel = nat_of_int 400
(* WTO of every function's CFG *)
let wtos_of c =
  let ws = Array.of_list (List.map (fun fn -> build0 (fn_graph fn) (nat_of_int 0)) c.prog) in
  if Array.exists (fun w -> w = None) ws then None
  else Some (fun f -> match ws.(int_of_nat f) with Some w -> w | None -> [])
let dump c (tpre : nat -> nat -> env) (tpost : nat -> nat -> env) (sums : summ list) =
  let tabs = String.concat " # " (List.init c.nf (fun f ->
      "T" ^ string_of_int f ^ " " ^ String.concat " ; " (List.init c.nbs.(f) (fun b ->
          "pre=" ^ show_state c.nv (tpre (nat_of_int f) (nat_of_int b)) ^ " post=" ^ show_state c.nv (tpost (nat_of_int f) (nat_of_int b)))))) in
  let ss = List.map (fun sm -> "S" ^ string_of_int (int_of_nat sm.s_fn) ^ " " ^ show_state c.nv sm.s_pre ^ " => " ^ show_state c.nv sm.s_post) sums in
  tabs ^ " @" ^ (if ss = [] then "" else " " ^ String.concat " ; " ss)
let params c =
  let delay = nat_of_int (int_of_string (opt c "delay" "2")) and desc = nat_of_int (int_of_string (opt c "desc" "2")) in
  (delay, desc)
let eval toks =
  let c = parse_case toks in
  let voff = voff_of c in
  let (delay, desc) = params c in
  match wtos_of c with
  | None -> "MODEL-ERROR wto"
  | Some wtos ->
    let entries = cg_entries c.prog in
    if opt c "an" "td" = "td" then begin
      if opt c "thr" "0" <> "0" then "UNMODELLED"
      else if opt c "rec" "0" = "1" then begin
        (* analyze_recursive_functions = true: Ana/InterTDRec.v (theorems of Props/Properties_C09_rec.v) *)
        match cg_recset c.prog with
        | None -> "MODEL-ERROR cg-wto"
        | Some rs ->
          let maxc = (match opt c "mcc" "inf" with "inf" -> None | s -> Some (nat_of_int (int_of_string s))) in
          let exact = opt c "exact" "1" = "1" in
          let cgw = Array.init c.nf (fun e -> lazy (cg_wto c.prog (nat_of_int e))) in
          let cgwto e = let i = int_of_nat e in if i < c.nf then Lazy.force cgw.(i) else [] in
          let wset = cg_wset c.prog in
          (* rec_run_checked = rec_run when the side conditions of theorem C09_rec_model_sound hold *)
          if not (rec_cfg_okb c.prog wtos cgwto wset rs entries) then "MODEL-ERROR side-conditions"
          else
          let g = rec_run_checked c.prog voff maxc exact delay desc efuel (nat_of_int 60) wtos cgwto wset rs
              (nat_of_int (c.nf + 2)) entries c.init in
          if g.r_g.g_err then "MODEL-ERROR out-of-fuel"
          else dump c g.r_g.g_pre g.r_g.g_post (g_summaries c.prog g.r_g)
      end
      else match cg_recset c.prog with
        | None -> "MODEL-ERROR cg-wto"
        | Some rs ->
          let maxc = (match opt c "mcc" "inf" with "inf" -> None | s -> Some (nat_of_int (int_of_string s))) in
          let exact = opt c "exact" "1" = "1" in
          let g = td_run c.prog voff maxc exact delay desc efuel wtos rs (nat_of_int (c.nf + 2)) entries c.init in
          if g.g_err then "MODEL-ERROR out-of-fuel"
          else begin
            let sums = g_summaries c.prog g in
            let out = dump c g.g_pre g.g_post sums in
            (* joined calling contexts are not summaries (known finding): the model's result is
               validated only when no bound on the calling contexts is given *)
            if maxc <> None || td_validate c.prog voff entries c.init g.g_pre g.g_post sums delay desc efuel wtos then out
            else out ^ " MODEL-NOT-VALIDATED"
          end
    end else begin
      if opt c "budom" "itv" <> "itv" then "UNMODELLED"
      else if opt c "bumodel" "dag" = "rec" then begin
        (* any call graph, recursive components included: Ana/InterBURec.v (theorems of
           Props/Properties_C10_rec.v); the error flag is raised by fuel exhaustion only *)
        let r = bur_run c.prog voff delay desc efuel wtos c.init in
        if r.b_err then "MODEL-ERROR out-of-fuel"
        else dump c r.b_pre r.b_post (bu_summaries c.prog r.b_sum)
      end
      else
        let r = bu_run c.prog voff delay desc efuel wtos c.init in
        if r.b_err then "UNMODELLED"
        else begin
          let sums = bu_summaries c.prog r.b_sum in
          let out = dump c r.b_pre r.b_post sums in
          if bu_validate c.prog voff entries c.init r.b_pre r.b_post sums delay desc efuel wtos then out
          else out ^ " MODEL-NOT-VALIDATED"
        end
    end
(* the implementation's answer: tables and summaries *)
let parse_answer c answer =
  match Str.bounded_split_delim (Str.regexp_string " @") answer 2 with
  | [t; s] ->
    let fparts = Str.split (Str.regexp_string " # ") t in
    if List.length fparts <> c.nf then None else begin
      let tabs = Array.of_list (List.map (fun fp ->
          let fp = String.trim fp in
          let sp = String.index fp ' ' in
          let rows = Str.split (Str.regexp_string " ; ") (String.sub fp (sp + 1) (String.length fp - sp - 1)) in
          Array.of_list (List.map (fun r ->
              let r = String.trim r in
              match Str.bounded_split (Str.regexp_string " post=") (String.sub r 4 (String.length r - 4)) 2 with
              | [a; b] -> (state_of_string a, state_of_string b)
              | _ -> failwith "bad row") rows)) fparts) in
      let s = String.trim s in
      let sums = if s = "" then [] else
          List.map (fun x ->
              let x = String.trim x in
              let sp = String.index x ' ' in
              let f = int_of_string (String.sub x 1 (sp - 1)) in
              match Str.bounded_split (Str.regexp_string " => ") (String.sub x (sp + 1) (String.length x - sp - 1)) 2 with
              | [a; b] -> { s_fn = nat_of_int f; s_pre = state_of_string a; s_post = state_of_string b }
              | _ -> failwith "bad summary") (Str.split (Str.regexp_string " ; ") s) in
      Some (tabs, sums)
    end
  | _ -> None
let validate toks answer =
  let c = parse_case toks in
  let voff = voff_of c in
  let (delay, desc) = params c in
  if opt c "an" "td" = "bu" && opt c "budom" "itv" <> "itv" then "skip"
  else match wtos_of c, parse_answer c answer with
    | None, _ -> "MODEL-ERROR wto"
    | _, None -> "unparsable"
    | Some wtos, Some (tabs, sums) ->
      let get sel f b =
        let f = int_of_nat f and b = int_of_nat b in
        if f < Array.length tabs && b < Array.length tabs.(f) then sel tabs.(f).(b) else EBot in
      let entries = cg_entries c.prog in
      let ok =
        if opt c "an" "td" = "td" then
          (* two certificates are tried: one context per summary (and per entry), or the reported
             context-insensitive tables themselves as the only context of each function *)
          td_validate c.prog voff entries c.init (get fst) (get snd) sums delay desc efuel wtos
          || bu_validate c.prog voff entries c.init (get fst) (get snd) sums delay desc efuel wtos
        else bu_validate c.prog voff entries c.init (get fst) (get snd) sums delay desc efuel wtos in
      if ok then "ok" else "FAIL"
(* diagnostic: which condition of the checker fails (not used by the checks) *)
let explain toks answer =
  let c = parse_case toks in
  let voff = voff_of c in
  let (delay, desc) = params c in
  match wtos_of c, parse_answer c answer with
  | Some wtos, Some (tabs, sums) ->
    let get sel f b =
      let f = int_of_nat f and b = int_of_nat b in
      if f < Array.length tabs && b < Array.length tabs.(f) then sel tabs.(f).(b) else EBot in
    let entries = cg_entries c.prog in
    let mk = mk_cert c.prog voff sums delay desc efuel wtos in
    let scerts = List.map (fun sm -> (sm, mk sm.s_fn sm.s_pre)) sums in
    let td = opt c "an" "td" = "td" in
    let rcerts = if td then List.map (fun f -> mk f c.init) entries @ List.map snd scerts
      else List.init c.nf (fun f -> let f = nat_of_int f in { ct_fn = f; ct_pre = get fst f (nat_of_int 0); ct_tpre = get fst f; ct_tpost = get snd f }) in
    let b = Buffer.create 100 in
    Buffer.add_string b (Printf.sprintf "wf=%b" (iprog_wfb c.prog voff));
    List.iteri (fun i (sm, ct) ->
        Buffer.add_string b (Printf.sprintf " S%d(f%d):cert=%b,summ=%b" i (int_of_nat sm.s_fn) (cert_ok c.prog voff sums None ct) (summ_ok c.prog sm ct))) scerts;
    List.iteri (fun i ct ->
        let f = int_of_nat ct.ct_fn in
        let bad = List.filter (fun n -> let n' = nat_of_int n in
                                not (e_leq (ct.ct_tpre n') (get fst ct.ct_fn n') && e_leq (ct.ct_tpost n') (get snd ct.ct_fn n')))
            (List.init c.nbs.(f) (fun n -> n)) in
        let badblk = List.filter (fun n -> let n' = nat_of_int n in
                                   match chk_block c.prog voff sums (Some rcerts) (List.nth (get_fn c.prog ct.ct_fn).f_blocks n) (ct.ct_tpre n') with
                                   | Some e' -> not (e_leq e' (ct.ct_tpost n'))
                                   | None -> true) (List.init c.nbs.(f) (fun n -> n)) in
        Buffer.add_string b (Printf.sprintf " R%d(f%d):cert=%b,notincl=[%s],badblocks=[%s]" i f (cert_ok c.prog voff sums (Some rcerts) ct)
                               (String.concat "," (List.map string_of_int bad)) (String.concat "," (List.map string_of_int badblk)))) rcerts;
    Buffer.contents b
  | _ -> "unparsable"
let () =
  let args = Array.to_list Sys.argv in
  let file = List.nth args (List.length args - 1) in
  let lines = read_lines file in
  let vmode = List.mem "--validate" args in
  List.iteri (fun i l ->
      let r = try
          if vmode then begin
            match Str.bounded_split (Str.regexp_string " ### ") l 2 with
            | [c; a] -> if List.mem "--explain" args then explain (split_ws c) a else validate (split_ws c) a
            | _ -> "unparsable"
          end else eval (split_ws l)
        with Failure m -> "MODEL-ERROR " ^ m | Not_found -> "MODEL-ERROR notfound" | Invalid_argument m -> "MODEL-ERROR " ^ m in
      print_string ("R " ^ string_of_int i ^ " " ^ r ^ "\n")) lines
