(* graphdom_drv: runs operation histories (format of harness/domhist.hpp, optionally prefixed
   by "P <bits>", which the specification ignores: the closure parameters must not change
   any answer) on the extracted specification-level models of property C12:
     --mode=zones | zones-safe | sparse | lift-bool-zones | lift-smash-zones |
            lift-prod-itv-zones | lift-prod-zones-itv        -> Dom/Zone.v
     --mode=oct                                               -> Dom/Oct.v
     --mode=itv | lift-bool-itv | lift-smash-itv              -> Dom/ItvDomain.v *)
open Graphdom_model
open Zio
let n_of_int i = n_of_zarith (ZA.of_int i)
type tk = { t : string array; mutable p : int }
let next k = let s = k.t.(k.p) in k.p <- k.p + 1; s
let nexti k = int_of_string (next k)
let nextz k = z_of_string (next k)
let nextv k = n_of_int (nexti k)
let parse_exp k =
  ignore (next k);
  let n = nexti k in
  let terms = List.init n (fun _ -> let c = nextz k in let v = nextv k in (c, v)) in
  let c = nextz k in
  { le_terms = terms; le_cst = c }
let parse_cst k =
  ignore (next k);
  let kind = match next k with "eq" -> EQ | "ne" -> DISEQ | "le" -> INEQ | _ -> STRICT in
  let e = parse_exp k in
  { lc_kind = kind; lc_exp = e }
let split_ops toks =
  let rec go cur acc = function
    | [] -> List.rev (List.rev cur :: acc)
    | ";" :: r -> go [] (List.rev cur :: acc) r
    | x :: r -> go (x :: cur) acc r in
  go [] [] toks

(* ---- a domain as seen by the driver *)
type 'a dom = {
  top : 'a;
  step_assume : 'a list -> int -> lincst list -> 'a list;
  step_assign : 'a list -> int -> n -> linexp -> 'a list;
  step_forget : 'a list -> int -> n list -> 'a list;
  step_join : 'a list -> int -> int -> int -> 'a list;
  step_meet : 'a list -> int -> int -> int -> 'a list;
  step_top : 'a list -> int -> 'a list;
  step_bot : 'a list -> int -> 'a list;
  step_copy : 'a list -> int -> int -> 'a list;
  get : 'a list -> int -> 'a;
  leq : 'a -> 'a -> bool;
  entails : lincst -> 'a -> bool;
  show : int -> 'a -> string;
}

let string_of_lo = function None -> "-oo" | Some z -> string_of_z z
let string_of_hi = function None -> "+oo" | Some z -> string_of_z z

let graph_dom (d : zone gdom) is_bot is_top lower upper leq entails inlang : zone dom =
  let st rs o = gstep d rs o in
  let nat = nat_of_int in
  { top = d.g_top;
    step_assume = (fun rs r cs ->
        List.iter (fun c -> if not (inlang c) then failwith "constraint outside the language") cs;
        st rs (GAssume (nat r, cs)));
    step_assign = (fun rs r x e -> st rs (GAssign (nat r, x, e)));
    step_forget = (fun rs r vs -> st rs (GForget (nat r, vs)));
    step_join = (fun rs r s t -> st rs (GJoin (nat r, nat s, nat t)));
    step_meet = (fun rs r s t -> st rs (GMeet (nat r, nat s, nat t)));
    step_top = (fun rs r -> st rs (GTop (nat r)));
    step_bot = (fun rs r -> st rs (GBot (nat r)));
    step_copy = (fun rs r s -> st rs (GCopy (nat r, nat s)));
    get = (fun rs r -> gget d rs (nat r));
    leq = leq;
    entails = (fun c z -> if not (inlang c) then failwith "query outside the language" else entails c z);
    show = (fun nv z ->
        if is_bot z then "_|_" else
          (if is_top z then "T" else "") ^
          String.concat "|" (List.init (nv + 2) (fun i ->
              if i >= nv then "[-oo, +oo]"
              else "[" ^ string_of_lo (lower z (n_of_int i)) ^ ", " ^ string_of_hi (upper z (n_of_int i)) ^ "]"))) }

let zones nv : zone dom =
  let n = nat_of_int (nv + 1) in
  graph_dom (zone_dom n) z_is_bot (z_is_top n) z_lower z_upper (z_leq n) z_entails z_inlang
let octs nv : zone dom =
  let n = nat_of_int (2 * nv) in
  graph_dom (oct_dom n) z_is_bot (o_is_top n) o_lower o_upper (o_leq n) o_entails o_inlang

let string_of_bound = function MInf -> "-oo" | PInf -> "+oo" | Fin z -> string_of_z z
let string_of_itv i =
  if is_bot i then "_|_" else "[" ^ string_of_bound i.lb ^ ", " ^ string_of_bound i.ub ^ "]"
let itvs : env dom =
  let nat = nat_of_int in
  { top = e_top;
    step_assume = (fun rs r cs -> hstep rs (HAssume (nat r, cs)));
    step_assign = (fun rs r x e -> hstep rs (HAssign (nat r, x, e)));
    step_forget = (fun rs r vs -> hstep rs (HForget (nat r, vs)));
    step_join = (fun rs r s t -> hstep rs (HJoin (nat r, nat s, nat t)));
    step_meet = (fun rs r s t -> hstep rs (HMeet (nat r, nat s, nat t)));
    step_top = (fun rs r -> hstep rs (HTop (nat r)));
    step_bot = (fun rs r -> hstep rs (HBot (nat r)));
    step_copy = (fun rs r s -> hstep rs (HCopy (nat r, nat s)));
    get = (fun rs r -> rget rs (nat r));
    leq = e_leq;
    entails = d_entails;
    show = (fun nv e ->
        if e_is_bot e then "_|_" else
          (if e_is_top e then "T" else "") ^
          String.concat "|" (List.init (nv + 2) (fun i -> string_of_itv (e_at e (n_of_int i))))) }

let run_history (type a) (mk : int -> a dom) toks =
  let toks = match toks with "P" :: _ :: r -> r | _ -> toks in
  match split_ops toks with
  | ("hist" :: nregs :: nv :: _) :: ops ->
    let nregs = int_of_string nregs and nv = int_of_string nv in
    let d = mk nv in
    let regs = ref (List.init nregs (fun _ -> d.top)) in
    let out = ref [] in
    let emit s = out := s :: !out in
    List.iter (fun op -> if op <> [] then begin
      let k = { t = Array.of_list op; p = 0 } in
      let o = next k in
      match o with
      | "q_leq" -> let s = nexti k in let t = nexti k in
        emit (if d.leq (d.get !regs s) (d.get !regs t) then "true" else "false")
      | "q_entails" -> let r = nexti k in let c = parse_cst k in
        emit (if d.entails c (d.get !regs r) then "true" else "false")
      | "q_at" | "normalize" | "minimize" -> let r = nexti k in emit (d.show nv (d.get !regs r))
      | _ ->
        let r = nexti k in
        (match o with
         | "top" -> regs := d.step_top !regs r
         | "bot" -> regs := d.step_bot !regs r
         | "copy" -> let s = nexti k in regs := d.step_copy !regs r s
         | "assign" -> let x = nextv k in let e = parse_exp k in regs := d.step_assign !regs r x e
         | "assume" -> let n = nexti k in
           let cs = List.init n (fun _ -> parse_cst k) in regs := d.step_assume !regs r cs
         | "forget" -> let n = nexti k in
           let vs = List.init n (fun _ -> nextv k) in regs := d.step_forget !regs r vs
         | "join" -> let s = nexti k in let t = nexti k in regs := d.step_join !regs r s t
         | "meet" -> let s = nexti k in let t = nexti k in regs := d.step_meet !regs r s t
         | _ -> failwith ("operation outside the specification: " ^ o));
        emit (d.show nv (d.get !regs r))
    end) ops;
    String.concat " ; " (List.rev !out)
  | _ -> failwith "bad history"

let () =
  let mode = ref "zones" in
  Array.iter (fun a ->
      if String.length a > 7 && String.sub a 0 7 = "--mode=" then mode := String.sub a 7 (String.length a - 7))
    Sys.argv;
  let lines = read_lines Sys.argv.(Array.length Sys.argv - 1) in
  let run toks = match !mode with
    | "oct" -> run_history octs toks
    | "itv" | "lift-bool-itv" | "lift-smash-itv" -> run_history (fun _ -> itvs) toks
    | _ -> run_history zones toks in
  List.iteri (fun i l ->
      let r = try run (split_ws l) with Failure m -> "MODEL-ERROR " ^ m in
      print_string ("R " ^ string_of_int i ^ " " ^ r ^ "\n")) lines
