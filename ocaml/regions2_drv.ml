(* regions2_drv: runs region-program histories on the extracted RegionCore2 model.
   Same case format as harness/regions.cpp; output = the extended printing of --mode=itvx.
   argv: [--mode=itvx] <case file> *)
open Regions2_model
open Zio
let n_of_int i = n_of_zarith (ZA.of_int i)
let int_of_n n = ZA.to_int (zarith_of_n n)
let string_of_bound = function MInf -> "-oo" | PInf -> "+oo" | Fin z -> string_of_z z
let string_of_itv i =
  if is_bot i then "_|_" else "[" ^ string_of_bound i.lb ^ ", " ^ string_of_bound i.ub ^ "]"
type tk = { t : string array; mutable p : int }
let next k = let s = k.t.(k.p) in k.p <- k.p + 1; s
let nexti k = int_of_string (next k)
let nextz k = z_of_string (next k)

(* variable numbering: i*, b*, p*, R*, Q*, U* in this order, starting at 1; then the ghost names in
   the order in which harness/regions.cpp creates them (ctx::init) *)
type ctx = { ni : int; nb : int; np : int; nR : int; nQ : int; nU : int;
             shadow : (int * string, int) Hashtbl.t; role : (int, string) Hashtbl.t; mutable nextid : int }
let nvars c = c.ni + c.nb + c.np + c.nR + c.nQ + c.nU
let index c name =
  let k = int_of_string (String.sub name 1 (String.length name - 1)) in
  match name.[0] with
  | 'i' -> 1 + k | 'b' -> 1 + c.ni + k | 'p' -> 1 + c.ni + c.nb + k
  | 'R' -> 1 + c.ni + c.nb + c.np + k | 'Q' -> 1 + c.ni + c.nb + c.np + c.nR + k
  | 'U' -> 1 + c.ni + c.nb + c.np + c.nR + c.nQ + k
  | _ -> failwith ("unmodelled variable " ^ name)
let var c name = n_of_int (index c name)
let name_of c i =
  let i = i - 1 in
  if i < c.ni then "i" ^ string_of_int i
  else if i < c.ni + c.nb then "b" ^ string_of_int (i - c.ni)
  else if i < c.ni + c.nb + c.np then "p" ^ string_of_int (i - c.ni - c.nb)
  else if i < c.ni + c.nb + c.np + c.nR then "R" ^ string_of_int (i - c.ni - c.nb - c.np)
  else if i < c.ni + c.nb + c.np + c.nR + c.nQ then "Q" ^ string_of_int (i - c.ni - c.nb - c.np - c.nR)
  else "U" ^ string_of_int (i - c.ni - c.nb - c.np - c.nR - c.nQ)
let kind_of c i =
  let i = i - 1 in
  if i < c.ni then VInt
  else if i < c.ni + c.nb then VBool
  else if i < c.ni + c.nb + c.np then VRef
  else if i < c.ni + c.nb + c.np + c.nR then VRgnInt
  else if i < c.ni + c.nb + c.np + c.nR + c.nQ then VRgnRef
  else if i < nvars c then VRgnUnk
  else VInt
let is_ref name = name.[0] = 'p'
(* variable_factory::get(var, suffix) *)
let shadow c v role =
  match Hashtbl.find_opt c.shadow (v, role) with
  | Some i -> i
  | None -> let i = c.nextid in c.nextid <- i + 1; Hashtbl.replace c.shadow (v, role) i; Hashtbl.replace c.role i role; i
let names pre n = List.init n (fun i -> pre ^ string_of_int i)
let mk_ctx ni nb np nR nQ nU =
  let c = { ni; nb; np; nR; nQ; nU; shadow = Hashtbl.create 64; role = Hashtbl.create 64; nextid = 0 } in
  c.nextid <- nvars c + 1;
  let roles = [".address"; ".offset"; ".size"] in
  List.iter (fun n -> List.iter (fun r -> ignore (shadow c (index c n) r)) roles) (names "p" np @ names "Q" nQ @ names "U" nU);
  List.iter (fun n ->
      let v = index c n in
      ignore (shadow c v ".dup");
      List.iter (fun r -> let g = shadow c v r in ignore (shadow c g (r ^ ".dup"))) roles)
    (names "R" nR @ names "Q" nQ @ names "U" nU);
  c
let dup_of c g =
  match Hashtbl.find_opt c.role g with
  | Some r when r = ".address" || r = ".offset" || r = ".size" -> shadow c g (r ^ ".dup")
  | _ -> shadow c g ".dup"

(* canonical linear expression: terms sorted by variable index, merged, no zero coefficient *)
let canon (terms : (ZA.t * int) list) (k : ZA.t) =
  let tbl = Hashtbl.create 8 in
  List.iter (fun (c, v) -> Hashtbl.replace tbl v (ZA.add c (try Hashtbl.find tbl v with Not_found -> ZA.zero))) terms;
  let l = Hashtbl.fold (fun v c acc -> if ZA.sign c = 0 then acc else (v, c) :: acc) tbl [] in
  let l = List.sort compare l in
  { le_terms = List.map (fun (v, c) -> (z_of_zarith c, n_of_int v)) l; le_cst = z_of_zarith k }
let parse_exp_raw c k =
  ignore (next k);
  let n = nexti k in
  let terms = List.init n (fun _ -> let co = ZA.of_string (next k) in let v = index c (next k) in (co, v)) in
  let cst = ZA.of_string (next k) in
  (terms, cst)
let parse_exp c k = let (t, cst) = parse_exp_raw c k in canon t cst
let parse_cst c k =
  ignore (next k);
  let kind = match next k with "eq" -> EQ | "ne" -> DISEQ | "le" -> INEQ | _ -> STRICT in
  { lc_kind = kind; lc_exp = parse_exp c k }
let rel_of = function "eq" -> REq | "ne" -> RNe | "le" -> RLe | "lt" -> RLt | "ge" -> RGe | _ -> RGt
let neg_rel = function "eq" -> "ne" | "ne" -> "eq" | "le" -> "gt" | "lt" -> "ge" | "ge" -> "lt" | _ -> "le"

let show_set = function
  | None -> "?"
  | Some l ->
    let l = List.sort_uniq ZA.compare (List.map zarith_of_z l) in
    "{" ^ String.concat "," (List.map ZA.to_string l) ^ "}"
let show_info c ((cnt, ini), ty) =
  let nm v = name_of c (ZA.to_int (zarith_of_z v)) in
  (match cnt with
   | RBot -> "bot" | RZero -> "0" | ROne v -> "1:" ^ nm v | RZeroOrOne v -> "01:" ^ nm v
   | RZeroOrMore -> "0+" | ROneOrMore -> "1+")
  ^ (match ini with BBot -> ",ib" | BFalse -> ",if" | BTrue -> ",it" | BTop -> ",i?")
  ^ (match ty with TyBot -> ",tb" | TyTop -> ",t?" | Ty TUnk -> ",tu" | Ty TInt -> ",ti" | Ty TRef -> ",tr")
let show_null = function BBot -> "nb" | BTrue -> "nt" | BFalse -> "nf" | BTop -> "n?"

let split_ops toks =
  let rec go cur acc = function
    | [] -> List.rev (List.rev cur :: acc)
    | ";" :: r -> go [] (List.rev cur :: acc) r
    | x :: r -> go (x :: cur) acc r in
  go [] [] toks
exception Abort
let run_history toks =
  match split_ops toks with
  | ("rg" :: ps :: nregs :: ni :: nb :: np :: nR :: nQ :: nU :: _) :: ops ->
    let c = mk_ctx (int_of_string ni) (int_of_string nb) (int_of_string np) (int_of_string nR) (int_of_string nQ) (int_of_string nU) in
    let nregs = int_of_string nregs in
    let deref = ps.[3] = '1' in
    let prm = { q_alloc = ps.[0] = '1'; q_tags = ps.[2] = '1'; q_deref = deref; q_skip = ps.[4] = '1' } in
    let rgn_names = names "R" c.nR @ names "Q" c.nQ @ names "U" c.nU in
    let sh r = fun v -> n_of_int (shadow c (int_of_n v) r) in
    let conf = { k_params = prm; k_kind = (fun v -> kind_of c (int_of_n v));
                 k_adr = sh ".address"; k_off = sh ".offset"; k_siz = sh ".size";
                 k_dup = (fun g -> n_of_int (dup_of c (int_of_n g)));
                 k_univ = List.map (var c) rgn_names } in
    (* the ghost variables of a reference as the manager names them *)
    let gaddr p = if deref then shadow c p ".address" else p in
    let goff p = shadow c p ".offset" in
    let gsiz p = shadow c p ".size" in
    (* the constraints built by ghosting_ref_cst_to_linear_cst (see linear_constraints.hpp) *)
    let rcst neg k =
      let ar = next k in let rel = next k in
      let rel = if neg then neg_rel rel else rel in
      if ar = "u" then begin
        let p = index c (next k) in
        let e = match rel with
          | "ge" | "gt" -> canon [(ZA.minus_one, gaddr p)] ZA.zero       (* n - x *)
          | _ -> canon [(ZA.one, gaddr p)] ZA.zero in                    (* x - n *)
        (RUn (rel_of rel, n_of_int p), e, e, e)
      end else begin
        let p = index c (next k) in let q = index c (next k) in let off = ZA.of_string (next k) in
        let mk x y o = match rel with
          | "le" | "lt" -> canon [(ZA.one, x); (ZA.minus_one, y)] (ZA.neg o)   (* x - e *)
          | _ -> canon [(ZA.one, y); (ZA.minus_one, x)] o in                   (* e - x *)
        (RBin (rel_of rel, n_of_int p, n_of_int q, z_of_zarith off),
         mk (gaddr p) (gaddr q) off, mk (goff p) (goff q) off, mk (gsiz p) (gsiz q) ZA.zero)
      end in
    let parse_size c k =
      let s = next k in
      let body = String.sub s 2 (String.length s - 2) in
      if s.[0] = 'v' then `V (index c body) else `C (ZA.of_string body) in
    let regs = ref (List.init nregs (fun _ -> Some s_top)) in
    let out = ref [] in
    let emit s = out := s :: !out in
    let show_state v =
      match v with
      | None -> "_|_"
      | Some _ ->
        let at n = string_of_itv (o_at conf v (var c n)) in
        let os n = match o_offsize conf v (var c n) with
          | Some (o, z) when deref -> ";o" ^ string_of_itv o ^ ";s" ^ string_of_itv z
          | _ -> "" in
        let raw n =
          if deref && n.[0] = 'U' then
            let i = index c n in
            ";raw" ^ String.concat "," (List.map (fun g -> string_of_itv (o_raw v (n_of_int g)))
                                          [i; shadow c i ".address"; shadow c i ".offset"; shadow c i ".size"])
          else "" in
        "I:" ^ String.concat "|" (List.map at (names "i" c.ni))
        ^ " B:" ^ String.concat "|" (List.map at (names "b" c.nb))
        ^ " P:" ^ String.concat "|" (List.map (fun n -> at n ^ ";" ^ show_null (o_null conf v (var c n)) ^ ";" ^ show_set (o_sites v (var c n)) ^ os n) (names "p" c.np))
        ^ " G:" ^ String.concat "|" (List.map (fun n -> at n ^ ";" ^ show_info c (o_info v (var c n)) ^ ";" ^ show_set (o_sites v (var c n)) ^ ";" ^ show_set (o_tags v (var c n)) ^ os n ^ raw n)
                                       rgn_names) in
    (try
      List.iter (fun op -> if op <> [] then begin
        let k = { t = Array.of_list op; p = 0 } in
        let o = next k in
        let r = nexti k in
        let rn = nat_of_int r in
        let nat () = nat_of_int (nexti k) in
        let v () = var c (next k) in
        if o = "q_state" then emit (show_state (wget !regs rn))
        else if o = "q_deref" then begin
          let p = index c (next k) in
          let e = match parse_size c k with
            | `C n -> canon [(ZA.one, gsiz p); (ZA.minus_one, goff p)] (ZA.neg n)
            | `V x -> canon [(ZA.one, gsiz p); (ZA.minus_one, goff p); (ZA.minus_one, x)] ZA.zero in
          emit (match o_deref conf (wget !regs rn) (n_of_int p) e with
              | None -> "_|_"
              | Some _ when not deref -> "off"
              | Some None -> "?"
              | Some (Some true) -> "true"
              | Some (Some false) -> "false")
        end else begin
        let rop = match o with
          | "top" -> PTop rn | "bot" -> PBot rn
          | "copy" -> PCopy (rn, nat ())
          | "init" -> PInit (rn, v ())
          | "mk" -> let p = v () in let g = v () in let site = nextz k in
            let sz = (match parse_size c k with `C n -> OCst (z_of_zarith n) | `V x -> OVar (n_of_int x)) in
            PMk (rn, p, g, site, sz)
          | "free" -> let g = v () in let p = v () in PFree (rn, g, p)
          | "ld" -> let x = v () in let p = v () in let g = v () in PLd (rn, x, p, g)
          | "st" -> let p = v () in let g = v () in
            let s = next k in
            let sv = if s = "null" then SNull
              else if s.[0] = 'v' then (let n = String.sub s 2 (String.length s - 2) in SVar (var c n, is_ref n))
              else SCst (z_of_string (String.sub s 2 (String.length s - 2))) in
            PSt (rn, p, g, sv)
          | "gep" -> let p2 = v () in let g2 = v () in let p1n = next k in let g1 = v () in
            let (t, cst) = parse_exp_raw c k in
            let p1 = index c p1n in
            PGep (rn, p2, g2, n_of_int p1, g1, canon t cst, canon ((ZA.one, gaddr p1) :: t) cst, canon ((ZA.one, goff p1) :: t) cst)
          | "rcopy" -> let l = v () in let g = v () in PRcopy (rn, l, g)
          | "rcast" -> let s = v () in let d = v () in PRcast (rn, s, d)
          | "assume_ref" -> let (rc, ea, eo, ez) = rcst false k in PAssumeRef (rn, rc, ea, eo, ez)
          | "assume_nref" -> let (rc, ea, eo, ez) = rcst true k in PAssumeRef (rn, rc, ea, eo, ez)
          | "nonnull" -> let p = index c (next k) in
            let e = canon [(ZA.minus_one, gaddr p)] ZA.zero in PAssumeRef (rn, RUn (RGt, n_of_int p), e, e, e)
          | "selref" -> let pn = next k in let g = v () in let _b = next k in
            let arm () = let a = next k in let g = next k in if a = "null" then None else Some (var c a, var c g) in
            let a1 = arm () in let a2 = arm () in
            let garm q _ = let q = int_of_n q in (canon [(ZA.one, gaddr q)] ZA.zero, canon [(ZA.one, goff q)] ZA.zero) in
            PSelRef (rn, var c pn, g, a1, a2, canon [(ZA.one, gaddr (index c pn))] ZA.zero, garm)
          | "r2i" -> let _g = v () in let p = v () in let x = v () in PR2i (rn, p, x)
          | "i2r" -> let x = v () in let g = v () in let p = v () in PI2r (rn, x, g, p)
          | "tag" -> let g = v () in let _p = next k in PTag (rn, g, nextz k)
          | "isderef" -> let b = v () in PIsDeref (rn, b)
          | "assign" -> let x = v () in PAssign (rn, x, parse_exp c k)
          | "arith" ->
            let op = (match next k with "add" -> OpAdd | "sub" -> OpSub | "mul" -> OpMul
                                      | s -> failwith ("unmodelled arithmetic operator " ^ s)) in
            let x = v () in let y = v () in
            let z = (match next k with "v" -> OVar (v ()) | _ -> OCst (nextz k)) in
            PArith (rn, op, x, y, z)
          | "assume" -> let n = nexti k in PAssume (rn, List.init n (fun _ -> parse_cst c k))
          | "havoc" -> PHavoc (rn, v ())
          | "forget" -> let n = nexti k in PForget (rn, List.init n (fun _ -> v ()))
          | "project" -> let n = nexti k in PProject (rn, List.init n (fun _ -> v ()))
          | "join" | "joinip" -> let s = nat () in let t = nat () in PJoin (rn, s, t)
          | "meet" -> let s = nat () in let t = nat () in PMeet (rn, s, t)
          | "widen" -> let s = nat () in let t = nat () in PWiden (rn, s, t)
          | "narrow" -> let s = nat () in let t = nat () in PNarrow (rn, s, t)
          | _ -> failwith ("unmodelled op " ^ o) in
        (match pstep conf !regs rop with
         | None -> raise Abort
         | Some rs -> regs := rs);
        emit (show_state (wget !regs rn)) end
      end) ops;
      String.concat " ; " (List.rev !out)
    with Abort -> "ABORT")
  | _ -> failwith "bad history"
let () =
  let lines = read_lines Sys.argv.(Array.length Sys.argv - 1) in
  List.iteri (fun i l ->
      let r = try run_history (split_ws l) with Failure m -> "MODEL-ERROR " ^ m | Not_found -> "MODEL-ERROR not_found" in
      print_string ("R " ^ string_of_int i ^ " " ^ r ^ "\n")) lines
