(* scalars2_drv: evaluates the extracted scalars2 models on a case file.
   line:  <dom> <op> <A> [<B>]   dom = cg | sg | ct | bv | sr | ic | di
   (operand syntax: see harness/scalars2.cpp);  output: R <i> <answer> *)
open Scalars2_model
open Zio
let sb b = if b then "true" else "false"
let split_on c s = String.split_on_char c s

let bound_of_string s = match s with "-oo" -> MInf | "+oo" -> PInf | _ -> Fin (z_of_string s)
let itv_of_string s =
  if s = "bot" then ibot else
  match String.index_opt s ':' with
  | Some k -> imk (bound_of_string (String.sub s 0 k))
                (bound_of_string (String.sub s (k+1) (String.length s - k - 1)))
  | None -> failwith ("bad interval " ^ s)
let string_of_bound = function MInf -> "-oo" | PInf -> "+oo" | Fin z -> string_of_z z
let string_of_itv i =
  if is_bot i then "_|_" else "[" ^ string_of_bound i.lb ^ ", " ^ string_of_bound i.ub ^ "]"

(* ---- congruences: a:b is built as top * a + b, like the harness does *)
let cg_of_string s =
  match s with
  | "bot" -> cg_bot | "top" -> cg_top
  | _ ->
    match split_on ':' s with
    | [n] -> cg_const (z_of_string n)
    | [a; b] -> cg_add (cg_mul cg_top (cg_const (z_of_string a))) (cg_const (z_of_string b))
    | _ -> failwith ("bad congruence " ^ s)
let string_of_cg c =
  if c.cbot then "_|_"
  else if c.ca = Z0 then string_of_z c.cb
  else string_of_z c.ca ^ "Z+" ^ string_of_z c.cb
let string_of_zopt = function None -> "none" | Some z -> string_of_z z

let eval_cg = function
  | [op; a] ->
    let a = cg_of_string a in
    (match op with
     | "neg" -> string_of_cg (cg_neg a)
     | "isbot" -> sb (cg_is_bot a) | "istop" -> sb (cg_is_top a)
     | "singleton" -> string_of_zopt (cg_singleton a)
     | "repr" -> string_of_z a.ca ^ " " ^ string_of_z a.cb
     | _ -> failwith ("unknown op " ^ op))
  | [op; a; b] ->
    let a = cg_of_string a and b = cg_of_string b in
    (match op with
     | "add" -> string_of_cg (cg_add a b) | "sub" -> string_of_cg (cg_sub a b)
     | "mul" -> string_of_cg (cg_mul a b)
     | "div" | "sdiv" -> string_of_cg (cg_div a b)
     | "rem" | "srem" -> string_of_cg (cg_rem a b)
     | "udiv" -> string_of_cg (cg_udiv a b) | "urem" -> string_of_cg (cg_urem a b)
     | "and" -> string_of_cg (cg_and a b) | "or" -> string_of_cg (cg_or a b)
     | "xor" -> string_of_cg (cg_xor a b) | "shl" -> string_of_cg (cg_shl a b)
     | "ashr" -> string_of_cg (cg_ashr a b) | "lshr" -> string_of_cg (cg_lshr a b)
     | "join" -> string_of_cg (cg_join a b) | "meet" -> string_of_cg (cg_meet a b)
     | "widen" -> string_of_cg (cg_widen a b) | "narrow" -> string_of_cg (cg_narrow a b)
     | "leq" -> sb (cg_leq a b) | "eq" -> sb (cg_eq a b) | "neq" -> sb (not (cg_eq a b))
     | _ -> failwith ("unknown op " ^ op))
  | _ -> failwith "bad line"

(* ---- signs *)
let sg_of_string = function
  | "bot" -> SBot | "top" -> STop | "ltz" -> SLtz | "gtz" -> SGtz | "eqz" -> SEqz
  | "nez" -> SNez | "gez" -> SGez | "lez" -> SLez
  | s -> sg_const (z_of_string s)
let string_of_sg = function
  | SBot -> "_|_" | SLtz -> "[-oo,-1]" | SGtz -> "[1,+oo]" | SEqz -> "[0,0]"
  | SNez -> "[-oo,-1] U [1,+oo]" | SGez -> "[0,+oo]" | SLez -> "[-oo,0]" | STop -> "[-oo,+oo]"
let eval_sg = function
  | ["fromitv"; i] -> string_of_sg (sg_from_itv (itv_of_string i))
  | [op; a] ->
    let a = sg_of_string a in
    (match op with
     | "id" -> string_of_sg a
     | "isbot" -> sb (sg_is_bot a) | "istop" -> sb (sg_is_top a)
     | "toitv" -> string_of_itv (sg_to_itv a)
     | _ -> failwith ("unknown op " ^ op))
  | [op; a; b] ->
    let a = sg_of_string a and b = sg_of_string b in
    (match op with
     | "add" -> string_of_sg (sg_add a b) | "sub" -> string_of_sg (sg_sub a b)
     | "mul" -> string_of_sg (sg_mul a b) | "div" -> string_of_sg (sg_div a b)
     | "udiv" | "srem" | "urem" -> string_of_sg (sg_default a b)
     | "and" -> string_of_sg (sg_and a b) | "or" -> string_of_sg (sg_or a b)
     | "xor" -> string_of_sg (sg_xor a b)
     | "shl" | "lshr" | "ashr" -> string_of_sg (sg_shift a b)
     | "join" -> string_of_sg (sg_join a b) | "meet" -> string_of_sg (sg_meet a b)
     | "leq" -> sb (sg_leq a b) | "eq" -> sb (sg_eq a b)
     | _ -> failwith ("unknown op " ^ op))
  | _ -> failwith "bad line"

(* ---- constants *)
let ct_of_string = function "bot" -> CBot | "top" -> CTop | s -> CVal (z_of_string s)
let string_of_ct = function CBot -> "_|_" | CTop -> "top" | CVal n -> string_of_z n
let eval_ct = function
  | [op; a] ->
    let a = ct_of_string a in
    (match op with
     | "isbot" -> sb (ct_is_bot a) | "istop" -> sb (ct_is_top a) | "isconst" -> sb (ct_is_const a)
     | _ -> failwith ("unknown op " ^ op))
  | [op; a; b] ->
    let a = ct_of_string a and b = ct_of_string b in
    (match op with
     | "add" -> string_of_ct (ct_add a b) | "sub" -> string_of_ct (ct_sub a b)
     | "mul" -> string_of_ct (ct_mul a b) | "sdiv" -> string_of_ct (ct_sdiv a b)
     | "srem" -> string_of_ct (ct_srem a b) | "udiv" -> string_of_ct (ct_udiv a b)
     | "urem" -> string_of_ct (ct_urem a b)
     | "and" -> string_of_ct (ct_and a b) | "or" -> string_of_ct (ct_or a b)
     | "xor" -> string_of_ct (ct_xor a b) | "shl" -> string_of_ct (ct_shl a b)
     | "lshr" -> string_of_ct (ct_lshr a b) | "ashr" -> string_of_ct (ct_ashr a b)
     | "join" -> string_of_ct (ct_join a b) | "meet" -> string_of_ct (ct_meet a b)
     | "widen" -> string_of_ct (ct_widen a b) | "narrow" -> string_of_ct (ct_narrow a b)
     | "leq" -> sb (ct_leq a b) | "eq" -> sb (ct_eq a b)
     | _ -> failwith ("unknown op " ^ op))
  | _ -> failwith "bad line"

(* ---- three-valued booleans *)
let bv_of_string = function "bot" -> BBot | "true" -> BTrue | "false" -> BFalse | _ -> BTop
let string_of_bv = function BBot -> "_|_" | BTop -> "*" | BTrue -> "true" | BFalse -> "false"
let eval_bv = function
  | [op; a] ->
    let a = bv_of_string a in
    (match op with
     | "neg" -> string_of_bv (bv_negate a)
     | "isbot" -> sb (bv_is_bot a) | "istop" -> sb (bv_is_top a)
     | "istrue" -> sb (bv_is_true a) | "isfalse" -> sb (bv_is_false a)
     | _ -> failwith ("unknown op " ^ op))
  | [op; a; b] ->
    let a = bv_of_string a and b = bv_of_string b in
    (match op with
     | "and" -> string_of_bv (bv_and a b) | "or" -> string_of_bv (bv_or a b)
     | "xor" -> string_of_bv (bv_xor a b)
     | "join" -> string_of_bv (bv_join a b) | "meet" -> string_of_bv (bv_meet a b)
     | "widen" -> string_of_bv (bv_widen a b) | "narrow" -> string_of_bv (bv_narrow a b)
     | "leq" -> sb (bv_leq a b) | "eq" -> sb (bv_eq a b)
     | _ -> failwith ("unknown op " ^ op))
  | _ -> failwith "bad line"

(* ---- small ranges: 1(V) = zero.increment(V), [0,1](V) = 0 | 1(V), like the harness *)
let sr_of_string s =
  match s with
  | "bot" -> RBot | "top" -> RZeroOrMore | "zero" -> RZero | "oom" -> ROneOrMore
  | _ ->
    match split_on ':' s with
    | ["one"; v] -> sr_incr RZero (z_of_string v)
    | ["zoo"; v] -> sr_join RZero (sr_incr RZero (z_of_string v))
    | _ -> failwith ("bad small range " ^ s)
let string_of_sr = function
  | RBot -> "_|_" | RZero -> "[0,0]" | ROne v -> "[1,1](" ^ string_of_z v ^ ")"
  | RZeroOrOne v -> "[0,1](" ^ string_of_z v ^ ")" | RZeroOrMore -> "[0,+oo]"
  | ROneOrMore -> "[1,+oo]"
let eval_sr = function
  | [op; a] ->
    let a = sr_of_string a in
    (match op with
     | "id" -> string_of_sr a
     | "isbot" -> sb (sr_is_bot a) | "istop" -> sb (sr_is_top a)
     | "iszero" -> sb (sr_is_zero a) | "isone" -> sb (sr_is_one a)
     | _ -> failwith ("unknown op " ^ op))
  | ["incr"; a; v] -> string_of_sr (sr_incr (sr_of_string a) (z_of_string v))
  | [op; a; b] ->
    let a = sr_of_string a and b = sr_of_string b in
    (match op with
     | "join" -> string_of_sr (sr_join a b) | "meet" -> string_of_sr (sr_meet a b)
     | "widen" -> string_of_sr (sr_widen a b) | "narrow" -> string_of_sr (sr_narrow a b)
     | "leq" -> sb (sr_leq a b) | "eq" -> sb (sr_eq a b)
     | _ -> failwith ("unknown op " ^ op))
  | _ -> failwith "bad line"

(* ---- interval x congruence:  <itv>/<cg> *)
let ic_of_string s =
  match split_on '/' s with
  | [i; c] -> ic_reduce (itv_of_string i) (cg_of_string c)
  | _ -> failwith ("bad interval-congruence " ^ s)
let string_of_ic p = "(" ^ string_of_itv p.ifst ^ ", " ^ string_of_cg p.isnd ^ ")"
let eval_ic = function
  | [op; a] ->
    let a = ic_of_string a in
    (match op with
     | "id" -> string_of_ic a
     | "isbot" -> sb (ic_is_bot a) | "istop" -> sb (ic_is_top a)
     | "trunc" | "zext" | "sext" -> string_of_ic (ic_cast a)
     | _ -> failwith ("unknown op " ^ op))
  | [op; a; b] ->
    let a = ic_of_string a and b = ic_of_string b in
    (match op with
     | "add" -> string_of_ic (ic_add a b) | "sub" -> string_of_ic (ic_sub a b)
     | "mul" -> string_of_ic (ic_mul a b)
     | "div" | "sdiv" -> string_of_ic (ic_div a b)
     | "udiv" -> string_of_ic (ic_udiv a b) | "srem" -> string_of_ic (ic_srem a b)
     | "urem" -> string_of_ic (ic_urem a b)
     | "and" -> string_of_ic (ic_and a b) | "or" -> string_of_ic (ic_or a b)
     | "xor" -> string_of_ic (ic_xor a b) | "shl" -> string_of_ic (ic_shl a b)
     | "lshr" -> string_of_ic (ic_lshr a b) | "ashr" -> string_of_ic (ic_ashr a b)
     | "join" -> string_of_ic (ic_join a b) | "meet" -> string_of_ic (ic_meet a b)
     | _ -> failwith ("unknown op " ^ op))
  | _ -> failwith "bad line"

(* ---- disjunctive intervals: l1:u1,l2:u2,... = join of the intervals, like the harness *)
let di_of_string s =
  match s with
  | "bot" -> DBot | "top" -> DTop
  | _ -> List.fold_left (fun r p -> di_join r (di_of_itv (itv_of_string p))) DBot (split_on ',' s)
let string_of_di = function
  | DBot -> "_|_" | DTop -> "[-oo,+oo]"
  | DFin l -> String.concat " | " (List.map string_of_itv l)
let eval_di = function
  | [op; a] ->
    let a = di_of_string a in
    (match op with
     | "id" -> string_of_di a
     | "isbot" -> sb (di_is_bot a) | "istop" -> sb (di_is_top a)
     | "approx" -> string_of_itv (di_approx a)
     | "neg" -> string_of_di (di_neg a)
     | "lower" -> string_of_di (di_lower_half a) | "upper" -> string_of_di (di_upper_half a)
     | "singleton" -> string_of_zopt (di_singleton a)
     | _ -> failwith ("unknown op " ^ op))
  | [op; a; b] ->
    let a = di_of_string a and b = di_of_string b in
    (match op with
     | "add" -> string_of_di (di_add a b) | "sub" -> string_of_di (di_sub a b)
     | "mul" -> string_of_di (di_mul a b) | "div" -> string_of_di (di_div a b)
     | "udiv" -> string_of_di (di_udiv a b) | "srem" -> string_of_di (di_srem a b)
     | "urem" -> string_of_di (di_urem a b)
     | "and" -> string_of_di (di_and a b) | "or" -> string_of_di (di_or a b)
     | "xor" -> string_of_di (di_xor a b) | "shl" -> string_of_di (di_shl a b)
     | "lshr" -> string_of_di (di_lshr a b) | "ashr" -> string_of_di (di_ashr a b)
     | "join" -> string_of_di (di_join a b) | "meet" -> string_of_di (di_meet a b)
     | "widen" -> string_of_di (di_widen a b) | "narrow" -> string_of_di (di_narrow a b)
     | "trim" -> string_of_di (di_trim a b)
     | "leq" -> sb (di_leq a b) | "eq" -> sb (di_eq a b)
     | _ -> failwith ("unknown op " ^ op))
  | _ -> failwith "bad line"

let eval = function
  | "di" :: r -> eval_di r
  | "cg" :: r -> eval_cg r | "sg" :: r -> eval_sg r | "ct" :: r -> eval_ct r
  | "bv" :: r -> eval_bv r | "sr" :: r -> eval_sr r | "ic" :: r -> eval_ic r
  | _ -> failwith "unknown domain"
let () =
  let lines = read_lines Sys.argv.(1) in
  List.iteri (fun i l ->
      let r = try eval (split_ws l) with Failure m -> "MODEL-ERROR " ^ m in
      print_string ("R " ^ string_of_int i ^ " " ^ r ^ "\n")) lines
