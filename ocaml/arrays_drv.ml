(* arrays_drv: runs array histories on the extracted model of array_smashing<interval_domain>
   (mode smash-itv) and the cell-algebra unit stream on ArrayAdaptCore (lines starting with
   "cells").  Same case format and output as harness/arrays.cpp. *)
open Arrays_model
open Zio
let n_of_int i = n_of_zarith (ZA.of_int i)
let int_of_n n = ZA.to_int (zarith_of_n n)
let string_of_bound = function MInf -> "-oo" | PInf -> "+oo" | Fin z -> string_of_z z
let string_of_itv i =
  if is_bot i then "_|_" else "[" ^ string_of_bound i.lb ^ ", " ^ string_of_bound i.ub ^ "]"
type tk = { t : string array; mutable p : int }
let next k = let s = k.t.(k.p) in k.p <- k.p + 1; s
let nexti k = int_of_string (next k)
let nextz k = z_of_string (next k)
(* program scalar i is base-domain variable 3i (ArraySmash.sv) in the smashing model and
   6i (ArrayAdapt.pv) in the adaptive one *)
let svar_ref = ref (fun i -> sv (n_of_int i))
let svar i = !svar_ref i
let parse_exp k =
  ignore (next k);
  let n = nexti k in
  let terms = List.init n (fun _ -> let c = nextz k in let v = svar (nexti k) in (c, v)) in
  let c = nextz k in
  { le_terms = terms; le_cst = c }
let parse_cst k =
  ignore (next k);
  let kind = match next k with "eq" -> EQ | "ne" -> DISEQ | "le" -> INEQ | _ -> STRICT in
  let e = parse_exp k in
  { lc_kind = kind; lc_exp = e }
let show_state ns s =
  if s_is_bottom s then "_|_" else
    (if s_is_top s then "T" else "") ^
    String.concat "|" (List.init ns (fun i -> string_of_itv (s_at s (svar i))))
let split_ops toks =
  let rec go cur acc = function
    | [] -> List.rev (List.rev cur :: acc)
    | ";" :: r -> go [] (List.rev cur :: acc) r
    | x :: r -> go (x :: cur) acc r in
  go [] [] toks
exception Crab_error
(* one operation of a history (after its name [o] and its register [rn]); [arrkey] maps the
   index of an array to its identifier in the model *)
let parse_hop ns arrkey k o rn =
  let avar i = if i < ns then VS (svar i) else VA (arrkey (i - ns)) in
  let nat () = nat_of_int (nexti k) in
  let arr () = arrkey (nexti k) in
  let operand () = match next k with "v" -> OVar (svar (nexti k)) | _ -> OCst (nextz k) in
  match o with
  | "top" -> ATop rn | "bot" -> ABot rn
  | "copy" -> ACopy (rn, nat ())
  | "assign" -> let x = svar (nexti k) in AAssign (rn, x, parse_exp k)
  | "arith" ->
    let op = (match next k with "add" -> OpAdd | "sub" -> OpSub | "mul" -> OpMul | "sdiv" -> OpSDiv
                              | "udiv" -> OpUDiv | "srem" -> OpSRem | _ -> OpURem) in
    let x = svar (nexti k) in let y = svar (nexti k) in AArith (rn, op, x, y, operand ())
  | "assume" -> let n = nexti k in AAssume (rn, List.init n (fun _ -> parse_cst k))
  | "forget" -> let n = nexti k in AForget (rn, List.init n (fun _ -> avar (nexti k)))
  | "forget1" -> AForget1 (rn, avar (nexti k))
  | "project" -> let n = nexti k in AProject (rn, List.init n (fun _ -> avar (nexti k)))
  | "rename" -> let n = nexti k in
    let f = List.init n (fun _ -> avar (nexti k)) in let t = List.init n (fun _ -> avar (nexti k)) in ARename (rn, f, t)
  | "expand" -> let x = avar (nexti k) in let nx = avar (nexti k) in AExpand (rn, x, nx)
  | "ainit" -> let a = arr () in let es = parse_exp k in let lb = parse_exp k in let ub = parse_exp k in
    let v = parse_exp k in AInit (rn, a, es, lb, ub, v)
  | "aload" -> let x = svar (nexti k) in let a = arr () in let es = parse_exp k in let ix = parse_exp k in
    ALoad (rn, x, a, es, ix)
  | "astore" -> let a = arr () in let es = parse_exp k in let ix = parse_exp k in let v = parse_exp k in
    let strong = nexti k <> 0 in AStore (rn, a, es, ix, v, strong)
  | "arange" -> let a = arr () in let es = parse_exp k in let lb = parse_exp k in let ub = parse_exp k in
    let v = parse_exp k in ARange (rn, a, es, lb, ub, v)
  | "acopy" -> let l = arr () in let rr = arr () in ACopyArr (rn, l, rr)
  | "join" | "joinw" -> let s = nat () in let t = nat () in AJoin (rn, s, t)
  | "meet" | "meetw" -> let s = nat () in let t = nat () in AMeet (rn, s, t)
  | "widen" -> let s = nat () in let t = nat () in AWiden (rn, s, t)
  | "narrow" -> let s = nat () in let t = nat () in ANarrow (rn, s, t)
  | "widenthr" -> let s = nat () in let t = nat () in let n = nexti k in
    AWidenThr (rn, s, t, List.init n (fun _ -> nextz k))
  | _ -> failwith ("unknown op " ^ o)
let run_history toks =
  svar_ref := (fun i -> sv (n_of_int i));
  match split_ops toks with
  | (_ :: nregs :: ns :: _ :: _) :: ops ->
    let nregs = int_of_string nregs and ns = int_of_string ns in
    let regs = ref (List.init nregs (fun _ -> s_top)) in
    let out = ref [] in
    let emit s = out := s :: !out in
    let rg r = aget !regs (nat_of_int r) in
    (try
    List.iter (fun op -> if op <> [] then begin
      let k = { t = Array.of_list op; p = 0 } in
      let o = next k in
      match o with
      | "q_leq" -> let s = nexti k in let t = nexti k in emit (if s_leq (rg s) (rg t) then "true" else "false")
      | "q_at" -> let r = nexti k in emit (show_state ns (rg r))
      | _ ->
        let r = nexti k in
        let hop = parse_hop ns n_of_int k o (nat_of_int r) in
        (match astep !regs hop with
         | Some rs -> regs := rs
         | None -> raise Crab_error);
        emit (show_state ns (rg r))
    end) ops;
    String.concat " ; " (List.rev !out)
    with Crab_error -> "ABORT")
  | _ -> failwith "bad history"
(* ---- array_adaptive_domain<interval_domain> (ArrayAdapt): --mode=adapt-itv:S:N:C:M ----
   array i of the history is the variable with index ns + 1 + i of the harness (scalars
   first): the key of its binding in the array map *)
let adapt_params : params option ref = ref None
let show_cell_a c = string_of_z c.c_off ^ ":" ^ string_of_z c.c_size ^ (if c.c_rem then "R" else "")
let show_adapt ns na arrkey with_shape d =
  if a_is_bottom d then "_|_" else
    (if a_is_top d then "T" else "") ^
    String.concat "|" (List.init ns (fun i -> string_of_itv (a_at d (svar i)))) ^
    (if not with_shape then "" else
       " #" ^ String.concat "" (List.init na (fun i ->
         " A" ^ string_of_int i ^ "=" ^
         (match am_find d.d_arrs (arrkey i) with
          | None -> "none"
          | Some st ->
            if st.as_smashed then "S" ^ (match st.as_esz with None -> "+oo" | Some k -> string_of_z k)
            else "{" ^ String.concat "," (List.map (fun c ->
                   show_cell_a c ^ (if gh_hasc d.d_gh (arrkey i) c then "" else "u")) st.as_map) ^ "}"))))
let run_adapt_history p toks =
  svar_ref := (fun i -> pv (n_of_int i));
  match split_ops toks with
  | (head :: nregs :: ns :: na :: _) :: ops ->
    let nregs = int_of_string nregs and ns = int_of_string ns and na = int_of_string na in
    let with_shape = head = "ashape" in
    let arrkey i = n_of_int (ns + 1 + i) in
    let regs = ref (List.init nregs (fun _ -> a_top)) in
    let out = ref [] in
    let emit s = out := s :: !out in
    let rg r = dget !regs (nat_of_int r) in
    (* an array access at a constant negative offset: offset_t wraps it to a huge unsigned
       number, which is outside the modelled fragment; the answer is marked *)
    let neg = ref false in
    let chk r e =
      let d = rg r in
      if not (a_is_bottom d) then
        (match isingleton (d_eval e d.d_base.a_base) with
         | Some n -> if ZA.sign (zarith_of_z n) < 0 then neg := true
         | None -> ()) in
    (try
    List.iter (fun op -> if op <> [] then begin
      let k = { t = Array.of_list op; p = 0 } in
      let o = next k in
      match o with
      | "q_leq" -> let s = nexti k in let t = nexti k in emit (if a_leq (rg s) (rg t) then "true" else "false")
      | "q_at" -> let r = nexti k in emit (show_adapt ns na arrkey false (rg r))
      | _ ->
        let r = nexti k in
        let hop = parse_hop ns arrkey k o (nat_of_int r) in
        (match hop with
         | ALoad (_, _, _, _, ix) | AStore (_, _, _, ix, _, _) -> chk r ix
         | AInit (_, _, _, lb, ub, _) | ARange (_, _, _, lb, ub, _) -> chk r lb; chk r ub
         | _ -> ());
        (match dstep p !regs hop with
         | Some rs -> regs := rs
         | None -> raise Crab_error);
        emit (show_adapt ns na arrkey with_shape (rg r))
    end) ops;
    (if !neg then "NEGATIVE-OFFSET " else "") ^ String.concat " ; " (List.rev !out)
    with Crab_error -> "ABORT")
  | _ -> failwith "bad history"
(* ---- cell-algebra unit stream (ArrayAdaptCore) ---- *)
let show_cell c = string_of_z c.c_off ^ ":" ^ string_of_z c.c_size ^ (if c.c_rem then "R" else "")
let cmp_cell a b =
  let c = ZA.compare (zarith_of_z a.c_off) (zarith_of_z b.c_off) in
  if c <> 0 then c else ZA.compare (zarith_of_z a.c_size) (zarith_of_z b.c_size)
let show_cells sorted cs =
  let cs = if sorted then List.sort cmp_cell cs else cs in
  "{" ^ String.concat "," (List.map show_cell cs) ^ "}"
let iv = n_of_int 0
let dom_of lo hi =
  let d = ref e_top in
  if lo <> "-oo" then d := d_add [{ lc_kind = INEQ; lc_exp = { le_terms = [(z_of_string "-1", iv)]; le_cst = z_of_string lo } }] !d;
  if hi <> "+oo" then d := d_add [{ lc_kind = INEQ; lc_exp = { le_terms = [(z_of_string "1", iv)]; le_cst = z_of_zarith (ZA.neg (ZA.of_string hi)) } }] !d;
  !d
let sym_bounds sz =
  ({ le_terms = [(z_of_string "1", iv)]; le_cst = z_of_string "0" },
   { le_terms = [(z_of_string "1", iv)]; le_cst = z_of_zarith (ZA.pred (ZA.of_string sz)) })
let rec take n l = if n <= 0 then [] else match l with [] -> [] | h :: t -> h :: take (n - 1) t
let run_cells toks =
  let m = [| []; [] |] in
  let out = ref [] in
  let emit s = out := s :: !out in
  let esz_of s = if s = "T" then None else Some (z_of_string s) in
  let show_esz = function None -> "+oo" | Some k -> string_of_z k in
  (match split_ops toks with
   | _ :: ops ->
     List.iter (fun op -> if op <> [] then begin
       let k = { t = Array.of_list op; p = 0 } in
       match next k with
       | "clear" -> let w = nexti k in m.(w) <- []; emit "{}"
       | "mk" -> let w = nexti k in let o = nextz k in let sz = nextz k in
         let (c, m') = om_mk m.(w) o sz in m.(w) <- m'; emit (show_cell c)
       | "erase" -> let w = nexti k in let o = nextz k in let sz = nextz k in
         m.(w) <- om_erase { c_off = o; c_size = sz; c_rem = false } m.(w); emit (show_cells false m.(w))
       | "remove" -> let w = nexti k in let o = nextz k in let sz = nextz k in
         m.(w) <- om_remove { c_off = o; c_size = sz; c_rem = false } m.(w); emit (show_cells false m.(w))
       | "all" -> let w = nexti k in emit (show_cells false m.(w))
       | "ncells" -> let w = nexti k in emit (string_of_int (List.length m.(w)))
       | "ov" -> let w = nexti k in let o = nextz k in let sz = nextz k in
         emit (show_cells true (om_get_overlap m.(w) o sz) ^ "/" ^ show_cells false m.(w))
       | "covl" -> let co = nextz k in let cs = nextz k in let rem = nexti k <> 0 in
         let o = nextz k in let sz = nextz k in
         emit (if c_overlap { c_off = co; c_size = cs; c_rem = rem } o sz then "true" else "false")
       | "sym" -> let w = nexti k in let lo = next k in let hi = next k in let sz = next k in
         let (slb, sub) = sym_bounds sz in
         emit (show_cells true (om_get_overlap_sym m.(w) slb sub (dom_of lo hi)))
       | "csym" -> let co = nextz k in let cs = nextz k in let rem = nexti k <> 0 in
         let lo = next k in let hi = next k in let sz = next k in
         let (slb, sub) = sym_bounds sz in
         emit (if c_sym_overlap { c_off = co; c_size = cs; c_rem = rem } slb sub (dom_of lo hi) then "true" else "false")
       | "join" -> let w = nexti k in let s = nexti k in let t = nexti k in
         m.(w) <- om_join m.(s) m.(t); emit (show_cells false m.(w))
       | "meet" -> let w = nexti k in let s = nexti k in let t = nexti k in
         m.(w) <- om_meet m.(s) m.(t); emit (show_cells false m.(w))
       | "leq" -> let s = nexti k in let t = nexti k in emit (if om_leq m.(s) m.(t) then "true" else "false")
       | "smash" -> let w = nexti k in let esz = nextz k in let nz = nexti k <> 0 in
         emit (if can_be_smashed m.(w) esz nz then "true" else "false")
       | "cover" -> let w = nexti k in let lo = next k in let hi = next k in let esz = nextz k in
         let b s = if s = "-oo" then MInf else if s = "+oo" then PInf else Fin (z_of_string s) in
         emit (if covers_all_offsets m.(w) { lb = b lo; ub = b hi } esz then "true" else "false")
       | ("dstore" | "dload") as o ->
         let w = nexti k in
         let s = nexti k <> 0 in let n = nexti k <> 0 in let c = nextz k in let mm = nextz k in
         let p = { p_smashable = s; p_nonzero = n; p_max_smash = c; p_max_size = mm } in
         let sm = nexti k <> 0 in let es = esz_of (next k) in
         let lo = next k in let hi = next k in let eszs = next k in let esz = z_of_string eszs in
         let dom = dom_of lo hi in
         let st = { as_smashed = sm; as_esz = es; as_map = m.(w) } in
         let st' =
           if e_is_bot dom then st
           else begin
             let idx = e_at dom iv in
             let (slb, sub) = sym_bounds eszs in
             if o = "dstore" then store_shape p st (store_decide p st idx slb sub dom esz) esz
             else load_shape st (load_decide p st idx slb sub dom esz) esz
           end in
         emit (if st'.as_smashed then "S" ^ show_esz st'.as_esz else show_cells false st'.as_map)
       | ("asjoin" | "asmeet") as o ->
         let n = nexti k <> 0 in let c = nextz k in let mm = nextz k in
         let p = { p_smashable = true; p_nonzero = n; p_max_smash = c; p_max_size = mm } in
         let sx = nexti k <> 0 in let ex = esz_of (next k) in let sy = nexti k <> 0 in let ey = esz_of (next k) in
         let n0 = nexti k in let n1 = nexti k in
         let gh l c = List.exists (fun d -> cell_eqb c d) l in
         let g0 = gh (take n0 m.(0)) and g1 = gh (take n1 m.(1)) in
         let x = { as_smashed = sx; as_esz = ex; as_map = m.(0) } and y = { as_smashed = sy; as_esz = ey; as_map = m.(1) } in
         let r = if o = "asjoin" then Some (as_join p g0 g1 x y) else as_meet p g0 g1 x y in
         (match r with
          | Some r -> emit ((if r.as_smashed then "S" else "N") ^ show_esz r.as_esz ^ show_cells false r.as_map)
          | None -> raise Crab_error)
       | o -> failwith ("unknown cells op " ^ o)
     end) ops
   | [] -> ());
  String.concat " ; " (List.rev !out)
let () =
  Array.iter (fun a ->
      match String.split_on_char ':' a with
      | ["--mode=adapt-itv"; s; n; c; m] ->
        adapt_params := Some { p_smashable = s = "1"; p_nonzero = n = "1";
                               p_max_smash = z_of_string c; p_max_size = z_of_string m }
      | _ -> ()) Sys.argv;
  let lines = read_lines Sys.argv.(Array.length Sys.argv - 1) in
  List.iteri (fun i l ->
      let toks = split_ws l in
      let r = try (match toks, !adapt_params with
                   | "cells" :: _, _ -> run_cells toks
                   | _, Some p -> run_adapt_history p toks
                   | _, None -> run_history toks)
        with Failure m -> "MODEL-ERROR " ^ m | Crab_error -> "ABORT" in
      print_string ("R " ^ string_of_int i ^ " " ^ r ^ "\n")) lines
