(* arrays_drv: runs array histories on the extracted model of array_smashing<interval_domain>
   (mode smash-itv) and the cell-algebra unit stream on ArrayAdaptCore (lines starting with
   "cells").  Same case format and output as harness/arrays.cpp. *)
open Arrays_model
open Zio
let n_of_int i = n_of_zarith (ZA.of_int i)
let int_of_n n = ZA.to_int (zarith_of_n n)
let string_of_bound = function MInf -> "-oo" | PInf -> "+oo" | Fin z -> string_of_z z
let string_of_itv i =
  if is_bot i then "_|_" else "[" ^ string_of_bound i.lb ^ ", " ^ string_of_bound i.ub ^ "]"
type tk = { t : string array; mutable p : int }
let next k = let s = k.t.(k.p) in k.p <- k.p + 1; s
let nexti k = int_of_string (next k)
let nextz k = z_of_string (next k)
(* program scalar i is base-domain variable 3i (ArraySmash.sv) *)
let svar i = sv (n_of_int i)
let parse_exp k =
  ignore (next k);
  let n = nexti k in
  let terms = List.init n (fun _ -> let c = nextz k in let v = svar (nexti k) in (c, v)) in
  let c = nextz k in
  { le_terms = terms; le_cst = c }
let parse_cst k =
  ignore (next k);
  let kind = match next k with "eq" -> EQ | "ne" -> DISEQ | "le" -> INEQ | _ -> STRICT in
  let e = parse_exp k in
  { lc_kind = kind; lc_exp = e }
let show_state ns s =
  if s_is_bottom s then "_|_" else
    (if s_is_top s then "T" else "") ^
    String.concat "|" (List.init ns (fun i -> string_of_itv (s_at s (svar i))))
let split_ops toks =
  let rec go cur acc = function
    | [] -> List.rev (List.rev cur :: acc)
    | ";" :: r -> go [] (List.rev cur :: acc) r
    | x :: r -> go (x :: cur) acc r in
  go [] [] toks
exception Crab_error
let run_history toks =
  match split_ops toks with
  | (_ :: nregs :: ns :: _ :: _) :: ops ->
    let nregs = int_of_string nregs and ns = int_of_string ns in
    let regs = ref (List.init nregs (fun _ -> s_top)) in
    let out = ref [] in
    let emit s = out := s :: !out in
    let rg r = aget !regs (nat_of_int r) in
    let avar i = if i < ns then VS (svar i) else VA (n_of_int (i - ns)) in
    (try
    List.iter (fun op -> if op <> [] then begin
      let k = { t = Array.of_list op; p = 0 } in
      let o = next k in
      match o with
      | "q_leq" -> let s = nexti k in let t = nexti k in emit (if s_leq (rg s) (rg t) then "true" else "false")
      | "q_at" -> let r = nexti k in emit (show_state ns (rg r))
      | _ ->
        let r = nexti k in
        let rn = nat_of_int r in
        let nat () = nat_of_int (nexti k) in
        let arr () = n_of_int (nexti k) in
        let operand () = match next k with "v" -> OVar (svar (nexti k)) | _ -> OCst (nextz k) in
        let hop = match o with
          | "top" -> ATop rn | "bot" -> ABot rn
          | "copy" -> ACopy (rn, nat ())
          | "assign" -> let x = svar (nexti k) in AAssign (rn, x, parse_exp k)
          | "arith" ->
            let op = (match next k with "add" -> OpAdd | "sub" -> OpSub | "mul" -> OpMul | "sdiv" -> OpSDiv
                                      | "udiv" -> OpUDiv | "srem" -> OpSRem | _ -> OpURem) in
            let x = svar (nexti k) in let y = svar (nexti k) in AArith (rn, op, x, y, operand ())
          | "assume" -> let n = nexti k in AAssume (rn, List.init n (fun _ -> parse_cst k))
          | "forget" -> let n = nexti k in AForget (rn, List.init n (fun _ -> avar (nexti k)))
          | "forget1" -> AForget1 (rn, avar (nexti k))
          | "project" -> let n = nexti k in AProject (rn, List.init n (fun _ -> avar (nexti k)))
          | "rename" -> let n = nexti k in
            let f = List.init n (fun _ -> avar (nexti k)) in let t = List.init n (fun _ -> avar (nexti k)) in ARename (rn, f, t)
          | "expand" -> let x = avar (nexti k) in let nx = avar (nexti k) in AExpand (rn, x, nx)
          | "ainit" -> let a = arr () in let es = parse_exp k in let lb = parse_exp k in let ub = parse_exp k in
            let v = parse_exp k in AInit (rn, a, es, lb, ub, v)
          | "aload" -> let x = svar (nexti k) in let a = arr () in let es = parse_exp k in let ix = parse_exp k in
            ALoad (rn, x, a, es, ix)
          | "astore" -> let a = arr () in let es = parse_exp k in let ix = parse_exp k in let v = parse_exp k in
            let strong = nexti k <> 0 in AStore (rn, a, es, ix, v, strong)
          | "arange" -> let a = arr () in let es = parse_exp k in let lb = parse_exp k in let ub = parse_exp k in
            let v = parse_exp k in ARange (rn, a, es, lb, ub, v)
          | "acopy" -> let l = arr () in let rr = arr () in ACopyArr (rn, l, rr)
          | "join" | "joinw" -> let s = nat () in let t = nat () in AJoin (rn, s, t)
          | "meet" | "meetw" -> let s = nat () in let t = nat () in AMeet (rn, s, t)
          | "widen" -> let s = nat () in let t = nat () in AWiden (rn, s, t)
          | "narrow" -> let s = nat () in let t = nat () in ANarrow (rn, s, t)
          | "widenthr" -> let s = nat () in let t = nat () in let n = nexti k in
            AWidenThr (rn, s, t, List.init n (fun _ -> nextz k))
          | _ -> failwith ("unknown op " ^ o) in
        (match astep !regs hop with
         | Some rs -> regs := rs
         | None -> raise Crab_error);
        emit (show_state ns (rg r))
    end) ops;
    String.concat " ; " (List.rev !out)
    with Crab_error -> "ABORT")
  | _ -> failwith "bad history"
let () =
  let lines = read_lines Sys.argv.(Array.length Sys.argv - 1) in
  List.iteri (fun i l ->
      let toks = split_ws l in
      let r = try run_history toks
        with Failure m -> "MODEL-ERROR " ^ m in
      print_string ("R " ^ string_of_int i ^ " " ^ r ^ "\n")) lines
