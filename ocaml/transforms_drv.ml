(* transforms_drv: evaluates the extracted liveness / assertion-crawler / DCE / simplify /
   lower_safe_assertions models on textual CFG programs (format: harness/cfgtext.hpp plus the
   F and L sections of harness/transforms.cpp) and prints the same canonical answers as the
   C++ harness. *)
open Transforms_model
open Zio

let n_of_int i = n_of_zarith (ZA.of_int i)
let int_of_n x = ZA.to_int (zarith_of_n x)

(* ---------------------------------------------------------------- parsing *)
let split_on tok l =
  let rec go cur acc = function
    | [] -> List.rev (List.rev cur :: acc)
    | x :: r when x = tok -> go [] (List.rev cur :: acc) r
    | x :: r -> go (x :: cur) acc r in
  go [] [] l

type toks = { mutable t : string list }
let next k = match k.t with x :: r -> k.t <- r; x | [] -> failwith "parse"
let nexti k = int_of_string (next k)
let nextz k = z_of_string (next k)

(* canonical form of linear_expression: terms sorted by variable, equal variables merged,
   zero coefficients dropped *)
let norm_terms (ts : (ZA.t * int) list) =
  let ts = List.sort (fun (_, a) (_, b) -> compare a b) ts in
  let rec merge = function
    | (c1, v1) :: (c2, v2) :: r when v1 = v2 -> merge ((ZA.add c1 c2, v1) :: r)
    | x :: r -> x :: merge r
    | [] -> [] in
  List.filter (fun (c, _) -> not (ZA.equal c ZA.zero)) (merge ts)

let parse_exp k =
  ignore (next k);
  let n = nexti k in
  let ts = List.init n (fun _ -> let c = ZA.of_string (next k) in let v = nexti k in (c, v)) in
  let c = nextz k in
  { le_terms = List.map (fun (c, v) -> (z_of_zarith c, n_of_int v)) (norm_terms ts); le_cst = c }

let parse_cst k =
  ignore (next k);
  let kind = match next k with "eq" -> EQ | "ne" -> DISEQ | "le" -> INEQ | _ -> STRICT in
  let e = parse_exp k in
  { lc_kind = kind; lc_exp = e }

let arith_of = function
  | "add" -> OpAdd | "sub" -> OpSub | "mul" -> OpMul | "sdiv" -> OpSDiv | "udiv" -> OpUDiv
  | "srem" -> OpSRem | "urem" -> OpURem | _ -> failwith "arith"
let bit_of = function
  | "and" -> OpAnd | "or" -> OpOr | "xor" -> OpXor | "shl" -> OpShl | "lshr" -> OpLShr
  | "ashr" -> OpAShr | _ -> failwith "bit"

let parse_operand k =
  match next k with
  | "v" -> OVar (n_of_int (nexti k))
  | _ -> OCst (nextz k)

let parse_stmt toks =
  let k = { t = toks } in
  match next k with
  | "assign" -> let x = nexti k in let e = parse_exp k in SAssign (n_of_int x, e)
  | "arith" -> let o = arith_of (next k) in let x = nexti k in let y = nexti k in
    let z = parse_operand k in SArith (o, n_of_int x, n_of_int y, z)
  | "bit" -> let o = bit_of (next k) in let x = nexti k in let y = nexti k in
    let z = parse_operand k in SBit (o, n_of_int x, n_of_int y, z)
  | "assume" -> SAssume (parse_cst k)
  | "assert" -> let c = parse_cst k in let id = nexti k in SAssert (c, n_of_int id)
  | "havoc" -> SHavoc (n_of_int (nexti k))
  | "select" -> let x = nexti k in let c = parse_cst k in let e1 = parse_exp k in
    let e2 = parse_exp k in SSelect (n_of_int x, c, e1, e2)
  | "unreachable" -> SUnreach
  | s -> failwith ("stmt " ^ s)

type prog = { nblocks : int; nvars : int; opts : (string * string) list; cfg : cfg; lower_ids : n list }

let opt p k d = try List.assoc k p.opts with Not_found -> d

let parse_program toks =
  let secs = split_on "|" toks in
  match secs with
  | ("cfg" :: nb :: nv :: ex :: optl) :: rest ->
    let nb = int_of_string nb and nv = int_of_string nv and ex = int_of_string ex in
    let opts = List.filter_map (fun s -> match String.index_opt s '=' with
        | Some i -> Some (String.sub s 0 i, String.sub s (i + 1) (String.length s - i - 1))
        | None -> None) optl in
    let stmts = Array.make nb [] and prev = Array.make nb [] and nxt = Array.make nb [] in
    let outs = ref [] and lower = ref [] in
    List.iter (fun sec -> match sec with
        | "B" :: id :: body ->
          let id = int_of_string id in
          let ss = List.filter (fun l -> l <> []) (split_on ";" body) in
          stmts.(id) <- stmts.(id) @ List.map parse_stmt ss
        | "E" :: es ->
          let rec go = function
            | a :: b :: r ->
              let a = int_of_string a and b = int_of_string b in
              if not (List.mem b nxt.(a)) then nxt.(a) <- nxt.(a) @ [b];
              if not (List.mem a prev.(b)) then prev.(b) <- prev.(b) @ [a];
              go r
            | _ -> () in
          go es
        | "F" :: r ->
          let k = { t = r } in
          let nin = nexti k in
          for _ = 1 to nin do ignore (nexti k) done;
          let nout = nexti k in
          outs := List.init nout (fun _ -> n_of_int (nexti k))
        | "L" :: r -> lower := List.map (fun s -> n_of_int (int_of_string s)) r
        | _ -> ()) rest;
    let blocks = List.init nb (fun i ->
        (n_of_int i, { b_stmts = stmts.(i); b_prev = List.map n_of_int prev.(i);
                       b_next = List.map n_of_int nxt.(i) })) in
    let cfg = { c_entry = n_of_int 0; c_exit = (if ex >= 0 then Some (n_of_int ex) else None);
                c_blocks = blocks; c_outs = !outs } in
    { nblocks = nb; nvars = nv; opts; cfg; lower_ids = !lower }
  | _ -> failwith "bad line"

(* ---------------------------------------------------------------- printing *)
let show_set (s : n list) =
  let l = List.sort_uniq compare (List.map int_of_n s) in
  "{" ^ String.concat "," (List.map string_of_int l) ^ "}"

let show_exp (e : linexp) =
  "E " ^ string_of_int (List.length e.le_terms)
  ^ String.concat "" (List.map (fun (c, v) -> " " ^ string_of_z c ^ " " ^ string_of_int (int_of_n v)) e.le_terms)
  ^ " " ^ string_of_z e.le_cst
let show_cst (c : lincst) =
  "C " ^ (match c.lc_kind with EQ -> "eq" | DISEQ -> "ne" | INEQ -> "le" | STRICT -> "lt") ^ " " ^ show_exp c.lc_exp
let show_operand = function OVar v -> "v " ^ string_of_int (int_of_n v) | OCst k -> "k " ^ string_of_z k
let arith_name = function
  | OpAdd -> "add" | OpSub -> "sub" | OpMul -> "mul" | OpSDiv -> "sdiv" | OpUDiv -> "udiv"
  | OpSRem -> "srem" | OpURem -> "urem"
let bit_name = function
  | OpAnd -> "and" | OpOr -> "or" | OpXor -> "xor" | OpShl -> "shl" | OpLShr -> "lshr" | OpAShr -> "ashr"
let vi v = string_of_int (int_of_n v)
let show_stmt = function
  | SAssign (x, e) -> "assign " ^ vi x ^ " " ^ show_exp e
  | SArith (o, x, y, z) -> "arith " ^ arith_name o ^ " " ^ vi x ^ " " ^ vi y ^ " " ^ show_operand z
  | SBit (o, x, y, z) -> "bit " ^ bit_name o ^ " " ^ vi x ^ " " ^ vi y ^ " " ^ show_operand z
  | SAssume c -> "assume " ^ show_cst c
  | SAssert (c, id) -> "assert " ^ show_cst c ^ " " ^ vi id
  | SHavoc x -> "havoc " ^ vi x
  | SSelect (x, c, e1, e2) -> "select " ^ vi x ^ " " ^ show_cst c ^ " " ^ show_exp e1 ^ " " ^ show_exp e2
  | SUnreach -> "unreachable"

let show_cfg (g : cfg) =
  let bs = List.sort (fun (a, _) (b, _) -> compare (int_of_n a) (int_of_n b)) g.c_blocks in
  "entry=" ^ vi g.c_entry ^ " exit=" ^ (match g.c_exit with Some e -> vi e | None -> "-")
  ^ String.concat "" (List.map (fun (l, b) ->
      " | b" ^ vi l ^ ":"
      ^ (match b.b_stmts with [] -> "" | ss -> " " ^ String.concat " ; " (List.map show_stmt ss))
      ^ " ->" ^ (match b.b_next with [] -> "" | ls -> " " ^ String.concat "," (List.map vi ls))
      ^ " <-" ^ (match b.b_prev with [] -> "" | ls -> " " ^ String.concat "," (List.map vi ls))) bs)

let eval toks =
  let p = parse_program toks in
  let g = p.cfg in
  let blocks = List.init p.nblocks (fun i -> i) in
  match opt p "q" "live" with
  | "live" ->
    (match liveness g with
     | None -> "FUEL"
     | Some m ->
       String.concat " " (List.map (fun i ->
           let l = n_of_int i in
           "b" ^ string_of_int i ^ ":L" ^ show_set (live_get g m l) ^ "D" ^ show_set (dead_exit g m l)) blocks))
  | "crawl" ->
    (match crawler g (opt p "cd" "1" <> "0") (nat_of_int p.nvars) with
     | None -> "FUEL"
     | Some m ->
       String.concat " " (List.map (fun i ->
           let f = cin_of m (n_of_int i) in
           let f = List.sort (fun (a, _) (b, _) -> compare (int_of_n a) (int_of_n b)) f in
           "b" ^ string_of_int i ^ ":[" ^ String.concat ";" (List.map (fun (a, v) -> vi a ^ ":" ^ show_set v) f) ^ "]") blocks))
  | "dce" -> (match dce g with None -> "FUEL" | Some g' -> show_cfg g')
  | "simp" -> (match simplify g with None -> "ABORT" | Some g' -> show_cfg g')
  | "lower" -> show_cfg (lower p.lower_ids g)
  | "pipe" ->
    (match dce (lower p.lower_ids g) with
     | None -> "FUEL"
     | Some g1 -> (match simplify g1 with None -> "ABORT" | Some g2 -> show_cfg g2))
  | "echo" -> show_cfg g
  | _ -> "DRIVER-ERROR"

let () =
  let fn = Sys.argv.(Array.length Sys.argv - 1) in
  List.iteri (fun i l ->
      let r = try eval (split_ws l) with e -> "DRIVER-EXN " ^ Printexc.to_string e in
      Printf.printf "R %d %s\n" i r) (read_lines fn)
