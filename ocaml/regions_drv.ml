(* regions_drv: runs region-program histories on the extracted RegionCore model.
   Same case format and output as harness/regions.cpp (modelled operations only). *)
open Regions_model
open Zio
let n_of_int i = n_of_zarith (ZA.of_int i)
let int_of_n n = ZA.to_int (zarith_of_n n)
let string_of_bound = function MInf -> "-oo" | PInf -> "+oo" | Fin z -> string_of_z z
let string_of_itv i =
  if is_bot i then "_|_" else "[" ^ string_of_bound i.lb ^ ", " ^ string_of_bound i.ub ^ "]"
type tk = { t : string array; mutable p : int }
let next k = let s = k.t.(k.p) in k.p <- k.p + 1; s
let nexti k = int_of_string (next k)
let nextz k = z_of_string (next k)

(* variable numbering: i*, b*, p*, R*, Q* in this order, starting at 1 (as the harness creates them) *)
type ctx = { ni : int; nb : int; np : int; nR : int; nQ : int }
let index c name =
  let k = int_of_string (String.sub name 1 (String.length name - 1)) in
  match name.[0] with
  | 'i' -> 1 + k | 'b' -> 1 + c.ni + k | 'p' -> 1 + c.ni + c.nb + k
  | 'R' -> 1 + c.ni + c.nb + c.np + k | 'Q' -> 1 + c.ni + c.nb + c.np + c.nR + k
  | _ -> failwith ("unmodelled variable " ^ name)
let var c name = n_of_int (index c name)
let name_of c i =
  let i = i - 1 in
  if i < c.ni then "i" ^ string_of_int i
  else if i < c.ni + c.nb then "b" ^ string_of_int (i - c.ni)
  else if i < c.ni + c.nb + c.np then "p" ^ string_of_int (i - c.ni - c.nb)
  else if i < c.ni + c.nb + c.np + c.nR then "R" ^ string_of_int (i - c.ni - c.nb - c.np)
  else "Q" ^ string_of_int (i - c.ni - c.nb - c.np - c.nR)
let is_ref name = name.[0] = 'p'

(* canonical linear expression: terms sorted by variable index, merged, no zero coefficient *)
let canon (terms : (ZA.t * int) list) (k : ZA.t) =
  let tbl = Hashtbl.create 8 in
  List.iter (fun (c, v) -> Hashtbl.replace tbl v (ZA.add c (try Hashtbl.find tbl v with Not_found -> ZA.zero))) terms;
  let l = Hashtbl.fold (fun v c acc -> if ZA.sign c = 0 then acc else (v, c) :: acc) tbl [] in
  let l = List.sort compare l in
  { le_terms = List.map (fun (v, c) -> (z_of_zarith c, n_of_int v)) l; le_cst = z_of_zarith k }
let parse_exp_raw c k =
  ignore (next k);
  let n = nexti k in
  let terms = List.init n (fun _ -> let co = ZA.of_string (next k) in let v = index c (next k) in (co, v)) in
  let cst = ZA.of_string (next k) in
  (terms, cst)
let parse_exp c k = let (t, cst) = parse_exp_raw c k in canon t cst
let parse_cst c k =
  ignore (next k);
  let kind = match next k with "eq" -> EQ | "ne" -> DISEQ | "le" -> INEQ | _ -> STRICT in
  { lc_kind = kind; lc_exp = parse_exp c k }
let rel_of = function "eq" -> REq | "ne" -> RNe | "le" -> RLe | "lt" -> RLt | "ge" -> RGe | _ -> RGt
(* the address constraint built by ghosting_ref_cst_to_linear_cst (see linear_constraints.hpp) *)
let parse_rcst c k =
  let ar = next k in let rel = next k in
  if ar = "u" then begin
    let p = index c (next k) in
    let e = match rel with
      | "ge" | "gt" -> canon [(ZA.minus_one, p)] ZA.zero       (* n - x *)
      | _ -> canon [(ZA.one, p)] ZA.zero in                    (* x - n *)
    (RUn (rel_of rel, n_of_int p), e)
  end else begin
    let p = index c (next k) in let q = index c (next k) in let off = ZA.of_string (next k) in
    let e = match rel with
      | "le" | "lt" -> canon [(ZA.one, p); (ZA.minus_one, q)] (ZA.neg off)   (* x - e *)
      | _ -> canon [(ZA.one, q); (ZA.minus_one, p)] off in                   (* e - x *)
    (RBin (rel_of rel, n_of_int p, n_of_int q, z_of_zarith off), e)
  end

let show_set = function
  | None -> "?"
  | Some l ->
    let l = List.sort_uniq ZA.compare (List.map zarith_of_z l) in
    "{" ^ String.concat "," (List.map ZA.to_string l) ^ "}"
let show_count c (cnt, ini) =
  let nm v = name_of c (ZA.to_int (zarith_of_z v)) in
  (match cnt with
   | RBot -> "bot" | RZero -> "0" | ROne v -> "1:" ^ nm v | RZeroOrOne v -> "01:" ^ nm v
   | RZeroOrMore -> "0+" | ROneOrMore -> "1+")
  ^ (match ini with BBot -> ",ib" | BFalse -> ",if" | BTrue -> ",it" | BTop -> ",i?")
let show_null = function BBot -> "nb" | BTrue -> "nt" | BFalse -> "nf" | BTop -> "n?"
let names pre n = List.init n (fun i -> pre ^ string_of_int i)
let show_state c v =
  match v with
  | None -> "_|_"
  | Some _ ->
    let at n = string_of_itv (q_at v (var c n)) in
    "I:" ^ String.concat "|" (List.map at (names "i" c.ni))
    ^ " B:" ^ String.concat "|" (List.map at (names "b" c.nb))
    ^ " P:" ^ String.concat "|" (List.map (fun n -> at n ^ ";" ^ show_null (q_null v (var c n)) ^ ";" ^ show_set (q_sites v (var c n))) (names "p" c.np))
    ^ " G:" ^ String.concat "|" (List.map (fun n -> at n ^ ";" ^ show_count c (q_count v (var c n)) ^ ";" ^ show_set (q_sites v (var c n)) ^ ";" ^ show_set (q_tags v (var c n)))
                                   (names "R" c.nR @ names "Q" c.nQ))
let split_ops toks =
  let rec go cur acc = function
    | [] -> List.rev (List.rev cur :: acc)
    | ";" :: r -> go [] (List.rev cur :: acc) r
    | x :: r -> go (x :: cur) acc r in
  go [] [] toks
exception Abort
let run_history toks =
  match split_ops toks with
  | ("rg" :: ps :: nregs :: ni :: nb :: np :: nR :: nQ :: nU :: _) :: ops ->
    if int_of_string nU <> 0 then failwith "unknown regions are not modelled";
    let c = { ni = int_of_string ni; nb = int_of_string nb; np = int_of_string np; nR = int_of_string nR; nQ = int_of_string nQ } in
    let nregs = int_of_string nregs in
    let prm = { p_alloc = ps.[0] = '1'; p_tags = ps.[2] = '1' } in
    let univ = List.map (var c) (names "R" c.nR @ names "Q" c.nQ) in
    let conf = { c_params = prm; c_dup = (fun g -> n_of_int (10000 + int_of_n g)); c_univ = univ } in
    let regs = ref (List.init nregs (fun _ -> Some r_top)) in
    let out = ref [] in
    let emit s = out := s :: !out in
    (try
      List.iter (fun op -> if op <> [] then begin
        let k = { t = Array.of_list op; p = 0 } in
        let o = next k in
        let r = nexti k in
        let rn = nat_of_int r in
        let nat () = nat_of_int (nexti k) in
        let v () = var c (next k) in
        if o = "q_state" then emit (show_state c (vget !regs rn)) else begin
        let rop = match o with
          | "top" -> OTop rn | "bot" -> OBot rn
          | "copy" -> OCopy (rn, nat ())
          | "init" -> OInit (rn, v ())
          | "mk" -> let p = v () in let g = v () in let site = nextz k in OMk (rn, p, g, site)
          | "free" -> let g = v () in let p = v () in OFree (rn, g, p)
          | "ld" -> let xn = next k in let p = v () in let g = v () in OLd (rn, var c xn, p, g, is_ref xn)
          | "st" -> let p = v () in let g = v () in
            let s = next k in
            let sv = if s = "null" then SNull
              else if s.[0] = 'v' then (let n = String.sub s 2 (String.length s - 2) in SVar (var c n, is_ref n))
              else SCst (z_of_string (String.sub s 2 (String.length s - 2))) in
            OSt (rn, p, g, sv)
          | "gep" -> let p2 = v () in let g2 = v () in let p1n = next k in let g1 = v () in
            let (t, cst) = parse_exp_raw c k in
            OGep (rn, p2, g2, var c p1n, g1, canon t cst, canon ((ZA.one, index c p1n) :: t) cst)
          | "rcopy" -> let l = v () in let g = v () in ORcopy (rn, l, g)
          | "assume_ref" -> let (rc, e) = parse_rcst c k in OAssumeRef (rn, rc, e)
          | "selref" -> let pn = next k in let g = v () in let _b = next k in
            let arm () = let a = next k in let g = next k in if a = "null" then None else Some (var c a, var c g) in
            let a1 = arm () in let a2 = arm () in
            OSelRef (rn, var c pn, g, a1, a2, canon [(ZA.one, index c pn)] ZA.zero)
          | "tag" -> let g = v () in let _p = next k in OTag (rn, g, nextz k)
          | "assign" -> let x = v () in OAssign (rn, x, parse_exp c k)
          | "arith" ->
            let op = (match next k with "add" -> OpAdd | "sub" -> OpSub | "mul" -> OpMul
                                      | s -> failwith ("unmodelled arithmetic operator " ^ s)) in
            let x = v () in let y = v () in
            let z = (match next k with "v" -> OVar (v ()) | _ -> OCst (nextz k)) in
            OArith (rn, op, x, y, z)
          | "assume" -> let n = nexti k in OAssume (rn, List.init n (fun _ -> parse_cst c k))
          | "havoc" -> let n = next k in
            OHavoc (rn, var c n, (match n.[0] with 'p' -> KRef | 'R' | 'Q' -> KRegion | _ -> KScalar))
          | "join" | "joinip" -> let s = nat () in let t = nat () in OJoin (rn, s, t)
          | "meet" -> let s = nat () in let t = nat () in OMeet (rn, s, t)
          | "widen" -> let s = nat () in let t = nat () in OWiden (rn, s, t)
          | "narrow" -> let s = nat () in let t = nat () in ONarrow (rn, s, t)
          | _ -> failwith ("unmodelled op " ^ o) in
        (match rstep conf !regs rop with
         | None -> raise Abort
         | Some rs -> regs := rs);
        emit (show_state c (vget !regs rn)) end
      end) ops;
      String.concat " ; " (List.rev !out)
    with Abort -> "ABORT")
  | _ -> failwith "bad history"
let () =
  let lines = read_lines Sys.argv.(Array.length Sys.argv - 1) in
  List.iteri (fun i l ->
      let r = try run_history (split_ws l) with Failure m -> "MODEL-ERROR " ^ m | Not_found -> "MODEL-ERROR not_found" in
      print_string ("R " ^ string_of_int i ^ " " ^ r ^ "\n")) lines
