(* crawlcall_drv: evaluates the extracted call-site step of the assertion crawler (Ana/CrawlerCall.v)
   on a case file; same line format and answers as harness/crawlcall.cpp:
     c2c <tag> <vars> <fins> <ins>                                   -> {n,n}
     as  <tag> <outs> <fouts> <fins> <ins> <dpd> <sdd>               -> [k:{..};k:{..}]
     cs  <tag> <outs> <fouts> <fins> <ins> <amd> <sdm> <camd> <csdd> -> amd=[..] sdm=[..]
   (<tag> = policy name of the generator, ignored)
   a list is  n,n,n  or - ; a map is  k:n,n;k:;k:n  or - .  The model's lists are printed as sets
   (sorted, duplicates would be visible) and the maps sorted by key. *)
open Crawlcall_model
open Zio
let nn s = n_of_zarith (ZA.of_string s)
let sn x = ZA.to_string (zarith_of_n x)
let split c s = List.filter (fun x -> x <> "") (String.split_on_char c s)
let nums s = if s = "-" then [] else List.map nn (split ',' s)
let entries s =
  if s = "-" then [] else
  List.map (fun e ->
      match String.index_opt e ':' with
      | Some k -> (nn (String.sub e 0 k),
                   nums (let v = String.sub e (k+1) (String.length e - k - 1) in if v = "" then "-" else v))
      | None -> failwith ("bad entry " ^ e)) (split ';' s)
(* the harness builds the C++ maps with `set`: a later binding of the same key replaces an earlier one;
   the model reads the first binding *)
let dedup m =
  let rec go seen = function
    | [] -> []
    | (k, v) :: r -> if List.mem k seen then go seen r else (k, v) :: go (k :: seen) r in
  List.rev (go [] (List.rev m))
let cmpz a b = ZA.compare (zarith_of_n a) (zarith_of_n b)
let show_set l = "{" ^ String.concat "," (List.map sn (List.sort cmpz l)) ^ "}"
let show_map m =
  "[" ^ String.concat ";" (List.map (fun (k, v) -> sn k ^ ":" ^ show_set v)
                             (List.sort (fun (a, _) (b, _) -> cmpz a b) m)) ^ "]"
let uniq l = List.sort_uniq cmpz l
let eval toks =
  match toks with
  | ["c2c"; _; w; fins; ins] -> show_set (callee_to_caller (uniq (nums w)) (nums fins) (nums ins))
  | ["as"; _; outs; fouts; fins; ins; dpd; sdd] ->
    show_map (apply_summary (dedup (entries dpd)) (dedup (entries sdd)) (nums outs) (nums fouts) (nums fins) (nums ins))
  | ["cs"; _; outs; fouts; fins; ins; amd; sdm; camd; csdd] ->
    let (a, s) = callsite_step (dedup (entries amd), dedup (entries sdm)) (dedup (entries camd), dedup (entries csdd))
        (nums outs) (nums fouts) (nums fins) (nums ins) in
    "amd=" ^ show_map a ^ " sdm=" ^ show_map s
  | _ -> failwith "bad line"
let () =
  let lines = read_lines Sys.argv.(1) in
  List.iteri (fun i l ->
      let r = try eval (split_ws l) with Failure m -> "MODEL-ERROR " ^ m in
      print_string ("R " ^ string_of_int i ^ " " ^ r ^ "\n")) lines
