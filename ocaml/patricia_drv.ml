(* patricia_drv: evaluates the extracted patricia / separate_domain / discrete_domain models
   on a case file.  One line = one history over 4 registers (see harness/patricia.cpp):
     env|pset|ddom  op,arg,...  op,arg,...
   output: R <i> <'#'-separated query results>
   With PATRICIA_ORIG=1 the model of the code *before* fixes/patricia-{1,2,3}.diff is used. *)
open Patricia_model
open Zio
let orig = (try Sys.getenv "PATRICIA_ORIG" = "1" with Not_found -> false)
let n_of_string s = n_of_zarith (ZA.of_string s)
let string_of_n x = ZA.to_string (zarith_of_n x)
let bound_of_string s = match s with "-oo" -> MInf | "+oo" -> PInf | _ -> Fin (z_of_string s)
let itv_of_string s =
  if s = "bot" then ibot else
  match String.index_opt s ':' with
  | Some k -> imk (bound_of_string (String.sub s 0 k))
                (bound_of_string (String.sub s (k+1) (String.length s - k - 1)))
  | None -> failwith ("bad interval " ^ s)
let string_of_bound = function MInf -> "-oo" | PInf -> "+oo" | Fin z -> string_of_z z
let string_of_itv i =
  if is_bot i then "_|_" else "[" ^ string_of_bound i.lb ^ ", " ^ string_of_bound i.ub ^ "]"
let sb b = if b then "true" else "false"
let split_on c s = List.filter (fun x -> x <> "") (String.split_on_char c s)
let keys_of_string s = if s = "-" then [] else List.map n_of_string (split_on ';' s)
let zs_of_string s = if s = "-" then [] else List.map z_of_string (split_on ';' s)
let reg s = (Char.code s.[0] - Char.code '0') land 3

let dump_env e =
  match s_elements e with
  | None -> "_|_"
  | Some l -> "{" ^ String.concat ";" (List.map (fun (k, v) -> string_of_n k ^ "->" ^ string_of_itv v) l) ^ "}"

let run_env ops =
  let r = Array.make 4 ie_top in
  let acc = ref [] in
  let out s = acc := s :: !acc in
  List.iter (fun o ->
      match split_on ',' o with
      | ["top"; a] -> r.(reg a) <- ie_top
      | ["bot"; a] -> r.(reg a) <- ie_bottom
      | ["cp"; a; b] -> r.(reg a) <- r.(reg b)
      | ["set"; a; k; i] -> r.(reg a) <- ie_set r.(reg a) (n_of_string k) (itv_of_string i)
      | ["joinkv"; a; k; i] ->
        r.(reg a) <- (if orig then ie_join_kv_orig else ie_join_kv) r.(reg a) (n_of_string k) (itv_of_string i)
      | ["forget"; a; k] -> r.(reg a) <- ie_forget r.(reg a) (n_of_string k)
      | ["join"; a; b; c] -> r.(reg a) <- ie_join r.(reg b) r.(reg c)
      | ["meet"; a; b; c] -> r.(reg a) <- ie_meet r.(reg b) r.(reg c)
      | ["widen"; a; b; c] -> r.(reg a) <- ie_widen r.(reg b) r.(reg c)
      | ["narrow"; a; b; c] -> r.(reg a) <- ie_narrow r.(reg b) r.(reg c)
      | ["widenth"; a; b; c; ts] -> r.(reg a) <- ie_widen_thr (zs_of_string ts) r.(reg b) r.(reg c)
      | ["project"; a; ks] -> r.(reg a) <- ie_project r.(reg a) (keys_of_string ks)
      | ["rename"; a; f; t] ->
        (match ie_rename r.(reg a) (keys_of_string f) (keys_of_string t) with
         | Some e -> r.(reg a) <- e
         | None -> failwith "ABORT")
      | ["at"; a; k] -> out (string_of_itv (ie_at r.(reg a) (n_of_string k)))
      | ["dump"; a] -> out (dump_env r.(reg a))
      | ["leq"; a; b] -> out (sb ((if orig then ie_leq_orig else ie_leq) r.(reg a) r.(reg b)))
      | ["eq"; a; b] ->
        out (sb (if orig then ie_leq_orig r.(reg a) r.(reg b) && ie_leq_orig r.(reg b) r.(reg a)
                 else ie_eq r.(reg a) r.(reg b)))
      | ["istop"; a] -> out (sb (s_is_top r.(reg a)))
      | ["isbot"; a] -> out (sb (s_is_bottom r.(reg a)))
      | ["size"; a] -> out (match s_size r.(reg a) with None -> "undef" | Some n -> string_of_n n)
      | _ -> failwith ("unknown op " ^ o)) ops;
  String.concat "#" (List.rev !acc)

let dump_keys l = "{" ^ String.concat ";" (List.map string_of_n l) ^ "}"

let run_pset ops =
  let r = Array.make 4 ps_empty in
  let acc = ref [] in
  let out s = acc := s :: !acc in
  List.iter (fun o ->
      match split_on ',' o with
      | ["empty"; a] -> r.(reg a) <- ps_empty
      | ["clear"; a] -> r.(reg a) <- ps_empty
      | ["single"; a; k] -> r.(reg a) <- ps_single (n_of_string k)
      | ["cp"; a; b] -> r.(reg a) <- r.(reg b)
      | ["add"; a; k] -> r.(reg a) <- ps_add r.(reg a) (n_of_string k)
      | ["del"; a; k] -> r.(reg a) <- ps_remove r.(reg a) (n_of_string k)
      | ["union"; a; b; c] -> r.(reg a) <- ps_union r.(reg b) r.(reg c)
      | ["inter"; a; b; c] -> r.(reg a) <- ps_inter r.(reg b) r.(reg c)
      | ["unionw"; a; b] -> r.(reg a) <- ps_union r.(reg a) r.(reg b)
      | ["interw"; a; b] -> r.(reg a) <- ps_inter r.(reg a) r.(reg b)
      | ["mem"; a; k] -> out (sb (ps_mem r.(reg a) (n_of_string k)))
      | ["leq"; a; b] -> out (sb (ps_leq r.(reg a) r.(reg b)))
      | ["geq"; a; b] -> out (sb (ps_geq r.(reg a) r.(reg b)))
      | ["eq"; a; b] -> out (sb (ps_eq r.(reg a) r.(reg b)))
      | ["size"; a] -> out (string_of_n (ps_size r.(reg a)))
      | ["isempty"; a] -> out (sb (ps_is_empty r.(reg a)))
      | ["dump"; a] -> out (dump_keys (ps_elements r.(reg a)))
      | _ -> failwith ("unknown op " ^ o)) ops;
  String.concat "#" (List.rev !acc)

let run_ddom ops =
  let r = Array.make 4 dd_bottom in
  let acc = ref [] in
  let out s = acc := s :: !acc in
  List.iter (fun o ->
      match split_on ',' o with
      | ["bot"; a] -> r.(reg a) <- dd_bottom
      | ["top"; a] -> r.(reg a) <- dd_top
      | ["single"; a; k] -> r.(reg a) <- dd_single (n_of_string k)
      | ["cp"; a; b] -> r.(reg a) <- r.(reg b)
      | ["add"; a; k] -> r.(reg a) <- dd_add r.(reg a) (n_of_string k)
      | ["del"; a; k] -> r.(reg a) <- dd_remove r.(reg a) (n_of_string k)
      | ["addr"; a; ks] -> r.(reg a) <- dd_add_list r.(reg a) (keys_of_string ks)
      | ["delr"; a; ks] -> r.(reg a) <- dd_remove_list r.(reg a) (keys_of_string ks)
      | ["diff"; a; b; c] -> if not (dd_is_top r.(reg c)) then r.(reg a) <- dd_diff r.(reg b) r.(reg c)
      | ["join"; a; b; c] -> r.(reg a) <- dd_join r.(reg b) r.(reg c)
      | ["meet"; a; b; c] -> r.(reg a) <- dd_meet r.(reg b) r.(reg c)
      | ["joinw"; a; b] -> r.(reg a) <- dd_join r.(reg a) r.(reg b)
      | ["rename"; a; f; t] ->
        (match dd_rename r.(reg a) (keys_of_string f) (keys_of_string t) with
         | Some e -> r.(reg a) <- e
         | None -> failwith "ABORT")
      | ["contain"; a; k] -> out (sb (dd_contain r.(reg a) (n_of_string k)))
      | ["leq"; a; b] -> out (sb (dd_leq r.(reg a) r.(reg b)))
      | ["eq"; a; b] -> out (sb ((if orig then dd_eq_orig else dd_eq) r.(reg a) r.(reg b)))
      | ["istop"; a] -> out (sb (dd_is_top r.(reg a)))
      | ["isbot"; a] -> out (sb (dd_is_bottom r.(reg a)))
      | ["size"; a] -> out (match dd_size r.(reg a) with None -> "undef" | Some n -> string_of_n n)
      | ["dump"; a] -> out (match dd_elements r.(reg a) with None -> "{...}" | Some l -> dump_keys l)
      | _ -> failwith ("unknown op " ^ o)) ops;
  String.concat "#" (List.rev !acc)

let eval toks =
  match toks with
  | "env" :: ops -> run_env ops
  | "pset" :: ops -> run_pset ops
  | "ddom" :: ops -> run_ddom ops
  | _ -> failwith "bad line"
let () =
  let lines = read_lines Sys.argv.(1) in
  List.iteri (fun i l ->
      let r = try eval (split_ws l) with Failure m -> if m = "ABORT" then "ABORT" else "MODEL-ERROR " ^ m in
      print_string ("R " ^ string_of_int i ^ " " ^ r ^ "\n")) lines
