(* fwditv_drv: forward analyzer model (engine + interval transformer) on textual CFG
   programs; same format as harness/cfgtext.hpp / fwditv.cpp.
   Header options thr=<n> (max_thresholds) and live=0|1 (liveness pruning) select the model
   fwd_run_full of Ana/FwdItvLive.v (thresholds collected per WTO cycle, dead variables
   forgotten at the end of each block).  selfcheck=0: the table checker is not run on the
   model's own tables (no MODEL-NOT-INDUCTIVE marker).
   Mode --validate: each line is "<case> ### <implementation answer>"; the Coq-verified
   table checker (fwd_check; fwd_check_full with the pruned transformer when live=1) is run
   on the implementation's invariants. *)
open Fwditv_model
open Zio
let n_of_int i = n_of_zarith (ZA.of_int i)
let string_of_bound = function MInf -> "-oo" | PInf -> "+oo" | Fin z -> string_of_z z
let string_of_itv i =
  if is_bot i then "_|_" else "[" ^ string_of_bound i.lb ^ ", " ^ string_of_bound i.ub ^ "]"
type tk = { t : string array; mutable p : int }
let more k = k.p < Array.length k.t
let next k = let s = k.t.(k.p) in k.p <- k.p + 1; s
let nexti k = int_of_string (next k)
let nextz k = z_of_string (next k)
let nextv k = n_of_int (nexti k)
let parse_exp k =
  ignore (next k);
  let n = nexti k in
  let terms = List.init n (fun _ -> let c = nextz k in let v = nextv k in (c, v)) in
  let c = nextz k in
  { le_terms = terms; le_cst = c }
let parse_cst k =
  ignore (next k);
  let kind = match next k with "eq" -> EQ | "ne" -> DISEQ | "le" -> INEQ | _ -> STRICT in
  { lc_kind = kind; lc_exp = parse_exp k }
let split_on sep toks =
  let rec go cur acc = function
    | [] -> List.rev (List.rev cur :: acc)
    | x :: r when x = sep -> go [] (List.rev cur :: acc) r
    | x :: r -> go (x :: cur) acc r in
  go [] [] toks
let parse_stmt toks =
  let k = { t = Array.of_list toks; p = 0 } in
  let operand () = match next k with "v" -> OVar (nextv k) | _ -> OCst (nextz k) in
  match next k with
  | "assign" -> let x = nextv k in SAssign (x, parse_exp k)
  | "arith" ->
    let op = (match next k with "add" -> OpAdd | "sub" -> OpSub | "mul" -> OpMul | "sdiv" -> OpSDiv
                              | "udiv" -> OpUDiv | "srem" -> OpSRem | _ -> OpURem) in
    let x = nextv k in let y = nextv k in SArith (op, x, y, operand ())
  | "bit" ->
    let op = (match next k with "and" -> OpAnd | "or" -> OpOr | "xor" -> OpXor | "shl" -> OpShl
                              | "lshr" -> OpLShr | _ -> OpAShr) in
    let x = nextv k in let y = nextv k in SBit (op, x, y, operand ())
  | "assume" -> SAssume (parse_cst k)
  | "assert" -> let c = parse_cst k in SAssert (c, nat_of_int (nexti k))
  | "havoc" -> SHavoc (nextv k)
  | "select" -> let x = nextv k in let c = parse_cst k in let e1 = parse_exp k in let e2 = parse_exp k in SSelect (x, c, e1, e2)
  | "unreachable" -> SUnreach
  | s -> failwith ("unknown statement " ^ s)
let show_state nv e =
  if e_is_bot e then "_|_" else String.concat "|" (List.init nv (fun i -> string_of_itv (e_at e (n_of_int i))))
let bound_of_string = function "-oo" -> MInf | "+oo" -> PInf | s -> Fin (z_of_string s)
(* parse a printed state back into an environment *)
let state_of_string s =
  if s = "_|_" then EBot else begin
    let parts = String.split_on_char '|' s in
    let e = ref e_top in
    List.iteri (fun i p ->
        let p = String.trim p in
        let inner = String.sub p 1 (String.length p - 2) in
        match String.split_on_char ',' inner with
        | [l; u] -> e := e_set !e (n_of_int i) (imk (bound_of_string (String.trim l)) (bound_of_string (String.trim u)))
        | _ -> failwith "bad state") parts;
    !e end
type pcase = { prog : prog; nv : int; nb : int; ex : int; opts : (string * string) list; init : env; asm : (int * env) list }
let parse_case toks =
  match split_on "|" toks with
  | ("cfg" :: nb :: nv :: ex :: optl) :: secs ->
    let nb = int_of_string nb and nv = int_of_string nv and ex = int_of_string ex in
    let opts = List.filter_map (fun o -> match String.index_opt o '=' with
        | Some i -> Some (String.sub o 0 i, String.sub o (i+1) (String.length o - i - 1)) | None -> None) optl in
    let blocks = Array.make nb [] and edges = ref [] and init = ref e_top and asm = ref [] in
    let rec pairs = function a :: b :: r -> (nat_of_int (int_of_string a), nat_of_int (int_of_string b)) :: pairs r | _ -> [] in
    List.iter (fun sec -> match sec with
      | "B" :: id :: rest -> blocks.(int_of_string id) <- List.filter_map (fun st -> if st = [] then None else Some (parse_stmt st)) (split_on ";" rest)
      | "E" :: l -> edges := !edges @ pairs l
      | "I" :: l -> let k = { t = Array.of_list l; p = 0 } in let cs = ref [] in while more k do cs := !cs @ [parse_cst k] done; init := d_add !cs !init
      | "A" :: b :: l -> let k = { t = Array.of_list l; p = 0 } in let cs = ref [] in while more k do cs := !cs @ [parse_cst k] done;
        asm := (int_of_string b, d_add !cs e_top) :: !asm
      | _ -> ()) secs;
    { prog = { p_blocks = Array.to_list blocks; p_edges = !edges }; nv; nb; ex; opts; init = !init; asm = !asm }
  | _ -> failwith "bad case"
let opt c k d = try List.assoc k c.opts with Not_found -> d
let asm_fun c = fun n -> (try Some (List.assoc (int_of_nat n) c.asm) with Not_found -> None)
(* header options thr=<max_thresholds> and live=0|1: the configurations of Ana/FwdItvLive.v *)
let thr_of c = int_of_string (opt c "thr" "0")
let live_of c = opt c "live" "0" = "1"
let exit_of c = if c.ex >= 0 then Some (nat_of_int c.ex) else None
let plain c = thr_of c = 0 && not (live_of c)
let run_model c =
  let delay = int_of_string (opt c "delay" "2") and desc = int_of_string (opt c "desc" "1") in
  let entry = int_of_string (opt c "entry" "0") in
  let use_asm = c.asm <> [] in
  match wto_build (p_graph c.prog) (nat_of_int 0) with
  | None -> None
  | Some w ->
    if plain c then
      fwd_run c.prog w (nat_of_int entry) (nat_of_int delay) (nat_of_int desc) use_asm (asm_fun c) (nat_of_int 400) c.init
    else begin
      if live_of c && dead_table c.prog (exit_of c) = None then failwith "liveness-out-of-fuel";
      fwd_run_full c.prog w (nat_of_int entry) (nat_of_int delay) (nat_of_int desc) (n_of_int (thr_of c)) (live_of c)
        (exit_of c) use_asm (asm_fun c) (nat_of_int 400) c.init
    end
(* the verified table checker for the configuration of the case *)
let check_tables c entry pre post =
  if plain c then fwd_check c.prog (nat_of_int entry) (c.asm <> []) (asm_fun c) c.init pre post
  else begin
    if live_of c && dead_table c.prog (exit_of c) = None then failwith "liveness-out-of-fuel";
    fwd_check_full (live_of c) (exit_of c) c.prog (nat_of_int entry) (c.asm <> []) (asm_fun c) c.init pre post
  end
let eval toks =
  let c = parse_case toks in
  match run_model c with
  | None -> "MODEL-ERROR out-of-fuel"
  | Some e ->
    let out = String.concat " ; " (List.init c.nb (fun i ->
        "pre=" ^ show_state c.nv (e.e_pre (nat_of_int i)) ^ " post=" ^ show_state c.nv (e.e_post (nat_of_int i)))) in
    let entry = int_of_string (opt c "entry" "0") in
    let out =
      if opt c "check" "0" = "1" then begin
        let na = int_of_string (opt c "nasserts" "0") in
        let verdicts = List.concat (List.mapi (fun i b -> check_block b (e.e_pre (nat_of_int i))) c.prog.p_blocks) in
        let letter = function VSafe -> "S" | VWarn -> "W" | VUnreach -> "U" in
        out ^ " ; checks=" ^ String.concat "" (List.init na (fun k ->
            let id = k + 1 in
            match List.filter (fun (i, _) -> int_of_nat i = id) verdicts with
            | [] -> "-"
            | l -> String.concat "" (List.map (fun (_, v) -> letter v) l) ^ ","))
      end else out in
    if opt c "selfcheck" "1" = "0" || check_tables c entry e.e_pre e.e_post then out
    else out ^ " MODEL-NOT-INDUCTIVE"
(* backward analysis: forward invariants (model of C01), then the engine on the reversed CFG *)
let parse_final toks =
  List.fold_left (fun acc sec -> match sec with
      | "G" :: l -> let k = { t = Array.of_list l; p = 0 } in let cs = ref [] in while more k do cs := !cs @ [parse_cst k] done; d_add !cs acc
      | _ -> acc) e_top (split_on "|" toks)
let bwd_setup toks =
  let c = parse_case toks in
  let exit_block = (match toks with _ :: _ :: _ :: ex :: _ -> int_of_string ex | _ -> -1) in
  let good = opt c "mode" "error" = "good" in
  let final = if good then parse_final toks else EBot in
  let use_fwd = opt c "fwd" "1" = "1" in
  let fresh = n_of_int (c.nv + 1000) in
  (c, exit_block, good, final, use_fwd, fresh)
let fwd_invs c use_fwd =
  if not use_fwd then Some (fun _ -> e_top) else
    match wto_build (p_graph c.prog) (nat_of_int 0) with
    | None -> None
    | Some w ->
      let delay = int_of_string (opt c "delay" "2") and desc = int_of_string (opt c "desc" "1") in
      (match fwd_run c.prog w (nat_of_int 0) (nat_of_int delay) (nat_of_int desc) false (fun _ -> None) (nat_of_int 400) e_top with
       | None -> None | Some e -> Some e.e_pre)
let eval_bwd_gen tabcheck toks =
  let (c, exit_block, good, final, use_fwd, fresh) = bwd_setup toks in
  match fwd_invs c use_fwd with
  | None -> "MODEL-ERROR fwd"
  | Some finv ->
    (match wto_build (p_rev_graph c.prog) (nat_of_int exit_block) with
     | None -> "MODEL-ERROR wto"
     | Some wrev ->
       let delay = int_of_string (opt c "delay" "2") and desc = int_of_string (opt c "desc" "1") in
       (match bwd_run c.prog wrev (nat_of_int exit_block) (nat_of_int delay) (nat_of_int desc) (nat_of_int 400) fresh good finv final with
        | None -> "MODEL-ERROR out-of-fuel"
        | Some pc ->
          let out = String.concat " ; " (List.init c.nb (fun i ->
              "finv=" ^ show_state c.nv (finv (nat_of_int i)) ^ " pre=" ^ show_state c.nv (pc (nat_of_int i)))) in
          if not tabcheck || opt c "bwdcheck" "1" = "0" || bwd_inductive_ok c.prog fresh good (nat_of_int exit_block) final finv pc then out
          else out ^ " MODEL-NOT-BWD-INDUCTIVE"))
let eval_bwd toks = eval_bwd_gen true toks
(* forward+backward analyzer (intra_forward_backward_analyzer + checker): the line of the
   backward mode (without the table check of C11), then the verdicts in the format of harness/bwditv.cpp *)
let eval_fb toks =
  let base = eval_bwd_gen false toks in
  let (c, exit_block, _, _, _, fresh) = bwd_setup toks in
  if opt c "fb" "0" <> "1" then base else begin
    let delay = int_of_string (opt c "delay" "2") and desc = int_of_string (opt c "desc" "1") in
    let refined = opt c "refined" "0" = "1" and maxref = int_of_string (opt c "maxref" "5") in
    let ex = if exit_block < 0 then None else Some (nat_of_int exit_block) in
    let entry = int_of_string (opt c "entry" "0") in
    match fb_analyze c.prog (nat_of_int 0) (nat_of_int entry) ex (nat_of_int delay) (nat_of_int desc) (nat_of_int 400) fresh
            refined (nat_of_int maxref) e_top with
    | None -> base ^ " ; checks=MODEL-ERROR"
    | Some verdicts ->
      let na = int_of_string (opt c "nasserts" "0") in
      let letter = function VSafe -> "S" | VWarn -> "W" | VUnreach -> "U" in
      base ^ " ; checks=" ^ String.concat "" (List.init na (fun k ->
          let id = k + 1 in
          match List.filter (fun (i, _) -> int_of_nat i = id) verdicts with
          | [] -> "-"
          | l -> String.concat "" (List.map (fun (_, v) -> letter v) l) ^ ","))
  end
let validate_bwd toks answer =
  let (c, exit_block, good, final, _, fresh) = bwd_setup toks in
  let parts = List.filter (fun s -> s <> "") (List.map String.trim (Str.split (Str.regexp_string " ; ") answer)) in
  let tabs = List.filter_map (fun p ->
      if String.length p > 5 && String.sub p 0 5 = "finv=" then begin
        match Str.bounded_split (Str.regexp_string " pre=") (String.sub p 5 (String.length p - 5)) 2 with
        | [a; b] -> Some (state_of_string a, state_of_string b)
        | _ -> None end else None) parts in
  if List.length tabs <> c.nb then "unparsable" else begin
    let arr = Array.of_list tabs in
    let finv n = let i = int_of_nat n in if i < c.nb then fst arr.(i) else e_top in
    let pc n = let i = int_of_nat n in if i < c.nb then snd arr.(i) else e_top in
    if bwd_inductive_ok c.prog fresh good (nat_of_int exit_block) final finv pc then "ok" else "FAIL"
  end
(* validate the implementation's tables with the verified checker *)
let validate toks answer =
  let c = parse_case toks in
  let parts = List.filter (fun s -> s <> "") (List.map String.trim (Str.split (Str.regexp_string " ; ") answer)) in
  let tabs = List.filter_map (fun p ->
      if String.length p > 4 && String.sub p 0 4 = "pre=" then begin
        match Str.bounded_split (Str.regexp_string " post=") (String.sub p 4 (String.length p - 4)) 2 with
        | [a; b] -> Some (state_of_string a, state_of_string b)
        | _ -> None end else None) parts in
  if List.length tabs <> c.nb then "unparsable" else begin
    let arr = Array.of_list tabs in
    let pre n = let i = int_of_nat n in if i < c.nb then fst arr.(i) else EBot in
    let post n = let i = int_of_nat n in if i < c.nb then snd arr.(i) else EBot in
    let entry = int_of_string (opt c "entry" "0") in
    if check_tables c entry pre post then "ok" else "FAIL"
  end
let () =
  let args = Array.to_list Sys.argv in
  let file = List.nth args (List.length args - 1) in
  let lines = read_lines file in
  let vmode = List.mem "--validate" args in
  let fbmode = List.mem "--fb" args in
  let bmode = List.mem "--bwd" args in
  List.iteri (fun i l ->
      let r = try
          if vmode then begin
            match Str.bounded_split (Str.regexp_string " ### ") l 2 with
            | [c; a] -> if bmode then validate_bwd (split_ws c) a else validate (split_ws c) a
            | _ -> "unparsable"
          end else if fbmode then eval_fb (split_ws l)
          else if bmode then eval_bwd (split_ws l) else eval (split_ws l)
        with Failure m -> "MODEL-ERROR " ^ m | Not_found -> "MODEL-ERROR notfound" | Invalid_argument m -> "MODEL-ERROR " ^ m in
      print_string ("R " ^ string_of_int i ^ " " ^ r ^ "\n")) lines
