(* refcst_drv: evaluates the extracted mirror of reference_constraint (Ana/RefCst.v) on a case file;
   same line format and answers as harness/refcst.cpp:
     neg <n> <tag> t | f | u <rel> <p> | b <rel> <p> <q> <k>
   answer: the constraint and its n successive negations, each
     <KIND> <lhs|null> <rhs|null> <offset> t<0|1>c<0|1>u<0|1>b<0|1>
   negate_opt = None (the CRAB_ERROR of negate()) prints ABORT like the orchestrator does for exit(1). *)
open Refcst_model
open Zio
let nn s = n_of_zarith (ZA.of_string s)
let sn x = ZA.to_string (zarith_of_n x)
let kind_s = function
  | REF_EQ -> "EQ" | REF_LT -> "LT" | REF_LEQ -> "LEQ" | REF_GT -> "GT" | REF_GEQ -> "GEQ" | REF_DISEQ -> "DISEQ"
let opt_s = function None -> "null" | Some v -> sn v
let b01 b = if b then "1" else "0"
let show c =
  let ((((k, l), r), o), (((t, ct), u), b)) = describe c in
  let r_s = match l, r with None, Some _ -> "rhs-without-lhs" | _ -> opt_s r in
  kind_s k ^ " " ^ opt_s l ^ " " ^ r_s ^ " " ^ string_of_z o ^ " t" ^ b01 t ^ "c" ^ b01 ct ^ "u" ^ b01 u ^ "b" ^ b01 b
exception Abort
let build = function
  | ["t"] -> mk_true
  | ["f"] -> mk_false
  | ["u"; rel; p] ->
    let p = nn p in
    (match rel with
     | "eq" -> mk_null p | "ne" -> mk_not_null p | "le" -> mk_le_null p | "lt" -> mk_lt_null p
     | "ge" -> mk_ge_null p | "gt" -> mk_gt_null p | _ -> failwith "bad rel")
  | ["b"; rel; p; q; k] ->
    let p = nn p and q = nn q and k = z_of_string k in
    (match rel with
     | "eq" -> mk_eq p q k | "ne" -> mk_not_eq p q k | "le" -> mk_le p q k | "lt" -> mk_lt p q k
     | "ge" -> mk_ge p q k | "gt" -> mk_gt p q k | _ -> failwith "bad rel")
  | _ -> failwith "bad line"
let eval toks =
  match toks with
  | "neg" :: n :: _ :: rest ->
    let n = int_of_string n in
    let c = ref (build rest) in
    let o = ref (show !c) in
    for _ = 1 to n do
      (match negate_opt !c with
       | None -> raise Abort
       | Some d -> c := d);
      o := !o ^ " ; " ^ show !c
    done;
    !o
  | _ -> failwith "bad line"
let () =
  let lines = read_lines Sys.argv.(1) in
  List.iteri (fun i l ->
      let r = try eval (split_ws l) with Failure m -> "MODEL-ERROR " ^ m | Abort -> "ABORT" in
      print_string ("R " ^ string_of_int i ^ " " ^ r ^ "\n")) lines
