(* numlin_drv: evaluates the extracted numlin models (z_number, q_number, safe_i64,
   linear expressions / constraints / systems) on a case file.
   Case grammar: see gen/numlin.py.  Output: R <i> <answer>; None (CRAB_ERROR) = ABORT *)
open Numlin_model
open Zio

let sb b = if b then "true" else "false"
let zs = string_of_z
let abort = "ABORT"
let opt f = function None -> abort | Some x -> f x
let is_int s =
  let n = String.length s in
  let st = if n > 0 && s.[0] = '-' then 1 else 0 in
  n > st && (let ok = ref true in
             for i = st to n - 1 do if not (s.[i] >= '0' && s.[i] <= '9') then ok := false done; !ok)
let zp s = if is_int s then z_of_string s else failwith ("bad integer " ^ s)
let rec coq_list_of = function [] -> [] | x :: t -> x :: coq_list_of t
let split_on c s = List.filter (fun x -> x <> "") (String.split_on_char c s)

(* ---- z ---- *)
let digit_char d = let i = ZA.to_int (zarith_of_z d) in
  if i < 10 then Char.chr (48 + i) else Char.chr (87 + i)
let char_digit c =
  if c >= '0' && c <= '9' then Some (Char.code c - 48)
  else if c >= 'a' && c <= 'z' then Some (Char.code c - 87)
  else if c >= 'A' && c <= 'Z' then Some (Char.code c - 55)
  else None
let zint i = z_of_zarith (ZA.of_int i)
let cmp6 lt le eq = (* lt le gt ge eq ne *) fun a b ->
  String.concat " " (List.map sb [lt a b; le a b; lt b a; le b a; eq a b; not (eq a b)])

let eval_z = function
  | [op; a; b] when List.mem op ["add"; "sub"; "mul"; "div"; "rem"; "and"; "or"; "xor"; "shl"; "shr";
                                 "adda"; "suba"; "mula"; "diva"; "rema"; "cmp"] ->
    let a = zp a and b = zp b in
    (match op with
     | "add" | "adda" -> zs (zadd a b) | "sub" | "suba" -> zs (zsub a b)
     | "mul" | "mula" -> zs (zmul a b)
     | "div" | "diva" -> opt zs (zdiv a b) | "rem" | "rema" -> opt zs (zrem a b)
     | "and" -> zs (zand a b) | "or" -> zs (zor a b) | "xor" -> zs (zxor a b)
     | "shl" -> opt zs (zshl a b) | "shr" -> opt zs (zshr a b)
     | "cmp" -> cmp6 zlt zle zeq a b
     | _ -> failwith "z op")
  | ["neg"; a] -> zs (zneg (zp a))
  | ["inc"; a] -> zs (zinc (zp a))
  | ["dec"; a] -> zs (zdec (zp a))
  | ["pinc"; a] -> let a = zp a in zs a ^ " " ^ zs (zinc a)      (* x++ : old value, new value *)
  | ["pdec"; a] -> let a = zp a in zs a ^ " " ^ zs (zdec a)
  | ["fill"; a] -> opt zs (fill_ones (zp a))
  | ["fits"; a] -> sb (fits_int64 (zp a))
  | ["toi64"; a] -> opt zs (to_int64 (zp a))
  | ["fromi64"; a] -> opt zs (of_int64 (zp a))
  | ["fromu64"; a] -> opt zs (of_uint64 (zp a))
  | ["tostr"; b; a] ->
    opt (fun (neg, ds) -> (if neg then "-" else "") ^
                          String.init (List.length ds) (fun i -> digit_char (List.nth ds i)))
      (z_get_str (zp b) (zp a))
  | ["parse"; b; s] ->
    let n = String.length s in
    let neg = n > 0 && s.[0] = '-' in
    let body = if neg then String.sub s 1 (n - 1) else s in
    let ds = List.init (String.length body) (fun i -> char_digit body.[i]) in
    if List.exists (fun d -> d = None) ds then abort
    else opt zs (z_of_str (zp b) neg (List.map (function Some d -> zint d | None -> zint 0) ds))
  | ["toraw"; o; a] ->
    let (sign, ws) = to_words (o = "1") (zp a) in
    (if sign then "+" else "-") ^ String.concat "" (List.map (fun w -> " " ^ zs w) ws)
  | ["fromraw"; o; ws] ->
    let ws = if ws = "-" then [] else List.map zp (split_on ',' ws) in
    zs (of_words (o = "1") ws)
  | _ -> failwith "bad z line"

(* ---- q ---- *)
let qstr q = zs (numerator q) ^ "/" ^ zs (denominator q)
let qparse s =           (* "N/D" or "N": what q_number(string) accepts here *)
  match String.index_opt s '/' with
  | None -> if is_int s then q_make (zp s) (zint 1) else None
  | Some k ->
    let a = String.sub s 0 k and b = String.sub s (k + 1) (String.length s - k - 1) in
    if is_int a && is_int b then q_make (zp a) (zp b) else None
let with_q s f = match qparse s with None -> abort | Some q -> f q
let eval_q = function
  | ["mk"; s] -> opt qstr (qparse s)
  | ["mk2"; n; d] -> opt qstr (q_make (zp n) (zp d))
  | ["ofz"; n] -> qstr (q_of_z (zp n))
  | ["fromd"; m; e] -> qstr (q_of_m2e (zp m) (zp e))
  | [op; a; b] when List.mem op ["add"; "sub"; "mul"; "div"; "adda"; "suba"; "mula"; "diva"; "cmp"; "shl"] ->
    with_q a (fun a -> with_q b (fun b ->
        match op with
        | "add" | "adda" -> qstr (qadd a b) | "sub" | "suba" -> qstr (qsub a b)
        | "mul" | "mula" -> qstr (qmul a b)
        | "div" | "diva" -> opt qstr (qdivide a b)
        | "cmp" -> cmp6 qlt qle qeq a b
        | "shl" -> opt qstr (qshl a b)
        | _ -> failwith "q op"))
  | [op; a] ->
    with_q a (fun a ->
        match op with
        | "neg" -> qstr (qneg a) | "inc" -> qstr (qinc a) | "dec" -> qstr (qdec a)
        | "pinc" -> qstr a ^ " " ^ qstr (qinc a) | "pdec" -> qstr a ^ " " ^ qstr (qdec a)
        | "num" -> zs (numerator a) | "den" -> zs (denominator a)
        | "up" -> zs (round_to_upper a) | "lo" -> zs (round_to_lower a)
        | "str" -> if zs (denominator a) = "1" then zs (numerator a) else qstr a
        | _ -> failwith "q op")
  | _ -> failwith "bad q line"

(* ---- safe_i64 ---- *)
let eval_s = function
  | [op; a; b] ->
    let a = zp a and b = zp b in
    if not (fits_i64 a && fits_i64 b) then failwith "operand outside int64" else
    let pr (r, f) = zs r ^ " " ^ (if f then "1" else "0") in
    (match op with
     | "add" | "adda" -> opt zs (safe_add a b) | "sub" | "suba" -> opt zs (safe_sub a b)
     | "mul" -> opt zs (safe_mul a b) | "div" -> opt zs (safe_div a b)
     | "cadd" -> pr (checked_add a b) | "csub" -> pr (checked_sub a b)
     | "cmul" -> pr (checked_mul a b) | "cdiv" -> opt pr (checked_div a b)
     | "cmp" -> cmp6 safe_lt safe_le safe_eq a b
     | _ -> failwith "s op")
  | ["neg"; a] -> opt zs (safe_neg (zp a))
  | ["ofz"; a] -> opt zs (safe_of_z (zp a))
  | _ -> failwith "bad s line"

(* ---- linear expressions ---- *)
let parse_term t =
  match String.index_opt t 'x' with
  | Some k -> (zp (String.sub t 0 k), zp (String.sub t (k + 1) (String.length t - k - 1)))
  | None -> failwith ("bad term " ^ t)
(* construction order of the harness: first term via linear_expression(n, x), the others
   added with operator+(linear_expression), the constant with operator+(Number) *)
let parse_expr s =
  match String.index_opt s ':' with
  | None -> failwith ("bad expression " ^ s)
  | Some k ->
    let ts = List.map parse_term (split_on ',' (String.sub s 0 k)) in
    let c = zp (String.sub s (k + 1) (String.length s - k - 1)) in
    (match ts with
     | [] -> le_const c
     | (n, x) :: rest ->
       let e = List.fold_left (fun e (n, x) -> le_add e (le_term n x)) (le_term n x) rest in
       le_addk e c)
let estr e =
  String.concat "" (List.map (fun (x, c) -> zs c ^ "*v" ^ zs x ^ " ") e.lterms) ^ "| " ^ zs e.lcst
let parse_map s =
  if s = "-" then [] else
    List.map (fun p -> match String.index_opt p '>' with
        | Some k -> (zp (String.sub p 0 k), zp (String.sub p (k + 1) (String.length p - k - 1)))
        | None -> failwith "bad map") (split_on ',' s)
(* variable types of the harness: v1..v4 int32, v5 int64, v6 bool, v7 real, v8 int32 *)
let vty v =
  match ZA.to_int (zarith_of_z v) with
  | 5 -> (zint 1, zint 64) | 6 -> (zint 0, zint 1) | 7 -> (zint 2, zint 0)
  | _ -> (zint 1, zint 32)
let eval_le = function
  | ["build"; e] -> estr (parse_expr e)
  | ["term"; k; v] -> estr (le_term (zp k) (zp v))
  | ["var"; v] -> estr (le_var (zp v))
  | ["add"; a; b] -> estr (le_add (parse_expr a) (parse_expr b))
  | ["sub"; a; b] -> estr (le_sub (parse_expr a) (parse_expr b))
  | ["scale"; e; k] -> estr (le_scale (zp k) (parse_expr e))
  | ["neg"; e] -> estr (le_neg (parse_expr e))
  | ["addk"; e; k] -> estr (le_addk (parse_expr e) (zp k))
  | ["subk"; e; k] -> estr (le_subk (parse_expr e) (zp k))
  | ["ksub"; k; e] -> estr (le_sub (le_const (zp k)) (parse_expr e))
  | ["addv"; e; v] -> estr (le_addv (parse_expr e) (zp v))
  | ["subv"; e; v] -> estr (le_subv (parse_expr e) (zp v))
  | ["coef"; e; v] -> zs (le_coef (parse_expr e) (zp v))
  | ["rename"; e; m] -> estr (le_rename (parse_map m) (parse_expr e))
  | ["isconst"; e] -> sb (le_is_constant (parse_expr e))
  | ["const"; e] -> zs (le_constant (parse_expr e))
  | ["size"; e] -> zs (le_size (parse_expr e))
  | ["vars"; e] -> String.concat " " (List.map (fun v -> "v" ^ zs v) (le_variables (parse_expr e)))
  | ["getvar"; e] -> (match le_get_variable (parse_expr e) with None -> "none" | Some v -> "v" ^ zs v)
  | ["equal"; a; b] -> sb (le_equal (parse_expr a) (parse_expr b))
  | ["lex"; a; b] -> sb (le_lex (parse_expr a) (parse_expr b))
  | ["welltyped"; e] -> sb (le_is_well_typed vty (parse_expr e))
  | _ -> failwith "bad le line"

(* ---- constraints ---- *)
let parse_kind = function
  | "EQ" -> EQUALITY | "NE" -> DISEQUATION | "LE" -> INEQUALITY | "LT" -> STRICT_INEQUALITY
  | k -> failwith ("bad kind " ^ k)
let kstr = function EQUALITY -> "EQ" | DISEQUATION -> "NE" | INEQUALITY -> "LE" | STRICT_INEQUALITY -> "LT"
let cstr c = kstr c.ckind ^ ": " ^ estr c.cexpr
let mkc k e = { cexpr = parse_expr e; ckind = parse_kind k }
let eval_lc = function
  | ["mk"; rel; a; b] ->
    let a = parse_expr a and b = parse_expr b in
    cstr (match rel with
        | "le" -> mk_le a b | "ge" -> mk_ge a b | "lt" -> mk_lt a b | "gt" -> mk_gt a b
        | "eq" -> mk_eq a b | "ne" -> mk_ne a b | _ -> failwith "bad rel")
  | ["negate"; k; e] -> cstr (negate (mkc k e))
  | ["negneg"; k; e] -> cstr (negate (negate (mkc k e)))
  | ["taut"; k; e] -> sb (is_tautology (mkc k e))
  | ["contr"; k; e] -> sb (is_contradiction (mkc k e))
  | ["s2ns"; k; e] -> opt cstr (strict_to_non_strict (mkc k e))
  | ["const"; k; e] -> zs (lc_constant (mkc k e))
  | ["size"; k; e] -> zs (lc_size (mkc k e))
  | ["coef"; k; e; v] -> zs (lc_coef (mkc k e) (zp v))
  | ["rename"; k; e; m] -> cstr (lc_rename (parse_map m) (mkc k e))
  | ["equal"; k; e; k2; e2] -> sb (lc_equal (mkc k e) (mkc k2 e2))
  | ["lex"; k; e; k2; e2] -> sb (lc_lex (mkc k e) (mkc k2 e2))
  | ["welltyped"; k; e] -> sb (lc_is_well_typed vty (mkc k e))
  | ["true"] -> cstr lc_true
  | ["false"] -> cstr lc_false
  | _ -> failwith "bad lc line"

(* ---- systems ---- *)
let parse_sys s =
  if s = "-" then [] else
    List.map (fun c -> match String.index_opt c '@' with
        | Some k -> mkc (String.sub c 0 k) (String.sub c (k + 1) (String.length c - k - 1))
        | None -> failwith "bad constraint") (split_on ';' s)
let sstr = function [] -> "{}" | s -> String.concat " ; " (List.map cstr s)
let eval_ls = function
  | ["build"; s] -> sstr (sys_of_list (parse_sys s))
  | ["normalize"; s] -> sstr (normalize (sys_of_list (parse_sys s)))
  | ["isfalse"; s] -> sb (sys_is_false (sys_of_list (parse_sys s)))
  | ["istrue"; s] -> sb (sys_is_true (sys_of_list (parse_sys s)))
  | ["size"; s] -> zs (sys_size (sys_of_list (parse_sys s)))
  | ["plus"; a; b] -> sstr (sys_plus (sys_of_list (parse_sys a)) (sys_of_list (parse_sys b)))
  | ["addsys"; a; b] -> sstr (sys_add_sys (sys_of_list (parse_sys a)) (sys_of_list (parse_sys b)))
  | _ -> failwith "bad ls line"

let eval = function
  | "z" :: r -> eval_z r | "q" :: r -> eval_q r | "s" :: r -> eval_s r
  | "le" :: r -> eval_le r | "lc" :: r -> eval_lc r | "ls" :: r -> eval_ls r
  | _ -> failwith "bad line"
let () =
  let lines = read_lines Sys.argv.(1) in
  List.iteri (fun i l ->
      let r = try eval (split_ws l) with Failure m -> "MODEL-ERROR " ^ m in
      print_string ("R " ^ string_of_int i ^ " " ^ r ^ "\n")) lines
