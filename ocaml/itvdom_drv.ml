(* itvdom_drv: runs operation histories on the extracted interval-domain model.
   Same case format and output as harness/domhist.hpp. *)
open Itvdom_model
open Zio
let n_of_int i = n_of_zarith (ZA.of_int i)
let string_of_bound = function MInf -> "-oo" | PInf -> "+oo" | Fin z -> string_of_z z
let string_of_itv i =
  if is_bot i then "_|_" else "[" ^ string_of_bound i.lb ^ ", " ^ string_of_bound i.ub ^ "]"
type tk = { t : string array; mutable p : int }
let next k = let s = k.t.(k.p) in k.p <- k.p + 1; s
let nexti k = int_of_string (next k)
let nextz k = z_of_string (next k)
let nextv k = n_of_int (nexti k)
let parse_exp k =
  ignore (next k);
  let n = nexti k in
  let terms = List.init n (fun _ -> let c = nextz k in let v = nextv k in (c, v)) in
  let c = nextz k in
  { le_terms = terms; le_cst = c }
let parse_cst k =
  ignore (next k);
  let kind = match next k with "eq" -> EQ | "ne" -> DISEQ | "le" -> INEQ | _ -> STRICT in
  let e = parse_exp k in
  { lc_kind = kind; lc_exp = e }
let int_of_n n = ZA.to_int (zarith_of_n n)
let show_cst c =
  let k = match c.lc_kind with EQ -> "eq" | DISEQ -> "ne" | INEQ -> "le" | STRICT -> "lt" in
  k ^ ":" ^ String.concat "+" (List.map (fun (co, v) -> string_of_z co ^ "*v" ^ string_of_int (int_of_n v)) c.lc_exp.le_terms)
  ^ ":" ^ string_of_z c.lc_exp.le_cst
let show_state nv e =
  if e_is_bot e then "_|_" else
    (if e_is_top e then "T" else "") ^
    String.concat "|" (List.init (nv + 2) (fun i -> string_of_itv (e_at e (n_of_int i))))
let split_ops toks =
  let rec go cur acc = function
    | [] -> List.rev (List.rev cur :: acc)
    | ";" :: r -> go [] (List.rev cur :: acc) r
    | x :: r -> go (x :: cur) acc r in
  go [] [] toks
let run_history toks =
  match split_ops toks with
  | ("hist" :: nregs :: nv :: _) :: ops ->
    let nregs = int_of_string nregs and nv = int_of_string nv in
    let regs = ref (List.init nregs (fun _ -> e_top)) in
    let out = ref [] in
    let emit s = out := s :: !out in
    let rg r = rget !regs (nat_of_int r) in
    List.iter (fun op -> if op <> [] then begin
      let k = { t = Array.of_list op; p = 0 } in
      let o = next k in
      match o with
      | "q_leq" -> let s = nexti k in let t = nexti k in emit (if e_leq (rg s) (rg t) then "true" else "false")
      | "q_entails" -> let r = nexti k in let c = parse_cst k in emit (if d_entails c (rg r) then "true" else "false")
      | "q_csts" -> let r = nexti k in emit ("{" ^ String.concat "," (List.map show_cst (d_to_csts (rg r))) ^ "}")
      | "q_at" -> let r = nexti k in emit (show_state nv (rg r))
      | "normalize" | "minimize" -> let r = nexti k in emit (show_state nv (rg r))
      | _ ->
        let r = nexti k in
        let rn = nat_of_int r in
        let nat () = nat_of_int (nexti k) in
        let operand () = match next k with "v" -> OVar (nextv k) | _ -> OCst (nextz k) in
        let hop = match o with
          | "top" -> HTop rn | "bot" -> HBot rn
          | "copy" -> HCopy (rn, nat ())
          | "assign" -> let x = nextv k in HAssign (rn, x, parse_exp k)
          | "wassign" -> let x = nextv k in HWeakAssign (rn, x, parse_exp k)
          | "arith" ->
            let op = (match next k with "add" -> OpAdd | "sub" -> OpSub | "mul" -> OpMul | "sdiv" -> OpSDiv
                                      | "udiv" -> OpUDiv | "srem" -> OpSRem | _ -> OpURem) in
            let x = nextv k in let y = nextv k in HArith (rn, op, x, y, operand ())
          | "bit" ->
            let op = (match next k with "and" -> OpAnd | "or" -> OpOr | "xor" -> OpXor | "shl" -> OpShl
                                      | "lshr" -> OpLShr | _ -> OpAShr) in
            let x = nextv k in let y = nextv k in HBit (rn, op, x, y, operand ())
          | "cast" ->
            let op = (match next k with "trunc" -> CTrunc | "sext" -> CSExt | _ -> CZExt) in
            let dsti = nexti k in let srci = nexti k in
            HCast (rn, op, n_of_int dsti, n_of_int srci, dsti >= nv, srci >= nv,
                   z_of_string (if srci >= nv then "1" else "32"))
          | "assume" -> let n = nexti k in HAssume (rn, List.init n (fun _ -> parse_cst k))
          | "select" -> let l = nextv k in let c = parse_cst k in let e1 = parse_exp k in let e2 = parse_exp k in
            HSelect (rn, l, c, e1, e2)
          | "forget" -> let n = nexti k in HForget (rn, List.init n (fun _ -> nextv k))
          | "project" -> let n = nexti k in HProject (rn, List.init n (fun _ -> nextv k))
          | "rename" -> let n = nexti k in
            let f = List.init n (fun _ -> nextv k) in let t = List.init n (fun _ -> nextv k) in HRename (rn, f, t)
          | "expand" -> let x = nextv k in let nx = nextv k in HExpand (rn, x, nx)
          | "join" -> let s = nat () in let t = nat () in HJoin (rn, s, t)
          | "meet" -> let s = nat () in let t = nat () in HMeet (rn, s, t)
          | "widen" -> let s = nat () in let t = nat () in HWiden (rn, s, t)
          | "narrow" -> let s = nat () in let t = nat () in HNarrow (rn, s, t)
          | "widenthr" -> let s = nat () in let t = nat () in let n = nexti k in
            HWidenThr (rn, s, t, List.init n (fun _ -> nextz k))
          | _ -> failwith ("unknown op " ^ o) in
        regs := hstep !regs hop;
        emit (show_state nv (rg r))
    end) ops;
    String.concat " ; " (List.rev !out)
  | _ -> failwith "bad history"
let () =
  let lines = read_lines Sys.argv.(Array.length Sys.argv - 1) in
  List.iteri (fun i l ->
      let r = try run_history (split_ws l) with Failure m -> "MODEL-ERROR " ^ m in
      print_string ("R " ^ string_of_int i ^ " " ^ r ^ "\n")) lines
