(* fixfs_drv: property C06.  Answer = the validated Kleene least fixpoint (the
   specification); the engine model must coincide with it, else the answer is flagged. *)
open Fixfs_model
open Zio
let n_of_int i = n_of_zarith (ZA.of_int i)
let split_secs toks =
  let rec go cur acc = function
    | [] -> List.rev (List.rev cur :: acc)
    | "|" :: r -> go [] (List.rev cur :: acc) r
    | x :: r -> go (x :: cur) acc r in
  go [] [] toks
let rec pairs = function a :: b :: r -> (a, b) :: pairs r | _ -> []
let eval toks =
  match split_secs toks with
  | ("fix" :: n :: s :: entry :: delay :: desc :: rest) :: secs ->
    let n = int_of_string n and s = int_of_string s and entry = int_of_string entry in
    let delay = int_of_string delay and desc = int_of_string desc in
    let plain = (rest = ["plain"]) in
    let edges = ref [] and rel = Array.make n [] and init = ref ZA.zero and asm = Array.make n None in
    List.iter (fun sec -> match sec with
      | "E" :: l -> edges := !edges @ List.map (fun (a, b) -> (int_of_string a, int_of_string b)) (pairs l)
      | "R" :: b :: _ :: l -> rel.(int_of_string b) <- List.map (fun (x, y) -> (n_of_int (int_of_string x), n_of_int (int_of_string y))) (pairs l)
      | "I" :: l -> List.iter (fun x -> init := ZA.logor !init (ZA.shift_left ZA.one (int_of_string x))) l
      | "A" :: b :: _ :: l ->
        let a = List.fold_left (fun acc x -> ZA.logor acc (ZA.shift_left ZA.one (int_of_string x))) ZA.zero l in
        asm.(int_of_string b) <- Some (n_of_zarith a)
      | _ -> ()) secs;
    let entry = if plain then 0 else entry in
    let use_asm = (not plain) && Array.exists (fun x -> x <> None) asm in
    let preds k = let k = int_of_nat k in List.map nat_of_int (List.filter_map (fun (a, b) -> if b = k then Some a else None) !edges) in
    let dedup l = List.fold_left (fun acc x -> if List.mem x acc then acc else acc @ [x]) [] l in
    let succs k = dedup (List.filter_map (fun (a, b) -> if a = k then Some b else None) !edges) in
    let graph = List.init n (fun k -> List.map nat_of_int (succs k)) in
    let f = { f_blocks = nat_of_int n; f_preds = preds;
              f_rel = (fun k -> let k = int_of_nat k in if k < n then rel.(k) else []);
              f_entry = nat_of_int entry; f_init = n_of_zarith !init;
              f_asm = (fun k -> let k = int_of_nat k in if plain || k >= n then None else asm.(k)) } in
    let show t = String.concat " " (List.init n (fun k ->
        ZA.to_string (zarith_of_n (fst t (nat_of_int k))) ^ ":" ^ ZA.to_string (zarith_of_n (snd t (nat_of_int k))))) in
    (match lfp f (nat_of_int (n * s + 2)) with
     | None -> "MODEL-ERROR lfp-not-stable"
     | Some t ->
       let spec = show t in
       (match build graph (nat_of_int 0) with
        | None -> spec ^ " WTO-MODEL-NONE"
        | Some w ->
          (match fs_engine (n_of_int s) f w (nat_of_int delay) (nat_of_int desc) use_asm (nat_of_int (4 * n * s + 10)) with
           | None -> spec ^ " ENGINE-MODEL-OUT-OF-FUEL"
           | Some e ->
             let eng = show (e.e_pre, e.e_post) in
             if eng <> spec then spec ^ " ENGINE-MODEL-DIFF " ^ eng
             else if not (fs_certified (n_of_int s) f w use_asm e) then spec ^ " ENGINE-MODEL-NOT-CERTIFIED"
             else spec)))
  | _ -> failwith "bad case"
let () =
  let lines = read_lines Sys.argv.(Array.length Sys.argv - 1) in
  List.iteri (fun i l ->
      let r = try eval (split_ws l) with Failure m -> "MODEL-ERROR " ^ m in
      print_string ("R " ^ string_of_int i ^ " " ^ r ^ "\n")) lines
