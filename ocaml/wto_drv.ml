(* wto_drv: evaluates the extracted WTO model (Fix/Wto.v) on a case file, or runs the
   extracted verified checker (Fix/WtoCheck.v) on answers produced by the C++ harness.

   case line:  <kind> <N> <entry> <succ_0> ... <succ_{N-1}>     (see harness/wto.cpp)
     kind cfg / cfge: successor order = order of the list (first occurrence of a repeated
                      target only: basic_block::insert_adjacent ignores duplicates)
     kind cg        : successor order = ascending callee index (boost::setS out-edge set)
   default mode :  R <i> W <components> N <i>:<nesting> ...
   --check mode :  input lines are  <case> ## <answer of the harness>;
                   output R <i> OK | R <i> BAD <failed tests> | R <i> SKIP (ABORT etc.) *)
open Wto_model
open Zio

let rec dedup = function
  | [] -> []
  | x :: l -> x :: dedup (List.filter (fun y -> y <> x) l)

let parse_case toks =
  match toks with
  | kind :: n :: e :: rest ->
    let n = int_of_string n and e = int_of_string e in
    if List.length rest <> n then failwith "arity";
    let succ s =
      if s = "-" then [] else List.map int_of_string (String.split_on_char ',' s) in
    let g = List.map succ rest in
    let g = match kind with
      | "cfg" | "cfge" -> List.map dedup g
      | "cg" -> List.map (fun l -> List.sort_uniq compare l) g
      | _ -> failwith "kind" in
    (n, e, g)
  | _ -> failwith "bad line"

let to_graph g : graph = List.map (List.map nat_of_int) g

let rec show_comp = function
  | Vertex n -> string_of_int (int_of_nat n)
  | Cycle (h, b) ->
    "(" ^ String.concat " " (string_of_int (int_of_nat h) :: List.map show_comp b) ^ ")"
let show_wto w = String.concat " " (List.map show_comp w)
let show_nest = function
  | None -> "-"
  | Some l -> "[" ^ String.concat "," (List.map (fun x -> string_of_int (int_of_nat x)) l) ^ "]"

let eval_model toks =
  let (n, e, g) = parse_case toks in
  match build (to_graph g) (nat_of_int e) with
  | None -> "ABORT"
  | Some w ->
    let ns = List.init n (fun i -> string_of_int i ^ ":" ^ show_nest (nesting w (nat_of_int i))) in
    "W " ^ show_wto w ^ " N" ^ String.concat "" (List.map (fun s -> " " ^ s) ns)

(* ---- parsing of an answer "W <components> N <i>:<nesting> ..." *)
let parse_wto (s : string) : comp list =
  let len = String.length s in
  let pos = ref 0 in
  let skip () = while !pos < len && s.[!pos] = ' ' do incr pos done in
  let number () =
    let st = !pos in
    while !pos < len && s.[!pos] >= '0' && s.[!pos] <= '9' do incr pos done;
    if !pos = st then failwith "number expected";
    nat_of_int (int_of_string (String.sub s st (!pos - st))) in
  let rec comps () =
    skip ();
    if !pos >= len || s.[!pos] = ')' then []
    else begin
      let c =
        if s.[!pos] = '(' then begin
          incr pos; skip ();
          let h = number () in
          let b = comps () in
          skip ();
          if !pos < len && s.[!pos] = ')' then incr pos else failwith "')' expected";
          Cycle (h, b)
        end else Vertex (number ()) in
      c :: comps ()
    end in
  let r = comps () in
  skip ();
  if !pos <> len then failwith "trailing input";
  r

let parse_answer (a : string) =
  (* "W ... N ..." *)
  if String.length a < 2 || String.sub a 0 2 <> "W " then failwith "no W";
  let k =
    let rec find i = if i + 2 >= String.length a then failwith "no N"
      else if a.[i] = ' ' && a.[i+1] = 'N' && (i + 2 = String.length a || a.[i+2] = ' ') then i
      else find (i + 1) in
    (* the answer may be "W  N ..." when the ordering is empty *)
    if String.length a >= 3 && String.sub a 0 3 = "W N" then 1 else find 1 in
  let wtxt = String.sub a 2 (max 0 (k - 2)) in
  let ntxt = String.sub a (k + 2) (String.length a - k - 2) in
  let w = parse_wto wtxt in
  let tbl = List.map (fun t ->
      match String.index_opt t ':' with
      | None -> failwith "nesting entry"
      | Some c ->
        let n = int_of_string (String.sub t 0 c) in
        let v = String.sub t (c + 1) (String.length t - c - 1) in
        let v = if v = "-" then None
          else begin
            let inner = String.sub v 1 (String.length v - 2) in
            Some (if inner = "" then []
                  else List.map (fun x -> nat_of_int (int_of_string x)) (String.split_on_char ',' inner))
          end in
        (n, v)) (split_ws ntxt) in
  (w, tbl)

let eval_check line =
  (* <case> ## <answer> *)
  let sep =
    let rec find i = if i + 3 >= String.length line then failwith "no ##"
      else if String.sub line i 4 = " ## " then i else find (i + 1) in find 0 in
  let case = String.sub line 0 sep in
  let ans = String.sub line (sep + 4) (String.length line - sep - 4) in
  if String.length ans < 2 || String.sub ans 0 2 <> "W " then "SKIP"
  else begin
    let (n, e, g) = parse_case (split_ws case) in
    let (w, tbl) = parse_answer ans in
    let g = to_graph g and e = nat_of_int e in
    let nst x = match List.assoc_opt (int_of_nat x) tbl with Some v -> v | None -> None in
    let dom = List.init n nat_of_int @ flat w in
    if check g e w nst dom then "OK"
    else begin
      let fl = flat w in
      let bad = List.filter_map (fun (nm, b) -> if b then None else Some nm)
          [ "nodup", nodupb fl; "entry", mem e fl; "closed", closedb g fl;
            "only-reachable", subset fl (reach_n g (length fl) [e]);
            "edges", edges_ok g w; "nesting", nesting_ok w nst dom ] in
      "BAD " ^ String.concat "," bad
    end
  end

let () =
  let args = List.tl (Array.to_list Sys.argv) in
  let chk = List.mem "--check" args in
  let file = List.find (fun a -> a <> "--check") args in
  let lines = read_lines file in
  List.iteri (fun i l ->
      let r =
        try if chk then eval_check l else eval_model (split_ws l)
        with Failure m -> "MODEL-ERROR " ^ m | Not_found -> "MODEL-ERROR notfound"
           | Invalid_argument m -> "MODEL-ERROR " ^ m in
      print_string ("R " ^ string_of_int i ^ " " ^ r ^ "\n")) lines
