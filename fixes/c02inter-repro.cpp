// Stand-alone reproducer for fixes/c02inter-1.diff, c02inter-2.diff and c02inter-3.diff (plain crab API, no harness).
//   g++ -std=c++11 -O1 -w -I<crab>/include -I<dir with crab/config.h> -I<crab>/tests c02inter-repro.cpp libCrab.a -lgmp
//   ./a.out 1   top_down_inter_analyzer, analyze_recursive_functions = run_checker = true, on
//                 main { r := f1(a) }
//                 f1(a) -> r  { if (*) {} else { assert(x - a <= -1); x := f2(x) } }
//                 f2(b) -> s  { if (*) {} else { x := f1(a) } }
//               unfixed: "CRAB ERROR: in checking phase we should not analyze the callsite x = call f2(x)", exit(1)
//   ./a.out 2   same parameters, on
//                 main { k := 3; r := f1(k) }
//                 f1(a) -> r  { if (a <= 0) { r := 0 } else { havoc(k); assume(5 <= k <= 10); r := f2(k); k := 5; r := f2(k) } }
//                 f2(b) -> s  { assert(b <= 7)  /* line 1 */ ; k := 0; s := f1(k) }
//               f2(9) violates the assertion.  unfixed: the checks of line 1 are "safe" only; fixed: they contain a warning
//   ./a.out 3   default parameters (analyze_recursive_functions = false, exact_summary_reuse = true), run_checker = true, on
//                 main { r := f1(a) }
//                 f1(a) -> r  { if (*) { r := 0 } else { x := f1(a); assert(x <= 5) /* line 1 */; k := f2(x); r := k } }
//                 f2(b) -> s  { s := 7 }
//               unfixed: "CRAB ERROR: in checking phase we should not analyze the callsite k = call f2(x)", exit(1)
#include "crab_lang.hpp"
#include <crab/analysis/inter/top_down_inter_analyzer.hpp>
#include <crab/cg/cg.hpp>
#include <crab/cg/cg_bgl.hpp>
#include <crab/domains/intervals.hpp>
using namespace crab::cfg_impl;
using namespace ikos;
typedef interval_domain<z_number, varname_t> dom_t;
typedef crab::cg::call_graph<z_cfg_ref_t> cg_t;
typedef crab::cfg::function_decl<z_number, varname_t> fdecl_t;
typedef crab::cfg::debug_info dbg_t;

static z_var var(variable_factory_t &vf, const char *n) { return z_var(vf[n], crab::INT_TYPE, 32); }

static void diamond(z_cfg_t &c) {
  z_basic_block_t &b0 = c.insert("b0"), &b1 = c.insert("b1"), &b2 = c.insert("b2"), &b3 = c.insert("b3");
  b0 >> b1; b0 >> b2; b1 >> b3; b2 >> b3;
}

int main(int argc, char **argv) {
  int which = argc > 1 ? atoi(argv[1]) : 2;
  crab::CrabEnableWarningMsg(false);
  variable_factory_t vf;
  z_var a = var(vf, "a"), b = var(vf, "b"), r = var(vf, "r"), s = var(vf, "s"), x = var(vf, "x"), k = var(vf, "k");
  z_cfg_t m("b0", "b0", fdecl_t("main", {}, {}));
  z_cfg_t f1("b0", "b3", fdecl_t("f1", {a}, {r}));
  z_cfg_t f2("b0", which == 1 ? "b3" : "b0", fdecl_t("f2", {b}, {s}));
  diamond(f1);
  if (which == 3) {
    m.insert("b0").callsite("f1", {r}, {a});
    f1.get_node("b1").assign(r, 0);
    z_basic_block_t &e = f1.get_node("b2");
    e.callsite("f1", {x}, {a});
    e.assertion(z_lin_exp_t(x) <= 5, dbg_t("prog", 1, 0, 1));
    e.callsite("f2", {k}, {x});
    e.assign(r, k);
    f2.insert("b0").assign(s, 7);
  } else if (which == 1) {
    m.insert("b0").callsite("f1", {r}, {a});
    f1.get_node("b2").assertion(z_lin_exp_t(x) - z_lin_exp_t(a) <= -1, dbg_t("prog", 1, 0, 1));
    f1.get_node("b2").callsite("f2", {x}, {x});
    diamond(f2);
    f2.get_node("b2").callsite("f1", {x}, {a});
  } else {
    z_basic_block_t &mb = m.insert("b0");
    mb.assign(k, 3); mb.callsite("f1", {r}, {k});
    f1.get_node("b1").assume(z_lin_exp_t(a) <= 0); f1.get_node("b1").assign(r, 0);
    z_basic_block_t &e = f1.get_node("b2");
    e.assume(z_lin_exp_t(a) >= 1);
    e.havoc(k); e.assume(z_lin_exp_t(k) >= 5); e.assume(z_lin_exp_t(k) <= 10);
    e.callsite("f2", {r}, {k}); e.assign(k, 5); e.callsite("f2", {r}, {k});
    z_basic_block_t &g = f2.insert("b0");
    g.assertion(z_lin_exp_t(b) <= 7, dbg_t("prog", 1, 0, 1));
    g.assign(k, 0); g.callsite("f1", {s}, {k});
  }
  std::vector<z_cfg_ref_t> cfgs{z_cfg_ref_t(m), z_cfg_ref_t(f1), z_cfg_ref_t(f2)};
  cg_t cg(cfgs);
  crab::analyzer::inter_analyzer_parameters<cg_t> params;
  params.run_checker = true;
  params.analyze_recursive_functions = (which != 3);
  dom_t top;
  crab::analyzer::top_down_inter_analyzer<cg_t, dom_t> an(cg, top, params);
  an.run(top);
  crab::checker::checks_db db = an.get_all_checks();
  dbg_t di("prog", 1, 0, 1);
  crab::outs() << "checks of line 1:";
  if (db.has_checks(di))
    for (auto c : db.get_checks(di))
      crab::outs() << (c == crab::checker::check_kind::CRAB_SAFE ? " safe" : c == crab::checker::check_kind::CRAB_WARN ? " warning" :
                       c == crab::checker::check_kind::CRAB_ERR ? " error" : " unreachable");
  else crab::outs() << " none";
  crab::outs() << "\n";
  return 0;
}
