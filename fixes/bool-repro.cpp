// Standalone reproducers (no harness) of the defects repaired by fixes/bool-1 .. bool-8.
//   g++ -std=c++11 -O1 -w -I<tree>/include -I<build>/include -I<tree>/tests bool-repro.cpp <build>/libCrab.a -lgmp
// Prints one line per defect: DEFECT (the unsound answer is observed) or ok.  Exit status =
// number of defects observed.
#include "crab_lang.hpp"
#include <crab/domains/intervals.hpp>
#include <crab/domains/flat_boolean_domain.hpp>
using namespace crab::cfg_impl;
using namespace crab::domains;
using namespace ikos;
typedef interval_domain<z_number, varname_t> itv_t;
typedef flat_boolean_numerical_domain<itv_t> dom_t;
typedef interval<z_number> I;

static int bad = 0;
static void report(const char *name, bool defect, const dom_t &d) {
  crab::outs() << (defect ? "DEFECT " : "ok     ") << name << "   state: " << d << "\n";
  if (defect) ++bad;
}
static bool contains(dom_t &d, const z_var &v, long k) { return !d.is_bottom() && (I(z_number(k)) <= d.at(v)); }

int main() {
  crab::CrabEnableWarningMsg(false);
  variable_factory_t vfac;
  z_var x(vfac["x"], crab::INT_TYPE, 32), y(vfac["y"], crab::INT_TYPE, 32);
  z_var b0(vfac["b0"], crab::BOOL_TYPE, 1), b1(vfac["b1"], crab::BOOL_TYPE, 1), b2(vfac["b2"], crab::BOOL_TYPE, 1),
      b3(vfac["b3"], crab::BOOL_TYPE, 1);
  z_var p(vfac["p"], crab::REF_TYPE, 32);
  {  // bool-1: b2 := b0 and b1 ; havoc(b1) ; assume(b2)   [store b0=1 b1=1 -> b2=1, then b1=0]
    dom_t d;
    d.apply_binary_bool(OP_BAND, b2, b0, b1);
    d -= b1;
    d.assume_bool(b2, false);
    report("bool-1  b2:=b0&b1; havoc b1; assume b2  => b1 reported true", !contains(d, b1, 0), d);
  }
  {  // bool-2: b0 := (x<=0) ; x := 5 ; b1 := (x<=10) ; assume(b0)   [store x=-1 -> b0=1, x=5, b1=1]
    dom_t d;
    d.assign_bool_cst(b0, z_lin_cst_t(z_lin_exp_t(x) <= z_number(0)));
    d.assign(x, z_lin_exp_t(z_number(5)));
    d.assign_bool_cst(b1, z_lin_cst_t(z_lin_exp_t(x) <= z_number(10)));
    d.assume_bool(b0, false);
    report("bool-2  b0:=(x<=0); x:=5; b1:=(x<=10); assume b0  => bottom", d.is_bottom(), d);
  }
  {  // bool-2 (meet): A: b0:=(x<=0); x:=x+10.  B: b1:=(x>=3).  (A meet B); assume(b0)   [store x=10 b0=1 b1=1 is in both]
    dom_t a, b;
    a.assign_bool_cst(b0, z_lin_cst_t(z_lin_exp_t(x) <= z_number(0)));
    a.apply(OP_ADDITION, x, x, z_number(10));
    b.assign_bool_cst(b1, z_lin_cst_t(z_lin_exp_t(x) >= z_number(3)));
    dom_t d = a & b;
    d.assume_bool(b0, false);
    report("bool-2  meet revives b0 -> x<=0 after x:=x+10  => x=10 excluded", !contains(d, x, 10), d);
  }
  {  // bool-3: b0 := (x<=0) ; forget({x}) ; assume(b0)   [store x=-1 -> b0=1, then x=7]
    dom_t d;
    d.assign_bool_cst(b0, z_lin_cst_t(z_lin_exp_t(x) <= z_number(0)));
    std::vector<z_var> vs; vs.push_back(x);
    d.forget(vs);
    d.assume_bool(b0, false);
    report("bool-3  b0:=(x<=0); forget {x}; assume b0  => x<=0", !contains(d, x, 7), d);
  }
  {  // bool-4: b0 := (x<=0) ; b0 := (0<=0) ; assume(b0)   [store x=7: b0=0, then b0=1]
    dom_t d;
    d.assign_bool_cst(b0, z_lin_cst_t(z_lin_exp_t(x) <= z_number(0)));
    d.assign_bool_cst(b0, z_lin_cst_t::get_true());
    d.assume_bool(b0, false);
    report("bool-4  b0:=(x<=0); b0:=true; assume b0  => x<=0", !contains(d, x, 7), d);
  }
  {  // bool-4: b0 := (x<=0) ; havoc(b1) ; b0 := not b1 ; assume(b0)
    dom_t d;
    d.assign_bool_cst(b0, z_lin_cst_t(z_lin_exp_t(x) <= z_number(0)));
    d -= b1;
    d.assign_bool_var(b0, b1, true);
    d.assume_bool(b0, false);
    report("bool-4  b0:=(x<=0); b0:=not b1; assume b0  => x<=0", !contains(d, x, 7), d);
  }
  {  // bool-4: b0 := (x<=0) ; b0 := (p == NULL) ; assume(b0)
    dom_t d;
    d.assign_bool_cst(b0, z_lin_cst_t(z_lin_exp_t(x) <= z_number(0)));
    d.assign_bool_ref_cst(b0, z_ref_cst_t::mk_null(p));
    d.assume_bool(b0, false);
    report("bool-4  b0:=(x<=0); b0:=(p==NULL); assume b0  => x<=0", !contains(d, x, 7), d);
  }
  {  // bool-5: b1 := b0 ; b0 := (x<=0) ; assume(b1)   [store b0=1 x=7: b1=1, b0=0]
    dom_t d;
    d.assign_bool_var(b1, b0, false);
    d.assign_bool_cst(b0, z_lin_cst_t(z_lin_exp_t(x) <= z_number(0)));
    d.assume_bool(b1, false);
    report("bool-5  b1:=b0; b0:=(x<=0); assume b1  => b0 true and x<=0", !contains(d, x, 7) || !contains(d, b0, 0), d);
  }
  {  // bool-6: top <= (b0 := (x<=0)) although assume(b0) gives x<=0 on the right only
    dom_t a, b;
    b.assign_bool_cst(b0, z_lin_cst_t(z_lin_exp_t(x) <= z_number(0)));
    bool le = a <= b;
    dom_t c(b); c.assume_bool(b0, false);
    report("bool-6  top <= {b0:=(x<=0)} answered true, assume b0 on the right excludes x=7", le && !contains(c, x, 7), b);
  }
  {  // bool-7: b0 := (x<=0) ; havoc(b1) ; b3 := false ; b2 := ite(b0,b1,b3) ; b3 := not b2 ; assume(b3)
     // [store x=-1 b1=0: b0=1, b2=0, b3=1]
    dom_t d;
    d.assign_bool_cst(b0, z_lin_cst_t(z_lin_exp_t(x) <= z_number(0)));
    d -= b1;
    d.assign_bool_cst(b3, z_lin_cst_t::get_false());
    d.select_bool(b2, b0, b1, b3);
    d.assign_bool_var(b3, b2, true);
    d.assume_bool(b3, false);
    report("bool-7  b2:=ite(b0,b1,false); b3:=not b2; assume b3  => x>=1", !contains(d, x, -1), d);
  }
  {  // bool-8: b0 := false ; b1 := (x<=0) ; b2 := true ; b0 := ite(b0,b1,b2) ; assume(b0)   [store x=7: b1=0, b0 := b2 = 1]
    dom_t d;
    d.assign_bool_cst(b0, z_lin_cst_t::get_false());
    d.assign_bool_cst(b1, z_lin_cst_t(z_lin_exp_t(x) <= z_number(0)));
    d.assign_bool_cst(b2, z_lin_cst_t::get_true());
    d.select_bool(b0, b0, b1, b2);
    d.assume_bool(b0, false);
    report("bool-8  b0:=false; b1:=(x<=0); b2:=true; b0:=ite(b0,b1,b2); assume b0  => x<=0", !contains(d, x, 7), d);
  }
  return bad;
}
