// Standalone reproducers (no harness, no textual programs) of the defects found by the
// all-domains forward-analysis streams of C01 / C02 (checks/fwddoms.py) and repaired by
// fixes/fwddoms-<n>.diff.
//   g++ -std=c++11 -O1 -w -DNDEBUG -I<tree>/include -I<build>/include -I<tree>/tests fwddoms-repro.cpp <build>/libCrab.a -lgmp
// Each case runs intra_fwd_analyzer in a child process (CRAB_ERROR calls exit(1); a fixpoint
// iteration that does not terminate is stopped after 20 s).  Prints one line per case:
// DEFECT (abort / no termination / unsound invariant) or ok.  Exit status = number of defects.
#include "crab_lang.hpp"
#include <crab/analysis/fwd_analyzer.hpp>
#include <crab/domains/intervals.hpp>
#include <crab/domains/split_dbm.hpp>
#include <crab/domains/numerical_packing.hpp>
#include <sys/wait.h>
#include <unistd.h>
#include <functional>
using namespace crab::cfg_impl;
using namespace crab::domains;
using namespace ikos;
typedef DBM_impl::DefaultParams<z_number, DBM_impl::GraphRep::adapt_ss> gp_t;
typedef split_dbm_domain<z_number, varname_t, gp_t> zones_t;
typedef numerical_packing_domain<zones_t> pack_t;
typedef interval<z_number> I;

// returns 0 = finished normally and f() returned true, 1 = f() returned false (unsound answer),
// 2 = exit(1) (CRAB_ERROR) or crash, 3 = no termination within 20 s
static int in_child(const std::function<bool()> &f) {
  fflush(stdout);
  pid_t p = fork();
  if (p == 0) { alarm(20); bool ok = f(); _exit(ok ? 0 : 7); }
  int st = 0;
  waitpid(p, &st, 0);
  if (WIFSIGNALED(st)) return WTERMSIG(st) == SIGALRM ? 3 : 2;
  if (WEXITSTATUS(st) == 0) return 0;
  return WEXITSTATUS(st) == 7 ? 1 : 2;
}
static int bad = 0;
static void report(const char *name, int r) {
  const char *what[] = {"ok    ", "DEFECT (unsound answer)", "DEFECT (abort)", "DEFECT (no termination)"};
  printf("%s  %s\n", what[r], name);
  if (r) ++bad;
}

template <typename Dom>
static Dom analyze(z_cfg_t &cfg, const std::string &entry, Dom init, const std::string &at, bool post = false) {
  typedef crab::analyzer::intra_fwd_analyzer<z_cfg_ref_t, Dom> analyzer_t;
  z_cfg_ref_t ref(cfg);
  crab::fixpoint_parameters params;      // delay 2, 1 descending iteration, no thresholds
  Dom fac;
  analyzer_t a(ref, fac, nullptr, params);
  typename analyzer_t::assumption_map_t none;
  a.run(entry, init, none);
  return post ? a.get_post(at) : a.get_pre(at);
}

int main() {
  crab::CrabEnableWarningMsg(false);
  variable_factory_t vfac;
  z_var x(vfac["x"], crab::INT_TYPE, 32), y(vfac["y"], crab::INT_TYPE, 32);

  // fwddoms-1: numerical_packing left a pack with a bottom value inside a non-bottom state and
  // aborted on the next operation that touches the pack.
  //   b0: x := y / 0; x := y + y;   b1: (exit)
  report("fwddoms-1  pack: x := y / 0; x := y + y", in_child([&]() {
    z_cfg_t cfg("b0", "b1");
    z_basic_block_t &b0 = cfg.insert("b0"); z_basic_block_t &b1 = cfg.insert("b1");
    b0 >> b1;
    b0.div(x, y, z_number(0));
    b0.add(x, y, y);
    pack_t inv = analyze<pack_t>(cfg, "b0", pack_t(), "b1");
    return inv.is_bottom();         // nothing survives the division by zero
  }));
  // the same defect through the join: "unexpected situation in join_or_widening 1"
  //   b0 -> b1, b0 -> b2, b1 -> b3, b2 -> b3;  b1: x := y + 7;  b2: assume(x <= 5); y := y % 0
  report("fwddoms-1  pack: join with a state that holds a bottom pack", in_child([&]() {
    z_cfg_t cfg("b0", "b3");
    z_basic_block_t &b0 = cfg.insert("b0"); z_basic_block_t &b1 = cfg.insert("b1");
    z_basic_block_t &b2 = cfg.insert("b2"); z_basic_block_t &b3 = cfg.insert("b3");
    b0 >> b1; b0 >> b2; b1 >> b3; b2 >> b3;
    b1.add(x, y, z_number(7));
    b2.assume(z_lin_exp_t(x) <= z_number(5));
    b2.rem(y, y, z_number(0));
    pack_t inv = analyze<pack_t>(cfg, "b0", pack_t(), "b3");
    return !inv.is_bottom();        // b3 is reachable through b1
  }));

  // fwddoms-2: numerical_packing::operator<= compared the partitions: a value with the pack {x,y} is never
  // below a value with the pack {y}, so the increasing iteration of a loop never sees new_pre <= pre.
  //   b0 -> b2 -> b1 -> b0, analysis started at b1;  b1: assume(y >= 10);  b2: y := 3x - 2y + 10
  report("fwddoms-2  pack: loop {assume(y >= 10); y := 3x - 2y + 10} entered at the assume", in_child([&]() {
    z_cfg_t cfg("b0", "b1");
    z_basic_block_t &b0 = cfg.insert("b0"); z_basic_block_t &b1 = cfg.insert("b1"); z_basic_block_t &b2 = cfg.insert("b2");
    b0 >> b2; b2 >> b1; b1 >> b0;
    b1.assume(z_lin_exp_t(y) >= z_number(10));
    b2.assign(y, 3 * z_lin_exp_t(x) - 2 * z_lin_exp_t(y) + z_number(10));
    pack_t inv = analyze<pack_t>(cfg, "b1", pack_t(), "b0");
    return I(z_number(10)) <= inv.at(y) && I(z_number(1000)) <= inv.at(y);
  }));
  return bad;
}
