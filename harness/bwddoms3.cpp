// C11 oracle-only streams, part 3: the backward (necessary preconditions) analysis over non-relational functor domains.
// --mode=<name>:
//   disitv      dis_interval_domain
//   bool-itv    flat_boolean_numerical_domain<interval_domain>
//   pow-itv     powerset_domain<interval_domain>
// See bwddoms.hpp for the protocol.
#ifndef NDEBUG
#define NDEBUG
#endif
#include "bwddoms.hpp"
#include <crab/domains/intervals.hpp>
#include <crab/domains/dis_intervals.hpp>
#include <crab/domains/flat_boolean_domain.hpp>
#include <crab/domains/powerset_domain.hpp>
using namespace crab::domains;
using namespace bwddoms;
typedef interval_domain<z_number, varname_t> itv_t;
typedef dis_interval_domain<z_number, varname_t> disitv_t;
typedef flat_boolean_numerical_domain<itv_t> bool_itv_t;
typedef powerset_domain<itv_t> pow_itv_t;

static std::string dispatch(const std::vector<std::string> &t) {
  const std::string &m = bwddoms::mode;
  if (m == "disitv") return bwddoms::eval<disitv_t>(t, disitv_t());
  if (m == "bool-itv") return bwddoms::eval<bool_itv_t>(t, bool_itv_t());
  if (m == "pow-itv") return bwddoms::eval<pow_itv_t>(t, pow_itv_t());
  return "HARNESS-ERROR unknown mode " + m;
}
int main(int argc, char **argv) { return bwddoms::main_with(argc, argv, dispatch); }
