// Correspondence / search harness for the array domains (property C14).
//
//   --mode=smash-itv | smash-zones           array_smashing<Base>
//   --mode=adapt-itv:S:N:C:M | adapt-zones:S:N:C:M
//                                            array_adaptive_domain<Base> with parameters
//                                            is_smashable=S smash_at_nonzero_offset=N
//                                            max_smashable_cells=C max_array_size=M
//   --mode=cells                             unit stream on offset_map_t / cell_t /
//                                            array_state::can_be_smashed (private members)
//   --mode=smash-bool | adapt-bool:S:N:C:M   arrays of booleans over flat_boolean_numerical_domain<interval_domain>
//                                            (history language "abhist" / "abshape", see run_bool_history)
//
// History line:  ahist <nregs> <nscalars> <narrays> ; <op> ; <op> ; ...
// Scalars v0.. are integers of the width given by w=<bits> in the header (default 32; the
// adaptive domain insists that a loaded scalar has 8*element-size bits), arrays A0.. integer arrays.  In variable lists an
// index >= nscalars denotes array (index - nscalars).  After every state-changing op the
// state of the target register is printed: "_|_" or ["T"] at(v0)|at(v1)|... ; in the
// adaptive modes the shape of every array follows after " # " when the line starts with
// "ashape" instead of "ahist".  Answers are joined with " ; ".
#include <string>
#include <vector>
#include <set>
#include <map>
#include <sstream>
#include <iostream>
#include <fstream>
#include <algorithm>
#include <functional>
#include <unordered_map>
#include <memory>
#include <cstring>
#include <boost/optional.hpp>
#include "crab_lang.hpp"
#include "hcommon.hpp"
#include <crab/domains/intervals.hpp>
#include <crab/domains/split_dbm.hpp>
#include <crab/domains/flat_boolean_domain.hpp>
#include <crab/domains/array_smashing.hpp>
#include <crab/domains/abstract_domain_params.hpp>
#include <crab/fixpoint/thresholds.hpp>
// the unit stream and the shape printer reach private members of the adaptive domain
#define private public
#include <crab/domains/array_adaptive.hpp>
#undef private

using namespace crab::cfg_impl;
using namespace ikos;
typedef z_lin_exp_t lin_t;
typedef z_lin_cst_t cst_t;
typedef linear_constraint_system<z_number, varname_t> csts_t;
typedef interval<z_number> itv_t;
typedef interval_domain<z_number, varname_t> itvdom_t;
typedef crab::domains::split_dbm_domain<z_number, varname_t> zones_t;
typedef crab::domains::array_smashing<itvdom_t> smash_itv_t;
typedef crab::domains::array_smashing<zones_t> smash_zones_t;
typedef crab::domains::array_adaptive_domain<itvdom_t> adapt_itv_t;
typedef crab::domains::array_adaptive_domain<zones_t> adapt_zones_t;
typedef crab::domains::flat_boolean_numerical_domain<itvdom_t> boolitv_t;
typedef crab::domains::array_smashing<boolitv_t> smash_bool_t;
typedef crab::domains::array_adaptive_domain<boolitv_t> adapt_bool_t;
using crab::domains::array_adaptive_impl::offset_t;
using crab::domains::array_adaptive_impl::cell_t;
using crab::domains::array_adaptive_impl::offset_map_t;

template <typename T> static std::string str(const T &x) {
  crab::crab_string_os os; os << x; return os.str();
}

struct ctx {
  variable_factory_t vfac;
  std::vector<z_var> sc, ar;
  void init(unsigned ns, unsigned na, unsigned width) {
    for (unsigned i = 0; i < ns; ++i) sc.push_back(z_var(vfac["v" + std::to_string(i)], crab::INT_TYPE, width));
    for (unsigned i = 0; i < na; ++i) ar.push_back(z_var(vfac["A" + std::to_string(i)], crab::ARR_INT_TYPE, 32));
  }
  const z_var &var(long i) const { return (size_t)i < sc.size() ? sc[i] : ar.at(i - sc.size()); }
};

struct tok {
  const std::vector<std::string> &t; size_t p;
  const std::string &next() { if (p >= t.size()) { std::cerr << "parse error\n"; std::exit(3);} return t[p++]; }
  long nexti() { return std::stol(next()); }
  z_number nextz() { return z_number(next()); }
};

static lin_t parse_exp(ctx &c, tok &k) {       // E n c1 v1 ... cn vn k
  k.next();
  long n = k.nexti();
  lin_t e;
  for (long i = 0; i < n; ++i) { z_number co = k.nextz(); long v = k.nexti(); e = e + lin_t(co, c.sc.at(v)); }
  e = e + k.nextz();
  return e;
}
static cst_t parse_cst(ctx &c, tok &k) {       // C kind E...
  k.next();
  std::string kind = k.next();
  lin_t e = parse_exp(c, k);
  if (kind == "eq") return cst_t(e, cst_t::EQUALITY);
  if (kind == "ne") return cst_t(e, cst_t::DISEQUATION);
  if (kind == "le") return cst_t(e, cst_t::INEQUALITY);
  return cst_t(e, cst_t::STRICT_INEQUALITY);
}

template <typename Dom> static std::string show_state(ctx &c, const Dom &d) {
  if (d.is_bottom()) return "_|_";
  std::string r = d.is_top() ? "T" : "";
  for (size_t i = 0; i < c.sc.size(); ++i) { r += (i ? "|" : ""); r += str(d.at(c.sc[i])); }
  return r;
}

static std::string show_cell(const cell_t &x) {
  return std::to_string((unsigned long long)x.get_offset().index()) + ":" + std::to_string((unsigned long long)x.get_size()) + (x.is_removed() ? "R" : "");
}

// shape of the arrays of an adaptive-domain value (nothing for other domains)
template <typename Dom> struct shape { static std::string show(ctx &, const Dom &) { return ""; } };
template <typename Base> struct shape<crab::domains::array_adaptive_domain<Base>> {
  static std::string show(ctx &c, const crab::domains::array_adaptive_domain<Base> &d) {
    if (d.is_bottom()) return "";
    std::string r = " #";
    for (size_t i = 0; i < c.ar.size(); ++i) {
      r += " A" + std::to_string(i) + "=";
      auto *as = d.m_array_map.find(c.ar[i]);
      if (!as) { r += "none"; continue; }
      if (as->is_smashed()) { crab::crab_string_os os; as->get_element_sz().write(os); r += "S" + os.str(); continue; }
      r += "{";
      bool f = true;
      for (auto &x : as->get_offset_map().get_all_cells()) {
        if (!f) r += ","; f = false;
        r += show_cell(x);
        if (!d.m_cell_ghost_man.get_ghost(c.ar[i], x)) r += "u";
      }
      r += "}";
    }
    return r;
  }
};

template <typename Dom> static std::string run_history(const std::vector<std::string> &line) {
  std::vector<std::vector<std::string>> ops(1);
  for (auto &s : line) { if (s == ";") ops.emplace_back(); else ops.back().push_back(s); }
  if (ops[0].size() < 4 || (ops[0][0] != "ahist" && ops[0][0] != "ashape")) return "HARNESS-ERROR";
  bool with_shape = ops[0][0] == "ashape";
  unsigned nregs = std::stoul(ops[0][1]), ns = std::stoul(ops[0][2]), na = std::stoul(ops[0][3]);
  unsigned width = 32;      // scalars have the width of the array elements (w=<bits> in the header)
  for (auto &h : ops[0]) if (h.compare(0, 2, "w=") == 0) width = std::stoul(h.substr(2));
  ctx c; c.init(ns, na, width);
  Dom topv;
  std::vector<Dom> regs(nregs, topv.make_top());
  std::string out;
  auto emit = [&](const std::string &s) { if (!out.empty()) out += " ; "; out += s; };
  for (size_t i = 1; i < ops.size(); ++i) {
    if (ops[i].empty()) continue;
    tok k{ops[i], 0};
    std::string op = k.next();
    if (op == "q_leq") { long s = k.nexti(), t = k.nexti(); emit(regs[s] <= regs[t] ? "true" : "false"); continue; }
    if (op == "q_at") { long r = k.nexti(); emit(show_state(c, regs[r])); continue; }
    long r = k.nexti();
    Dom &d = regs[r];
    if (op == "top") d.set_to_top();
    else if (op == "bot") d.set_to_bottom();
    else if (op == "copy") { long s = k.nexti(); Dom tmp(regs[s]); d = tmp; }
    else if (op == "assign") { long x = k.nexti(); lin_t e = parse_exp(c, k); d.assign(c.sc.at(x), e); }
    else if (op == "arith") {
      std::string o = k.next(); long x = k.nexti(), y = k.nexti(); std::string kind = k.next();
      crab::domains::arith_operation_t ao =
        o == "add" ? crab::domains::OP_ADDITION : o == "sub" ? crab::domains::OP_SUBTRACTION :
        o == "mul" ? crab::domains::OP_MULTIPLICATION : o == "sdiv" ? crab::domains::OP_SDIV :
        o == "udiv" ? crab::domains::OP_UDIV : o == "srem" ? crab::domains::OP_SREM : crab::domains::OP_UREM;
      if (kind == "v") d.apply(ao, c.sc.at(x), c.sc.at(y), c.sc.at(k.nexti()));
      else d.apply(ao, c.sc.at(x), c.sc.at(y), k.nextz());
    }
    else if (op == "assume") { long n = k.nexti(); csts_t cs; for (long j = 0; j < n; ++j) cs += parse_cst(c, k); d += cs; }
    else if (op == "forget" || op == "project") {
      long n = k.nexti(); std::vector<z_var> vs; for (long j = 0; j < n; ++j) vs.push_back(c.var(k.nexti()));
      if (op == "forget") d.forget(vs); else d.project(vs);
    }
    else if (op == "forget1") { d -= c.var(k.nexti()); }
    else if (op == "rename") {
      long n = k.nexti(); std::vector<z_var> f, t;
      for (long j = 0; j < n; ++j) f.push_back(c.var(k.nexti()));
      for (long j = 0; j < n; ++j) t.push_back(c.var(k.nexti()));
      d.rename(f, t);
    }
    else if (op == "expand") { long x = k.nexti(), nx = k.nexti(); d.expand(c.var(x), c.var(nx)); }
    else if (op == "ainit") {
      long a = k.nexti(); lin_t es = parse_exp(c, k), lb = parse_exp(c, k), ub = parse_exp(c, k), v = parse_exp(c, k);
      d.array_init(c.ar.at(a), es, lb, ub, v);
    }
    else if (op == "aload") {
      long x = k.nexti(), a = k.nexti(); lin_t es = parse_exp(c, k), ix = parse_exp(c, k);
      d.array_load(c.sc.at(x), c.ar.at(a), es, ix);
    }
    else if (op == "astore") {
      long a = k.nexti(); lin_t es = parse_exp(c, k), ix = parse_exp(c, k), v = parse_exp(c, k); long strong = k.nexti();
      d.array_store(c.ar.at(a), es, ix, v, strong != 0);
    }
    else if (op == "arange") {
      long a = k.nexti(); lin_t es = parse_exp(c, k), lb = parse_exp(c, k), ub = parse_exp(c, k), v = parse_exp(c, k);
      d.array_store_range(c.ar.at(a), es, lb, ub, v);
    }
    else if (op == "acopy") { long l = k.nexti(), rr = k.nexti(); d.array_assign(c.ar.at(l), c.ar.at(rr)); }
    else if (op == "join" || op == "meet" || op == "widen" || op == "narrow" || op == "widenthr" || op == "joinw" || op == "meetw") {
      long s = k.nexti(), t = k.nexti();
      if (op == "join") { Dom tmp = regs[s] | regs[t]; regs[r] = tmp; }
      else if (op == "joinw") { Dom tmp(regs[s]); tmp |= regs[t]; regs[r] = tmp; }       // in-place join
      else if (op == "meet") { Dom tmp = regs[s] & regs[t]; regs[r] = tmp; }
      else if (op == "meetw") { Dom tmp(regs[s]); tmp &= regs[t]; regs[r] = tmp; }
      else if (op == "widen") { Dom tmp = regs[s] || regs[t]; regs[r] = tmp; }
      else if (op == "narrow") { Dom tmp = regs[s] && regs[t]; regs[r] = tmp; }
      else {
        long n = k.nexti(); crab::thresholds<z_number> ts;
        for (long j = 0; j < n; ++j) ts.add(bound<z_number>(k.nextz()));
        Dom tmp = regs[s].widening_thresholds(regs[t], ts); regs[r] = tmp;
      }
    }
    else return "HARNESS-ERROR " + op;
    emit(show_state(c, regs[r]) + (with_shape ? shape<Dom>::show(c, regs[r]) : std::string()));
  }
  return out;
}

// ---------------------------------------------------------------- arrays of booleans
// History line:  abhist|abshape <nregs> <nints> <nbools> <narrays> ; <op> ; ...
// Integer variables v0.. (32 bits; indexes), boolean variables b0.., arrays A0.. of booleans
// (crab::ARR_BOOL_TYPE, element size 1).  In variable lists an index < nints is an integer,
// < nints+nbools a boolean, otherwise an array.  The operations on registers and integer
// variables are those of "ahist" (top bot copy assign arith assume forget forget1 join joinw
// widen widenthr meet narrow q_leq); the array operations have the same shape, a stored value
// <V> being "E 0 0" (false), "E 0 1" (true) or "B <b>" (the boolean variable b):
//   ainit r a <Esz> <Elb> <Eub> <V>      astore r a <Esz> <Eix> <V> strong
//   arange r a <Esz> <Elb> <Eub> <V>     aload r b a <Esz> <Eix>          acopy r l rr
// and on boolean variables
//   bset r b 0|1          b := false | true         (assign_bool_cst with get_false / get_true)
//   bassign r b <C>       b := (linear constraint)  (assign_bool_cst)
//   bcopy r b b2 neg      b := b2 | not b2          (assign_bool_var)
//   bassume r b neg       assume_bool(b, neg)
// Answer per state-changing op: "_|_" or ["T"] at(v0)|at(v1)|.. / x0|x1|..  with x = t, f, T or B:
// what the flat boolean component of the base domain holds for b (true, false, top, bottom).
template <typename Base> static std::string bool_at(const crab::domains::array_smashing<Base> &d, const z_var &b) {
  crab::domains::array_smashing<Base> t(d);
  auto v = t.get_content_domain().first().get_bool(b);
  return v.is_bottom() ? "B" : v.is_true() ? "t" : v.is_false() ? "f" : "T";
}
template <typename Base> static std::string bool_at(const crab::domains::array_adaptive_domain<Base> &d, const z_var &b) {
  return bool_at(d.get_content_domain(), b);
}

struct bctx : ctx {
  std::vector<z_var> bv;
  void init_bool(unsigned ni, unsigned nb, unsigned na) {
    for (unsigned i = 0; i < ni; ++i) sc.push_back(z_var(vfac["v" + std::to_string(i)], crab::INT_TYPE, 32));
    for (unsigned i = 0; i < nb; ++i) bv.push_back(z_var(vfac["b" + std::to_string(i)], crab::BOOL_TYPE, 1));
    for (unsigned i = 0; i < na; ++i) ar.push_back(z_var(vfac["A" + std::to_string(i)], crab::ARR_BOOL_TYPE, 1));
  }
  const z_var &anyvar(long i) const {
    if ((size_t)i < sc.size()) return sc[i];
    i -= sc.size();
    return (size_t)i < bv.size() ? bv[i] : ar.at(i - bv.size());
  }
};

static lin_t parse_bval(bctx &c, tok &k) {      // E 0 0 | E 0 1 | B b
  if (k.p < k.t.size() && k.t[k.p] == "B") { k.next(); return lin_t(c.bv.at(k.nexti())); }
  return parse_exp(c, k);
}

template <typename Dom> static std::string show_bool_state(bctx &c, const Dom &d) {
  if (d.is_bottom()) return "_|_";
  std::string r = d.is_top() ? "T" : "";
  for (size_t i = 0; i < c.sc.size(); ++i) { r += (i ? "|" : ""); r += str(d.at(c.sc[i])); }
  r += " / ";
  for (size_t i = 0; i < c.bv.size(); ++i) { r += (i ? "|" : ""); r += bool_at(d, c.bv[i]); }
  return r;
}

template <typename Dom> static std::string run_bool_history(const std::vector<std::string> &line) {
  std::vector<std::vector<std::string>> ops(1);
  for (auto &s : line) { if (s == ";") ops.emplace_back(); else ops.back().push_back(s); }
  if (ops[0].size() < 5 || (ops[0][0] != "abhist" && ops[0][0] != "abshape")) return "HARNESS-ERROR";
  bool with_shape = ops[0][0] == "abshape";
  unsigned nregs = std::stoul(ops[0][1]), ni = std::stoul(ops[0][2]), nb = std::stoul(ops[0][3]), na = std::stoul(ops[0][4]);
  bctx c; c.init_bool(ni, nb, na);
  Dom topv;
  std::vector<Dom> regs(nregs, topv.make_top());
  std::string out;
  auto emit = [&](const std::string &s) { if (!out.empty()) out += " ; "; out += s; };
  for (size_t i = 1; i < ops.size(); ++i) {
    if (ops[i].empty()) continue;
    tok k{ops[i], 0};
    std::string op = k.next();
    if (op == "q_leq") { long s = k.nexti(), t = k.nexti(); emit(regs[s] <= regs[t] ? "true" : "false"); continue; }
    long r = k.nexti();
    Dom &d = regs[r];
    if (op == "top") d.set_to_top();
    else if (op == "bot") d.set_to_bottom();
    else if (op == "copy") { long s = k.nexti(); Dom tmp(regs[s]); d = tmp; }
    else if (op == "assign") { long x = k.nexti(); lin_t e = parse_exp(c, k); d.assign(c.sc.at(x), e); }
    else if (op == "arith") {
      std::string o = k.next(); long x = k.nexti(), y = k.nexti(); std::string kind = k.next();
      crab::domains::arith_operation_t ao =
        o == "add" ? crab::domains::OP_ADDITION : o == "sub" ? crab::domains::OP_SUBTRACTION : crab::domains::OP_MULTIPLICATION;
      if (kind == "v") d.apply(ao, c.sc.at(x), c.sc.at(y), c.sc.at(k.nexti()));
      else d.apply(ao, c.sc.at(x), c.sc.at(y), k.nextz());
    }
    else if (op == "assume") { long n = k.nexti(); csts_t cs; for (long j = 0; j < n; ++j) cs += parse_cst(c, k); d += cs; }
    else if (op == "forget") {
      long n = k.nexti(); std::vector<z_var> vs; for (long j = 0; j < n; ++j) vs.push_back(c.anyvar(k.nexti()));
      d.forget(vs);
    }
    else if (op == "forget1") { d -= c.anyvar(k.nexti()); }
    else if (op == "bset") { long b = k.nexti(); d.assign_bool_cst(c.bv.at(b), k.nexti() != 0 ? cst_t::get_true() : cst_t::get_false()); }
    else if (op == "bassign") { long b = k.nexti(); cst_t cs = parse_cst(c, k); d.assign_bool_cst(c.bv.at(b), cs); }
    else if (op == "bcopy") { long b = k.nexti(), b2 = k.nexti(); d.assign_bool_var(c.bv.at(b), c.bv.at(b2), k.nexti() != 0); }
    else if (op == "bassume") { long b = k.nexti(); d.assume_bool(c.bv.at(b), k.nexti() != 0); }
    else if (op == "ainit") {
      long a = k.nexti(); lin_t es = parse_exp(c, k), lb = parse_exp(c, k), ub = parse_exp(c, k), v = parse_bval(c, k);
      d.array_init(c.ar.at(a), es, lb, ub, v);
    }
    else if (op == "aload") {
      long x = k.nexti(), a = k.nexti(); lin_t es = parse_exp(c, k), ix = parse_exp(c, k);
      d.array_load(c.bv.at(x), c.ar.at(a), es, ix);
    }
    else if (op == "astore") {
      long a = k.nexti(); lin_t es = parse_exp(c, k), ix = parse_exp(c, k), v = parse_bval(c, k); long strong = k.nexti();
      d.array_store(c.ar.at(a), es, ix, v, strong != 0);
    }
    else if (op == "arange") {
      long a = k.nexti(); lin_t es = parse_exp(c, k), lb = parse_exp(c, k), ub = parse_exp(c, k), v = parse_bval(c, k);
      d.array_store_range(c.ar.at(a), es, lb, ub, v);
    }
    else if (op == "acopy") { long l = k.nexti(), rr = k.nexti(); d.array_assign(c.ar.at(l), c.ar.at(rr)); }
    else if (op == "join" || op == "meet" || op == "widen" || op == "narrow" || op == "widenthr" || op == "joinw") {
      long s = k.nexti(), t = k.nexti();
      if (op == "join") { Dom tmp = regs[s] | regs[t]; regs[r] = tmp; }
      else if (op == "joinw") { Dom tmp(regs[s]); tmp |= regs[t]; regs[r] = tmp; }
      else if (op == "meet") { Dom tmp = regs[s] & regs[t]; regs[r] = tmp; }
      else if (op == "widen") { Dom tmp = regs[s] || regs[t]; regs[r] = tmp; }
      else if (op == "narrow") { Dom tmp = regs[s] && regs[t]; regs[r] = tmp; }
      else {
        long n = k.nexti(); crab::thresholds<z_number> ts;
        for (long j = 0; j < n; ++j) ts.add(bound<z_number>(k.nextz()));
        Dom tmp = regs[s].widening_thresholds(regs[t], ts); regs[r] = tmp;
      }
    }
    else return "HARNESS-ERROR " + op;
    emit(show_bool_state(c, regs[r]) + (with_shape ? shape<Dom>::show(c, regs[r]) : std::string()));
  }
  return out;
}

// ---------------------------------------------------------------- cell-algebra unit stream
// cells ; <op> ; ...   on two offset maps m0, m1 and an interval-domain value for the
// symbolic queries.
//   mk m o sz | erase m o sz | remove m o sz | all m | ncells m
//   ov m o sz           get_overlap_cells (sorted)
//   covl co csz rem o sz   cell_t::overlap
//   sym m lo hi sz      get_overlap_cells_symbolic_offset with index i in [lo,hi], range [i, i+sz-1]
//   csym co csz rem lo hi sz  cell_t::symbolic_overlap
//   join m s t | meet m s t | leq s t
//   smash m esz nz      array_state::can_be_smashed(all cells of m, esz, nz)
static std::string show_cells(std::vector<cell_t> v, bool sorted) {
  std::vector<std::pair<std::pair<unsigned long long, unsigned long long>, std::string>> xs;
  for (auto &x : v) xs.push_back({{x.get_offset().index(), x.get_size()}, show_cell(x)});
  if (sorted) std::sort(xs.begin(), xs.end());
  std::string r = "{";
  for (size_t i = 0; i < xs.size(); ++i) { if (i) r += ","; r += xs[i].second; }
  return r + "}";
}
static cell_t mkc(long long o, unsigned long long sz, bool rem) {
  cell_t x(offset_t((index_t)o), sz);
  x.mark_as_removed(rem);
  return x;
}
// covers_all_offsets exists only in the repaired tree: detect it
template <typename D> static auto covers_impl(const std::vector<cell_t> &c, const itv_t &i, unsigned long long e, int)
    -> decltype(D::covers_all_offsets(c, i, e), std::string()) {
  return D::covers_all_offsets(c, i, e) ? "true" : "false";
}
template <typename D> static std::string covers_impl(const std::vector<cell_t> &, const itv_t &, unsigned long long, long) {
  return "absent";
}
static std::string covers(const std::vector<cell_t> &c, const itv_t &i, unsigned long long e) {
  return covers_impl<adapt_itv_t>(c, i, e, 0);
}
static std::string run_cells(const std::vector<std::string> &line) {
  std::vector<std::vector<std::string>> ops(1);
  for (auto &s : line) { if (s == ";") ops.emplace_back(); else ops.back().push_back(s); }
  offset_map_t m[2];
  variable_factory_t vfac;
  z_var iv(vfac["i"], crab::INT_TYPE, 32);
  std::string out;
  auto emit = [&](const std::string &s) { if (!out.empty()) out += " ; "; out += s; };
  for (size_t i = 1; i < ops.size(); ++i) {
    if (ops[i].empty()) continue;
    tok k{ops[i], 0};
    std::string op = k.next();
    if (op == "clear") { long w = k.nexti(); m[w].clear(); emit("{}"); }
    else if (op == "mk") { long w = k.nexti(); long long o = std::stoll(k.next()); unsigned long long sz = std::stoull(k.next()); cell_t x = m[w].mk_cell(offset_t((index_t)o), sz); emit(show_cell(x)); }
    else if (op == "erase") { long w = k.nexti(); long long o = std::stoll(k.next()); unsigned long long sz = std::stoull(k.next()); m[w].erase(mkc(o, sz, false)); emit(show_cells(m[w].get_all_cells(), false)); }
    else if (op == "remove") { long w = k.nexti(); long long o = std::stoll(k.next()); unsigned long long sz = std::stoull(k.next()); m[w].remove(mkc(o, sz, false)); emit(show_cells(m[w].get_all_cells(), false)); }
    else if (op == "all") { long w = k.nexti(); emit(show_cells(m[w].get_all_cells(), false)); }
    else if (op == "ncells") { long w = k.nexti(); emit(std::to_string(m[w].get_number_cells())); }
    else if (op == "ov") {
      long w = k.nexti(); long long o = std::stoll(k.next()); unsigned long long sz = std::stoull(k.next());
      std::vector<cell_t> res; m[w].get_overlap_cells(offset_t((index_t)o), sz, res);
      emit(show_cells(res, true) + "/" + show_cells(m[w].get_all_cells(), false));
    }
    else if (op == "covl") {
      long long co = std::stoll(k.next()); unsigned long long csz = std::stoull(k.next()); long rem = k.nexti();
      long long o = std::stoll(k.next()); unsigned long long sz = std::stoull(k.next());
      emit(mkc(co, csz, rem != 0).overlap(offset_t((index_t)o), sz) ? "true" : "false");
    }
    else if (op == "sym" || op == "csym") {
      long w = 0; long long co = 0; unsigned long long csz = 0; long rem = 0;
      if (op == "sym") w = k.nexti(); else { co = std::stoll(k.next()); csz = std::stoull(k.next()); rem = k.nexti(); }
      std::string lo = k.next(), hi = k.next(); unsigned long long sz = std::stoull(k.next());
      itvdom_t dom;
      if (lo != "-oo") dom += cst_t(lin_t(iv) >= z_number(lo));
      if (hi != "+oo") dom += cst_t(lin_t(iv) <= z_number(hi));
      lin_t slb(iv), sub = lin_t(iv) + z_number((unsigned long)(sz - 1));
      if (op == "sym") {
        std::vector<cell_t> res; m[w].get_overlap_cells_symbolic_offset(dom, slb, sub, res);
        emit(show_cells(res, true));
      } else emit(mkc(co, csz, rem != 0).symbolic_overlap(slb, sub, dom) ? "true" : "false");
    }
    else if (op == "join" || op == "meet") {
      long w = k.nexti(), s = k.nexti(), t = k.nexti();
      offset_map_t res = op == "join" ? (m[s] | m[t]) : (m[s] & m[t]);
      m[w] = res; emit(show_cells(m[w].get_all_cells(), false));
    }
    else if (op == "leq") { long s = k.nexti(), t = k.nexti(); emit(m[s] <= m[t] ? "true" : "false"); }
    else if (op == "dstore" || op == "dload") {
      // decision of array_store / array_load on a hand-built value: the array has the
      // offset map m[w], is smashed or not, and the index is a variable in [lo, hi].
      //   dstore|dload w S N C M smashed esz_state lo hi esz
      long w = k.nexti();
      bool S = k.nexti() != 0, N = k.nexti() != 0; unsigned C = k.nexti(), M = k.nexti();
      crab::domains::array_adaptive_domain_params ap(S, N, C, M);
      crab::domains::crab_domain_params_man::get().update_params(ap);
      bool sm = k.nexti() != 0; std::string es = k.next();
      std::string lo = k.next(), hi = k.next(); unsigned long long esz = std::stoull(k.next());
      z_var a(vfac["A"], crab::ARR_INT_TYPE, 8 * esz), x(vfac["x"], crab::INT_TYPE, 8 * esz);
      adapt_itv_t d;
      if (lo != "-oo") d += cst_t(lin_t(iv) >= z_number(lo));
      if (hi != "+oo") d += cst_t(lin_t(iv) <= z_number(hi));
      typedef adapt_itv_t::array_state as_t;
      crab::domains::array_adaptive_impl::constant_value cv = es == "T" ? crab::domains::array_adaptive_impl::constant_value::top()
            : crab::domains::array_adaptive_impl::constant_value((int64_t)std::stoll(es));
      as_t st(bool(sm), std::move(cv), offset_map_t(m[w]));
      d.m_array_map.set(a, st);
      for (auto &c : m[w].get_all_cells()) d.m_cell_ghost_man.get_or_insert_ghost(a, c);
      if (op == "dstore") d.array_store(a, lin_t(z_number((long)esz)), lin_t(iv), lin_t(z_number(7)), false);
      else d.array_load(x, a, lin_t(z_number((long)esz)), lin_t(iv));
      const as_t *r = d.m_array_map.find(a);
      std::string o2;
      if (!r) o2 = "none";
      else if (r->is_smashed()) { crab::crab_string_os os; r->get_element_sz().write(os); o2 = "S" + os.str(); }
      else o2 = show_cells(r->get_offset_map().get_all_cells(), false);
      emit(o2);
    }
    else if (op == "asjoin" || op == "asmeet") {
      // array_state::join / meet of (m[0], smashed sx, element size ex) and (m[1], sy, ey);
      // the first n0 (n1) cells of m[0] (m[1]) have ghost variables.
      //   asjoin N C M sx ex sy ey n0 n1
      bool N = k.nexti() != 0; unsigned C = k.nexti(), M = k.nexti();
      crab::domains::array_adaptive_domain_params ap(true, N, C, M);
      crab::domains::crab_domain_params_man::get().update_params(ap);
      typedef adapt_itv_t::array_state as_t;
      typedef crab::domains::array_adaptive_impl::constant_value cv_t;
      bool sx = k.nexti() != 0; std::string ex = k.next(); bool sy = k.nexti() != 0; std::string ey = k.next();
      long n0 = k.nexti(), n1 = k.nexti();
      auto mkcv = [](const std::string &e) { return e == "T" ? cv_t::top() : cv_t((int64_t)std::stoll(e)); };
      z_var a(vfac["A"], crab::ARR_INT_TYPE, 32);
      as_t X(bool(sx), mkcv(ex), offset_map_t(m[0])), Y(bool(sy), mkcv(ey), offset_map_t(m[1]));
      adapt_itv_t::cell_ghost_man_t g0, g1;
      adapt_itv_t::base_domain_t b0, b1;
      long j = 0; for (auto &c : m[0].get_all_cells()) { if (j++ < n0) g0.get_or_insert_ghost(a, c); }
      j = 0; for (auto &c : m[1].get_all_cells()) { if (j++ < n1) g1.get_or_insert_ghost(a, c); }
      as_t R = op == "asjoin" ? X.join(a, Y, g0, b0, g1, b1) : X.meet(a, Y, g0, b0, g1, b1);
      crab::crab_string_os os; R.get_element_sz().write(os);
      emit(std::string(R.is_smashed() ? "S" : "N") + os.str() + show_cells(R.get_offset_map().get_all_cells(), false));
    }
    else if (op == "cover") {
      // covers_all_offsets(all cells of m[w], [lo,hi], esz): only with fixes/arrays-5
      long w = k.nexti(); std::string lo = k.next(), hi = k.next(); unsigned long long esz = std::stoull(k.next());
      itv_t ii(lo == "-oo" ? bound<z_number>::minus_infinity() : bound<z_number>(z_number(lo)),
               hi == "+oo" ? bound<z_number>::plus_infinity() : bound<z_number>(z_number(hi)));
      emit(covers(m[w].get_all_cells(), ii, esz));
    }
    else if (op == "smash") {
      long w = k.nexti(); unsigned long long esz = std::stoull(k.next()); long nz = k.nexti();
      emit(adapt_itv_t::array_state::can_be_smashed(m[w].get_all_cells(), esz, nz != 0) ? "true" : "false");
    }
    else return "HARNESS-ERROR " + op;
  }
  return out;
}

static std::string mode = "smash-itv";
static std::string eval(const std::vector<std::string> &t) {
  if (!t.empty() && t[0] == "cells") return run_cells(t);
  if (mode == "smash-itv") return run_history<smash_itv_t>(t);
  if (mode == "smash-zones") return run_history<smash_zones_t>(t);
  if (mode.compare(0, 9, "adapt-itv") == 0) return run_history<adapt_itv_t>(t);
  if (mode.compare(0, 11, "adapt-zones") == 0) return run_history<adapt_zones_t>(t);
  if (mode == "smash-bool") return run_bool_history<smash_bool_t>(t);
  if (mode.compare(0, 10, "adapt-bool") == 0) return run_bool_history<adapt_bool_t>(t);
  return "HARNESS-ERROR mode";
}
int main(int argc, char **argv) {
  crab::CrabEnableWarningMsg(false);
  if (argc > 1 && std::strncmp(argv[1], "--mode=", 7) == 0) {
    mode = argv[1] + 7;
    std::vector<std::string> p = vh::split(mode, ':');
    if (p.size() == 5) {
      crab::domains::array_adaptive_domain_params ap(p[1] == "1", p[2] == "1", std::stoul(p[3]), std::stoul(p[4]));
      crab::domains::crab_domain_params_man::get().update_params(ap);
    }
    return vh::run_cases(argc - 1, argv + 1, eval);
  }
  return vh::run_cases(argc, argv, eval);
}
