// Correspondence harness for C09/C10: top_down_inter_analyzer<call_graph, interval_domain> and
// bottom_up_inter_analyzer<call_graph, BU, interval_domain> (BU = intervals or zones) on textual
// inter-procedural programs (intertext.hpp).
// Options in the header:
//   an=td|bu  mcc=<n>|inf  exact=0|1  rec=0|1  delay= desc= thr=  chk=0|1  budom=itv|zones
//   verd=1 nasserts=<n> props=assert|divzero+assert|assert+divzero   (C02, see below)
// Output:  T0 pre=<s> post=<s> ; ... # T1 ... @ S<f> <pre> => <post> ; ...
//   (tables of get_pre/get_post for every block of every function, then the pre/post pairs of
//   get_summary(f) in their stored order).  States: at(v) for every pool variable, "|"-separated;
//   zones summaries additionally list, after " D ", the interval of vi - vj for all formals i<j.
// With verd=1 the verdicts of the assertion checker are appended: " ; checks=" and then, for the
// assertion ids 1..nasserts in order, "-" if the database has no entry for debug_info("prog",id,0,id),
// otherwise the letters S/W/E/U of get_checks(di) in their stored order followed by ",".
//   top-down:  the checker interleaved with the analysis (run_checker = true), a.get_all_checks()
//   bottom-up: crab::checker::inter_checker over all functions after the analysis, with the property
//              checkers of props= in that order, checker.get_all_checks()
#include "intertext.hpp"
#include <crab/analysis/inter/top_down_inter_analyzer.hpp>
#include <crab/analysis/inter/bottom_up_inter_analyzer.hpp>
#include <crab/checkers/assertion.hpp>
#include <crab/checkers/checker.hpp>
#include <crab/checkers/div_zero.hpp>
#include <crab/cg/cg.hpp>
#include <crab/cg/cg_bgl.hpp>
#include <crab/domains/intervals.hpp>
#include <crab/domains/split_dbm.hpp>
#include <climits>
using namespace intertext;
typedef ikos::interval_domain<ikos::z_number, varname_t> itv_t;
typedef crab::domains::split_dbm_domain<z_number, varname_t> zones_t;
typedef crab::cg::call_graph<z_cfg_ref_t> cg_t;
typedef crab::analyzer::inter_analyzer_parameters<cg_t> params_t;
typedef linear_constraint_system<z_number, varname_t> csts_t;

template <typename T> static std::string str(const T &x) { crab::crab_string_os os; os << x; return os.str(); }
template <typename D> static std::string show_state(iprogram &IP, const D &d) {
  if (d.is_bottom()) return "_|_";
  std::string r;
  for (size_t i = 0; i < IP.P.vars.size(); ++i) { r += (i ? "|" : ""); r += str(d.at(IP.P.vars[i])); }
  return r;
}
static std::string show_diffs(iprogram &IP, const func &F, const zones_t &d) {
  if (d.is_bottom()) return "";
  std::vector<long> fs(F.ins); fs.insert(fs.end(), F.outs.begin(), F.outs.end());
  std::string r = " D";
  z_var tmp(IP.P.vfac["__diff"], crab::INT_TYPE, 32);
  for (size_t i = 0; i < fs.size(); ++i)
    for (size_t j = i + 1; j < fs.size(); ++j) {
      zones_t c(d);
      c.assign(tmp, lin_t(IP.P.vars[fs[i]]) - lin_t(IP.P.vars[fs[j]]));
      r += " " + std::to_string(fs[i]) + "," + std::to_string(fs[j]) + "=" + str(c.at(tmp));
    }
  return r;
}
static std::string show_sum(iprogram &IP, const func &, const itv_t &d) { return show_state(IP, d); }
static std::string show_sum(iprogram &IP, const func &F, const zones_t &d) { return show_state(IP, d) + show_diffs(IP, F, d); }

template <typename Analyzer>
static std::string dump(iprogram &IP, Analyzer &a) {
  std::string out;
  for (size_t f = 0; f < IP.funcs.size(); ++f) {
    func &F = IP.funcs[f];
    if (f) out += " # ";
    out += "T" + std::to_string(f) + " ";
    z_cfg_ref_t ref(*F.cfg);
    for (unsigned i = 0; i < F.nblocks; ++i) {
      if (i) out += " ; ";
      out += "pre=" + show_state(IP, a.get_pre(ref, program::bname(i))) + " post=" + show_state(IP, a.get_post(ref, program::bname(i)));
    }
  }
  out += " @";
  bool first = true;
  for (size_t f = 0; f < IP.funcs.size(); ++f) {
    func &F = IP.funcs[f];
    z_cfg_ref_t ref(*F.cfg);
    auto sum = a.get_summary(ref);
    for (auto it = sum.begin(); it != sum.end(); ++it) {
      out += first ? " " : " ; "; first = false;
      out += "S" + std::to_string(f) + " " + show_sum(IP, F, it->get_pre()) + " => " + show_sum(IP, F, it->get_post());
    }
  }
  return out;
}

static std::string show_checks(iprogram &IP, const crab::checker::checks_db &db) {
  std::string out = " ; checks=";
  for (long id = 1; id <= std::stol(IP.P.opt("nasserts", "0")); ++id) {
    crab::cfg::debug_info di("prog", (unsigned)id, 0, (int64_t)id);
    if (!db.has_checks(di)) { out += "-"; continue; }
    for (auto k : db.get_checks(di))
      out += (k == crab::checker::check_kind::CRAB_SAFE ? "S" : k == crab::checker::check_kind::CRAB_ERR ? "E" :
              k == crab::checker::check_kind::CRAB_WARN ? "W" : "U");
    out += ",";
  }
  return out;
}
// bottom-up: the stand-alone inter-procedural checker with the property checkers of props=
template <typename Analyzer>
static std::string bu_checks(iprogram &IP, Analyzer &a) {
  typedef crab::checker::inter_checker<Analyzer> checker_t;
  typename checker_t::prop_checker_vector props;
  std::string ps = IP.P.opt("props", "assert");
  size_t p = 0;
  while (p <= ps.size()) {
    size_t e = ps.find('+', p);
    if (e == std::string::npos) e = ps.size();
    std::string name = ps.substr(p, e - p);
    if (name == "assert") props.push_back(typename checker_t::prop_checker_ptr(new crab::checker::assert_property_checker<Analyzer>(0)));
    else if (name == "divzero") props.push_back(typename checker_t::prop_checker_ptr(new crab::checker::div_zero_property_checker<Analyzer>(0)));
    else return " ; checks=HARNESS-ERROR";
    p = e + 1;
  }
  checker_t checker(a, props);
  checker.run();
  return show_checks(IP, checker.get_all_checks());
}

static std::string eval(const std::vector<std::string> &line) {
  iprogram IP;
  if (!parse_iprogram(line, IP)) return "HARNESS-ERROR";
  itv_t init;
  for (auto &s : IP.init_sec) { tok k{s, 0}; csts_t cs; while (k.more()) cs += parse_cst(IP.P, k); init += cs; }
  std::vector<z_cfg_ref_t> cfgs;
  for (auto &F : IP.funcs) cfgs.push_back(z_cfg_ref_t(*F.cfg));
  cg_t cg(cfgs);
  params_t params;
  bool verd = IP.P.opt("verd", "0") == "1";
  params.run_checker = verd || IP.P.opt("chk", "0") == "1";
  params.widening_delay = std::stoul(IP.P.opt("delay", "2"));
  params.descending_iters = std::stoul(IP.P.opt("desc", "2"));
  params.thresholds_size = std::stoul(IP.P.opt("thr", "0"));
  std::string mcc = IP.P.opt("mcc", "inf");
  params.max_call_contexts = (mcc == "inf") ? UINT_MAX : (unsigned)std::stoul(mcc);
  params.exact_summary_reuse = IP.P.opt("exact", "1") == "1";
  params.analyze_recursive_functions = IP.P.opt("rec", "0") == "1";
  std::string an = IP.P.opt("an", "td");
  if (an == "td") {
    itv_t top;
    crab::analyzer::top_down_inter_analyzer<cg_t, itv_t> a(cg, top, params);
    a.run(init);
    return dump(IP, a) + (verd ? show_checks(IP, a.get_all_checks()) : std::string());
  } else if (IP.P.opt("budom", "itv") == "itv") {
    itv_t td_top, bu_top;
    crab::analyzer::bottom_up_inter_analyzer<cg_t, itv_t, itv_t> a(cg, td_top, bu_top, params);
    a.run(init);
    return dump(IP, a) + (verd ? bu_checks(IP, a) : std::string());
  } else {
    itv_t td_top; zones_t bu_top;
    crab::analyzer::bottom_up_inter_analyzer<cg_t, zones_t, itv_t> a(cg, td_top, bu_top, params);
    a.run(init);
    return dump(IP, a) + (verd ? bu_checks(IP, a) : std::string());
  }
}
int main(int argc, char **argv) { crab::CrabEnableWarningMsg(false); return vh::run_cases(argc, argv, eval); }
