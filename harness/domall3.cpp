// Witness-search harness, part 3 of 3 (C03/C04/C05/C16): operation histories
// (harness/domhist.hpp) on the non-relational and the combined native domains.
// --mode=<name>:
//   disitv      dis_interval_domain
//   cong        congruence_domain
//   ric         numerical_congruence_domain<interval_domain>
//   sign, const, signconst   sign_domain, constant_domain, sign_constant_domain
//   prod-ic     reduced_numerical_domain_product2<interval_domain, congruence_domain>
//   bool-itv    flat_boolean_numerical_domain<interval_domain>
//   bool-sparse flat_boolean_numerical_domain<sparse_dbm_domain>   (z_bool_num_domain_t)
//   pow-itv     powerset_domain<interval_domain>
//   pow-zones   powerset_domain<split_dbm>
//   pow-bool    powerset_domain<flat_boolean_numerical_domain<interval_domain>>   (boolean sub-stream only)
// Release configuration (the default CMAKE_BUILD_TYPE of crab): assert() is compiled out.
// With assertions on, split_oct aborts on `top || x` (assert(left.m_potential.size() > 0)).
#ifndef NDEBUG
#define NDEBUG
#endif
#include "domhist.hpp"
#include <crab/domains/intervals.hpp>
#include <crab/domains/split_dbm.hpp>
#include <crab/domains/sparse_dbm.hpp>
#include <crab/domains/dis_intervals.hpp>
#include <crab/domains/combined_domains.hpp>
#include <crab/domains/combined_congruences.hpp>
#include <crab/domains/constant_domain.hpp>
#include <crab/domains/sign_domain.hpp>
#include <crab/domains/sign_constant_domain.hpp>
#include <crab/domains/flat_boolean_domain.hpp>
#include <crab/domains/powerset_domain.hpp>
#include <cstring>
using namespace crab::domains;
using namespace crab::cfg_impl;
using namespace ikos;
typedef interval_domain<z_number, varname_t> itv_t;
typedef DBM_impl::DefaultParams<z_number, DBM_impl::GraphRep::adapt_ss> gp_t;
typedef split_dbm_domain<z_number, varname_t, gp_t> zones_t;
typedef sparse_dbm_domain<z_number, varname_t, gp_t> sparse_t;
typedef dis_interval_domain<z_number, varname_t> disitv_t;
typedef congruence_domain<z_number, varname_t> cong_t;
typedef numerical_congruence_domain<itv_t> ric_t;
typedef sign_domain<z_number, varname_t> sign_t;
typedef constant_domain<z_number, varname_t> const_t;
typedef sign_constant_domain<z_number, varname_t> signconst_t;
typedef flat_boolean_numerical_domain<itv_t> bool_itv_t;
typedef flat_boolean_numerical_domain<sparse_t> bool_sparse_t;
typedef reduced_numerical_domain_product2<itv_t, cong_t> prod_ic_t;
typedef powerset_domain<zones_t> pow_zones_t;
typedef powerset_domain<itv_t> pow_itv_t;
typedef powerset_domain<bool_itv_t> pow_bool_t;

static std::string mode = "disitv";
template <typename D> static std::string run(const std::vector<std::string> &t) {
  D top; return domhist::run_history<D>(t, top);
}
static std::string eval(const std::vector<std::string> &t) {
  if (mode == "disitv") return run<disitv_t>(t);
  if (mode == "cong") return run<cong_t>(t);
  if (mode == "ric") return run<ric_t>(t);
  if (mode == "sign") return run<sign_t>(t);
  if (mode == "const") return run<const_t>(t);
  if (mode == "signconst") return run<signconst_t>(t);
  if (mode == "prod-ic") return run<prod_ic_t>(t);
  if (mode == "bool-itv") return run<bool_itv_t>(t);
  if (mode == "bool-sparse") return run<bool_sparse_t>(t);
  if (mode == "pow-itv") return run<pow_itv_t>(t);
  if (mode == "pow-zones") return run<pow_zones_t>(t);
  if (mode == "pow-bool") return run<pow_bool_t>(t);
  return "HARNESS-ERROR unknown mode " + mode;
}
int main(int argc, char **argv) {
  crab::CrabEnableWarningMsg(false);
  if (argc > 1 && std::strncmp(argv[1], "--mode=", 7) == 0) {
    mode = argv[1] + 7;
    return vh::run_cases(argc - 1, argv + 1, eval);
  }
  return vh::run_cases(argc, argv, eval);
}
