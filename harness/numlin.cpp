// Correspondence harness for the numlin family (property C20): ikos::z_number,
// ikos::q_number, crab::safe_i64, ikos::linear_expression / linear_constraint /
// linear_constraint_system over z_number.  Case grammar: see gen/numlin.py.
// CRAB_ERROR calls exit(1): the orchestrator records ABORT for that case.
#include "hcommon.hpp"
#include <algorithm>
#include <cmath>
#include <cstdint>
#include <functional>
#include <limits>
#include <map>
#include <memory>
#include <unordered_map>
#include <unordered_set>
#include <boost/container/flat_map.hpp>
#include <boost/functional/hash.hpp>
#include <boost/iterator/transform_iterator.hpp>
#include <boost/optional.hpp>
#include <boost/range/iterator_range.hpp>
#include <gmp.h>
#include <crab/numbers/bignums.hpp>
#include <crab/support/debug.hpp>
#include <crab/support/os.hpp>
// safe_i64::checked_* are private statics (members before the first access specifier of
// a class): reach them in this translation unit only.  All standard / boost headers and
// bignums.hpp are already included above, so the macro touches safeint.hpp alone.
#define class struct
#include <crab/numbers/safeint.hpp>
#undef class
#include <crab/types/linear_constraints.hpp>
#include <crab/types/variable.hpp>
#include <crab/types/varname_factory.hpp>

namespace crab {
// same client-side definition as tests/crab_lang.hpp
template <> class variable_name_traits<std::string> {
public:
  static std::string to_string(std::string varname) { return varname; }
};
} // namespace crab

using namespace ikos;
typedef crab::var_factory_impl::str_variable_factory variable_factory_t;
typedef typename variable_factory_t::varname_t varname_t;
typedef crab::variable<z_number, varname_t> z_var;
typedef linear_expression<z_number, varname_t> lin_t;
typedef linear_constraint<z_number, varname_t> cst_t;
typedef linear_constraint_system<z_number, varname_t> sys_t;
typedef std::vector<std::string> toks;

static std::string sb(bool b) { return b ? "true" : "false"; }
template <typename T> static std::string str(const T &x) {
  crab::crab_string_os os; os << x; return os.str();
}
static bool is_int(const std::string &s) {
  size_t st = (!s.empty() && s[0] == '-') ? 1 : 0;
  if (s.size() <= st) return false;
  for (size_t i = st; i < s.size(); ++i) if (s[i] < '0' || s[i] > '9') return false;
  return true;
}
static z_number zp(const std::string &s) {
  if (!is_int(s)) { std::cout << "HARNESS-ERROR bad integer\n"; std::abort(); }
  return z_number(s);
}
template <typename N> static std::string cmp6(const N &a, const N &b) {
  return sb(a < b) + " " + sb(a <= b) + " " + sb(a > b) + " " + sb(a >= b) + " " + sb(a == b) +
         " " + sb(a != b);
}

// ------------------------------------------------------------------ z_number
static std::string eval_z(const toks &t) {
  const std::string &op = t[1];
  if (t.size() == 4 && op != "tostr" && op != "parse" && op != "toraw" && op != "fromraw") {
    z_number a = zp(t[2]), b = zp(t[3]);
    if (op == "add") return str(a + b);
    if (op == "sub") return str(a - b);
    if (op == "mul") return str(a * b);
    if (op == "div") return str(a / b);
    if (op == "rem") return str(a % b);
    if (op == "and") return str(a & b);
    if (op == "or") return str(a | b);
    if (op == "xor") return str(a ^ b);
    if (op == "shl") return str(a << b);
    if (op == "shr") return str(a >> b);
    if (op == "adda") { a += b; return str(a); }
    if (op == "suba") { a -= b; return str(a); }
    if (op == "mula") { a *= b; return str(a); }
    if (op == "diva") { a /= b; return str(a); }
    if (op == "rema") { a %= b; return str(a); }
    if (op == "cmp") return cmp6(a, b);
    return "HARNESS-ERROR";
  }
  if (t.size() == 3) {
    if (op == "fromi64") {   // z_number(int64_t)
      int64_t n = (int64_t)std::strtoll(t[2].c_str(), nullptr, 10);
      return z_number(n).get_str();
    }
    if (op == "fromu64") {   // z_number::from_uint64(uint64_t)
      uint64_t n = (uint64_t)std::strtoull(t[2].c_str(), nullptr, 10);
      return z_number::from_uint64(n).get_str();
    }
    z_number a = zp(t[2]);
    if (op == "neg") return str(-a);
    if (op == "inc") { ++a; return str(a); }
    if (op == "dec") { --a; return str(a); }
    if (op == "pinc") { z_number o = a++; return str(o) + " " + str(a); }
    if (op == "pdec") { z_number o = a--; return str(o) + " " + str(a); }
    if (op == "fill") return str(a.fill_ones());
    if (op == "fits") return sb(a.fits_int64());
    if (op == "toi64") { int64_t n = static_cast<int64_t>(a); return std::to_string((long long)n); }
    return "HARNESS-ERROR";
  }
  if (op == "tostr") return zp(t[3]).get_str((unsigned)std::atoi(t[2].c_str()));
  if (op == "parse") return z_number(t[3], (unsigned)std::atoi(t[2].c_str())).get_str();
  if (op == "toraw") {
    z_number a = zp(t[3]);
    size_t n = 0; bool sign = false;
    uint64_t *w = a.to_raw_data(n, sign, t[2] == "1");
    std::string r = sign ? "+" : "-";
    for (size_t i = 0; i < n; ++i) r += " " + std::to_string((unsigned long long)w[i]);
    return r;
  }
  if (op == "fromraw") {
    std::vector<uint64_t> w;
    if (t[3] != "-")
      for (const std::string &s : vh::split(t[3], ','))
        w.push_back((uint64_t)std::strtoull(s.c_str(), nullptr, 10));
    return z_number::from_raw_data(w.data(), w.size(), t[2] == "1").get_str();
  }
  return "HARNESS-ERROR";
}

// ------------------------------------------------------------------ q_number
static std::string qstr(const q_number &q) { return str(q.numerator()) + "/" + str(q.denominator()); }
static std::string eval_q(const toks &t) {
  const std::string &op = t[1];
  if (op == "mk") return qstr(q_number(t[2]));
  if (op == "mk2") return qstr(q_number(zp(t[2]), zp(t[3])));
  if (op == "ofz") return qstr(q_number(zp(t[2])));
  if (op == "fromd") {
    double d = std::ldexp((double)std::strtoll(t[2].c_str(), nullptr, 10), std::atoi(t[3].c_str()));
    return qstr(q_number(d));
  }
  if (t.size() == 4) {
    q_number a(t[2]), b(t[3]);
    if (op == "add") return qstr(a + b);
    if (op == "sub") return qstr(a - b);
    if (op == "mul") return qstr(a * b);
    if (op == "div") return qstr(a / b);
    if (op == "adda") { a += b; return qstr(a); }
    if (op == "suba") { a -= b; return qstr(a); }
    if (op == "mula") { a *= b; return qstr(a); }
    if (op == "diva") { a /= b; return qstr(a); }
    if (op == "cmp") return cmp6(a, b);
    if (op == "shl") return qstr(a << b);
    return "HARNESS-ERROR";
  }
  if (t.size() == 3) {
    q_number a(t[2]);
    if (op == "neg") return qstr(-a);
    if (op == "inc") { ++a; return qstr(a); }
    if (op == "dec") { --a; return qstr(a); }
    if (op == "pinc") { q_number o = a++; return qstr(o) + " " + qstr(a); }
    if (op == "pdec") { q_number o = a--; return qstr(o) + " " + qstr(a); }
    if (op == "num") return str(a.numerator());
    if (op == "den") return str(a.denominator());
    if (op == "up") return str(a.round_to_upper());
    if (op == "lo") return str(a.round_to_lower());
    if (op == "str") return a.get_str();
  }
  return "HARNESS-ERROR";
}

// ------------------------------------------------------------------ safe_i64
static int64_t i64(const std::string &s) { return (int64_t)std::strtoll(s.c_str(), nullptr, 10); }
static std::string eval_s(const toks &t) {
  using crab::safe_i64;
  const std::string &op = t[1];
  if (t.size() == 4) {
    int64_t x = i64(t[2]), y = i64(t[3]);
    safe_i64 a(x), b(y);
    int64_t r = 0; int f = 0;
    if (op == "add") return str(a + b);
    if (op == "sub") return str(a - b);
    if (op == "mul") return str(a * b);
    if (op == "div") return str(a / b);
    if (op == "adda") { a += b; return str(a); }
    if (op == "suba") { a -= b; return str(a); }
    if (op == "cadd") { f = safe_i64::checked_add(x, y, &r); return std::to_string((long long)r) + " " + std::to_string(f); }
    if (op == "csub") { f = safe_i64::checked_sub(x, y, &r); return std::to_string((long long)r) + " " + std::to_string(f); }
    if (op == "cmul") { f = safe_i64::checked_mul(x, y, &r); return std::to_string((long long)r) + " " + std::to_string(f); }
    if (op == "cdiv") { f = safe_i64::checked_div(x, y, &r); return std::to_string((long long)r) + " " + std::to_string(f); }
    if (op == "cmp") return cmp6(a, b);
    return "HARNESS-ERROR";
  }
  if (op == "neg") return str(-safe_i64(i64(t[2])));
  if (op == "ofz") return str(safe_i64(zp(t[2])));
  return "HARNESS-ERROR";
}

// ------------------------------------------------------------------ linear expressions
static variable_factory_t *vfac;
static std::vector<z_var> vars;   // vars[k] = v(k+1); index() follows creation order
static void init_vars() {
  vfac = new variable_factory_t();
  for (int k = 1; k <= 8; ++k) {
    varname_t n = (*vfac)["v" + std::to_string(k)];
    if (k == 5) vars.push_back(z_var(n, crab::INT_TYPE, 64));
    else if (k == 6) vars.push_back(z_var(n, crab::BOOL_TYPE, 1));
    else if (k == 7) vars.push_back(z_var(n, crab::REAL_TYPE, 0));
    else vars.push_back(z_var(n, crab::INT_TYPE, 32));
  }
}
static z_var var_of(const std::string &s) {
  int k = std::atoi(s.c_str());
  if (k < 1 || k > 8) { std::cout << "HARNESS-ERROR bad variable\n"; std::abort(); }
  return vars[k - 1];
}
static std::string vname(const z_var &v) {
  for (size_t k = 0; k < vars.size(); ++k) if (vars[k].index() == v.index()) return "v" + std::to_string(k + 1);
  return "v?";
}
// first term via linear_expression(n, x), the others added with operator+(expression),
// the constant with operator+(Number)
static lin_t parse_expr(const std::string &s) {
  size_t k = s.find(':');
  toks ts = vh::split(s.substr(0, k), ',');
  z_number c = zp(s.substr(k + 1));
  if (ts.empty()) return lin_t(c);
  bool first = true;
  lin_t e;
  for (const std::string &tm : ts) {
    size_t x = tm.find('x');
    z_number n = zp(tm.substr(0, x));
    z_var v = var_of(tm.substr(x + 1));
    if (first) { e = lin_t(n, v); first = false; }
    else e = e + lin_t(n, v);
  }
  return e + c;
}
static std::string estr(const lin_t &e) {
  std::string r;
  for (auto it = e.begin(); it != e.end(); ++it) r += str((*it).first) + "*" + vname((*it).second) + " ";
  return r + "| " + str(e.constant());
}
static std::map<z_var, z_var> parse_map(const std::string &s) {
  std::map<z_var, z_var> m;
  if (s == "-") return m;
  for (const std::string &p : vh::split(s, ',')) {
    size_t k = p.find('>');
    z_var a = var_of(p.substr(0, k)), b = var_of(p.substr(k + 1));
    if (m.find(a) == m.end()) m.insert(std::make_pair(a, b));   // first binding wins, as in the model
  }
  return m;
}
static std::string eval_le(const toks &t) {
  const std::string &op = t[1];
  if (op == "build") return estr(parse_expr(t[2]));
  if (op == "term") return estr(lin_t(zp(t[2]), var_of(t[3])));
  if (op == "var") return estr(lin_t(var_of(t[2])));
  if (op == "add") return estr(parse_expr(t[2]) + parse_expr(t[3]));
  if (op == "sub") return estr(parse_expr(t[2]) - parse_expr(t[3]));
  if (op == "scale") return estr(parse_expr(t[2]) * zp(t[3]));
  if (op == "neg") return estr(-parse_expr(t[2]));
  if (op == "addk") return estr(parse_expr(t[2]) + zp(t[3]));
  if (op == "subk") return estr(parse_expr(t[2]) - zp(t[3]));
  if (op == "ksub") return estr(zp(t[2]) - parse_expr(t[3]));
  if (op == "addv") return estr(parse_expr(t[2]) + var_of(t[3]));
  if (op == "subv") return estr(parse_expr(t[2]) - var_of(t[3]));
  if (op == "coef") return str(parse_expr(t[2])[var_of(t[3])]);
  if (op == "rename") return estr(parse_expr(t[2]).rename(parse_map(t[3])));
  if (op == "isconst") return sb(parse_expr(t[2]).is_constant());
  if (op == "const") return str(parse_expr(t[2]).constant());
  if (op == "size") return std::to_string(parse_expr(t[2]).size());
  if (op == "vars") {
    std::string r; lin_t e = parse_expr(t[2]);
    for (auto v : e.variables()) r += (r.empty() ? "" : " ") + vname(v);
    return r;
  }
  if (op == "getvar") { auto v = parse_expr(t[2]).get_variable(); return v ? vname(*v) : std::string("none"); }
  if (op == "equal") return sb(parse_expr(t[2]).equal(parse_expr(t[3])));
  if (op == "lex") return sb(parse_expr(t[2]).lexicographical_compare(parse_expr(t[3])));
  if (op == "welltyped") return sb(parse_expr(t[2]).is_well_typed());
  return "HARNESS-ERROR";
}

// ------------------------------------------------------------------ constraints
static cst_t::kind_t parse_kind(const std::string &k) {
  if (k == "EQ") return cst_t::EQUALITY;
  if (k == "NE") return cst_t::DISEQUATION;
  if (k == "LE") return cst_t::INEQUALITY;
  return cst_t::STRICT_INEQUALITY;
}
static std::string cstr(const cst_t &c) {
  const char *k = c.is_equality() ? "EQ" : c.is_disequation() ? "NE" : c.is_inequality() ? "LE" : "LT";
  return std::string(k) + ": " + estr(c.expression());
}
static cst_t mkc(const std::string &k, const std::string &e) { return cst_t(parse_expr(e), parse_kind(k)); }
static std::string eval_lc(const toks &t) {
  const std::string &op = t[1];
  if (op == "true") return cstr(cst_t::get_true());
  if (op == "false") return cstr(cst_t::get_false());
  if (op == "mk") {
    lin_t a = parse_expr(t[3]), b = parse_expr(t[4]);
    const std::string &rel = t[2];
    if (rel == "le") return cstr(a <= b);
    if (rel == "ge") return cstr(a >= b);
    if (rel == "lt") return cstr(a < b);
    if (rel == "gt") return cstr(a > b);
    if (rel == "eq") return cstr(a == b);
    if (rel == "ne") return cstr(a != b);
    return "HARNESS-ERROR";
  }
  cst_t c = mkc(t[2], t[3]);
  if (op == "negate") return cstr(c.negate());
  if (op == "negneg") return cstr(c.negate().negate());
  if (op == "taut") return sb(c.is_tautology());
  if (op == "contr") return sb(c.is_contradiction());
  if (op == "s2ns") {
    if (!c.is_strict_inequality()) std::exit(1);   // the C++ asserts the kind
    return cstr(linear_constraint_impl::strict_to_non_strict_inequality(c));
  }
  if (op == "const") return str(c.constant());
  if (op == "size") return std::to_string(c.size());
  if (op == "coef") return str(c[var_of(t[4])]);
  if (op == "rename") return cstr(c.rename(parse_map(t[4])));
  if (op == "equal") return sb(c.equal(mkc(t[4], t[5])));
  if (op == "lex") return sb(c.lexicographical_compare(mkc(t[4], t[5])));
  if (op == "welltyped") return sb(c.is_well_typed());
  return "HARNESS-ERROR";
}

// ------------------------------------------------------------------ systems
static sys_t parse_sys(const std::string &s) {
  sys_t r;
  if (s == "-") return r;
  for (const std::string &c : vh::split(s, ';')) {
    size_t k = c.find('@');
    r += mkc(c.substr(0, k), c.substr(k + 1));
  }
  return r;
}
static std::string sstr(const sys_t &s) {
  std::string r;
  for (auto it = s.begin(); it != s.end(); ++it) r += (r.empty() ? "" : " ; ") + cstr(*it);
  return r.empty() ? "{}" : r;
}
static std::string eval_ls(const toks &t) {
  const std::string &op = t[1];
  if (op == "build") return sstr(parse_sys(t[2]));
  if (op == "normalize") return sstr(parse_sys(t[2]).normalize());
  if (op == "isfalse") return sb(parse_sys(t[2]).is_false());
  if (op == "istrue") return sb(parse_sys(t[2]).is_true());
  if (op == "size") return std::to_string(parse_sys(t[2]).size());
  if (op == "plus") return sstr(parse_sys(t[2]) + parse_sys(t[3]));
  if (op == "addsys") { sys_t a = parse_sys(t[2]); a += parse_sys(t[3]); return sstr(a); }
  return "HARNESS-ERROR";
}

static std::string eval(const toks &t) {
  if (t.size() < 2) return "HARNESS-ERROR";
  if (t[0] == "z") return eval_z(t);
  if (t[0] == "q") return eval_q(t);
  if (t[0] == "s") return eval_s(t);
  if (t[0] == "le") return eval_le(t);
  if (t[0] == "lc") return eval_lc(t);
  if (t[0] == "ls") return eval_ls(t);
  return "HARNESS-ERROR";
}
int main(int argc, char **argv) {
  crab::CrabEnableWarningMsg(false);
  init_vars();
  return vh::run_cases(argc, argv, eval);
}
