// Correspondence harness: ikos::interval<z_number> (scalar family).
#include <crab/domains/interval.hpp>
#include <crab/numbers/bignums.hpp>
#include <crab/support/os.hpp>
#include "hcommon.hpp"
using namespace ikos;
typedef interval<z_number> I;
typedef bound<z_number> B;

static B parse_bound(const std::string &s) {
  if (s == "-oo") return B::minus_infinity();
  if (s == "+oo") return B::plus_infinity();
  return B(z_number(s));
}
static I parse_itv(const std::string &s) {
  if (s == "bot") return I::bottom();
  size_t k = s.find(':');
  return I(parse_bound(s.substr(0, k)), parse_bound(s.substr(k + 1)));
}
template <typename T> static std::string str(const T &x) {
  crab::crab_string_os os; os << x; return os.str();
}
static std::string sb(bool b) { return b ? "true" : "false"; }

static std::string eval(const std::vector<std::string> &t) {
  if (t.size() < 3 || t[0] != "itv") return "HARNESS-ERROR";
  const std::string &op = t[1];
  I a = parse_itv(t[2]);
  if (t.size() == 3) {
    if (op == "neg") return str(-a);
    if (op == "lower") return str(a.lower_half_line());
    if (op == "upper") return str(a.upper_half_line());
    if (op == "isbot") return sb(a.is_bottom());
    if (op == "istop") return sb(a.is_top());
    if (op == "singleton") { auto s = a.singleton(); return s ? str(*s) : std::string("none"); }
    return "HARNESS-ERROR";
  }
  if (op == "mem") return sb(a[z_number(t[3])]);
  I b = parse_itv(t[3]);
  if (op == "add") return str(a + b);
  if (op == "sub") return str(a - b);
  if (op == "mul") return str(a * b);
  if (op == "div") return str(a / b);
  if (op == "srem") return str(a.SRem(b));
  if (op == "urem") return str(a.URem(b));
  if (op == "udiv") return str(a.UDiv(b));
  if (op == "and") return str(a.And(b));
  if (op == "or") return str(a.Or(b));
  if (op == "xor") return str(a.Xor(b));
  if (op == "shl") return str(a.Shl(b));
  if (op == "ashr") return str(a.AShr(b));
  if (op == "lshr") return str(a.LShr(b));
  if (op == "join") return str(a | b);
  if (op == "meet") return str(a & b);
  if (op == "widen") return str(a || b);
  if (op == "narrow") return str(a && b);
  if (op == "trim") return str(linear_interval_solver_impl::trim_interval(a, b));
  if (op == "leq") return sb(a <= b);
  if (op == "eq") return sb(a == b);
  return "HARNESS-ERROR";
}
int main(int argc, char **argv) { return vh::run_cases(argc, argv, eval); }
