// C11 oracle-only streams, part 2: the backward (necessary preconditions) analysis over octagons and the term domains.
// --mode=<name>:
//   oct         split_oct_domain, DefaultParams
//   term-itv    term_domain over interval_domain
//   term-zones  term_domain over split_dbm_domain
// See bwddoms.hpp for the protocol.
#ifndef NDEBUG
#define NDEBUG
#endif
#include "bwddoms.hpp"
#include <crab/domains/intervals.hpp>
#include <crab/domains/split_dbm.hpp>
#include <crab/domains/split_oct.hpp>
#include <crab/domains/term_equiv.hpp>
using namespace crab::domains;
using namespace bwddoms;
typedef interval_domain<z_number, varname_t> itv_t;
typedef DBM_impl::DefaultParams<z_number, DBM_impl::GraphRep::adapt_ss> gp_t;
typedef split_dbm_domain<z_number, varname_t, gp_t> zones_t;
typedef split_oct_domain<z_number, varname_t, gp_t> oct_t;
typedef term_domain<term::TDomInfo<z_number, varname_t, itv_t>> term_itv_t;
typedef term_domain<term::TDomInfo<z_number, varname_t, zones_t>> term_zones_t;

static std::string dispatch(const std::vector<std::string> &t) {
  const std::string &m = bwddoms::mode;
  if (m == "oct") return bwddoms::eval<oct_t>(t, oct_t());
  if (m == "term-itv") return bwddoms::eval<term_itv_t>(t, term_itv_t());
  if (m == "term-zones") return bwddoms::eval<term_zones_t>(t, term_zones_t());
  return "HARNESS-ERROR unknown mode " + m;
}
int main(int argc, char **argv) { return bwddoms::main_with(argc, argv, dispatch); }
