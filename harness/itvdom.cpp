// Correspondence harness: ikos::interval_domain<z_number> under operation histories.
#include "domhist.hpp"
#include <crab/domains/intervals.hpp>
typedef ikos::interval_domain<ikos::z_number, crab::cfg_impl::varname_t> dom_t;
static std::string eval(const std::vector<std::string> &t) { return domhist::run_history<dom_t>(t); }
int main(int argc, char **argv) {
  crab::CrabEnableWarningMsg(false);
  return vh::run_cases(argc, argv, eval);
}
