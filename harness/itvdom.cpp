// Correspondence harness: ikos::interval_domain<z_number> under operation histories,
// directly (--mode=plain), through the type-erased wrapper abstract_domain (--mode=gen)
// and through the copy-on-write wrapper abstract_domain_ref (--mode=ref).
#include "domhist.hpp"
#include <crab/domains/intervals.hpp>
#include <crab/domains/generic_abstract_domain.hpp>
#include <cstring>
typedef ikos::interval_domain<ikos::z_number, crab::cfg_impl::varname_t> dom_t;
typedef crab::domains::abstract_domain<crab::cfg_impl::z_var> gen_t;
typedef crab::domains::abstract_domain_ref<crab::cfg_impl::z_var> ref_t;
static int mode = 0;
static std::string eval(const std::vector<std::string> &t) {
  dom_t top;
  if (mode == 1) { gen_t g(top); return domhist::run_history<gen_t>(t, g); }
  if (mode == 2) { ref_t r(top); return domhist::run_history<ref_t>(t, r); }
  return domhist::run_history<dom_t>(t, top);
}
int main(int argc, char **argv) {
  crab::CrabEnableWarningMsg(false);
  if (argc > 1 && std::strncmp(argv[1], "--mode=", 7) == 0) {
    mode = std::strcmp(argv[1] + 7, "gen") == 0 ? 1 : std::strcmp(argv[1] + 7, "ref") == 0 ? 2 : 0;
    return vh::run_cases(argc - 1, argv + 1, eval);
  }
  return vh::run_cases(argc, argv, eval);
}
