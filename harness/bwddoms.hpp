// Shared part of harness/bwddoms{1,2,3}.cpp (C11, oracle-only streams bwd-<dom>-oracle):
// necessary_preconditions_fixpoint_iterator<cfg_ref, Dom> (optionally refined with the invariants
// of intra_fwd_analyzer<cfg_ref, Dom>) on textual CFG programs (cfgtext.hpp), for a domain chosen
// with --mode=<dom>.  Same header options, sections and output format as harness/bwditv.cpp
// (without its fb=1 part):
//   mode=error|good  fwd=0|1 (supply forward invariants)  delay=  desc=;   G <C> <C> ...  final
//   states at the exit block (good mode);   output per block: finv=<state> pre=<state>,
//   then " ; csts=<constraints of pre(b0)> || <constraints of pre(b1)> || ..."
// The states are printed through the domain's at(v): the interval of every integer variable (what
// cfgprog.oracle_bwd needs); the csts part is the precondition's to_linear_constraint_system().  Release configuration (assert() compiled out), as
// harness/fwddoms*.cpp.
#pragma once
#include "cfgtext.hpp"
#include <crab/analysis/fwd_analyzer.hpp>
#include <crab/analysis/bwd_analyzer.hpp>
#include <cstring>
#include <unordered_map>

namespace bwddoms {
using namespace cfgtext;
typedef linear_constraint_system<z_number, varname_t> csts_t;

template <typename T> static std::string str(const T &x) { crab::crab_string_os os; os << x; return os.str(); }

template <typename Dom> static std::string show_state(program &P, const Dom &d0) {
  Dom d(d0);
  if (d.is_bottom()) return "_|_";
  std::string r;
  for (size_t i = 0; i < P.vars.size(); ++i) {
    auto itv = d.at(P.vars[i]);
    if (itv.is_bottom()) return "_|_";      // empty concretization found only by the query (lazy normalisation)
    r += (i ? "|" : ""); r += str(itv);
  }
  return r;
}

// the constraints of to_linear_constraint_system() over the program's variables, in the input syntax of constraints
// (C <kind> E <n> <coef> <var> ... <constant>); boolean variable b<j> is printed as variable number nvars + j;
// constraints over other (ghost) variables are left out
template <typename Dom> static std::string show_csts(program &P, const Dom &d0) {
  Dom d(d0);
  if (d.is_bottom()) return "_|_";
  auto cs = d.to_linear_constraint_system();
  std::string r;
  for (auto c : cs) {
    if (c.is_tautology()) continue;
    if (c.is_contradiction()) return "_|_";
    std::string e; long n = 0; bool ok = true;
    for (auto t : c.expression()) {
      long idx = -1;
      for (size_t i = 0; i < P.vars.size(); ++i) if (P.vars[i].index() == t.second.index()) idx = (long)i;
      for (size_t j = 0; idx < 0 && j < P.bools.size(); ++j) if (P.bools[j].index() == t.second.index()) idx = (long)(P.vars.size() + j);
      if (idx < 0) { ok = false; break; }
      e += " " + str(t.first) + " " + std::to_string(idx); ++n;
    }
    if (!ok) continue;
    const char *kind = c.is_equality() ? "eq" : c.is_disequation() ? "ne" : c.is_strict_inequality() ? "lt" : "le";
    r += std::string(r.empty() ? "" : " ") + "C " + kind + " E " + std::to_string(n) + e + " " + str(c.expression().constant());
  }
  return r;
}

// `fac` is only used through make_top() / make_bottom()
template <typename Dom> static std::string eval(const std::vector<std::string> &line, const Dom &fac) {
  typedef crab::analyzer::intra_fwd_analyzer<z_cfg_ref_t, Dom> fwd_t;
  typedef crab::analyzer::necessary_preconditions_fixpoint_iterator<z_cfg_ref_t, Dom> bwd_t;
  program P;
  if (!parse_program(line, P)) return "HARNESS-ERROR";
  if (P.exit_block < 0) return "HARNESS-ERROR no-exit";
  auto sec = sections(line);
  bool good = P.opt("mode", "error") == "good";
  Dom final_states = good ? fac.make_top() : fac.make_bottom();
  for (size_t i = 1; i < sec.size(); ++i) {
    auto &s = sec[i];
    if (!s.empty() && s[0] == "G") { std::vector<std::string> r(s.begin() + 1, s.end()); tok k{r, 0}; csts_t cs; while (k.more()) cs += parse_cst(P, k); final_states += cs; }
  }
  crab::fixpoint_parameters params;
  params.get_widening_delay() = std::stoul(P.opt("delay", "2"));
  params.get_descending_iterations() = std::stoul(P.opt("desc", "1"));
  params.get_max_thresholds() = 0;
  z_cfg_ref_t ref(*P.cfg);
  Dom absval_fac = fac.make_top();
  std::unordered_map<basic_block_label_t, Dom> finv;
  bool use_fwd = P.opt("fwd", "1") == "1";
  if (use_fwd) {
    fwd_t F(ref, absval_fac, nullptr, params);
    F.run(fac.make_top());
    for (unsigned i = 0; i < P.nblocks; ++i) finv.insert({program::bname(i), F.get_pre(program::bname(i))});
  }
  bwd_t B(ref, absval_fac, good, params);
  if (use_fwd) B.run_backward(final_states, finv); else B.run_backward(final_states);
  std::string out;
  for (unsigned i = 0; i < P.nblocks; ++i) {
    if (i) out += " ; ";
    Dom fi = use_fwd ? finv.at(program::bname(i)) : fac.make_top();
    out += "finv=" + show_state(P, fi) + " pre=" + show_state(P, B[program::bname(i)]);
  }
  // second view of the same preconditions: their linear constraints (relations between variables are visible here)
  out += " ; csts=";
  for (unsigned i = 0; i < P.nblocks; ++i) out += std::string(i ? " || " : "") + show_csts(P, B[program::bname(i)]);
  return out;
}

static std::string mode;
template <typename F> int main_with(int argc, char **argv, F dispatch) {
  crab::CrabEnableWarningMsg(false);
  if (argc > 1 && std::strncmp(argv[1], "--mode=", 7) == 0) {
    mode = argv[1] + 7;
    return vh::run_cases(argc - 1, argv + 1, dispatch);
  }
  std::cerr << "usage: bwddomsN --mode=<dom> <casefile> [start]\n";
  return 2;
}
} // namespace bwddoms
