// Oracle harness for C18 (second half, inter-procedural): crab::analyzer::inter_assertion_crawler<call_graph>
// on textual inter-procedural programs (intertext.hpp: functions "main", "f1", ... over one variable pool,
// statement `call <fid> <nout> o.. <nin> i..`).
// Header options:  cd=0|1   (1 = data and control dependences, 0 = only data: the constructor's only_data flag)
// Answer: for every function, for every block, the facts get_results(cfg, block) that hold at the block's entry
//    F0 b0:[id:{vars};id:{vars}] b1:T ... # F1 b0:...
// (assertion ids = the debug ids given in the text, sorted; variable numbers of the pool, sorted; a variable that
// is not in the pool is printed as -1; T = top, i.e. no result stored for the function).
#ifndef NDEBUG
#define NDEBUG
#endif
#include "intertext.hpp"
#include <crab/analysis/dataflow/assertion_crawler.hpp>
#include <crab/cg/cg.hpp>
#include <crab/cg/cg_bgl.hpp>
#include <algorithm>
using namespace intertext;
typedef crab::cg::call_graph<z_cfg_ref_t> cg_t;
typedef crab::analyzer::inter_assertion_crawler<cg_t> crawler_t;
typedef ikos::discrete_domain<z_var> varset_t;

static long vnum(iprogram &IP, const z_var &v) {
  for (size_t i = 0; i < IP.P.vars.size(); ++i) if (IP.P.vars[i].index() == v.index()) return (long)i;
  return -1;
}
static std::string show_set(iprogram &IP, const varset_t &s) {
  if (s.is_top()) return "T";
  std::vector<long> r;
  for (auto it = s.begin(), et = s.end(); it != et; ++it) r.push_back(vnum(IP, *it));
  std::sort(r.begin(), r.end());
  std::string o = "{";
  for (size_t i = 0; i < r.size(); ++i) { if (i) o += ","; o += std::to_string(r[i]); }
  return o + "}";
}

static std::string eval(const std::vector<std::string> &line) {
  iprogram IP;
  if (!parse_iprogram(line, IP)) return "HARNESS-ERROR";
  std::vector<z_cfg_ref_t> cfgs;
  for (auto &F : IP.funcs) {
    if (!F.cfg) return "HARNESS-ERROR";
    cfgs.push_back(z_cfg_ref_t(*F.cfg));
  }
  cg_t cg(cfgs);
  crawler_t crawler(cg, IP.P.opt("cd", "1") == "0");
  crawler.run();
  std::string out;
  for (size_t f = 0; f < IP.funcs.size(); ++f) {
    func &F = IP.funcs[f];
    z_cfg_ref_t ref(*F.cfg);
    if (f) out += " # ";
    out += "F" + std::to_string(f);
    for (unsigned i = 0; i < F.nblocks; ++i) {
      out += " b" + std::to_string(i) + ":";
      auto res = crawler.get_results(ref, program::bname(i));
      if (res.is_top()) { out += "T"; continue; }
      std::vector<std::pair<long, std::string>> facts;
      for (auto it = res.begin(), et = res.end(); it != et; ++it) {
        auto kv = *it;
        facts.push_back({(long)kv.first.get().get_debug_info().get_id(), show_set(IP, kv.second)});
      }
      std::sort(facts.begin(), facts.end());
      out += "[";
      for (size_t j = 0; j < facts.size(); ++j) { if (j) out += ";"; out += std::to_string(facts[j].first) + ":" + facts[j].second; }
      out += "]";
    }
  }
  return out;
}
int main(int argc, char **argv) { crab::CrabEnableWarningMsg(false); return vh::run_cases(argc, argv, eval); }
