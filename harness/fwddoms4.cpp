// C01/C02 oracle-only streams, part 4: the forward analyzer over functor domains.  --mode=<name>:
//   bool-itv    flat_boolean_numerical_domain<interval_domain>
//   bool-zones  flat_boolean_numerical_domain<split_dbm_domain>
//   pack        numerical_packing_domain<zones>
//   tvpi        fixed_tvpi_domain<zones>, coefficients {2,3}
// See fwddoms.hpp for the protocol.
#ifndef NDEBUG
#define NDEBUG
#endif
#include "fwddoms.hpp"
#include <crab/domains/intervals.hpp>
#include <crab/domains/split_dbm.hpp>
#include <crab/domains/flat_boolean_domain.hpp>
#include <crab/domains/fixed_tvpi_domain.hpp>
#include <crab/domains/numerical_packing.hpp>
using namespace crab::domains;
using namespace fwddoms;
typedef interval_domain<z_number, varname_t> itv_t;
typedef DBM_impl::DefaultParams<z_number, DBM_impl::GraphRep::adapt_ss> gp_t;
typedef split_dbm_domain<z_number, varname_t, gp_t> zones_t;
typedef flat_boolean_numerical_domain<itv_t> bool_itv_t;
typedef flat_boolean_numerical_domain<zones_t> bool_zones_t;
typedef fixed_tvpi_domain<zones_t> tvpi_t;
typedef numerical_packing_domain<zones_t> pack_t;

static std::string dispatch(const std::vector<std::string> &t) {
  const std::string &m = fwddoms::mode;
  if (m == "bool-itv") return fwddoms::eval<bool_itv_t>(t, bool_itv_t());
  if (m == "bool-zones") return fwddoms::eval<bool_zones_t>(t, bool_zones_t());
  if (m == "pack") return fwddoms::eval<pack_t>(t, pack_t());
  if (m == "tvpi") return fwddoms::eval<tvpi_t>(t, tvpi_t());
  return "HARNESS-ERROR unknown mode " + m;
}
int main(int argc, char **argv) {
  crab_domain_params_man::get().coefficients().push_back(2);
  crab_domain_params_man::get().coefficients().push_back(3);
  return fwddoms::main_with(argc, argv, dispatch);
}
