// Correspondence harness for C02 / reference assertions: the REAL reference_constraint class
// (/repo/include/crab/types/reference_constraints.hpp): the 14 public factory functions, negate(),
// is_tautology / is_contradiction / is_unary / is_binary and the accessors.
//
// Case line:   neg <n> <tag> t                      mk_true()
//              neg <n> <tag> f                      mk_false()
//              neg <n> <tag> u <rel> <p>            p rel NULL   (mk_null mk_not_null mk_le_null mk_lt_null mk_ge_null mk_gt_null)
//              neg <n> <tag> b <rel> <p> <q> <k>    p rel q + k  (mk_eq mk_not_eq mk_le mk_lt mk_ge mk_gt)
//   rel in eq ne le lt ge gt; <p>, <q> variable numbers (variable n = "p<n>", REF_TYPE); <k> decimal of any size;
//   <tag> = policy name of the generator (ignored).
// Answer: the constraint and its n successive negations c ; c.negate() ; c.negate().negate() ; ...
//   each printed as    <KIND as stored> <lhs number|null> <rhs number|null> <offset> t<0|1>c<0|1>u<0|1>b<0|1>
//   (is_tautology, is_contradiction, is_unary, is_binary).  CRAB_ERROR = exit(1) (ABORT).
#ifndef NDEBUG
#define NDEBUG
#endif
#include "crab_lang.hpp"
#include "hcommon.hpp"
#include <crab/types/reference_constraints.hpp>
#include <map>

using namespace crab::cfg_impl;
typedef crab::reference_constraint<ikos::z_number, varname_t> rc_t;

static variable_factory_t *VF;
static std::map<long, z_var> *VARS;

static z_var var_of(long n) {
  auto it = VARS->find(n);
  if (it != VARS->end()) return it->second;
  z_var v(VF->operator[]("p" + std::to_string(n)), crab::REF_TYPE);
  VARS->insert({n, v});
  return v;
}
static std::string num_of(const z_var &v) {
  for (auto &kv : *VARS) if (kv.second.index() == v.index()) return std::to_string(kv.first);
  return "?";
}
static std::string show(const rc_t &c) {
  std::string k;
  int nk = 0;
  if (c.is_equality()) { k = "EQ"; ++nk; }
  if (c.is_disequality()) { k = "DISEQ"; ++nk; }
  if (c.is_less_or_equal_than()) { k = "LEQ"; ++nk; }
  if (c.is_less_than()) { k = "LT"; ++nk; }
  if (c.is_greater_or_equal_than()) { k = "GEQ"; ++nk; }
  if (c.is_greater_than()) { k = "GT"; ++nk; }
  if (nk != 1) k = "KIND?";
  // operands: lhs()/rhs() raise CRAB_ERROR on a null operand; variables() lists the present ones (lhs first)
  std::vector<z_var> vs = c.variables();
  std::string l = "null", r = "null";
  if (c.is_unary() || c.is_binary()) l = num_of(c.lhs());
  if (c.is_binary()) r = num_of(c.rhs());
  size_t expect = (c.is_unary() ? 1 : 0) + (c.is_binary() ? 2 : 0);
  if (vs.size() != expect) r = "rhs-without-lhs";          // the form the constructors normalise away
  std::string off = c.offset().get_str();
  std::string o = k + " " + l + " " + r + " " + off + " t";
  o += c.is_tautology() ? "1" : "0"; o += "c"; o += c.is_contradiction() ? "1" : "0";
  o += "u"; o += c.is_unary() ? "1" : "0"; o += "b"; o += c.is_binary() ? "1" : "0";
  return o;
}
static bool build(const std::vector<std::string> &t, size_t i, rc_t &out) {
  if (i >= t.size()) return false;
  if (t[i] == "t" && t.size() == i + 1) { out = rc_t::mk_true(); return true; }
  if (t[i] == "f" && t.size() == i + 1) { out = rc_t::mk_false(); return true; }
  if (t[i] == "u" && t.size() == i + 3) {
    const std::string &rel = t[i + 1];
    z_var p = var_of(std::stol(t[i + 2]));
    if (rel == "eq") out = rc_t::mk_null(p);
    else if (rel == "ne") out = rc_t::mk_not_null(p);
    else if (rel == "le") out = rc_t::mk_le_null(p);
    else if (rel == "lt") out = rc_t::mk_lt_null(p);
    else if (rel == "ge") out = rc_t::mk_ge_null(p);
    else if (rel == "gt") out = rc_t::mk_gt_null(p);
    else return false;
    return true;
  }
  if (t[i] == "b" && t.size() == i + 5) {
    const std::string &rel = t[i + 1];
    z_var p = var_of(std::stol(t[i + 2])), q = var_of(std::stol(t[i + 3]));
    ikos::z_number k(t[i + 4]);
    if (rel == "eq") out = rc_t::mk_eq(p, q, k);
    else if (rel == "ne") out = rc_t::mk_not_eq(p, q, k);
    else if (rel == "le") out = rc_t::mk_le(p, q, k);
    else if (rel == "lt") out = rc_t::mk_lt(p, q, k);
    else if (rel == "ge") out = rc_t::mk_ge(p, q, k);
    else if (rel == "gt") out = rc_t::mk_gt(p, q, k);
    else return false;
    return true;
  }
  return false;
}

static std::string eval(const std::vector<std::string> &t) {
  variable_factory_t vfac;
  std::map<long, z_var> vmap;
  VF = &vfac; VARS = &vmap;
  if (t.size() < 4 || t[0] != "neg") return "HARNESS-ERROR";
  long n = std::stol(t[1]);
  rc_t c;
  if (!build(t, 3, c)) return "HARNESS-ERROR";
  std::string o = show(c);
  for (long i = 0; i < n; ++i) {
    c = c.negate();
    o += " ; " + show(c);
  }
  return o;
}

int main(int argc, char **argv) {
  crab::CrabEnableWarningMsg(false);
  return vh::run_cases(argc, argv, eval);
}
