// C01/C02 oracle-only streams, part 3: the forward analyzer over the non-relational domains.  --mode=<name>:
//   disitv      dis_interval_domain
//   cong        congruence_domain
//   ric         numerical_congruence_domain<interval_domain>
//   prod-ic     reduced_numerical_domain_product2<interval_domain, congruence_domain>
//   signconst   sign_constant_domain
//   pow-itv     powerset_domain<interval_domain>
// See fwddoms.hpp for the protocol.
#ifndef NDEBUG
#define NDEBUG
#endif
#include "fwddoms.hpp"
#include <crab/domains/intervals.hpp>
#include <crab/domains/dis_intervals.hpp>
#include <crab/domains/combined_domains.hpp>
#include <crab/domains/combined_congruences.hpp>
#include <crab/domains/sign_constant_domain.hpp>
#include <crab/domains/powerset_domain.hpp>
using namespace crab::domains;
using namespace fwddoms;
typedef interval_domain<z_number, varname_t> itv_t;
typedef dis_interval_domain<z_number, varname_t> disitv_t;
typedef congruence_domain<z_number, varname_t> cong_t;
typedef numerical_congruence_domain<itv_t> ric_t;
typedef sign_constant_domain<z_number, varname_t> signconst_t;
typedef reduced_numerical_domain_product2<itv_t, cong_t> prod_ic_t;
typedef powerset_domain<itv_t> pow_itv_t;

static std::string dispatch(const std::vector<std::string> &t) {
  const std::string &m = fwddoms::mode;
  if (m == "disitv") return fwddoms::eval<disitv_t>(t, disitv_t());
  if (m == "cong") return fwddoms::eval<cong_t>(t, cong_t());
  if (m == "ric") return fwddoms::eval<ric_t>(t, ric_t());
  if (m == "prod-ic") return fwddoms::eval<prod_ic_t>(t, prod_ic_t());
  if (m == "signconst") return fwddoms::eval<signconst_t>(t, signconst_t());
  if (m == "pow-itv") return fwddoms::eval<pow_itv_t>(t, pow_itv_t());
  return "HARNESS-ERROR unknown mode " + m;
}
int main(int argc, char **argv) { return fwddoms::main_with(argc, argv, dispatch); }
