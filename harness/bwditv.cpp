// Correspondence harness for C11 / C02 (backward part): necessary_preconditions_fixpoint_iterator
// and intra_forward_backward_analyzer over interval_domain on textual CFG programs.
// Header options: mode=error|good  fwd=0|1 (supply forward invariants)  fb=1 (also run the
// forward+backward analyzer and the assertion checker)  nasserts=<n>
// Extra section:  G <C> <C> ...  final states at the exit block (good mode)
// Output per block: finv=<state> pre=<state>;  with fb=1 then " ; checks=..." as fwditv.cpp.
#include "cfgtext.hpp"
#include <crab/analysis/fwd_analyzer.hpp>
#include <crab/analysis/bwd_analyzer.hpp>
#include <crab/checkers/assertion.hpp>
#include <crab/checkers/checker.hpp>
#include <crab/domains/intervals.hpp>
using namespace cfgtext;
typedef ikos::interval_domain<ikos::z_number, varname_t> dom_t;
typedef crab::analyzer::intra_fwd_analyzer<z_cfg_ref_t, dom_t> fwd_t;
typedef crab::analyzer::necessary_preconditions_fixpoint_iterator<z_cfg_ref_t, dom_t> bwd_t;
typedef crab::analyzer::intra_forward_backward_analyzer<z_cfg_ref_t, dom_t> fb_t;
typedef linear_constraint_system<z_number, varname_t> csts_t;

template <typename T> static std::string str(const T &x) { crab::crab_string_os os; os << x; return os.str(); }
static std::string show_state(program &P, const dom_t &d) {
  if (d.is_bottom()) return "_|_";
  std::string r;
  for (size_t i = 0; i < P.vars.size(); ++i) { r += (i ? "|" : ""); r += str(d.at(P.vars[i])); }
  return r;
}

static std::string eval(const std::vector<std::string> &line) {
  program P;
  if (!parse_program(line, P)) return "HARNESS-ERROR";
  if (P.exit_block < 0) return "HARNESS-ERROR no-exit";
  auto sec = sections(line);
  bool good = P.opt("mode", "error") == "good";
  dom_t final_states;
  if (!good) final_states.set_to_bottom();
  for (size_t i = 1; i < sec.size(); ++i) {
    auto &s = sec[i];
    if (!s.empty() && s[0] == "G") { std::vector<std::string> r(s.begin() + 1, s.end()); tok k{r, 0}; csts_t cs; while (k.more()) cs += parse_cst(P, k); final_states += cs; }
  }
  crab::fixpoint_parameters params;
  params.get_widening_delay() = std::stoul(P.opt("delay", "2"));
  params.get_descending_iterations() = std::stoul(P.opt("desc", "1"));
  params.get_max_thresholds() = 0;
  z_cfg_ref_t ref(*P.cfg);
  dom_t absval_fac;
  std::unordered_map<basic_block_label_t, dom_t> finv;
  bool use_fwd = P.opt("fwd", "1") == "1";
  if (use_fwd) {
    fwd_t F(ref, absval_fac, nullptr, params);
    F.run(dom_t());
    for (unsigned i = 0; i < P.nblocks; ++i) finv.insert({program::bname(i), F.get_pre(program::bname(i))});
  }
  bwd_t B(ref, absval_fac, good, params);
  if (use_fwd) B.run_backward(final_states, finv); else B.run_backward(final_states);
  std::string out;
  for (unsigned i = 0; i < P.nblocks; ++i) {
    if (i) out += " ; ";
    dom_t fi = use_fwd ? finv.at(program::bname(i)) : dom_t();
    out += "finv=" + show_state(P, fi) + " pre=" + show_state(P, B[program::bname(i)]);
  }
  if (P.opt("fb", "0") == "1") {
    fb_t FB(ref, absval_fac);
    typename fb_t::assumption_map_t assumptions;
    crab::analyzer::fwd_bwd_parameters fbp;
    fbp.enable_backward() = true;
    fbp.get_use_refined_invariants() = (P.opt("refined", "0") == "1");
    fbp.get_max_refine_iterations() = (unsigned)std::stoul(P.opt("maxref", "5"));
    long fb_entry = std::stol(P.opt("entry", "0"));
    if (fb_entry != 0) FB.run(program::bname(fb_entry), dom_t(), assumptions, nullptr, params, fbp);
    else FB.run(dom_t(), assumptions, nullptr, params, fbp);
    typedef crab::checker::intra_checker<fb_t> checker_t;
    typedef crab::checker::assert_property_checker<fb_t> assert_checker_t;
    typename checker_t::prop_checker_ptr prop(new assert_checker_t(1));
    checker_t checker(FB, {prop});
    checker.run();
    crab::checker::checks_db db = checker.get_all_checks();
    out += " ; checks=";
    for (long id = 1; id <= std::stol(P.opt("nasserts", "0")); ++id) {
      crab::cfg::debug_info di("prog", (unsigned)id, 0, (int64_t)id);
      if (!db.has_checks(di)) { out += "-"; continue; }
      for (auto k : db.get_checks(di))
        out += (k == crab::checker::check_kind::CRAB_SAFE ? "S" : k == crab::checker::check_kind::CRAB_ERR ? "E" :
                k == crab::checker::check_kind::CRAB_WARN ? "W" : "U");
      out += ",";
    }
  }
  return out;
}
int main(int argc, char **argv) {
  crab::CrabEnableWarningMsg(false);
  if (argc > 1 && std::string(argv[1]) == "--bwd") return vh::run_cases(argc - 1, argv + 1, eval);
  return vh::run_cases(argc, argv, eval);
}
