// C01/C02 oracle-only streams, part 2: the forward analyzer over octagons and the term domains.  --mode=<name>:
//   oct         split_oct_domain, DefaultParams
//   look-oct    lookahead_widening_domain<split_oct>
//   term-itv    term_domain over interval_domain
//   term-zones  term_domain over split_dbm
// See fwddoms.hpp for the protocol.
#ifndef NDEBUG
#define NDEBUG
#endif
#include "fwddoms.hpp"
#include <crab/domains/intervals.hpp>
#include <crab/domains/split_dbm.hpp>
#include <crab/domains/split_oct.hpp>
#include <crab/domains/term_equiv.hpp>
#include <crab/domains/lookahead_widening_domain.hpp>
using namespace crab::domains;
using namespace fwddoms;
typedef interval_domain<z_number, varname_t> itv_t;
typedef DBM_impl::DefaultParams<z_number, DBM_impl::GraphRep::adapt_ss> gp_t;
typedef split_dbm_domain<z_number, varname_t, gp_t> zones_t;
typedef split_oct_domain<z_number, varname_t, gp_t> oct_t;
typedef term_domain<term::TDomInfo<z_number, varname_t, itv_t>> term_itv_t;
typedef term_domain<term::TDomInfo<z_number, varname_t, zones_t>> term_zones_t;
typedef lookahead_widening_domain<oct_t> look_oct_t;

static std::string dispatch(const std::vector<std::string> &t) {
  const std::string &m = fwddoms::mode;
  if (m == "oct") return fwddoms::eval<oct_t>(t, oct_t());
  if (m == "look-oct") return fwddoms::eval<look_oct_t>(t, look_oct_t());
  if (m == "term-itv") return fwddoms::eval<term_itv_t>(t, term_itv_t());
  if (m == "term-zones") return fwddoms::eval<term_zones_t>(t, term_zones_t());
  return "HARNESS-ERROR unknown mode " + m;
}
int main(int argc, char **argv) { return fwddoms::main_with(argc, argv, dispatch); }
