// Correspondence / search harness for property C15: crab::domains::region_domain over several
// base domains, driven by operation histories on a few abstract-state registers.
//
// Case line:
//   rg <params> <nregs> <ni> <nb> <np> <nR> <nQ> <nU> ; <op> ; <op> ; ...
// <params> = five 0/1 digits: allocation_sites deallocation tag_analysis is_dereferenceable
// skip_unknown_regions (region_domain_params).  Variables: i<k> 32-bit integers, b<k> booleans,
// p<k> references, R<k> regions of integers, Q<k> regions of references, U<k> unknown regions.
// Every state-changing operation prints the whole observable state of its target register
// (at() of every variable incl. the content of every region, is_null_ref, get_allocation_sites,
// get_tags, and -- through `#define private public` on region_domain.hpp only -- the
// reference count / init flag / site set of every region); answers are joined with " ; ".
// --mode=itv (default, the modelled instance) | boolitv | zones | signconst  (base domains; program
// and base variables share their names: fixed-naming ghost manager, the only one that compiles).
// --mode=itvx: as itv with the extended printing used by the RegionCore2 model stream: the dynamic
// type of every region (",t?" top, ",tb" bottom, ",tu" unknown, ",ti" integers, ",tr" references),
// and, when is_dereferenceable is set, the offset and size ghost variables of every reference and of
// every region whose ghost variables have them (";o<itv>;s<itv>"), and for unknown regions the raw
// value of all four potential ghost variables (";raw<plain>,<address>,<offset>,<size>").
// The ghost names (.address/.offset/.size and the .dup copies) are created in a fixed order when the
// variables are declared, so that their indices do not depend on the history.
#include "crab_lang.hpp"
#include "hcommon.hpp"
#include <crab/domains/abstract_domain_params.hpp>
#include <crab/domains/abstract_domain_operators.hpp>
#include <crab/domains/intervals.hpp>
#include <crab/domains/flat_boolean_domain.hpp>
#include <crab/domains/split_dbm.hpp>
#include <crab/domains/sign_constant_domain.hpp>
#include <crab/domains/boolean.hpp>
#include <crab/domains/separate_domains.hpp>
#include <crab/domains/small_range.hpp>
#include <crab/domains/union_find_domain.hpp>
#include <crab/domains/region/ghost_variable_manager.hpp>
#include <crab/domains/region/region_info.hpp>
#include <crab/domains/region/tags.hpp>
#include <crab/fixpoint/thresholds.hpp>
#include <crab/types/tag.hpp>
#include <cstring>
#include <map>
#define private public
#include <crab/domains/region_domain.hpp>
#undef private

namespace crab {
template <> inline std::string variable_name_traits<long>::to_string(long v) { return "w" + std::to_string(v); }
}

namespace rg {
static bool ext = false;
using namespace crab::domains;
using namespace ikos;

template <typename T> static std::string str(const T &x) {
  crab::crab_string_os os; os << x; return os.str();
}

// the types of the statement language over a given kind of variable names
template <typename Fac> struct lang {
  typedef Fac fac_t;
  typedef typename Fac::varname_t varname_t;
  typedef crab::variable<z_number, varname_t> var_t;
  typedef linear_expression<z_number, varname_t> lin_t;
  typedef linear_constraint<z_number, varname_t> cst_t;
  typedef linear_constraint_system<z_number, varname_t> csts_t;
  typedef crab::variable_or_constant<z_number, varname_t> voc_t;
  typedef crab::reference_constraint<z_number, varname_t> rcst_t;
};
// names of program variables are strings (as in crab's tests: the region domain then shares the
// variable names with its base domain: fixed-naming ghost manager) ...
struct str_lang : lang<crab::cfg_impl::variable_factory_t> {
  static varname_t mk(fac_t &f, const std::string &n, long) { return f[n]; }
};
// ... or of another type (as in clam: the base domain gets its own names from
// str_var_alloc_col: variable-naming ghost manager, with renaming in every binary operation)
struct long_lang : lang<crab::var_factory_impl::variable_factory<long>> {
  static varname_t mk(fac_t &f, const std::string &, long k) { return f[k]; }
};

using var_allocator = crab::var_factory_impl::str_var_alloc_col;
template <class L, class BaseAbsDom> struct RParams {
  using number_t = z_number;
  using varname_t = typename L::varname_t;
  using varname_allocator_t = var_allocator;
  using base_abstract_domain_t = BaseAbsDom;
  using base_varname_t = typename BaseAbsDom::varname_t;
};
typedef typename var_allocator::varname_t bvarname_t;
typedef interval_domain<z_number, bvarname_t> bitv_t;
typedef region_domain<RParams<str_lang, bitv_t>> rgn_itv_t;
typedef region_domain<RParams<str_lang, flat_boolean_numerical_domain<bitv_t>>> rgn_boolitv_t;
typedef split_dbm_domain<z_number, bvarname_t, DBM_impl::DefaultParams<z_number, DBM_impl::GraphRep::adapt_ss>> bzones_t;
typedef region_domain<RParams<str_lang, bzones_t>> rgn_zones_t;
typedef region_domain<RParams<str_lang, sign_constant_domain<z_number, bvarname_t>>> rgn_signconst_t;
// NOTE: region_domain<RParams<long_lang, bitv_t>> would select ghost_variable_manager_with_variable_naming
// (the configuration clam uses), but that class template does not compile in this tree (its reverse map
// stores pair<variable, unsigned> while ghost_variables::update_rev_varmap expects pair<variable,
// ghost_variable_kind>), so it cannot be exercised.

template <typename L> struct ctx {
  typedef typename L::var_t var_t;
  typename L::fac_t vfac;
  std::vector<var_t> I, B, P, R, Q, U;
  std::map<ikos::index_t, std::string> names;
  crab::tag_manager tm;
  std::vector<crab::tag> sites;
  long next_key = 1;
  void add(std::vector<var_t> &v, const std::string &pre, unsigned n, crab::variable_type_kind k, unsigned bw) {
    for (unsigned i = 0; i < n; ++i) {
      std::string nm = pre + std::to_string(i);
      typename L::varname_t vn = L::mk(vfac, nm, next_key++);
      var_t x = bw ? var_t(vn, k, bw) : var_t(vn, k);
      names[x.index()] = nm;
      v.push_back(x);
    }
  }
  void init(unsigned ni, unsigned nb, unsigned np, unsigned nR, unsigned nQ, unsigned nU) {
    add(I, "i", ni, crab::INT_TYPE, 32);
    add(B, "b", nb, crab::BOOL_TYPE, 1);
    add(P, "p", np, crab::REF_TYPE, 32);
    add(R, "R", nR, crab::REG_INT_TYPE, 32);
    add(Q, "Q", nQ, crab::REG_REF_TYPE, 32);
    add(U, "U", nU, crab::REG_UNKNOWN_TYPE, 0);
    for (unsigned i = 0; i < 16; ++i) sites.push_back(tm.mk_tag());
    // ghost names in a fixed order: <v>.address .offset .size for references, regions of references
    // and unknown regions; then for every region the names ghost_variable_manager::dup derives
    for (auto *vs : {&P, &Q, &U})
      for (auto &v : *vs) for (const char *role : {".address", ".offset", ".size"}) vfac.get(v.name(), role);
    for (auto *vs : {&R, &Q, &U})
      for (auto &v : *vs) {
        vfac.get(v.name(), ".dup");
        for (const char *role : {".address", ".offset", ".size"})
          vfac.get(vfac.get(v.name(), role), std::string(role) + ".dup");
      }
  }
  var_t var(const std::string &n) {
    unsigned k = std::stoul(n.substr(1));
    std::vector<var_t> *v = nullptr;
    switch (n[0]) {
    case 'i': v = &I; break; case 'b': v = &B; break; case 'p': v = &P; break;
    case 'R': v = &R; break; case 'Q': v = &Q; break; case 'U': v = &U; break;
    }
    if (!v || k >= v->size()) { std::cerr << "bad variable " << n << "\n"; std::exit(3); }
    return (*v)[k];
  }
  int site_no(const crab::tag &t) {
    for (size_t i = 0; i < sites.size(); ++i) if (sites[i] == t) return (int)i;
    return -1;
  }
};

struct tok {
  const std::vector<std::string> &t; size_t p;
  bool more() const { return p < t.size(); }
  const std::string &next() { if (p >= t.size()) { std::cerr << "parse error\n"; std::exit(3);} return t[p++]; }
  long nexti() { return std::stol(next()); }
  z_number nextz() { return z_number(next()); }
};

// E n c1 v1 ... cn vn k   (variables by name)
template <typename L> typename L::lin_t parse_exp(ctx<L> &c, tok &k) {
  typedef typename L::lin_t lin_t;
  k.next();
  long n = k.nexti();
  lin_t e;
  for (long i = 0; i < n; ++i) { z_number co = k.nextz(); typename L::var_t v = c.var(k.next()); e = e + lin_t(co, v); }
  e = e + k.nextz();
  return e;
}
template <typename L> typename L::cst_t parse_cst(ctx<L> &c, tok &k) {       // C kind E...
  typedef typename L::cst_t cst_t;
  k.next();
  std::string kind = k.next();
  typename L::lin_t e = parse_exp(c, k);
  if (kind == "eq") return cst_t(e, cst_t::EQUALITY);
  if (kind == "ne") return cst_t(e, cst_t::DISEQUATION);
  if (kind == "le") return cst_t(e, cst_t::INEQUALITY);
  return cst_t(e, cst_t::STRICT_INEQUALITY);
}
// reference constraints:  u <rel> p   |   b <rel> p q <offset>       rel in eq ne lt le gt ge
template <typename L> typename L::rcst_t parse_rcst(ctx<L> &c, tok &k) {
  typedef typename L::rcst_t rcst_t;
  typedef typename L::var_t z_var;
  std::string ar = k.next(), rel = k.next();
  if (ar == "u") {
    z_var p = c.var(k.next());
    if (rel == "eq") return rcst_t::mk_null(p);
    if (rel == "ne") return rcst_t::mk_not_null(p);
    if (rel == "le") return rcst_t::mk_le_null(p);
    if (rel == "lt") return rcst_t::mk_lt_null(p);
    if (rel == "ge") return rcst_t::mk_ge_null(p);
    return rcst_t::mk_gt_null(p);
  }
  z_var p = c.var(k.next()), q = c.var(k.next());
  z_number off = k.nextz();
  if (rel == "eq") return rcst_t::mk_eq(p, q, off);
  if (rel == "ne") return rcst_t::mk_not_eq(p, q, off);
  if (rel == "le") return rcst_t::mk_le(p, q, off);
  if (rel == "lt") return rcst_t::mk_lt(p, q, off);
  if (rel == "ge") return rcst_t::mk_ge(p, q, off);
  return rcst_t::mk_gt(p, q, off);
}
template <typename L> typename L::voc_t parse_val(ctx<L> &c, tok &k, bool ref_region) {   // v:<var> | c:<int> | null
  typedef typename L::voc_t voc_t;
  std::string s = k.next();
  if (s == "null") return voc_t::make_reference_null();
  if (s[0] == 'v') return voc_t(c.var(s.substr(2)));
  (void)ref_region;
  return voc_t(z_number(s.substr(2)), crab::variable_type(crab::INT_TYPE, 32));
}

template <typename T> std::string show_set(std::vector<T> v) {
  std::sort(v.begin(), v.end());
  std::string r = "{";
  for (size_t i = 0; i < v.size(); ++i) { if (i) r += ","; r += std::to_string(v[i]); }
  return r + "}";
}

template <typename L, typename Dom> std::string show_sites(ctx<L> &c, Dom &d, const typename L::var_t &p) {
  std::vector<crab::tag> out;
  if (!d.get_allocation_sites(p, out)) return "?";
  std::vector<long> v;
  for (auto &t : out) v.push_back(c.site_no(t));
  return show_set(v);
}
template <typename L, typename Dom> std::string show_tags(ctx<L> &c, Dom &d, const typename L::var_t &rgn) {
  std::vector<uint64_t> out;
  if (c.P.empty() || !d.get_tags(rgn, c.P[0], out)) return "?";
  std::vector<long> v;
  for (auto t : out) v.push_back((long)t);
  return show_set(v);
}
template <typename L, typename Dom> std::string show_count(ctx<L> &c, Dom &d, const typename L::var_t &rgn) {
  auto info = d.m_rgn_env.at(rgn);
  const small_range &sr = info.refcount_val();
  std::string w = str(sr), s;          // small_range::write: [1,1](<index>) etc.
  auto nm = [&](const std::string &x) {
    size_t a = x.find('('), b = x.find(')');
    return c.names[(ikos::index_t)std::stoull(x.substr(a + 1, b - a - 1))];
  };
  if (w == "_|_") s = "bot";
  else if (w == "[0,0]") s = "0";
  else if (w.compare(0, 5, "[1,1]") == 0) s = "1:" + nm(w);
  else if (w.compare(0, 5, "[0,1]") == 0) s = "01:" + nm(w);
  else if (w == "[0,+oo]") s = "0+";
  else s = "1+";
  const boolean_value &b = info.init_val();
  s += b.is_bottom() ? ",ib" : b.is_false() ? ",if" : b.is_true() ? ",it" : ",i?";
  if (ext) {
    const type_value &t = info.type_val();
    if (t.is_bottom()) s += ",tb";
    else if (t.is_top()) s += ",t?";
    else {
      crab::variable_type ty = t.get();
      s += ty.is_unknown_region() ? ",tu" : ty.is_integer_region() ? ",ti" : ty.is_reference_region() ? ",tr" : ",to";
    }
  }
  return s;
}
// extended printing: offset / size ghost variables
template <typename L, typename Dom> std::string show_offsize(ctx<L> &c, Dom &d, const typename L::var_t &v) {
  if (!ext || !crab_domain_params_man::get().region_is_dereferenceable()) return "";
  std::string r;
  auto gv = d.get_gvars(v);
  if (gv && gv->has_offset_and_size())
    r += ";o" + str(d.m_base_dom.at(gv->get_offset_and_size().get_offset())) +
         ";s" + str(d.m_base_dom.at(gv->get_offset_and_size().get_size()));
  if (v.get_type().is_unknown_region()) {
    typedef typename Dom::base_variable_t bvar_t;
    r += ";raw" + str(d.m_base_dom.at(bvar_t(v.name(), crab::INT_TYPE, 32)));
    for (const char *role : {".address", ".offset", ".size"})
      r += "," + str(d.m_base_dom.at(bvar_t(c.vfac.get(v.name(), role), crab::INT_TYPE, 32)));
  }
  return r;
}
template <typename L, typename Dom> std::string show_rsites(ctx<L> &c, Dom &d, const typename L::var_t &rgn) {
  if (!crab_domain_params_man::get().region_allocation_sites()) return "?";
  auto s = d.m_alloc_env.at(rgn);
  if (s.is_top()) return "?";
  std::vector<long> v;
  if (!s.is_bottom()) for (auto it = s.begin(); it != s.end(); ++it) v.push_back(c.site_no(*it));
  return show_set(v);
}

template <typename L, typename Dom> std::string show_state(ctx<L> &c, Dom &d) {
  if (d.is_bottom()) return "_|_";
  std::string r = "I:";
  for (size_t i = 0; i < c.I.size(); ++i) { r += (i ? "|" : ""); r += str(d.at(c.I[i])); }
  r += " B:";
  for (size_t i = 0; i < c.B.size(); ++i) { r += (i ? "|" : ""); r += str(d.at(c.B[i])); }
  r += " P:";
  for (size_t i = 0; i < c.P.size(); ++i) {
    r += (i ? "|" : ""); r += str(d.at(c.P[i]));
    boolean_value nl = d.is_null_ref(c.P[i]);
    r += nl.is_bottom() ? ";nb" : nl.is_true() ? ";nt" : nl.is_false() ? ";nf" : ";n?";
    r += ";" + show_sites(c, d, c.P[i]);
    r += show_offsize(c, d, c.P[i]);
  }
  r += " G:";
  bool first = true;
  for (auto *vs : {&c.R, &c.Q, &c.U})
    for (size_t i = 0; i < vs->size(); ++i) {
      const typename L::var_t &g = (*vs)[i];
      r += (first ? "" : "|"); first = false;
      r += str(d.at(g)) + ";" + show_count(c, d, g) + ";" + show_rsites(c, d, g) + ";" + show_tags(c, d, g);
      r += show_offsize(c, d, g);
    }
  return r;
}

static crab::domains::arith_operation_t arith_op(const std::string &o) {
  return o == "add" ? OP_ADDITION : o == "sub" ? OP_SUBTRACTION : o == "mul" ? OP_MULTIPLICATION :
         o == "sdiv" ? OP_SDIV : o == "udiv" ? OP_UDIV : o == "srem" ? OP_SREM : OP_UREM;
}

template <typename L, typename Dom> std::string run_history(const std::vector<std::string> &line) {
  typedef typename L::var_t z_var;
  typedef typename L::lin_t lin_t;
  typedef typename L::cst_t cst_t;
  typedef typename L::csts_t csts_t;
  typedef typename L::voc_t voc_t;
  typedef typename L::rcst_t rcst_t;
  std::vector<std::vector<std::string>> ops(1);
  for (auto &s : line) { if (s == ";") ops.emplace_back(); else ops.back().push_back(s); }
  if (ops[0].size() < 9 || ops[0][0] != "rg") return "HARNESS-ERROR";
  const std::string &ps = ops[0][1];
  region_domain_params prm(ps[0] == '1', ps[1] == '1', ps[2] == '1', ps[3] == '1', ps[4] == '1');
  crab_domain_params_man::get().update_params(prm);
  unsigned nregs = std::stoul(ops[0][2]);
  ctx<L> c;
  c.init(std::stoul(ops[0][3]), std::stoul(ops[0][4]), std::stoul(ops[0][5]), std::stoul(ops[0][6]),
         std::stoul(ops[0][7]), std::stoul(ops[0][8]));
  Dom topv;
  std::vector<Dom> regs(nregs, topv.make_top());
  std::string out;
  auto emit = [&](const std::string &s) { if (!out.empty()) out += " ; "; out += s; };
  for (size_t i = 1; i < ops.size(); ++i) {
    if (ops[i].empty()) continue;
    tok k{ops[i], 0};
    std::string op = k.next();
    long r = k.nexti();
    Dom &d = regs[r];
    if (op == "q_leq") { long t = k.nexti(); emit(regs[r] <= regs[t] ? "true" : "false"); continue; }
    if (op == "q_state") { emit(show_state(c, d)); continue; }
    if (op == "q_entails") { cst_t x = parse_cst(c, k); emit(d.entails(x) ? "true" : "false"); continue; }
    if (op == "q_csts") {
      csts_t cs = d.to_linear_constraint_system();
      std::string s = "{"; bool f = true;
      for (auto const &x : cs) {
        if (!f) s += ","; f = false;
        s += x.is_equality() ? "eq" : x.is_disequation() ? "ne" : x.is_inequality() ? "le" : "lt";
        s += ":";
        bool ff = true;
        for (auto it = x.expression().begin(); it != x.expression().end(); ++it) {
          if (!ff) s += "+"; ff = false;
          s += str(it->first) + "*" + c.names[it->second.index()];
        }
        s += ":" + str(x.expression().constant());
      }
      emit(s + "}"); continue;
    }
    if (op == "q_deref") {                       // q_deref r p (c:<n> | v:<int var>): ghost_offset_and_size::is_deref
      z_var p = c.var(k.next()); voc_t sz = parse_val(c, k, false);
      if (d.is_bottom()) { emit("_|_"); continue; }
      if (!crab_domain_params_man::get().region_is_dereferenceable()) { emit("off"); continue; }
      auto gv = d.get_gvars(p);
      if (!gv || !gv->has_offset_and_size()) { emit("?"); continue; }
      emit(gv->get_offset_and_size().is_deref(d.m_base_dom, d.rename_variable_or_constant(sz)) ? "true" : "false");
      continue;
    }
    if (op == "top") d.set_to_top();
    else if (op == "bot") d.set_to_bottom();
    else if (op == "copy") { long s = k.nexti(); Dom tmp(regs[s]); d = tmp; }
    else if (op == "init") d.region_init(c.var(k.next()));
    else if (op == "mk") {                       // mk r p G site (c:<n> | v:<int var>)
      z_var p = c.var(k.next()), g = c.var(k.next()); long site = k.nexti();
      voc_t sz = parse_val(c, k, false);
      d.ref_make(p, g, sz, c.sites[site]);
    }
    else if (op == "free") { z_var g = c.var(k.next()), p = c.var(k.next()); d.ref_free(g, p); }
    else if (op == "ld") { z_var x = c.var(k.next()), p = c.var(k.next()), g = c.var(k.next()); d.ref_load(p, g, x); }
    else if (op == "st") {
      z_var p = c.var(k.next()), g = c.var(k.next());
      voc_t v = parse_val(c, k, g.get_type().is_reference_region());
      d.ref_store(p, g, v);
    }
    else if (op == "gep") {                      // gep r p2 G2 p1 G1 E...
      z_var p2 = c.var(k.next()), g2 = c.var(k.next()), p1 = c.var(k.next()), g1 = c.var(k.next());
      lin_t e = parse_exp(c, k);
      d.ref_gep(p1, g1, p2, g2, e);
    }
    else if (op == "rcopy") { z_var l = c.var(k.next()), rr = c.var(k.next()); d.region_copy(l, rr); }
    else if (op == "rcast") { z_var s = c.var(k.next()), t = c.var(k.next()); d.region_cast(s, t); }
    else if (op == "assume_ref") { rcst_t x = parse_rcst(c, k); d.ref_assume(x); }
    else if (op == "assume_nref") { rcst_t x = parse_rcst(c, k); d.ref_assume(x.negate()); }
    else if (op == "selref") {                   // selref r p G b (p1 G1 | null -) (p2 G2 | null -)
      z_var p = c.var(k.next()), g = c.var(k.next()), b = c.var(k.next());
      std::string a1 = k.next(), g1 = k.next(), a2 = k.next(), g2 = k.next();
      voc_t r1 = a1 == "null" ? voc_t::make_reference_null() : voc_t(c.var(a1));
      voc_t r2 = a2 == "null" ? voc_t::make_reference_null() : voc_t(c.var(a2));
      boost::optional<z_var> o1, o2;
      if (a1 != "null") o1 = c.var(g1);
      if (a2 != "null") o2 = c.var(g2);
      d.select_ref(p, g, b, r1, o1, r2, o2);
    }
    else if (op == "r2i") { z_var g = c.var(k.next()), p = c.var(k.next()), x = c.var(k.next()); d.ref_to_int(g, p, x); }
    else if (op == "i2r") { z_var x = c.var(k.next()), g = c.var(k.next()), p = c.var(k.next()); d.int_to_ref(x, g, p); }
    else if (op == "tag") {                      // tag r G p TAG
      z_var g = c.var(k.next()), p = c.var(k.next()); z_number t = k.nextz();
      std::vector<voc_t> in{voc_t(g), voc_t(p), voc_t(t, crab::variable_type(crab::INT_TYPE, 32))};
      std::vector<z_var> outv;
      d.intrinsic("add_tag", in, outv);
    }
    else if (op == "nothastag") {                // nothastag r b G p TAG
      z_var b = c.var(k.next()), g = c.var(k.next()), p = c.var(k.next()); z_number t = k.nextz();
      std::vector<voc_t> in{voc_t(g), voc_t(p), voc_t(t, crab::variable_type(crab::INT_TYPE, 32))};
      std::vector<z_var> outv{b};
      d.intrinsic("does_not_have_tag", in, outv);
    }
    else if (op == "isderef") {                  // isderef r b G p (c:<n> | v:<int var>)
      z_var b = c.var(k.next()), g = c.var(k.next()), p = c.var(k.next()); voc_t sz = parse_val(c, k, false);
      std::vector<voc_t> in{voc_t(g), voc_t(p), sz};
      std::vector<z_var> outv{b};
      d.intrinsic("is_dereferenceable", in, outv);
    }
    else if (op == "nonnull") {
      z_var p = c.var(k.next());
      std::vector<voc_t> in{voc_t(p)};
      std::vector<z_var> outv;
      d.intrinsic("nonnull", in, outv);
    }
    else if (op == "assign") { z_var x = c.var(k.next()); lin_t e = parse_exp(c, k); d.assign(x, e); }
    else if (op == "arith") {
      std::string o = k.next(); z_var x = c.var(k.next()), y = c.var(k.next()); std::string kind = k.next();
      if (kind == "v") d.apply(arith_op(o), x, y, c.var(k.next()));
      else d.apply(arith_op(o), x, y, k.nextz());
    }
    else if (op == "assume") { long n = k.nexti(); csts_t cs; for (long j = 0; j < n; ++j) cs += parse_cst(c, k); d += cs; }
    else if (op == "select") { z_var l = c.var(k.next()); cst_t x = parse_cst(c, k); lin_t e1 = parse_exp(c, k); lin_t e2 = parse_exp(c, k); d.select(l, x, e1, e2); }
    else if (op == "bassign") { z_var b = c.var(k.next()); cst_t x = parse_cst(c, k); d.assign_bool_cst(b, x); }
    else if (op == "bassign_ref") { z_var b = c.var(k.next()); rcst_t x = parse_rcst(c, k); d.assign_bool_ref_cst(b, x); }
    else if (op == "bassume") { z_var b = c.var(k.next()); long neg = k.nexti(); d.assume_bool(b, neg != 0); }
    else if (op == "havoc") { d -= c.var(k.next()); }
    else if (op == "forget" || op == "project") {
      long n = k.nexti(); std::vector<z_var> vs; for (long j = 0; j < n; ++j) vs.push_back(c.var(k.next()));
      if (op == "forget") d.forget(vs); else d.project(vs);
    }
    else if (op == "rename") {
      long n = k.nexti(); std::vector<z_var> f, t;
      for (long j = 0; j < n; ++j) f.push_back(c.var(k.next()));
      for (long j = 0; j < n; ++j) t.push_back(c.var(k.next()));
      d.rename(f, t);
    }
    else if (op == "join" || op == "joinip" || op == "meet" || op == "widen" || op == "narrow" || op == "widenthr") {
      long s = k.nexti(), t = k.nexti();
      if (op == "join") { Dom tmp = regs[s] | regs[t]; regs[r] = tmp; }
      else if (op == "joinip") { Dom tmp(regs[s]); tmp |= regs[t]; regs[r] = tmp; }
      else if (op == "meet") { Dom tmp = regs[s] & regs[t]; regs[r] = tmp; }
      else if (op == "widen") { Dom tmp = regs[s] || regs[t]; regs[r] = tmp; }
      else if (op == "narrow") { Dom tmp = regs[s] && regs[t]; regs[r] = tmp; }
      else {
        long n = k.nexti(); crab::thresholds<z_number> ts;
        for (long j = 0; j < n; ++j) ts.add(bound<z_number>(k.nextz()));
        Dom tmp = regs[s].widening_thresholds(regs[t], ts); regs[r] = tmp;
      }
    }
    else return "HARNESS-ERROR " + op;
    emit(show_state(c, regs[r]));
  }
  return out;
}
} // namespace rg

static int mode = 0;
static std::string eval(const std::vector<std::string> &t) {
  switch (mode) {
  case 1: return rg::run_history<rg::str_lang, rg::rgn_boolitv_t>(t);
  case 2: return rg::run_history<rg::str_lang, rg::rgn_zones_t>(t);
  case 3: return rg::run_history<rg::str_lang, rg::rgn_signconst_t>(t);
  default: return rg::run_history<rg::str_lang, rg::rgn_itv_t>(t);
  }
}
int main(int argc, char **argv) {
  crab::CrabEnableWarningMsg(false);
  if (argc > 1 && std::strncmp(argv[1], "--mode=", 7) == 0) {
    const char *m = argv[1] + 7;
    mode = !std::strcmp(m, "boolitv") ? 1 : !std::strcmp(m, "zones") ? 2 : !std::strcmp(m, "signconst") ? 3 : 0;
    rg::ext = !std::strcmp(m, "itvx");
    return vh::run_cases(argc - 1, argv + 1, eval);
  }
  return vh::run_cases(argc, argv, eval);
}
