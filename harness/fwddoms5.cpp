// C01/C02 oracle-only streams, part 5: the forward analyzer over further domains of the tree.  --mode=<name>:
//   sign, const  sign_domain, constant_domain
//   uf           uf_domain (at() knows nothing: only bottom / reachability is observable)
//   num          reduced_numerical_domain_product2<term_domain<dis_interval_domain>, split_dbm>  (z_num_domain_t of the tests)
//   pow-zones    powerset_domain<split_dbm_domain>
//   gen-zones    abstract_domain<z_var>(zones)   (type-erased wrapper)
// See fwddoms.hpp for the protocol.
#ifndef NDEBUG
#define NDEBUG
#endif
#include "fwddoms.hpp"
#include <crab/domains/intervals.hpp>
#include <crab/domains/split_dbm.hpp>
#include <crab/domains/dis_intervals.hpp>
#include <crab/domains/combined_domains.hpp>
#include <crab/domains/term_equiv.hpp>
#include <crab/domains/uf_domain.hpp>
#include <crab/domains/constant_domain.hpp>
#include <crab/domains/sign_domain.hpp>
#include <crab/domains/powerset_domain.hpp>
#include <crab/domains/generic_abstract_domain.hpp>
using namespace crab::domains;
using namespace fwddoms;
typedef DBM_impl::DefaultParams<z_number, DBM_impl::GraphRep::adapt_ss> gp_t;
typedef split_dbm_domain<z_number, varname_t, gp_t> zones_t;
typedef dis_interval_domain<z_number, varname_t> disitv_t;
typedef term_domain<term::TDomInfo<z_number, varname_t, disitv_t>> term_dis_t;
typedef reduced_numerical_domain_product2<term_dis_t, zones_t> num_t;
typedef uf_domain<z_number, varname_t> uf_t;
typedef sign_domain<z_number, varname_t> sign_t;
typedef constant_domain<z_number, varname_t> const_t;
typedef powerset_domain<zones_t> pow_zones_t;
typedef abstract_domain<z_var> gen_t;

static std::string dispatch(const std::vector<std::string> &t) {
  const std::string &m = fwddoms::mode;
  if (m == "sign") return fwddoms::eval<sign_t>(t, sign_t());
  if (m == "const") return fwddoms::eval<const_t>(t, const_t());
  if (m == "uf") return fwddoms::eval<uf_t>(t, uf_t());
  if (m == "num") return fwddoms::eval<num_t>(t, num_t());
  if (m == "pow-zones") return fwddoms::eval<pow_zones_t>(t, pow_zones_t());
  if (m == "gen-zones") { zones_t top; return fwddoms::eval<gen_t>(t, gen_t(top)); }
  return "HARNESS-ERROR unknown mode " + m;
}
int main(int argc, char **argv) { return fwddoms::main_with(argc, argv, dispatch); }
