// Witness-search harness, part 2 of 3 (C03/C04/C05/C16): operation histories
// (harness/domhist.hpp) on octagons and the term/uf family.  --mode=<name>:
//   oct         split_oct_domain, DefaultParams
//   look-oct    lookahead_widening_domain<split_oct>
//   term-itv    term_domain over interval_domain
//   term-zones  term_domain over split_dbm
//   term-dis    term_domain over dis_interval_domain
//   uf          uf_domain
//   num         reduced_numerical_domain_product2<term-dis, zones>  (z_num_domain_t of the tests)
// Release configuration (the default CMAKE_BUILD_TYPE of crab): assert() is compiled out.
// With assertions on, split_oct aborts on `top || x` (assert(left.m_potential.size() > 0)).
#ifndef NDEBUG
#define NDEBUG
#endif
#include "domhist.hpp"
#include <crab/domains/intervals.hpp>
#include <crab/domains/split_dbm.hpp>
#include <crab/domains/split_oct.hpp>
#include <crab/domains/dis_intervals.hpp>
#include <crab/domains/combined_domains.hpp>
#include <crab/domains/term_equiv.hpp>
#include <crab/domains/uf_domain.hpp>
#include <crab/domains/lookahead_widening_domain.hpp>
#include <cstring>
using namespace crab::domains;
using namespace crab::cfg_impl;
using namespace ikos;
typedef interval_domain<z_number, varname_t> itv_t;
typedef DBM_impl::DefaultParams<z_number, DBM_impl::GraphRep::adapt_ss> gp_t;
typedef split_dbm_domain<z_number, varname_t, gp_t> zones_t;
typedef split_oct_domain<z_number, varname_t, gp_t> oct_t;
typedef dis_interval_domain<z_number, varname_t> disitv_t;
typedef term_domain<term::TDomInfo<z_number, varname_t, itv_t>> term_itv_t;
typedef term_domain<term::TDomInfo<z_number, varname_t, zones_t>> term_zones_t;
typedef term_domain<term::TDomInfo<z_number, varname_t, disitv_t>> term_dis_t;
typedef uf_domain<z_number, varname_t> uf_t;
typedef reduced_numerical_domain_product2<term_dis_t, zones_t> num_t;
typedef lookahead_widening_domain<oct_t> look_oct_t;

static std::string mode = "oct";
template <typename D> static std::string run(const std::vector<std::string> &t) {
  D top; return domhist::run_history<D>(t, top);
}
static std::string eval(const std::vector<std::string> &t) {
  if (mode == "oct") return run<oct_t>(t);
  if (mode == "oct-nr") {   // octagons without re-stabilisation after widening (values stay lazily closed longer)
    crab::domains::crab_domain_params_man::get().set_param("oct.widen_restabilize", "false");
    return run<oct_t>(t);
  }
  if (mode == "look-oct") return run<look_oct_t>(t);
  if (mode == "term-itv") return run<term_itv_t>(t);
  if (mode == "term-zones") return run<term_zones_t>(t);
  if (mode == "term-dis") return run<term_dis_t>(t);
  if (mode == "uf") return run<uf_t>(t);
  if (mode == "num") return run<num_t>(t);
  return "HARNESS-ERROR unknown mode " + mode;
}
int main(int argc, char **argv) {
  crab::CrabEnableWarningMsg(false);
  if (argc > 1 && std::strncmp(argv[1], "--mode=", 7) == 0) {
    mode = argv[1] + 7;
    return vh::run_cases(argc - 1, argv + 1, eval);
  }
  return vh::run_cases(argc, argv, eval);
}
