// Correspondence harness of the wrapint family (property C13):
//   crab::wrapint                      (lines  "wi <op> <width> <args...>")
//   crab::domains::wrapped_interval<z> (lines  "wv <op> <width> <args...>")
// Answers: a wrapint is printed as "<get_uint64_t()> <get_bitwidth()>", a wrapped interval
// as "_|_", "top" or "[<start>,<end>]@<width>" (unsigned decimals).  CRAB_ERROR = exit(1):
// the orchestrator records ABORT for that case and restarts after it.
#include <crab/domains/wrapped_interval.hpp>
#include <crab/domains/wrapped_interval_impl.hpp>
#include <crab/numbers/bignums.hpp>
#include <crab/numbers/wrapint.hpp>
#include <crab/support/debug.hpp>
#include <crab/support/os.hpp>
#include "hcommon.hpp"
#include <cstdint>
using namespace crab;
typedef ikos::z_number Z;
typedef ikos::q_number Q;
typedef crab::domains::wrapped_interval<Z> WI;

static uint64_t u64(const std::string &s) { return std::strtoull(s.c_str(), nullptr, 10); }
static std::string dec(uint64_t x) { return std::to_string((unsigned long long)x); }
static std::string sb(bool b) { return b ? "true" : "false"; }
static std::string sw(const wrapint &x) { return dec(x.get_uint64_t()) + " " + dec(x.get_bitwidth()); }
static std::string sz(const Z &z) { return z.get_str(); }

static std::string eval_wi(const std::vector<std::string> &t) {
  const std::string &op = t[1];
  uint64_t w = u64(t[2]);
  size_t n = t.size();
  // ---- constructors and statics
  if (op == "mku64" && n == 4) return sw(wrapint(u64(t[3]), w));
  if (op == "mkz" && n == 4) return sw(wrapint(Z(t[3]), w));
  if (op == "mkq" && n == 5) return sw(wrapint(Q(Z(t[3]), Z(t[4])), w));
  if (op == "mkstr" && n == 4) return sw(wrapint(t[3], w));
  if (op == "fitsz" && n == 4) return sb(wrapint::fits_wrapint(Z(t[3]), w));
  if (op == "fitsq" && n == 5) return sb(wrapint::fits_wrapint(Q(Z(t[3]), Z(t[4])), w));
  if (op == "smax" && n == 3) return sw(wrapint::get_signed_max(w));
  if (op == "smin" && n == 3) return sw(wrapint::get_signed_min(w));
  if (op == "umax" && n == 3) return sw(wrapint::get_unsigned_max(w));
  if (op == "umin" && n == 3) return sw(wrapint::get_unsigned_min(w));
  if (n < 4) return "HARNESS-ERROR";
  wrapint a(u64(t[3]), w);
  if (n == 4) {
    if (op == "u64") return dec(a.get_uint64_t());
    if (op == "bw") return dec(a.get_bitwidth());
    if (op == "getu") return sz(a.get_unsigned_bignum());
    if (op == "gets") return sz(a.get_signed_bignum());
    if (op == "ustr") return a.get_unsigned_str();
    if (op == "sstr") return a.get_signed_str();
    if (op == "write") { crab::crab_string_os os; os << a; return os.str(); }
    if (op == "msb") return sb(a.msb());
    if (op == "iszero") return sb(a.is_zero());
    if (op == "neg") return sw(-a);
    if (op == "preinc") { wrapint &r = ++a; return sw(r) + " " + sw(a); }
    if (op == "predec") { wrapint &r = --a; return sw(r) + " " + sw(a); }
    if (op == "postinc") { wrapint r = a++; return sw(r) + " " + sw(a); }
    if (op == "postdec") { wrapint r = a--; return sw(r) + " " + sw(a); }
    if (op == "rtu") return sw(wrapint(a.get_unsigned_bignum(), w));
    if (op == "rts") return sw(wrapint(a.get_signed_bignum(), w));
    return "HARNESS-ERROR";
  }
  if (op == "sext") return sw(a.sext(u64(t[4])));
  if (op == "zext") return sw(a.zext(u64(t[4])));
  if (op == "keep") return sw(a.keep_lower(u64(t[4])));
  wrapint b(u64(t[4]), w);
  if (op == "add") return sw(a + b);
  if (op == "sub") return sw(a - b);
  if (op == "mul") return sw(a * b);
  if (op == "div") return sw(a / b);
  if (op == "rem") return sw(a % b);
  if (op == "sdiv") return sw(a.sdiv(b));
  if (op == "udiv") return sw(a.udiv(b));
  if (op == "srem") return sw(a.srem(b));
  if (op == "urem") return sw(a.urem(b));
  if (op == "addeq") { wrapint &r = (a += b); return sw(r) + " " + sw(a); }
  if (op == "subeq") { wrapint &r = (a -= b); return sw(r) + " " + sw(a); }
  if (op == "muleq") { wrapint &r = (a *= b); return sw(r) + " " + sw(a); }
  if (op == "eq") return sb(a == b);
  if (op == "ne") return sb(a != b);
  if (op == "lt") return sb(a < b);
  if (op == "le") return sb(a <= b);
  if (op == "gt") return sb(a > b);
  if (op == "ge") return sb(a >= b);
  if (op == "and") return sw(a & b);
  if (op == "or") return sw(a | b);
  if (op == "xor") return sw(a ^ b);
  if (op == "shl") return sw(a << b);
  if (op == "lshr") return sw(a.lshr(b));
  if (op == "ashr") return sw(a.ashr(b));
  return "HARNESS-ERROR";
}

// ------------------------------------------------------------------ wrapped intervals
static WI parse_wv(const std::string &s, uint64_t w) {
  if (s == "bot") return WI::bottom();
  if (s == "top") return WI::top();
  size_t k = s.find(':');
  return WI(wrapint(u64(s.substr(0, k)), w), wrapint(u64(s.substr(k + 1)), w));
}
static std::string swv(const WI &i) {
  if (i.is_bottom()) return "_|_";
  if (i.is_top()) return "top";
  return "[" + dec(i.start().get_uint64_t()) + "," + dec(i.end().get_uint64_t()) + "]@" +
         dec(i.start().get_bitwidth());
}
template <typename T> static std::string str(const T &x) {
  crab::crab_string_os os; os << x; return os.str();
}

static std::string eval_wv(const std::vector<std::string> &t) {
  const std::string &op = t[1];
  uint64_t w = u64(t[2]);
  size_t n = t.size();
  if (op == "mkz" && n == 4) return swv(WI::mk_winterval(Z(t[3]), w));
  if (op == "mkzz" && n == 5) return swv(WI::mk_winterval(Z(t[3]), Z(t[4]), w));
  if (op == "slimit" && n == 3) return swv(WI::signed_limit(w));
  if (op == "ulimit" && n == 3) return swv(WI::unsigned_limit(w));
  if (op == "default" && n == 3) return swv(WI());
  if (n < 4) return "HARNESS-ERROR";
  WI a = parse_wv(t[3], w);
  if (n == 4) {
    if (op == "isbot") return sb(a.is_bottom());
    if (op == "istop") return sb(a.is_top());
    if (op == "issingleton") return sb(a.is_singleton());
    if (op == "crosss") return sb(a.cross_signed_limit());
    if (op == "crossu") return sb(a.cross_unsigned_limit());
    if (op == "neg") return swv(-a);
    if (op == "toitv") return str(a.to_interval());
    if (op == "lowers") return swv(a.lower_half_line(true));
    if (op == "loweru") return swv(a.lower_half_line(false));
    if (op == "uppers") return swv(a.upper_half_line(true));
    if (op == "upperu") return swv(a.upper_half_line(false));
    if (op == "write") return str(a);
    return "HARNESS-ERROR";
  }
  if (op == "at") return sb(a.at(wrapint(u64(t[4]), w)));
  if (op == "zext") return swv(a.ZExt((unsigned)u64(t[4])));
  if (op == "sext") return swv(a.SExt((unsigned)u64(t[4])));
  if (op == "trunc") return swv(a.Trunc((unsigned)u64(t[4])));
  WI b = parse_wv(t[4], w);
  if (op == "leq") return sb(a <= b);
  if (op == "eq") return sb(a == b);
  if (op == "ne") return sb(a != b);
  if (op == "join") return swv(a | b);
  if (op == "meet") return swv(a & b);
  if (op == "widen") return swv(a || b);
  if (op == "narrow") return swv(a && b);
  if (op == "add") return swv(a + b);
  if (op == "sub") return swv(a - b);
  if (op == "mul") return swv(a * b);
  if (op == "div") return swv(a / b);
  if (op == "sdiv") return swv(a.SDiv(b));
  if (op == "udiv") return swv(a.UDiv(b));
  if (op == "srem") return swv(a.SRem(b));
  if (op == "urem") return swv(a.URem(b));
  if (op == "shl") return swv(a.Shl(b));
  if (op == "lshr") return swv(a.LShr(b));
  if (op == "ashr") return swv(a.AShr(b));
  if (op == "and") return swv(a.And(b));
  if (op == "or") return swv(a.Or(b));
  if (op == "xor") return swv(a.Xor(b));
  if (op == "addeq") { WI c = a; c += b; return swv(c); }
  if (op == "subeq") { WI c = a; c -= b; return swv(c); }
  if (op == "muleq") { WI c = a; c *= b; return swv(c); }
  if (op == "diveq") { WI c = a; c /= b; return swv(c); }
  if (op == "trim")
    return swv(ikos::linear_interval_solver_impl::trim_interval(a, b));
  return "HARNESS-ERROR";
}

static std::string eval(const std::vector<std::string> &t) {
  if (t.size() < 3) return "HARNESS-ERROR";
  if (t[0] == "wi") return eval_wi(t);
  if (t[0] == "wv") return eval_wv(t);
  return "HARNESS-ERROR";
}
int main(int argc, char **argv) {
  crab::CrabEnableWarningMsg(false);
  return vh::run_cases(argc, argv, eval);
}
