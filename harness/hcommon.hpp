// Shared helpers for the correspondence harnesses: case-file reading, tokenising, and
// the R <i> <answer> protocol.  CRAB_ERROR calls exit(1); the orchestrator notices a
// missing answer and restarts after the aborted case.
#pragma once
#include <fstream>
#include <iostream>
#include <sstream>
#include <string>
#include <vector>
#include <cstdlib>

namespace vh {
inline std::vector<std::string> read_lines(const char *fn) {
  std::ifstream in(fn);
  std::vector<std::string> r;
  std::string l;
  while (std::getline(in, l)) r.push_back(l);
  return r;
}
inline std::vector<std::string> split(const std::string &s, char sep = ' ') {
  std::vector<std::string> r;
  std::string cur;
  for (char c : s) {
    if (c == sep) { if (!cur.empty()) r.push_back(cur); cur.clear(); }
    else cur.push_back(c);
  }
  if (!cur.empty()) r.push_back(cur);
  return r;
}
template <typename F> int run_cases(int argc, char **argv, F eval) {
  if (argc < 2) { std::cerr << "usage: harness <casefile> [start]\n"; return 2; }
  std::vector<std::string> lines = read_lines(argv[1]);
  size_t start = argc > 2 ? std::strtoul(argv[2], nullptr, 10) : 0;
  for (size_t i = start; i < lines.size(); ++i) {
    std::string r = eval(split(lines[i]));
    std::cout << "R " << i << " " << r << "\n" << std::flush;
  }
  return 0;
}
} // namespace vh
