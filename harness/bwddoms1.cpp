// C11 oracle-only streams, part 1: the backward (necessary preconditions) analysis over the zone family.
// --mode=<name>:
//   zones       split_dbm_domain, DefaultParams
//   sparse      sparse_dbm_domain
//   bool-zones  flat_boolean_numerical_domain<split_dbm_domain>
// See bwddoms.hpp for the protocol.
#ifndef NDEBUG
#define NDEBUG
#endif
#include "bwddoms.hpp"
#include <crab/domains/intervals.hpp>
#include <crab/domains/split_dbm.hpp>
#include <crab/domains/sparse_dbm.hpp>
#include <crab/domains/flat_boolean_domain.hpp>
using namespace crab::domains;
using namespace bwddoms;
typedef DBM_impl::DefaultParams<z_number, DBM_impl::GraphRep::adapt_ss> gp_t;
typedef split_dbm_domain<z_number, varname_t, gp_t> zones_t;
typedef sparse_dbm_domain<z_number, varname_t, gp_t> sparse_t;
typedef flat_boolean_numerical_domain<zones_t> bool_zones_t;

static std::string dispatch(const std::vector<std::string> &t) {
  const std::string &m = bwddoms::mode;
  if (m == "zones") return bwddoms::eval<zones_t>(t, zones_t());
  if (m == "sparse") return bwddoms::eval<sparse_t>(t, sparse_t());
  if (m == "bool-zones") return bwddoms::eval<bool_zones_t>(t, bool_zones_t());
  return "HARNESS-ERROR unknown mode " + m;
}
int main(int argc, char **argv) { return bwddoms::main_with(argc, argv, dispatch); }
