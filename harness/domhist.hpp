// Operation histories over an abstract domain (properties C03/C04/C05/C12/C16).
// Case line:  hist <nregs> <nvars> ; <op> ; <op> ; ...
// Variables v0..v(nvars-1) are 32-bit integers, b0 b1 (indices nvars, nvars+1) booleans.
// After every state-changing op the state of the target register is printed; queries
// print their own answer.  Answers are joined with " ; ".
#pragma once
#include "crab_lang.hpp"
#include "hcommon.hpp"
#include <crab/domains/abstract_domain_operators.hpp>
#include <crab/fixpoint/thresholds.hpp>

namespace domhist {
using namespace crab::cfg_impl;
using namespace ikos;
typedef z_lin_exp_t lin_t;
typedef z_lin_cst_t cst_t;
typedef linear_constraint_system<z_number, varname_t> csts_t;
typedef interval<z_number> itv_t;

template <typename T> static std::string str(const T &x) {
  crab::crab_string_os os; os << x; return os.str();
}

struct ctx {
  variable_factory_t vfac;
  std::vector<z_var> vars;
  void init(unsigned nv) {
    vars.clear();
    for (unsigned i = 0; i < nv; ++i)
      vars.push_back(z_var(vfac["v" + std::to_string(i)], crab::INT_TYPE, 32));
    vars.push_back(z_var(vfac["b0"], crab::BOOL_TYPE, 1));
    vars.push_back(z_var(vfac["b1"], crab::BOOL_TYPE, 1));
  }
  std::string vname(const z_var &v) const {
    for (size_t i = 0; i < vars.size(); ++i)
      if (vars[i].index() == v.index()) return "v" + std::to_string(i);
    return "v?";
  }
};

struct tok {
  const std::vector<std::string> &t; size_t p;
  const std::string &next() { if (p >= t.size()) { std::cerr << "parse error\n"; std::exit(3);} return t[p++]; }
  long nexti() { return std::stol(next()); }
  z_number nextz() { return z_number(next()); }
};

inline lin_t parse_exp(ctx &c, tok &k) {       // E n c1 v1 ... cn vn k
  k.next();
  long n = k.nexti();
  lin_t e;
  for (long i = 0; i < n; ++i) { z_number co = k.nextz(); long v = k.nexti(); e = e + lin_t(co, c.vars[v]); }
  e = e + k.nextz();
  return e;
}
inline cst_t parse_cst(ctx &c, tok &k) {       // C kind E...
  k.next();
  std::string kind = k.next();
  lin_t e = parse_exp(c, k);
  if (kind == "eq") return cst_t(e, cst_t::EQUALITY);
  if (kind == "ne") return cst_t(e, cst_t::DISEQUATION);
  if (kind == "le") return cst_t(e, cst_t::INEQUALITY);
  return cst_t(e, cst_t::STRICT_INEQUALITY);
}
inline std::string show_cst(const ctx &c, const cst_t &x) {
  std::string r = x.is_equality() ? "eq" : x.is_disequation() ? "ne" : x.is_inequality() ? "le" : "lt";
  r += ":";
  bool first = true;
  for (auto it = x.expression().begin(); it != x.expression().end(); ++it) {
    if (!first) r += "+";
    first = false;
    r += str(it->first) + "*" + c.vname(it->second);
  }
  r += ":" + str(x.expression().constant());
  return r;
}

template <typename Dom> std::string show_state(ctx &c, const Dom &d) {
  if (d.is_bottom()) return "_|_";
  std::string r = d.is_top() ? "T" : "";
  for (size_t i = 0; i < c.vars.size(); ++i) { r += (i ? "|" : ""); r += str(d.at(c.vars[i])); }
  return r;
}

template <typename Dom> std::string run_history(const std::vector<std::string> &line, const Dom &topv) {
  // split on ";"
  std::vector<std::vector<std::string>> ops(1);
  for (auto &s : line) { if (s == ";") ops.emplace_back(); else ops.back().push_back(s); }
  if (ops[0].size() < 3 || ops[0][0] != "hist") return "HARNESS-ERROR";
  unsigned nregs = std::stoul(ops[0][1]), nv = std::stoul(ops[0][2]);
  ctx c; c.init(nv);
  std::vector<Dom> regs(nregs, topv.make_top());
  std::string out;
  auto emit = [&](const std::string &s) { if (!out.empty()) out += " ; "; out += s; };
  for (size_t i = 1; i < ops.size(); ++i) {
    if (ops[i].empty()) continue;
    tok k{ops[i], 0};
    std::string op = k.next();
    if (op == "q_leq") { long s = k.nexti(), t = k.nexti(); emit(regs[s] <= regs[t] ? "true" : "false"); continue; }
    if (op == "q_entails") { long r = k.nexti(); cst_t x = parse_cst(c, k); emit(regs[r].entails(x) ? "true" : "false"); continue; }
    if (op == "q_csts") {
      long r = k.nexti(); csts_t cs = regs[r].to_linear_constraint_system();
      std::string s = "{"; bool f = true;
      for (auto const &x : cs) { if (!f) s += ","; f = false; s += show_cst(c, x); }
      emit(s + "}"); continue;
    }
    if (op == "q_at") { long r = k.nexti(); emit(show_state(c, regs[r])); continue; }
    long r = k.nexti();
    Dom &d = regs[r];
    if (op == "top") d.set_to_top();
    else if (op == "bot") d.set_to_bottom();
    else if (op == "copy") { long s = k.nexti(); Dom tmp(regs[s]); d = tmp; }
    else if (op == "assign") { long x = k.nexti(); lin_t e = parse_exp(c, k); d.assign(c.vars[x], e); }
    else if (op == "wassign") { long x = k.nexti(); lin_t e = parse_exp(c, k); d.weak_assign(c.vars[x], e); }
    else if (op == "arith" || op == "bit") {
      std::string o = k.next(); long x = k.nexti(), y = k.nexti(); std::string kind = k.next();
      if (op == "arith") {
        crab::domains::arith_operation_t ao =
          o == "add" ? crab::domains::OP_ADDITION : o == "sub" ? crab::domains::OP_SUBTRACTION :
          o == "mul" ? crab::domains::OP_MULTIPLICATION : o == "sdiv" ? crab::domains::OP_SDIV :
          o == "udiv" ? crab::domains::OP_UDIV : o == "srem" ? crab::domains::OP_SREM : crab::domains::OP_UREM;
        if (kind == "v") d.apply(ao, c.vars[x], c.vars[y], c.vars[k.nexti()]);
        else d.apply(ao, c.vars[x], c.vars[y], k.nextz());
      } else {
        crab::domains::bitwise_operation_t bo =
          o == "and" ? crab::domains::OP_AND : o == "or" ? crab::domains::OP_OR :
          o == "xor" ? crab::domains::OP_XOR : o == "shl" ? crab::domains::OP_SHL :
          o == "lshr" ? crab::domains::OP_LSHR : crab::domains::OP_ASHR;
        if (kind == "v") d.apply(bo, c.vars[x], c.vars[y], c.vars[k.nexti()]);
        else d.apply(bo, c.vars[x], c.vars[y], k.nextz());
      }
    }
    else if (op == "cast") {
      std::string o = k.next(); long dst = k.nexti(), src = k.nexti();
      crab::domains::int_conv_operation_t co = o == "trunc" ? crab::domains::OP_TRUNC :
          o == "sext" ? crab::domains::OP_SEXT : crab::domains::OP_ZEXT;
      d.apply(co, c.vars[dst], c.vars[src]);
    }
    else if (op == "assume") { long n = k.nexti(); csts_t cs; for (long j = 0; j < n; ++j) cs += parse_cst(c, k); d += cs; }
    else if (op == "select") { long l = k.nexti(); cst_t x = parse_cst(c, k); lin_t e1 = parse_exp(c, k); lin_t e2 = parse_exp(c, k); d.select(c.vars[l], x, e1, e2); }
    else if (op == "forget" || op == "project") {
      long n = k.nexti(); std::vector<z_var> vs; for (long j = 0; j < n; ++j) vs.push_back(c.vars[k.nexti()]);
      if (op == "forget") d.forget(vs); else d.project(vs);
    }
    else if (op == "rename") {
      long n = k.nexti(); std::vector<z_var> f, t;
      for (long j = 0; j < n; ++j) f.push_back(c.vars[k.nexti()]);
      for (long j = 0; j < n; ++j) t.push_back(c.vars[k.nexti()]);
      d.rename(f, t);
    }
    else if (op == "expand") { long x = k.nexti(), nx = k.nexti(); d.expand(c.vars[x], c.vars[nx]); }
    else if (op == "join" || op == "meet" || op == "widen" || op == "narrow" || op == "widenthr") {
      long s = k.nexti(), t = k.nexti();
      if (op == "join") { Dom tmp = regs[s] | regs[t]; regs[r] = tmp; }
      else if (op == "meet") { Dom tmp = regs[s] & regs[t]; regs[r] = tmp; }
      else if (op == "widen") { Dom tmp = regs[s] || regs[t]; regs[r] = tmp; }
      else if (op == "narrow") { Dom tmp = regs[s] && regs[t]; regs[r] = tmp; }
      else {
        long n = k.nexti(); crab::thresholds<z_number> ts;
        for (long j = 0; j < n; ++j) ts.add(bound<z_number>(k.nextz()));
        Dom tmp = regs[s].widening_thresholds(regs[t], ts); regs[r] = tmp;
      }
    }
    else if (op == "normalize") { d.normalize(); }
    else if (op == "minimize") { d.minimize(); }
    else return "HARNESS-ERROR " + op;
    emit(show_state(c, regs[r]));
  }
  return out;
}
} // namespace domhist
