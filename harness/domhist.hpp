// Operation histories over an abstract domain (properties C03/C04/C05/C12/C16).
// Case line:  hist <nregs> <nvars> [<nbools>] ; <op> ; <op> ; ...
// Variables v0..v(nvars-1) are 32-bit integers, b0 .. b(nbools-1) (indices nvars, nvars+1, ...;
// nbools = 2 when the header has no third number) booleans.
// After every state-changing op the state of the target register is printed; queries
// print their own answer.  Answers are joined with " ; ".
// Boolean operations (b, b1, ... are numbers of boolean variables, x any variable index):
//   bassign r b C..      b := (constraint)            bwassign: weak_assign_bool_cst
//   bcopy r b b1 neg     b := b1 / not b1 (neg=1)     bwcopy:   weak_assign_bool_var
//   bbin r and|or|xor b b1 b2
//   bassume r b neg      assume_bool(b, negated)
//   bselect r b bc b1 b2 b := bc ? b1 : b2
//   bforget r b          forget({b})                  havoc r x: operator-=(x)
//   bfromint r b v       assume 0 <= v <= 1 ; b := trunc v   (value-preserving on every reading of trunc)
//   q_bat r b            what the value knows about b: true / false / top / bottom (flat boolean
//                        component if the domain has one, otherwise from at(b); itv:<i> if at(b)
//                        is an interval other than [0,0] [1,1] [0,1] top)
//   leqprobe r s t b neg r := t ; assume_bool(r, b, neg); prints "<s <= t> # <state of r> # <constraints of r>"
#pragma once
#include "crab_lang.hpp"
#include "hcommon.hpp"
#include <crab/domains/abstract_domain_operators.hpp>
#include <crab/fixpoint/thresholds.hpp>

namespace domhist {
using namespace crab::cfg_impl;
using namespace ikos;
typedef z_lin_exp_t lin_t;
typedef z_lin_cst_t cst_t;
typedef linear_constraint_system<z_number, varname_t> csts_t;
typedef interval<z_number> itv_t;

template <typename T> static std::string str(const T &x) {
  crab::crab_string_os os; os << x; return os.str();
}

struct ctx {
  variable_factory_t vfac;
  std::vector<z_var> vars;
  unsigned nints = 0;
  void init(unsigned nv, unsigned nb = 2) {
    vars.clear();
    nints = nv;
    for (unsigned i = 0; i < nv; ++i)
      vars.push_back(z_var(vfac["v" + std::to_string(i)], crab::INT_TYPE, 32));
    for (unsigned i = 0; i < nb; ++i)
      vars.push_back(z_var(vfac["b" + std::to_string(i)], crab::BOOL_TYPE, 1));
  }
  const z_var &bvar(long b) const {
    if (b < 0 || nints + b >= vars.size()) { std::cerr << "bad boolean index\n"; std::exit(3); }
    return vars[nints + b];
  }
  std::string vname(const z_var &v) const {
    for (size_t i = 0; i < vars.size(); ++i)
      if (vars[i].index() == v.index()) return "v" + std::to_string(i);
    return "v?";
  }
};

struct tok {
  const std::vector<std::string> &t; size_t p;
  const std::string &next() { if (p >= t.size()) { std::cerr << "parse error\n"; std::exit(3);} return t[p++]; }
  long nexti() { return std::stol(next()); }
  z_number nextz() { return z_number(next()); }
};

inline lin_t parse_exp(ctx &c, tok &k) {       // E n c1 v1 ... cn vn k
  k.next();
  long n = k.nexti();
  lin_t e;
  for (long i = 0; i < n; ++i) { z_number co = k.nextz(); long v = k.nexti(); e = e + lin_t(co, c.vars[v]); }
  e = e + k.nextz();
  return e;
}
inline cst_t parse_cst(ctx &c, tok &k) {       // C kind E...
  k.next();
  std::string kind = k.next();
  lin_t e = parse_exp(c, k);
  if (kind == "eq") return cst_t(e, cst_t::EQUALITY);
  if (kind == "ne") return cst_t(e, cst_t::DISEQUATION);
  if (kind == "le") return cst_t(e, cst_t::INEQUALITY);
  return cst_t(e, cst_t::STRICT_INEQUALITY);
}
inline std::string show_cst(const ctx &c, const cst_t &x) {
  std::string r = x.is_equality() ? "eq" : x.is_disequation() ? "ne" : x.is_inequality() ? "le" : "lt";
  r += ":";
  bool first = true;
  for (auto it = x.expression().begin(); it != x.expression().end(); ++it) {
    if (!first) r += "+";
    first = false;
    r += str(it->first) + "*" + c.vname(it->second);
  }
  r += ":" + str(x.expression().constant());
  return r;
}

template <typename Dom> std::string show_state(ctx &c, const Dom &d) {
  if (d.is_bottom()) return "_|_";
  std::string r = d.is_top() ? "T" : "";
  for (size_t i = 0; i < c.vars.size(); ++i) { r += (i ? "|" : ""); r += str(d.at(c.vars[i])); }
  return r;
}

// what the value knows about the boolean variable b
template <typename Dom>
auto bat_impl(Dom &d, const z_var &b, int) -> decltype(d.first().get_bool(b), std::string()) {
  if (d.is_bottom()) return "bottom";
  auto v = d.first().get_bool(b);
  return v.is_bottom() ? "bottom" : v.is_true() ? "true" : v.is_false() ? "false" : "top";
}
template <typename Dom> std::string bat_impl(Dom &d, const z_var &b, long) {
  if (d.is_bottom()) return "bottom";
  itv_t i = d.at(b);
  if (i.is_bottom()) return "bottom";
  if (i.is_top()) return "top";
  std::string s = str(i);
  if (s == "[1, 1]") return "true";
  if (s == "[0, 0]") return "false";
  if (s == "[0, 1]") return "top";
  return "itv:" + s;
}
template <typename Dom> std::string show_csts(ctx &c, const Dom &d) {
  csts_t cs = d.to_linear_constraint_system();
  std::string s = "{"; bool f = true;
  for (auto const &x : cs) { if (!f) s += ","; f = false; s += show_cst(c, x); }
  return s + "}";
}

template <typename Dom> std::string run_history(const std::vector<std::string> &line, const Dom &topv) {
  // split on ";"
  std::vector<std::vector<std::string>> ops(1);
  for (auto &s : line) { if (s == ";") ops.emplace_back(); else ops.back().push_back(s); }
  if (ops[0].size() < 3 || ops[0][0] != "hist") return "HARNESS-ERROR";
  unsigned nregs = std::stoul(ops[0][1]), nv = std::stoul(ops[0][2]);
  unsigned nb = ops[0].size() > 3 ? std::stoul(ops[0][3]) : 2;
  ctx c; c.init(nv, nb);
  std::vector<Dom> regs(nregs, topv.make_top());
  std::string out;
  auto emit = [&](const std::string &s) { if (!out.empty()) out += " ; "; out += s; };
  for (size_t i = 1; i < ops.size(); ++i) {
    if (ops[i].empty()) continue;
    tok k{ops[i], 0};
    std::string op = k.next();
    if (op == "q_leq") { long s = k.nexti(), t = k.nexti(); emit(regs[s] <= regs[t] ? "true" : "false"); continue; }
    if (op == "q_entails") { long r = k.nexti(); cst_t x = parse_cst(c, k); emit(regs[r].entails(x) ? "true" : "false"); continue; }
    if (op == "q_csts") {
      long r = k.nexti(); csts_t cs = regs[r].to_linear_constraint_system();
      std::string s = "{"; bool f = true;
      for (auto const &x : cs) { if (!f) s += ","; f = false; s += show_cst(c, x); }
      emit(s + "}"); continue;
    }
    if (op == "q_at") { long r = k.nexti(); emit(show_state(c, regs[r])); continue; }
    if (op == "q_bat") { long r = k.nexti(); long b = k.nexti(); emit(bat_impl(regs[r], c.bvar(b), 0)); continue; }
    if (op == "leqprobe") {
      long r = k.nexti(), s = k.nexti(), t = k.nexti(), b = k.nexti(), neg = k.nexti();
      bool le = regs[s] <= regs[t];
      Dom tmp(regs[t]);
      tmp.assume_bool(c.bvar(b), neg != 0);
      regs[r] = tmp;
      emit(std::string(le ? "true" : "false") + " # " + show_state(c, regs[r]) + " # " + show_csts(c, regs[r]));
      continue;
    }
    long r = k.nexti();
    Dom &d = regs[r];
    if (op == "top") d.set_to_top();
    else if (op == "bot") d.set_to_bottom();
    else if (op == "copy") { long s = k.nexti(); Dom tmp(regs[s]); d = tmp; }
    else if (op == "assign") { long x = k.nexti(); lin_t e = parse_exp(c, k); d.assign(c.vars[x], e); }
    else if (op == "wassign") { long x = k.nexti(); lin_t e = parse_exp(c, k); d.weak_assign(c.vars[x], e); }
    else if (op == "arith" || op == "bit") {
      std::string o = k.next(); long x = k.nexti(), y = k.nexti(); std::string kind = k.next();
      if (op == "arith") {
        crab::domains::arith_operation_t ao =
          o == "add" ? crab::domains::OP_ADDITION : o == "sub" ? crab::domains::OP_SUBTRACTION :
          o == "mul" ? crab::domains::OP_MULTIPLICATION : o == "sdiv" ? crab::domains::OP_SDIV :
          o == "udiv" ? crab::domains::OP_UDIV : o == "srem" ? crab::domains::OP_SREM : crab::domains::OP_UREM;
        if (kind == "v") d.apply(ao, c.vars[x], c.vars[y], c.vars[k.nexti()]);
        else d.apply(ao, c.vars[x], c.vars[y], k.nextz());
      } else {
        crab::domains::bitwise_operation_t bo =
          o == "and" ? crab::domains::OP_AND : o == "or" ? crab::domains::OP_OR :
          o == "xor" ? crab::domains::OP_XOR : o == "shl" ? crab::domains::OP_SHL :
          o == "lshr" ? crab::domains::OP_LSHR : crab::domains::OP_ASHR;
        if (kind == "v") d.apply(bo, c.vars[x], c.vars[y], c.vars[k.nexti()]);
        else d.apply(bo, c.vars[x], c.vars[y], k.nextz());
      }
    }
    else if (op == "cast") {
      std::string o = k.next(); long dst = k.nexti(), src = k.nexti();
      crab::domains::int_conv_operation_t co = o == "trunc" ? crab::domains::OP_TRUNC :
          o == "sext" ? crab::domains::OP_SEXT : crab::domains::OP_ZEXT;
      d.apply(co, c.vars[dst], c.vars[src]);
    }
    else if (op == "assume") { long n = k.nexti(); csts_t cs; for (long j = 0; j < n; ++j) cs += parse_cst(c, k); d += cs; }
    else if (op == "select") { long l = k.nexti(); cst_t x = parse_cst(c, k); lin_t e1 = parse_exp(c, k); lin_t e2 = parse_exp(c, k); d.select(c.vars[l], x, e1, e2); }
    else if (op == "forget" || op == "project") {
      long n = k.nexti(); std::vector<z_var> vs; for (long j = 0; j < n; ++j) vs.push_back(c.vars[k.nexti()]);
      if (op == "forget") d.forget(vs); else d.project(vs);
    }
    else if (op == "rename") {
      long n = k.nexti(); std::vector<z_var> f, t;
      for (long j = 0; j < n; ++j) f.push_back(c.vars[k.nexti()]);
      for (long j = 0; j < n; ++j) t.push_back(c.vars[k.nexti()]);
      d.rename(f, t);
    }
    else if (op == "expand") { long x = k.nexti(), nx = k.nexti(); d.expand(c.vars[x], c.vars[nx]); }
    else if (op == "join" || op == "meet" || op == "widen" || op == "narrow" || op == "widenthr") {
      long s = k.nexti(), t = k.nexti();
      if (op == "join") { Dom tmp = regs[s] | regs[t]; regs[r] = std::move(tmp); }
      else if (op == "meet") { Dom tmp = regs[s] & regs[t]; regs[r] = std::move(tmp); }
      else if (op == "widen") { Dom tmp = regs[s] || regs[t]; regs[r] = std::move(tmp); }
      else if (op == "narrow") { Dom tmp = regs[s] && regs[t]; regs[r] = std::move(tmp); }
      else {
        long n = k.nexti(); crab::thresholds<z_number> ts;
        for (long j = 0; j < n; ++j) ts.add(bound<z_number>(k.nextz()));
        Dom tmp = regs[s].widening_thresholds(regs[t], ts); regs[r] = std::move(tmp);
      }
    }
    else if (op == "bassign" || op == "bwassign") {
      long b = k.nexti(); cst_t x = parse_cst(c, k);
      if (op == "bassign") d.assign_bool_cst(c.bvar(b), x); else d.weak_assign_bool_cst(c.bvar(b), x);
    }
    else if (op == "bcopy" || op == "bwcopy") {
      long b = k.nexti(), b1 = k.nexti(), neg = k.nexti();
      if (op == "bcopy") d.assign_bool_var(c.bvar(b), c.bvar(b1), neg != 0);
      else d.weak_assign_bool_var(c.bvar(b), c.bvar(b1), neg != 0);
    }
    else if (op == "bbin") {
      std::string o = k.next(); long b = k.nexti(), b1 = k.nexti(), b2 = k.nexti();
      crab::domains::bool_operation_t bo = o == "and" ? crab::domains::OP_BAND :
          o == "or" ? crab::domains::OP_BOR : crab::domains::OP_BXOR;
      d.apply_binary_bool(bo, c.bvar(b), c.bvar(b1), c.bvar(b2));
    }
    else if (op == "bassume") { long b = k.nexti(), neg = k.nexti(); d.assume_bool(c.bvar(b), neg != 0); }
    else if (op == "bselect") {
      long b = k.nexti(), bc = k.nexti(), b1 = k.nexti(), b2 = k.nexti();
      d.select_bool(c.bvar(b), c.bvar(bc), c.bvar(b1), c.bvar(b2));
    }
    else if (op == "bforget") { long b = k.nexti(); std::vector<z_var> vs; vs.push_back(c.bvar(b)); d.forget(vs); }
    else if (op == "havoc") { long x = k.nexti(); d -= c.vars[x]; }
    else if (op == "bfromint") {
      long b = k.nexti(), v = k.nexti();
      csts_t cs; cs += cst_t(lin_t(c.vars[v]) >= z_number(0)); cs += cst_t(lin_t(c.vars[v]) <= z_number(1));
      d += cs;
      d.apply(crab::domains::OP_TRUNC, c.bvar(b), c.vars[v]);
    }
    else if (op == "normalize") { d.normalize(); }
    else if (op == "minimize") { d.minimize(); }
    else return "HARNESS-ERROR " + op;
    emit(show_state(c, regs[r]));
  }
  return out;
}
} // namespace domhist
