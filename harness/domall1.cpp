// Witness-search harness, part 1 of 3 (C03/C04/C05/C16): operation histories
// (harness/domhist.hpp) on the zone family of native domains.  --mode=<name>:
//   zones       split_dbm_domain, DefaultParams (int64 weights, unchecked)
//   zones-safe  split_dbm_domain, SafeInt64DefaultParams (CRAB_ERROR on overflow)
//   sparse      sparse_dbm_domain
//   gen-zones   abstract_domain<z_var>(zones)       (type-erased wrapper)
//   ref-zones   abstract_domain_ref<z_var>(zones)   (copy-on-write wrapper)
//   pack        numerical_packing_domain<zones>
//   tvpi        fixed_tvpi_domain<zones>, coefficients {2,3}
//   vpart       product_value_partitioning_domain<zones>; a partition on x is started
//               before every assignment of a constant to x (intrinsic
//               value_partition_start), which is a concrete no-op
// Release configuration (the default CMAKE_BUILD_TYPE of crab): assert() is compiled out.
// With assertions on, split_oct aborts on `top || x` (assert(left.m_potential.size() > 0)).
#ifndef NDEBUG
#define NDEBUG
#endif
#include "domhist.hpp"
#include <crab/domains/intervals.hpp>
#include <crab/domains/split_dbm.hpp>
#include <crab/domains/sparse_dbm.hpp>
#include <crab/domains/fixed_tvpi_domain.hpp>
#include <crab/domains/value_partitioning_domain.hpp>
#include <crab/domains/numerical_packing.hpp>
#include <crab/domains/generic_abstract_domain.hpp>
#include <cstring>
using namespace crab::domains;
using namespace crab::cfg_impl;
using namespace ikos;
typedef DBM_impl::DefaultParams<z_number, DBM_impl::GraphRep::adapt_ss> gp_t;
typedef DBM_impl::SafeInt64DefaultParams<z_number, DBM_impl::GraphRep::adapt_ss> gps_t;
typedef split_dbm_domain<z_number, varname_t, gp_t> zones_t;
typedef split_dbm_domain<z_number, varname_t, gps_t> zones_safe_t;
typedef sparse_dbm_domain<z_number, varname_t, gp_t> sparse_t;
typedef fixed_tvpi_domain<zones_t> tvpi_t;
typedef product_value_partitioning_domain<zones_t> vpart_t;
typedef numerical_packing_domain<zones_t> pack_t;
typedef abstract_domain<z_var> gen_t;
typedef abstract_domain_ref<z_var> ref_t;

// Same interface as the domains as far as run_history uses it; starts a value partition
// on x before "x := constant".
struct vp_adapter {
  typedef vpart_t D;
  typedef z_var V;
  typedef domhist::lin_t E;
  typedef domhist::cst_t C;
  typedef domhist::csts_t CS;
  D d;
  vp_adapter() {}
  explicit vp_adapter(const D &x) : d(x) {}
  vp_adapter make_top() const { return vp_adapter(d.make_top()); }
  void set_to_top() { d.set_to_top(); }
  void set_to_bottom() { d.set_to_bottom(); }
  bool is_bottom() const { return d.is_bottom(); }
  bool is_top() const { return d.is_top(); }
  bool operator<=(const vp_adapter &o) const { return d <= o.d; }
  vp_adapter operator|(const vp_adapter &o) const { return vp_adapter(d | o.d); }
  vp_adapter operator&(const vp_adapter &o) const { return vp_adapter(d & o.d); }
  vp_adapter operator||(const vp_adapter &o) const { return vp_adapter(d || o.d); }
  vp_adapter operator&&(const vp_adapter &o) const { return vp_adapter(d && o.d); }
  vp_adapter widening_thresholds(const vp_adapter &o, const crab::thresholds<z_number> &ts) const {
    return vp_adapter(d.widening_thresholds(o.d, ts));
  }
  void assign(const V &x, const E &e) {
    if (e.is_constant()) d.intrinsic(VALUE_PARTITION_START, {x}, {});
    d.assign(x, e);
  }
  void weak_assign(const V &x, const E &e) { d.weak_assign(x, e); }
  void apply(arith_operation_t op, const V &x, const V &y, const V &z) { d.apply(op, x, y, z); }
  void apply(arith_operation_t op, const V &x, const V &y, z_number k) { d.apply(op, x, y, k); }
  void apply(bitwise_operation_t op, const V &x, const V &y, const V &z) { d.apply(op, x, y, z); }
  void apply(bitwise_operation_t op, const V &x, const V &y, z_number k) { d.apply(op, x, y, k); }
  void apply(int_conv_operation_t op, const V &x, const V &y) { d.apply(op, x, y); }
  void operator+=(const CS &cs) { d += cs; }
  void select(const V &l, const C &c, const E &e1, const E &e2) { d.select(l, c, e1, e2); }
  void forget(const std::vector<V> &vs) { d.forget(vs); }
  void project(const std::vector<V> &vs) { d.project(vs); }
  void rename(const std::vector<V> &f, const std::vector<V> &t) { d.rename(f, t); }
  void expand(const V &x, const V &nx) { d.expand(x, nx); }
  void normalize() { d.normalize(); }
  void minimize() { d.minimize(); }
  void operator-=(const V &x) { d -= x; }
  void assign_bool_cst(const V &b, const C &c) { d.assign_bool_cst(b, c); }
  void weak_assign_bool_cst(const V &b, const C &c) { d.weak_assign_bool_cst(b, c); }
  void assign_bool_var(const V &b, const V &b1, bool neg) { d.assign_bool_var(b, b1, neg); }
  void weak_assign_bool_var(const V &b, const V &b1, bool neg) { d.weak_assign_bool_var(b, b1, neg); }
  void apply_binary_bool(bool_operation_t op, const V &b, const V &b1, const V &b2) { d.apply_binary_bool(op, b, b1, b2); }
  void assume_bool(const V &b, bool neg) { d.assume_bool(b, neg); }
  void select_bool(const V &b, const V &bc, const V &b1, const V &b2) { d.select_bool(b, bc, b1, b2); }
  interval<z_number> at(const V &x) const { return d.at(x); }
  bool entails(const C &c) const { return d.entails(c); }
  CS to_linear_constraint_system() const { return d.to_linear_constraint_system(); }
};

static std::string mode = "zones";
template <typename D> static std::string run(const std::vector<std::string> &t) {
  D top; return domhist::run_history<D>(t, top);
}
static std::string eval(const std::vector<std::string> &t) {
  if (mode == "zones") return run<zones_t>(t);
  if (mode == "zones-nr") {   // zones without re-stabilisation after widening
    crab_domain_params_man::get().set_param("zones.widen_restabilize", "false");
    return run<zones_t>(t);
  }
  if (mode == "zones-safe") return run<zones_safe_t>(t);
  if (mode == "sparse") return run<sparse_t>(t);
  if (mode == "pack") return run<pack_t>(t);
  if (mode == "tvpi") return run<tvpi_t>(t);
  if (mode == "vpart") return run<vp_adapter>(t);
  if (mode == "gen-zones") { zones_t top; gen_t g(top); return domhist::run_history<gen_t>(t, g); }
  if (mode == "ref-zones") { zones_t top; ref_t g(top); return domhist::run_history<ref_t>(t, g); }
  return "HARNESS-ERROR unknown mode " + mode;
}
int main(int argc, char **argv) {
  crab::CrabEnableWarningMsg(false);
  crab_domain_params_man::get().coefficients().push_back(2);
  crab_domain_params_man::get().coefficients().push_back(3);
  if (argc > 1 && std::strncmp(argv[1], "--mode=", 7) == 0) {
    mode = argv[1] + 7;
    return vh::run_cases(argc - 1, argv + 1, eval);
  }
  return vh::run_cases(argc, argv, eval);
}
