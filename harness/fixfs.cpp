// Correspondence harness for property C06: the fixpoint iterator driven with a finite-set
// value type (join as widening, meet as narrowing) and exact-image block transformers.
// Case: fix N S entry delay desc | E a b a b ... | R blk k s t ... (per block) | I s ... | A blk k s ... (per assumption)
// Output: per block  pre:post  as decimal bit sets, separated by spaces.
#include "crab_lang.hpp"
#include "hcommon.hpp"
#include <crab/fixpoint/interleaved_fixpoint_iterator.hpp>
#include <cstdint>
using namespace crab::cfg_impl;

static unsigned NSTATES = 1;
struct SetVal {
  uint64_t bits;
  SetVal(uint64_t b = 0) : bits(b) {}
  static uint64_t all() { return NSTATES >= 64 ? ~0ULL : ((1ULL << NSTATES) - 1); }
  SetVal make_top() const { return SetVal(all()); }
  SetVal make_bottom() const { return SetVal(0); }
  bool is_bottom() const { return bits == 0; }
  bool is_top() const { return bits == all(); }
  bool operator<=(const SetVal &o) const { return (bits & o.bits) == bits; }
  void operator|=(const SetVal &o) { bits |= o.bits; }
  SetVal operator|(const SetVal &o) const { return SetVal(bits | o.bits); }
  SetVal operator&(const SetVal &o) const { return SetVal(bits & o.bits); }
  SetVal operator||(const SetVal &o) const { return SetVal(bits | o.bits); }
  SetVal operator&&(const SetVal &o) const { return SetVal(bits & o.bits); }
  template <typename T> SetVal widening_thresholds(const SetVal &o, const T &) const { return SetVal(bits | o.bits); }
  void write(crab::crab_os &o) const { o << (unsigned long)bits; }
};
inline crab::crab_os &operator<<(crab::crab_os &o, const SetVal &v) { v.write(o); return o; }

typedef ikos::interleaved_fwd_fixpoint_iterator<z_cfg_ref_t, SetVal> base_t;
struct FS : public base_t {
  const std::vector<std::vector<std::pair<unsigned, unsigned>>> &rel;
  FS(z_cfg_ref_t cfg, SetVal fac, const crab::fixpoint_parameters &p,
     const std::vector<std::vector<std::pair<unsigned, unsigned>>> &r)
      : base_t(cfg, fac, p, false), rel(r) {}
  SetVal analyze(const basic_block_label_t &node, SetVal &&inv) override {
    unsigned b = std::stoul(node.substr(1));
    uint64_t out = 0;
    for (auto &p : rel[b]) if (inv.bits & (1ULL << p.first)) out |= (1ULL << p.second);
    return SetVal(out);
  }
  void process_pre(const basic_block_label_t &, SetVal) override {}
  void process_post(const basic_block_label_t &, SetVal) override {}
};

static std::string eval(const std::vector<std::string> &t) {
  // sections separated by "|"
  std::vector<std::vector<std::string>> sec(1);
  for (auto &s : t) { if (s == "|") sec.emplace_back(); else sec.back().push_back(s); }
  if (sec[0].size() < 6 || sec[0][0] != "fix") return "HARNESS-ERROR";
  unsigned N = std::stoul(sec[0][1]); NSTATES = std::stoul(sec[0][2]);
  unsigned entry = std::stoul(sec[0][3]), delay = std::stoul(sec[0][4]), desc = std::stoul(sec[0][5]);
  variable_factory_t vfac;
  z_cfg_t cfg("b0");
  for (unsigned i = 0; i < N; ++i) cfg.insert("b" + std::to_string(i));
  std::vector<std::vector<std::pair<unsigned, unsigned>>> rel(N);
  uint64_t init = 0;
  bool prior_run = false; uint64_t prior_init = 0;
  base_t::assumption_map_t asm_map;
  for (size_t i = 1; i < sec.size(); ++i) {
    auto &s = sec[i];
    if (s.empty()) continue;
    if (s[0] == "E") {
      for (size_t j = 1; j + 1 < s.size(); j += 2)
        cfg.get_node("b" + s[j]) >> cfg.get_node("b" + s[j + 1]);
    } else if (s[0] == "R") {
      unsigned b = std::stoul(s[1]), k = std::stoul(s[2]);
      for (unsigned j = 0; j < k; ++j) rel[b].push_back({(unsigned)std::stoul(s[3 + 2 * j]), (unsigned)std::stoul(s[4 + 2 * j])});
    } else if (s[0] == "I") {
      for (size_t j = 1; j < s.size(); ++j) init |= (1ULL << std::stoul(s[j]));
    } else if (s[0] == "P") {
      // an earlier run on the same engine object (from the CFG entry, these initial states)
      prior_run = true;
      for (size_t j = 1; j < s.size(); ++j) prior_init |= (1ULL << std::stoul(s[j]));
    } else if (s[0] == "A") {
      unsigned b = std::stoul(s[1]), k = std::stoul(s[2]); uint64_t a = 0;
      for (unsigned j = 0; j < k; ++j) a |= (1ULL << std::stoul(s[3 + j]));
      asm_map.insert({"b" + std::to_string(b), SetVal(a)});
    }
  }
  crab::fixpoint_parameters params;
  params.get_widening_delay() = delay;
  params.get_descending_iterations() = desc;
  params.get_max_thresholds() = 0;
  z_cfg_ref_t ref(cfg);
  FS it(ref, SetVal(0), params, rel);
  if (prior_run) it.run(SetVal(prior_init));
  bool use_run1 = sec[0].size() > 6 && sec[0][6] == "plain";
  if (use_run1) it.run(SetVal(init));
  else it.run("b" + std::to_string(entry), SetVal(init), asm_map);
  std::string out;
  for (unsigned i = 0; i < N; ++i) {
    std::string l = "b" + std::to_string(i);
    if (i) out += " ";
    out += std::to_string((unsigned long)it.get_pre(l).bits) + ":" + std::to_string((unsigned long)it.get_post(l).bits);
  }
  return out;
}
int main(int argc, char **argv) { crab::CrabEnableWarningMsg(false); return vh::run_cases(argc, argv, eval); }
