// C01/C02 oracle-only streams, part 1: the forward analyzer over the zone family.  --mode=<name>:
//   zones       split_dbm_domain, DefaultParams (int64 weights, unchecked)
//   zones-safe  split_dbm_domain, SafeInt64DefaultParams (CRAB_ERROR on overflow)
//   sparse      sparse_dbm_domain
//   ref-zones   abstract_domain_ref<z_var>(zones)   (the copy-on-write wrapper clients instantiate the analyzer with)
// See fwddoms.hpp for the protocol.
#ifndef NDEBUG
#define NDEBUG
#endif
#include "fwddoms.hpp"
#include <crab/domains/intervals.hpp>
#include <crab/domains/split_dbm.hpp>
#include <crab/domains/sparse_dbm.hpp>
#include <crab/domains/generic_abstract_domain.hpp>
using namespace crab::domains;
using namespace fwddoms;
typedef DBM_impl::DefaultParams<z_number, DBM_impl::GraphRep::adapt_ss> gp_t;
typedef DBM_impl::SafeInt64DefaultParams<z_number, DBM_impl::GraphRep::adapt_ss> gps_t;
typedef split_dbm_domain<z_number, varname_t, gp_t> zones_t;
typedef split_dbm_domain<z_number, varname_t, gps_t> zones_safe_t;
typedef sparse_dbm_domain<z_number, varname_t, gp_t> sparse_t;
typedef abstract_domain_ref<z_var> ref_t;

static std::string dispatch(const std::vector<std::string> &t) {
  const std::string &m = fwddoms::mode;
  if (m == "zones") return fwddoms::eval<zones_t>(t, zones_t());
  if (m == "zones-safe") return fwddoms::eval<zones_safe_t>(t, zones_safe_t());
  if (m == "sparse") return fwddoms::eval<sparse_t>(t, sparse_t());
  if (m == "ref-zones") { zones_t top; return fwddoms::eval<ref_t>(t, ref_t(top)); }
  return "HARNESS-ERROR unknown mode " + m;
}
int main(int argc, char **argv) { return fwddoms::main_with(argc, argv, dispatch); }
