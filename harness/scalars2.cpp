// Correspondence harness of the scalars2 family (property C08, second half):
// ikos::congruence<z_number>, crab::domains::sign<z_number>, constant<z_number>,
// boolean_value, small_range, interval_congruence<z_number>, dis_interval<z_number>.
// Only the public API of the classes is used.  Case line:  <dom> <op> <A> [<B>].
#include <crab/numbers/bignums.hpp>
#include <crab/domains/interval.hpp>
#include <crab/domains/congruence.hpp>
#include <crab/domains/sign.hpp>
#include <crab/domains/constant.hpp>
#include <crab/domains/boolean.hpp>
#include <crab/domains/small_range.hpp>
#include <crab/domains/interval_congruence.hpp>
#include <crab/domains/dis_interval.hpp>
#include <crab/support/os.hpp>
#include "hcommon.hpp"
using namespace ikos;
using namespace crab::domains;
typedef z_number Z;
typedef interval<Z> I;
typedef bound<Z> B;
typedef congruence<Z> C;
typedef sign<Z> S;
typedef constant<Z> K;
typedef boolean_value BV;
typedef small_range SR;
typedef interval_congruence<Z> IC;
typedef dis_interval<Z> DI;

template <typename T> static std::string str(const T &x) {
  crab::crab_string_os os; os << x; return os.str();
}
static std::string sb(bool b) { return b ? "true" : "false"; }
static const std::string HERR = "HARNESS-ERROR";

static B parse_bound(const std::string &s) {
  if (s == "-oo") return B::minus_infinity();
  if (s == "+oo") return B::plus_infinity();
  return B(Z(s));
}
static I parse_itv(const std::string &s) {
  if (s == "bot") return I::bottom();
  size_t k = s.find(':');
  return I(parse_bound(s.substr(0, k)), parse_bound(s.substr(k + 1)));
}

// ---------------------------------------------------------------- congruences
// bot | top | n | a:b  (a:b is built through the public API as top * a + b)
static C parse_cg(const std::string &s) {
  if (s == "bot") return C::bottom();
  if (s == "top") return C::top();
  size_t k = s.find(':');
  if (k == std::string::npos) return C(Z(s));
  return C::top() * C(Z(s.substr(0, k))) + C(Z(s.substr(k + 1)));
}
static std::string eval_cg(const std::vector<std::string> &t) {
  const std::string &op = t[1];
  C a = parse_cg(t[2]);
  if (t.size() == 3) {
    if (op == "neg") return str(-a);
    if (op == "isbot") return sb(a.is_bottom());
    if (op == "istop") return sb(a.is_top());
    if (op == "singleton") { auto s = a.singleton(); return s ? str(*s) : std::string("none"); }
    if (op == "repr") return str(a.get_modulo()) + " " + str(a.get_remainder());
    return HERR;
  }
  C b = parse_cg(t[3]);
  if (op == "add") return str(a + b);
  if (op == "sub") return str(a - b);
  if (op == "mul") return str(a * b);
  if (op == "div") return str(a / b);
  if (op == "rem") return str(a % b);
  if (op == "sdiv") return str(a.SDiv(b));
  if (op == "srem") return str(a.SRem(b));
  if (op == "udiv") return str(a.UDiv(b));
  if (op == "urem") return str(a.URem(b));
  if (op == "and") return str(a.And(b));
  if (op == "or") return str(a.Or(b));
  if (op == "xor") return str(a.Xor(b));
  if (op == "shl") return str(a.Shl(b));
  if (op == "ashr") return str(a.AShr(b));
  if (op == "lshr") return str(a.LShr(b));
  if (op == "join") return str(a | b);
  if (op == "meet") return str(a & b);
  if (op == "widen") return str(a || b);
  if (op == "narrow") return str(a && b);
  if (op == "leq") return sb(a <= b);
  if (op == "eq") return sb(a == b);
  if (op == "neq") return sb(a != b);
  return HERR;
}

// ---------------------------------------------------------------- signs
static S parse_sg(const std::string &s) {
  if (s == "bot") return S::bottom();
  if (s == "top") return S::top();
  if (s == "ltz") return S::mk_less_than_zero();
  if (s == "gtz") return S::mk_greater_than_zero();
  if (s == "eqz") return S::mk_equal_zero();
  if (s == "nez") return S::mk_not_equal_zero();
  if (s == "gez") return S::mk_greater_or_equal_than_zero();
  if (s == "lez") return S::mk_less_or_equal_than_zero();
  return S(Z(s)); // sign(Number c)
}
static std::string eval_sg(const std::vector<std::string> &t) {
  const std::string &op = t[1];
  if (op == "fromitv") return str(S::top().from_interval(parse_itv(t[2])));
  S a = parse_sg(t[2]);
  if (t.size() == 3) {
    if (op == "id") return str(a);
    if (op == "isbot") return sb(a.is_bottom());
    if (op == "istop") return sb(a.is_top());
    if (op == "toitv") return str(a.to_interval());
    return HERR;
  }
  S b = parse_sg(t[3]);
  if (op == "add") return str(a + b);
  if (op == "sub") return str(a - b);
  if (op == "mul") return str(a * b);
  if (op == "div") return str(a / b);
  if (op == "udiv") return str(a.UDiv(b));
  if (op == "srem") return str(a.SRem(b));
  if (op == "urem") return str(a.URem(b));
  if (op == "and") return str(a.And(b));
  if (op == "or") return str(a.Or(b));
  if (op == "xor") return str(a.Xor(b));
  if (op == "shl") return str(a.Shl(b));
  if (op == "lshr") return str(a.LShr(b));
  if (op == "ashr") return str(a.AShr(b));
  if (op == "join") return str(a | b);
  if (op == "meet") return str(a & b);
  if (op == "leq") return sb(a <= b);
  if (op == "eq") return sb(a == b);
  return HERR;
}

// ---------------------------------------------------------------- constants
static K parse_ct(const std::string &s) {
  if (s == "bot") return K::bottom();
  if (s == "top") return K::top();
  return K(Z(s));
}
static std::string eval_ct(const std::vector<std::string> &t) {
  const std::string &op = t[1];
  K a = parse_ct(t[2]);
  if (t.size() == 3) {
    if (op == "isbot") return sb(a.is_bottom());
    if (op == "istop") return sb(a.is_top());
    if (op == "isconst") return sb(a.is_constant());
    return HERR;
  }
  K b = parse_ct(t[3]);
  if (op == "add") return str(a.Add(b));
  if (op == "sub") return str(a.Sub(b));
  if (op == "mul") return str(a.Mul(b));
  if (op == "sdiv") return str(a.SDiv(b));
  if (op == "srem") return str(a.SRem(b));
  if (op == "udiv") return str(a.UDiv(b));
  if (op == "urem") return str(a.URem(b));
  if (op == "and") return str(a.BitwiseAnd(b));
  if (op == "or") return str(a.BitwiseOr(b));
  if (op == "xor") return str(a.BitwiseXor(b));
  if (op == "shl") return str(a.BitwiseShl(b));
  if (op == "lshr") return str(a.BitwiseLShr(b));
  if (op == "ashr") return str(a.BitwiseAShr(b));
  if (op == "join") return str(a | b);
  if (op == "meet") return str(a & b);
  if (op == "widen") return str(a || b);
  if (op == "narrow") return str(a && b);
  if (op == "leq") return sb(a <= b);
  if (op == "eq") return sb(a == b);
  return HERR;
}

// ---------------------------------------------------------------- booleans
static BV parse_bv(const std::string &s) {
  if (s == "bot") return BV::bottom();
  if (s == "true") return BV::get_true();
  if (s == "false") return BV::get_false();
  return BV::top();
}
static std::string eval_bv(const std::vector<std::string> &t) {
  const std::string &op = t[1];
  BV a = parse_bv(t[2]);
  if (t.size() == 3) {
    if (op == "neg") return str(a.Negate());
    if (op == "isbot") return sb(a.is_bottom());
    if (op == "istop") return sb(a.is_top());
    if (op == "istrue") return sb(a.is_true());
    if (op == "isfalse") return sb(a.is_false());
    return HERR;
  }
  BV b = parse_bv(t[3]);
  if (op == "and") return str(a.And(b));
  if (op == "or") return str(a.Or(b));
  if (op == "xor") return str(a.Xor(b));
  if (op == "join") return str(a | b);
  if (op == "meet") return str(a & b);
  if (op == "widen") return str(a || b);
  if (op == "narrow") return str(a && b);
  if (op == "leq") return sb(a <= b);
  if (op == "eq") return sb(a == b);
  return HERR;
}

// ---------------------------------------------------------------- small ranges
struct VarIdx {
  ikos::index_t i;
  ikos::index_t index() const { return i; }
};
static ikos::index_t parse_idx(const std::string &s) {
  return (ikos::index_t)std::strtoull(s.c_str(), nullptr, 10);
}
// bot | top | zero | oom | one:V | zoo:V ; 1(V) = zero.increment(V), [0,1](V) = 0 | 1(V)
static SR parse_sr(const std::string &s) {
  if (s == "bot") return SR::bottom();
  if (s == "top") return SR::top();
  if (s == "zero") return SR::zero();
  if (s == "oom") return SR::oneOrMore();
  size_t k = s.find(':');
  SR one = SR::zero();
  one.increment(VarIdx{parse_idx(s.substr(k + 1))});
  if (s.substr(0, k) == "one") return one;
  return SR::zero() | one;
}
static std::string eval_sr(const std::vector<std::string> &t) {
  const std::string &op = t[1];
  SR a = parse_sr(t[2]);
  if (t.size() == 3) {
    if (op == "id") return str(a);
    if (op == "isbot") return sb(a.is_bottom());
    if (op == "istop") return sb(a.is_top());
    if (op == "iszero") return sb(a.is_zero());
    if (op == "isone") return sb(a.is_one());
    return HERR;
  }
  if (op == "incr") { a.increment(VarIdx{parse_idx(t[3])}); return str(a); }
  SR b = parse_sr(t[3]);
  if (op == "join") return str(a | b);
  if (op == "meet") return str(a & b);
  if (op == "widen") return str(a || b);
  if (op == "narrow") return str(a && b);
  if (op == "leq") return sb(a <= b);
  if (op == "eq") return sb(a == b);
  return HERR;
}

// ---------------------------------------------------------------- interval x congruence
// <itv>/<cg>, built by interval_congruence(interval&&, congruence&&) (which reduces)
static IC parse_ic(const std::string &s) {
  size_t k = s.find('/');
  return IC(parse_itv(s.substr(0, k)), parse_cg(s.substr(k + 1)));
}
static std::string eval_ic(const std::vector<std::string> &t) {
  const std::string &op = t[1];
  IC a = parse_ic(t[2]);
  if (t.size() == 3) {
    if (op == "id") return str(a);
    if (op == "isbot") return sb(a.is_bottom());
    if (op == "istop") return sb(a.is_top());
    if (op == "trunc") return str(a.Trunc(8));
    if (op == "zext") return str(a.ZExt(8));
    if (op == "sext") return str(a.SExt(8));
    return HERR;
  }
  IC b = parse_ic(t[3]);
  if (op == "add") return str(a + b);
  if (op == "sub") return str(a - b);
  if (op == "mul") return str(a * b);
  if (op == "div") return str(a / b);
  if (op == "sdiv") return str(a.SDiv(b));
  if (op == "udiv") return str(a.UDiv(b));
  if (op == "srem") return str(a.SRem(b));
  if (op == "urem") return str(a.URem(b));
  if (op == "and") return str(a.And(b));
  if (op == "or") return str(a.Or(b));
  if (op == "xor") return str(a.Xor(b));
  if (op == "shl") return str(a.Shl(b));
  if (op == "lshr") return str(a.LShr(b));
  if (op == "ashr") return str(a.AShr(b));
  if (op == "join") return str(a | b);
  if (op == "meet") return str(a & b);
  return HERR;
}

// ---------------------------------------------------------------- disjunctive intervals
// bot | top | l1:u1,l2:u2,...   (join of the intervals)
static DI parse_di(const std::string &s) {
  if (s == "bot") return DI::bottom();
  if (s == "top") return DI::top();
  DI r = DI::bottom();
  for (const std::string &p : vh::split(s, ',')) r = r | DI(parse_itv(p));
  return r;
}
static std::string eval_di(const std::vector<std::string> &t) {
  const std::string &op = t[1];
  DI a = parse_di(t[2]);
  if (t.size() == 3) {
    if (op == "id") return str(a);
    if (op == "isbot") return sb(a.is_bottom());
    if (op == "istop") return sb(a.is_top());
    if (op == "approx") return str(a.approx());
    if (op == "neg") return str(-a);
    if (op == "lower") return str(a.lower_half_line());
    if (op == "upper") return str(a.upper_half_line());
    if (op == "singleton") { auto s = a.singleton(); return s ? str(*s) : std::string("none"); }
    return HERR;
  }
  DI b = parse_di(t[3]);
  if (op == "add") return str(a + b);
  if (op == "sub") return str(a - b);
  if (op == "mul") return str(a * b);
  if (op == "div") return str(a / b);
  if (op == "udiv") return str(a.UDiv(b));
  if (op == "srem") return str(a.SRem(b));
  if (op == "urem") return str(a.URem(b));
  if (op == "and") return str(a.And(b));
  if (op == "or") return str(a.Or(b));
  if (op == "xor") return str(a.Xor(b));
  if (op == "shl") return str(a.Shl(b));
  if (op == "lshr") return str(a.LShr(b));
  if (op == "ashr") return str(a.AShr(b));
  if (op == "join") return str(a | b);
  if (op == "meet") return str(a & b);
  if (op == "trim") return str(ikos::linear_interval_solver_impl::trim_interval(a, b));
  if (op == "widen") return str(a || b);
  if (op == "narrow") return str(a && b);
  if (op == "leq") return sb(a <= b);
  if (op == "eq") return sb(a == b);
  return HERR;
}

static std::string eval(const std::vector<std::string> &t) {
  if (t.size() < 3) return HERR;
  if (t[0] == "cg") return eval_cg(t);
  if (t[0] == "sg") return eval_sg(t);
  if (t[0] == "ct") return eval_ct(t);
  if (t[0] == "bv") return eval_bv(t);
  if (t[0] == "sr") return eval_sr(t);
  if (t[0] == "ic") return eval_ic(t);
  if (t[0] == "di") return eval_di(t);
  return HERR;
}
int main(int argc, char **argv) { return vh::run_cases(argc, argv, eval); }
