// Correspondence harness for C18 / C17: liveness, assertion crawler, dead-code elimination,
// cfg::simplify and lower_safe_assertions on textual CFG programs (cfgtext.hpp).
//
// Extra sections (besides B / E of cfgtext.hpp):
//    F <nin> in... <nout> out...     function declaration (name "f")
//    L id id ...                     assertions (debug ids) to be lowered by q=lower / q=pipe
// Header options:  q=live | crawl | dce | simp | lower | pipe      cd=0|1 (crawler: control deps)
//
// Boolean statements (cfgtext.hpp: bassign, bcopy, bnot, bbin, bselect, bassume, bnassume, bassert, bhavoc, bzext) are
// accepted by q=dce | simp | lower | pipe | echo and printed back in the same textual form; in the F section a
// boolean variable is written b<i>; L may list the ids of boolean assertions.
//
// Array statements (cfgtext.hpp: ainit, astore, astorer, aload, aassign) are accepted by the same queries and by
// q=clone (cfg::clone(), every statement copied through statement::clone) and printed back in the same textual form.
//
// Answers:
//   q=live   b0:L{live-out}D{dead_exit} b1:...                 (sets of variable numbers, sorted)
//   q=crawl  b0:[id:{vars};id:{vars}] b1:...                   (assertion ids sorted; T = top)
//   others   the transformed CFG: entry=<i> exit=<i|-> | b<i>: stmt ; stmt -> succs <- preds | ...
//            (blocks sorted by number, successor / predecessor lists in the order crab keeps them)
#include "cfgtext.hpp"
#include <crab/analysis/dataflow/assertion_crawler.hpp>
#include <crab/analysis/dataflow/liveness.hpp>
#include <crab/transforms/dce.hpp>
#include <crab/transforms/lower_safe_assertions.hpp>
#include <algorithm>
#include <set>
using namespace cfgtext;

typedef z_cfg_t::basic_block_t bb_t;
typedef z_cfg_t::statement_t stmt_t;
typedef ikos::discrete_domain<z_var> varset_t;

static long bnum(const std::string &l) { return std::stol(l.substr(1)); }
static long vnum(program &P, const z_var &v) {
  for (size_t i = 0; i < P.vars.size(); ++i) if (P.vars[i].index() == v.index()) return (long)i;
  return -1;
}
static long boolnum(program &P, const z_var &v) {
  for (size_t i = 0; i < P.bools.size(); ++i) if (P.bools[i].index() == v.index()) return (long)i;
  return -1;
}
static std::string an(program &P, const z_var &v) {
  for (size_t i = 0; i < P.arrs.size(); ++i) if (P.arrs[i].index() == v.index()) return std::to_string(i);
  return "-1";
}
static std::string bn(program &P, const z_var &v) { return std::to_string(boolnum(P, v)); }
static std::string show_set(program &P, const varset_t &s) {
  if (s.is_top()) return "T";
  std::vector<long> r;
  for (auto it = s.begin(), et = s.end(); it != et; ++it) r.push_back(vnum(P, *it));
  std::sort(r.begin(), r.end());
  std::string o = "{";
  for (size_t i = 0; i < r.size(); ++i) { if (i) o += ","; o += std::to_string(r[i]); }
  return o + "}";
}
static std::string zs(const z_number &n) { crab::crab_string_os os; os << n; return os.str(); }
static std::string show_exp(program &P, const lin_t &e) {
  std::vector<std::pair<long, std::string>> ts;
  for (auto it = e.begin(), et = e.end(); it != et; ++it) ts.push_back({vnum(P, (*it).second), zs((*it).first)});
  std::sort(ts.begin(), ts.end());
  std::string o = "E " + std::to_string(ts.size());
  for (auto &t : ts) o += " " + t.second + " " + std::to_string(t.first);
  return o + " " + zs(e.constant());
}
static std::string show_cst(program &P, const cst_t &c) {
  const char *k = c.is_equality() ? "eq" : c.is_disequation() ? "ne" : c.is_inequality() ? "le" : "lt";
  return std::string("C ") + k + " " + show_exp(P, c.expression());
}
static std::string show_stmt(program &P, const stmt_t &s) {
  typedef bb_t::assign_t assign_t; typedef bb_t::bin_op_t bin_op_t; typedef bb_t::assume_t assume_t;
  typedef bb_t::assert_t assert_t; typedef bb_t::havoc_t havoc_t; typedef bb_t::select_t select_t;
  if (s.is_assign()) { auto &a = static_cast<const assign_t &>(s); return "assign " + std::to_string(vnum(P, a.lhs())) + " " + show_exp(P, a.rhs()); }
  if (s.is_bin_op()) {
    auto &a = static_cast<const bin_op_t &>(s);
    const char *names[] = {"add", "sub", "mul", "sdiv", "udiv", "srem", "urem", "and", "or", "xor", "shl", "lshr", "ashr"};
    int o = (int)a.op();
    std::string r = std::string(o < 7 ? "arith " : "bit ") + names[o] + " " + std::to_string(vnum(P, a.lhs())) + " " +
                    std::to_string(vnum(P, *(a.left().get_variable())));
    if (a.right().is_constant()) r += " k " + zs(a.right().constant());
    else r += " v " + std::to_string(vnum(P, *(a.right().get_variable())));
    return r;
  }
  if (s.is_assume()) return "assume " + show_cst(P, static_cast<const assume_t &>(s).constraint());
  if (s.is_assert()) return "assert " + show_cst(P, static_cast<const assert_t &>(s).constraint()) + " " + std::to_string((long)s.get_debug_info().get_id());
  if (s.is_havoc()) {
    const z_var &x = static_cast<const havoc_t &>(s).get_variable();
    if (boolnum(P, x) >= 0) return "bhavoc " + bn(P, x);
    return "havoc " + std::to_string(vnum(P, x));
  }
  if (s.is_select()) { auto &a = static_cast<const select_t &>(s); return "select " + std::to_string(vnum(P, a.lhs())) + " " + show_cst(P, a.cond()) + " " + show_exp(P, a.left()) + " " + show_exp(P, a.right()); }
  if (s.is_unreachable()) return "unreachable";
  if (s.is_bool_assign_cst()) {
    auto &a = static_cast<const bb_t::bool_assign_cst_t &>(s);
    if (!a.is_rhs_linear_constraint()) return "?";
    return "bassign " + bn(P, a.lhs()) + " " + show_cst(P, a.rhs_as_linear_constraint());
  }
  if (s.is_bool_assign_var()) {
    auto &a = static_cast<const bb_t::bool_assign_var_t &>(s);
    return std::string(a.is_rhs_negated() ? "bnot " : "bcopy ") + bn(P, a.lhs()) + " " + bn(P, a.rhs());
  }
  if (s.is_bool_bin_op()) {
    auto &a = static_cast<const bb_t::bool_bin_op_t &>(s);
    const char *o = a.op() == crab::cfg::BINOP_BAND ? "and" : a.op() == crab::cfg::BINOP_BOR ? "or" : a.op() == crab::cfg::BINOP_BXOR ? "xor" : "?";
    return std::string("bbin ") + o + " " + bn(P, a.lhs()) + " " + bn(P, a.left()) + " " + bn(P, a.right());
  }
  if (s.is_bool_select()) {
    auto &a = static_cast<const bb_t::bool_select_t &>(s);
    return "bselect " + bn(P, a.lhs()) + " " + bn(P, a.cond()) + " " + bn(P, a.left()) + " " + bn(P, a.right());
  }
  if (s.is_bool_assume()) {
    auto &a = static_cast<const bb_t::bool_assume_t &>(s);
    return std::string(a.is_negated() ? "bnassume " : "bassume ") + bn(P, a.cond());
  }
  if (s.is_bool_assert()) return "bassert " + bn(P, static_cast<const bb_t::bool_assert_t &>(s).cond()) + " " + std::to_string((long)s.get_debug_info().get_id());
  if (s.is_int_cast()) {
    auto &a = static_cast<const bb_t::int_cast_t &>(s);
    if (a.op() == crab::cfg::CAST_ZEXT && boolnum(P, a.src()) >= 0) return "bzext " + std::to_string(vnum(P, a.dst())) + " " + bn(P, a.src());
    return "?";
  }
  if (s.is_arr_init()) {
    auto &a = static_cast<const bb_t::arr_init_t &>(s);
    if (!a.elem_size().is_constant()) return "?";
    return "ainit " + an(P, a.array()) + " " + zs(a.elem_size().constant()) + " " + show_exp(P, a.lb_index()) + " " + show_exp(P, a.ub_index()) + " " + show_exp(P, a.val());
  }
  if (s.is_arr_write()) {
    auto &a = static_cast<const bb_t::arr_store_t &>(s);
    if (!a.elem_size().is_constant()) return "?";
    std::string h = an(P, a.array()) + " " + zs(a.elem_size().constant()) + " ";
    if (a.lb_index().equal(a.ub_index()))
      return "astore " + h + (a.is_strong_update() ? "1 " : "0 ") + show_exp(P, a.lb_index()) + " " + show_exp(P, a.value());
    return "astorer " + h + show_exp(P, a.lb_index()) + " " + show_exp(P, a.ub_index()) + " " + show_exp(P, a.value());
  }
  if (s.is_arr_read()) {
    auto &a = static_cast<const bb_t::arr_load_t &>(s);
    if (!a.elem_size().is_constant()) return "?";
    return "aload " + std::to_string(vnum(P, a.lhs())) + " " + an(P, a.array()) + " " + zs(a.elem_size().constant()) + " " + show_exp(P, a.index());
  }
  if (s.is_arr_assign()) {
    auto &a = static_cast<const bb_t::arr_assign_t &>(s);
    return "aassign " + an(P, a.lhs()) + " " + an(P, a.rhs());
  }
  return "?";
}
static std::string show_cfg(program &P) {
  z_cfg_t &g = *P.cfg;
  std::vector<long> ids;
  for (auto it = g.label_begin(), et = g.label_end(); it != et; ++it) ids.push_back(bnum(*it));
  std::sort(ids.begin(), ids.end());
  std::string o = "entry=" + std::to_string(bnum(g.entry())) + " exit=" + (g.has_exit() ? std::to_string(bnum(g.exit())) : std::string("-"));
  for (long i : ids) {
    bb_t &b = g.get_node(program::bname(i));
    o += " | b" + std::to_string(i) + ":";
    bool first = true;
    for (auto &s : b) { o += (first ? " " : " ; ") + show_stmt(P, s); first = false; }
    o += " ->";
    first = true;
    for (auto l : boost::make_iterator_range(b.next_blocks())) { o += (first ? " " : ",") + std::to_string(bnum(l)); first = false; }
    o += " <-";
    first = true;
    for (auto l : boost::make_iterator_range(b.prev_blocks())) { o += (first ? " " : ",") + std::to_string(bnum(l)); first = false; }
  }
  return o;
}

static void do_lower(program &P, const std::set<long> &ids) {
  z_cfg_ref_t ref(*P.cfg);
  std::set<const stmt_t *> safe;
  for (auto &b : *P.cfg) for (auto &s : b) if ((s.is_assert() || s.is_bool_assert()) && ids.count((long)s.get_debug_info().get_id())) safe.insert(&s);
  crab::transforms::lower_safe_assertions<z_cfg_ref_t> lsa(safe);
  lsa.run(ref);
}
static void do_dce(program &P) {
  z_cfg_ref_t ref(*P.cfg);
  crab::transforms::dead_code_elimination<z_cfg_ref_t> dce;
  dce.run(ref);
}

static std::string eval(const std::vector<std::string> &line) {
  program P;
  if (!parse_program(line, P)) return "HARNESS-ERROR";
  auto sec = sections(line);
  std::set<long> lower_ids;
  for (size_t i = 1; i < sec.size(); ++i) {
    auto &s = sec[i];
    if (s.empty()) continue;
    if (s[0] == "F") {
      std::vector<std::string> r(s.begin() + 1, s.end()); tok k{r, 0};
      std::vector<z_var> ins, outs;
      auto var = [&P](const std::string &t) { return t[0] == 'b' ? P.bvar(std::stol(t.substr(1))) : P.vars[std::stol(t)]; };
      long nin = k.nexti(); for (long j = 0; j < nin; ++j) ins.push_back(var(k.next()));
      long nout = k.nexti(); for (long j = 0; j < nout; ++j) outs.push_back(var(k.next()));
      P.cfg->set_func_decl(z_cfg_t::fdecl_t("f", ins, outs));
    }
    if (s[0] == "L") for (size_t j = 1; j < s.size(); ++j) lower_ids.insert(std::stol(s[j]));
  }
  std::string q = P.opt("q", "live");
  z_cfg_ref_t ref(*P.cfg);
  if (q == "live") {
    crab::analyzer::live_and_dead_analysis<z_cfg_ref_t> live(ref);
    live.exec();
    std::string o;
    for (unsigned i = 0; i < P.nblocks; ++i) {
      if (i) o += " ";
      o += "b" + std::to_string(i) + ":L" + show_set(P, live.get(program::bname(i))) + "D" + show_set(P, live.dead_exit(program::bname(i)));
    }
    return o;
  }
  if (q == "crawl") {
    typedef crab::analyzer::assertion_crawler<z_cfg_ref_t> crawler_t;
    crawler_t::assert_map_t amap;
    crawler_t::summary_map_t summaries;
    crawler_t crawler(ref, amap, summaries, P.opt("cd", "1") == "0");
    crawler.exec();
    std::string o;
    for (unsigned i = 0; i < P.nblocks; ++i) {
      if (i) o += " ";
      o += "b" + std::to_string(i) + ":";
      auto res = crawler.get_results(program::bname(i));
      if (res.is_top()) { o += "T"; continue; }
      std::vector<std::pair<long, std::string>> facts;
      for (auto it = res.begin(), et = res.end(); it != et; ++it) {
        auto kv = *it;
        facts.push_back({(long)kv.first.get().get_debug_info().get_id(), show_set(P, kv.second)});
      }
      std::sort(facts.begin(), facts.end());
      o += "[";
      for (size_t j = 0; j < facts.size(); ++j) { if (j) o += ";"; o += std::to_string(facts[j].first) + ":" + facts[j].second; }
      o += "]";
    }
    return o;
  }
  if (q == "dce") { do_dce(P); return show_cfg(P); }
  if (q == "simp") { P.cfg->simplify(); return show_cfg(P); }
  if (q == "lower") { do_lower(P, lower_ids); return show_cfg(P); }
  if (q == "pipe") { do_lower(P, lower_ids); do_dce(P); P.cfg->simplify(); return show_cfg(P); }
  if (q == "clone") { P.cfg.reset(P.cfg->clone()); return show_cfg(P); }
  if (q == "echo") return show_cfg(P);
  return "HARNESS-ERROR";
}
int main(int argc, char **argv) { crab::CrabEnableWarningMsg(false); return vh::run_cases(argc, argv, eval); }
