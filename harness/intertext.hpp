// Textual inter-procedural programs (C09, C10): an extension of cfgtext.hpp.
// One case = one line:
//   inter <nfuncs> <nvars> [opt=val ...]
//     | F <fid> <nblocks> <exit|-1> I <nin> v ... O <nout> v ...
//     | B <fid> <bid> <stmt> ; <stmt> ; ...
//     | E <fid> a b a b ...
//     | I <C> <C> ...                       constraints of the initial value (default top)
// Function 0 is called "main", function i>0 "f<i>".  Blocks of a function are b0..b(n-1), b0 is its
// entry.  All functions draw their variables from one pool v0..v(nvars-1) (crab identifies variables by
// name across functions, so caller and callee share names whenever they use the same pool index).
// Statements: those of cfgtext.hpp plus
//   call <fid> <nout> o1 .. <nin> i1 ..     (o1,..) := f<fid>(i1,..)
#pragma once
#include "cfgtext.hpp"

namespace intertext {
using namespace cfgtext;

struct func {
  std::string name;
  unsigned nblocks = 0;
  long exit_block = -1;
  std::vector<long> ins, outs;
  std::unique_ptr<z_cfg_t> cfg;
};

struct iprogram {
  program P;                 // variable pool (P.vars) and options
  std::vector<func> funcs;
  std::vector<std::vector<std::string>> init_sec;
  static std::string fname(long i) { return i == 0 ? std::string("main") : "f" + std::to_string(i); }
};

inline void add_istmt(iprogram &IP, z_basic_block_t &b, const std::vector<std::string> &toks) {
  if (!toks.empty() && toks[0] == "call") {
    tok k{toks, 1};
    long f = k.nexti();
    long no = k.nexti();
    std::vector<z_var> outs, ins;
    for (long i = 0; i < no; ++i) outs.push_back(IP.P.vars[k.nexti()]);
    long ni = k.nexti();
    for (long i = 0; i < ni; ++i) ins.push_back(IP.P.vars[k.nexti()]);
    b.callsite(iprogram::fname(f), outs, ins);
  } else {
    tok k{toks, 0};
    add_stmt(IP.P, b, k);
  }
}

inline bool parse_iprogram(const std::vector<std::string> &line, iprogram &IP) {
  auto sec = sections(line);
  if (sec[0].size() < 3 || sec[0][0] != "inter") return false;
  unsigned nf = std::stoul(sec[0][1]);
  IP.P.nvars = std::stoul(sec[0][2]);
  for (size_t i = 3; i < sec[0].size(); ++i) {
    size_t e = sec[0][i].find('=');
    if (e != std::string::npos) IP.P.opts.push_back({sec[0][i].substr(0, e), sec[0][i].substr(e + 1)});
  }
  for (unsigned i = 0; i < IP.P.nvars; ++i)
    IP.P.vars.push_back(z_var(IP.P.vfac["v" + std::to_string(i)], crab::INT_TYPE, 32));
  IP.funcs.resize(nf);
  for (size_t i = 1; i < sec.size(); ++i) {
    auto &s = sec[i];
    if (s.empty()) continue;
    if (s[0] == "F") {
      func &F = IP.funcs[std::stoul(s[1])];
      F.name = iprogram::fname(std::stol(s[1]));
      F.nblocks = std::stoul(s[2]);
      F.exit_block = std::stol(s[3]);
      size_t p = 4;
      if (s[p] != "I") return false;
      long ni = std::stol(s[p + 1]); p += 2;
      for (long j = 0; j < ni; ++j) F.ins.push_back(std::stol(s[p++]));
      if (s[p] != "O") return false;
      long no = std::stol(s[p + 1]); p += 2;
      for (long j = 0; j < no; ++j) F.outs.push_back(std::stol(s[p++]));
      std::vector<z_var> iv, ov;
      for (long v : F.ins) iv.push_back(IP.P.vars[v]);
      for (long v : F.outs) ov.push_back(IP.P.vars[v]);
      crab::cfg::function_decl<z_number, varname_t> decl(F.name, iv, ov);
      if (F.exit_block >= 0) F.cfg.reset(new z_cfg_t(program::bname(0), program::bname(F.exit_block), decl));
      else { F.cfg.reset(new z_cfg_t(program::bname(0))); F.cfg->set_func_decl(decl); }
      for (unsigned j = 0; j < F.nblocks; ++j) F.cfg->insert(program::bname(j));
    }
  }
  for (size_t i = 1; i < sec.size(); ++i) {
    auto &s = sec[i];
    if (s.empty()) continue;
    if (s[0] == "B") {
      func &F = IP.funcs[std::stoul(s[1])];
      z_basic_block_t &b = F.cfg->get_node(program::bname(std::stol(s[2])));
      std::vector<std::string> cur;
      for (size_t j = 3; j <= s.size(); ++j) {
        if (j == s.size() || s[j] == ";") {
          if (!cur.empty()) add_istmt(IP, b, cur);
          cur.clear();
        } else cur.push_back(s[j]);
      }
    } else if (s[0] == "E") {
      func &F = IP.funcs[std::stoul(s[1])];
      for (size_t j = 2; j + 1 < s.size(); j += 2)
        F.cfg->get_node(program::bname(std::stol(s[j]))) >> F.cfg->get_node(program::bname(std::stol(s[j + 1])));
    } else if (s[0] == "I") {
      IP.init_sec.push_back(std::vector<std::string>(s.begin() + 1, s.end()));
    }
  }
  return true;
}
} // namespace intertext
