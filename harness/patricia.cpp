// Correspondence harness for the patricia family (property C19):
//   separate_domain<Key, interval<z_number>>, patricia_tree_set<Key>, discrete_domain<Key>
// with a test Key whose index() is an arbitrary uint64 chosen by the case file.
//
// One case = one line = one history over 4 registers:
//   env  <op> <op> ...      registers are separate_domain
//   pset <op> <op> ...      registers are patricia_tree_set
//   ddom <op> <op> ...      registers are discrete_domain
// op = name,arg,arg,...   (lists inside an argument are separated by ';', "-" = empty list)
// The answer is the '#'-separated concatenation of the results of the query ops.
#include <crab/domains/separate_domains.hpp>
#include <crab/domains/discrete_domains.hpp>
#include <crab/domains/patricia_trees.hpp>
#include <crab/domains/interval.hpp>
#include <crab/numbers/bignums.hpp>
#include <crab/support/os.hpp>
#include "hcommon.hpp"
#include <algorithm>

using namespace ikos;

class Key : public crab::indexable {
  index_t _i;

public:
  Key() : _i(0) {}
  Key(index_t i) : _i(i) {}
  Key(const Key &o) : _i(o._i) {}
  Key &operator=(const Key &o) { _i = o._i; return *this; }
  index_t index() const override { return _i; }
  void write(crab::crab_os &o) const override { o << "k" << std::to_string(_i); }
  bool operator<(const Key &o) const { return _i < o._i; }
  bool operator==(const Key &o) const { return _i == o._i; }
  friend crab::crab_os &operator<<(crab::crab_os &o, const Key &k) { k.write(o); return o; }
};

typedef interval<z_number> I;
typedef bound<z_number> B;
typedef separate_domain<Key, I> Env;
typedef patricia_tree_set<Key> PSet;
typedef discrete_domain<Key> DDom;

// Thresholds for widening_thresholds: a sorted list; next = least threshold > v (else +oo),
// prev = greatest threshold < v (else -oo).
struct Thr {
  std::vector<z_number> ts;
  template <typename N> bound<N> get_next(const bound<N> &v) const {
    if (v.is_plus_infinity()) return v;
    for (size_t i = 0; i < ts.size(); ++i)
      if (v < bound<N>(ts[i])) return bound<N>(ts[i]);
    return bound<N>::plus_infinity();
  }
  template <typename N> bound<N> get_prev(const bound<N> &v) const {
    if (v.is_minus_infinity()) return v;
    for (size_t i = ts.size(); i > 0; --i)
      if (bound<N>(ts[i - 1]) < v) return bound<N>(ts[i - 1]);
    return bound<N>::minus_infinity();
  }
};

static index_t parse_key(const std::string &s) { return std::strtoull(s.c_str(), nullptr, 10); }
static std::vector<Key> parse_keys(const std::string &s) {
  std::vector<Key> r;
  if (s == "-") return r;
  for (auto &x : vh::split(s, ';')) r.push_back(Key(parse_key(x)));
  return r;
}
static B parse_bound(const std::string &s) {
  if (s == "-oo") return B::minus_infinity();
  if (s == "+oo") return B::plus_infinity();
  return B(z_number(s));
}
static I parse_itv(const std::string &s) {
  if (s == "bot") return I::bottom();
  size_t k = s.find(':');
  return I(parse_bound(s.substr(0, k)), parse_bound(s.substr(k + 1)));
}
template <typename T> static std::string str(const T &x) {
  crab::crab_string_os os; os << x; return os.str();
}
static std::string sb(bool b) { return b ? "true" : "false"; }
static int reg(const std::string &s) { return (int)(s[0] - '0') & 3; }

static void out(std::string &acc, const std::string &r) {
  if (!acc.empty()) acc += "#";
  acc += r;
}

static std::string dump_env(const Env &e) {
  if (e.is_bottom()) return "_|_";
  std::string r = "{";
  bool first = true;
  for (auto it = e.begin(); it != e.end(); ++it) {
    if (!first) r += ";";
    first = false;
    r += std::to_string(it->first.index()) + "->" + str(it->second);
  }
  return r + "}";
}

static std::string run_env(const std::vector<std::string> &t) {
  Env R[4];
  std::string acc;
  for (size_t i = 1; i < t.size(); ++i) {
    std::vector<std::string> a = vh::split(t[i], ',');
    const std::string &op = a[0];
    if (op == "top") R[reg(a[1])] = Env::top();
    else if (op == "bot") R[reg(a[1])] = Env::bottom();
    else if (op == "cp") R[reg(a[1])] = R[reg(a[2])];
    else if (op == "set") R[reg(a[1])].set(Key(parse_key(a[2])), parse_itv(a[3]));
    else if (op == "joinkv") R[reg(a[1])].join(Key(parse_key(a[2])), parse_itv(a[3]));
    else if (op == "forget") R[reg(a[1])] -= Key(parse_key(a[2]));
    else if (op == "join") { Env r = R[reg(a[2])] | R[reg(a[3])]; R[reg(a[1])] = r; }
    else if (op == "meet") { Env r = R[reg(a[2])] & R[reg(a[3])]; R[reg(a[1])] = r; }
    else if (op == "widen") { Env r = R[reg(a[2])] || R[reg(a[3])]; R[reg(a[1])] = r; }
    else if (op == "narrow") { Env r = R[reg(a[2])] && R[reg(a[3])]; R[reg(a[1])] = r; }
    else if (op == "widenth") {
      Thr th;
      if (a[4] != "-") for (auto &x : vh::split(a[4], ';')) th.ts.push_back(z_number(x));
      Env r = R[reg(a[2])].widening_thresholds(R[reg(a[3])], th);
      R[reg(a[1])] = r;
    }
    else if (op == "project") R[reg(a[1])].project(parse_keys(a[2]));
    else if (op == "rename") R[reg(a[1])].rename(parse_keys(a[2]), parse_keys(a[3]));
    // queries
    else if (op == "at") out(acc, str(R[reg(a[1])].at(Key(parse_key(a[2])))));
    else if (op == "dump") out(acc, dump_env(R[reg(a[1])]));
    else if (op == "leq") out(acc, sb(R[reg(a[1])] <= R[reg(a[2])]));
    else if (op == "eq") out(acc, sb(R[reg(a[1])] == R[reg(a[2])]));
    else if (op == "istop") out(acc, sb(R[reg(a[1])].is_top()));
    else if (op == "isbot") out(acc, sb(R[reg(a[1])].is_bottom()));
    else if (op == "size") {
      // size() is a CRAB_ERROR on top ("undefined if top")
      const Env &e = R[reg(a[1])];
      out(acc, (!e.is_bottom() && e.is_top()) ? std::string("undef") : std::to_string(e.size()));
    }
    else return "HARNESS-ERROR " + op;
  }
  return acc;
}

static std::string dump_pset(const PSet &s) {
  std::string r = "{";
  bool first = true;
  for (auto it = s.begin(); it != s.end(); ++it) {
    if (!first) r += ";";
    first = false;
    r += std::to_string((*it).index());
  }
  return r + "}";
}

static std::string run_pset(const std::vector<std::string> &t) {
  PSet R[4];
  std::string acc;
  for (size_t i = 1; i < t.size(); ++i) {
    std::vector<std::string> a = vh::split(t[i], ',');
    const std::string &op = a[0];
    if (op == "empty") R[reg(a[1])] = PSet();
    else if (op == "single") R[reg(a[1])] = PSet(Key(parse_key(a[2])));
    else if (op == "cp") R[reg(a[1])] = R[reg(a[2])];
    else if (op == "add") R[reg(a[1])] += Key(parse_key(a[2]));
    else if (op == "del") R[reg(a[1])] -= Key(parse_key(a[2]));
    // (patricia_tree_set::operator+(Element) / operator-(Element) const cannot be instantiated
    //  in the pinned tree: they pass an lvalue to the private rvalue constructor)
    else if (op == "union") { PSet r = R[reg(a[2])] | R[reg(a[3])]; R[reg(a[1])] = r; }
    else if (op == "inter") { PSet r = R[reg(a[2])] & R[reg(a[3])]; R[reg(a[1])] = r; }
    else if (op == "unionw") { PSet r = R[reg(a[2])]; R[reg(a[1])] |= r; }
    else if (op == "interw") { PSet r = R[reg(a[2])]; R[reg(a[1])] &= r; }
    else if (op == "clear") R[reg(a[1])].clear();
    // queries
    else if (op == "mem") out(acc, sb(R[reg(a[1])][Key(parse_key(a[2]))]));
    else if (op == "leq") out(acc, sb(R[reg(a[1])] <= R[reg(a[2])]));
    else if (op == "geq") out(acc, sb(R[reg(a[1])] >= R[reg(a[2])]));
    else if (op == "eq") out(acc, sb(R[reg(a[1])] == R[reg(a[2])]));
    else if (op == "size") out(acc, std::to_string(R[reg(a[1])].size()));
    else if (op == "isempty") out(acc, sb(R[reg(a[1])].empty()));
    else if (op == "dump") out(acc, dump_pset(R[reg(a[1])]));
    else return "HARNESS-ERROR " + op;
  }
  return acc;
}

static std::string dump_ddom(const DDom &d) {
  if (d.is_top()) return "{...}";
  std::string r = "{";
  bool first = true;
  for (auto it = d.begin(); it != d.end(); ++it) {
    if (!first) r += ";";
    first = false;
    r += std::to_string((*it).index());
  }
  return r + "}";
}

static std::string run_ddom(const std::vector<std::string> &t) {
  DDom R[4];
  std::string acc;
  for (size_t i = 1; i < t.size(); ++i) {
    std::vector<std::string> a = vh::split(t[i], ',');
    const std::string &op = a[0];
    if (op == "bot") R[reg(a[1])] = DDom::bottom();
    else if (op == "top") R[reg(a[1])] = DDom::top();
    else if (op == "single") R[reg(a[1])] = DDom(Key(parse_key(a[2])));
    else if (op == "cp") R[reg(a[1])] = R[reg(a[2])];
    else if (op == "add") R[reg(a[1])] += Key(parse_key(a[2]));
    else if (op == "del") R[reg(a[1])] -= Key(parse_key(a[2]));
    else if (op == "addr") R[reg(a[1])] += parse_keys(a[2]);
    else if (op == "delr") R[reg(a[1])] -= parse_keys(a[2]);
    else if (op == "diff") {
      // A - B with B used as a range of elements (iteration over top is a CRAB_ERROR)
      DDom x = R[reg(a[2])], y = R[reg(a[3])];
      if (!y.is_top()) { DDom r = x - y; R[reg(a[1])] = r; }
    }
    else if (op == "join") { DDom r = R[reg(a[2])] | R[reg(a[3])]; R[reg(a[1])] = r; }
    else if (op == "meet") { DDom r = R[reg(a[2])] & R[reg(a[3])]; R[reg(a[1])] = r; }
    else if (op == "joinw") { DDom r = R[reg(a[2])]; R[reg(a[1])] |= r; }
    else if (op == "rename") R[reg(a[1])].rename(parse_keys(a[2]), parse_keys(a[3]));
    // queries
    else if (op == "contain") out(acc, sb(R[reg(a[1])].contain(Key(parse_key(a[2])))));
    else if (op == "leq") out(acc, sb(R[reg(a[1])] <= R[reg(a[2])]));
    else if (op == "eq") out(acc, sb(R[reg(a[1])] == R[reg(a[2])]));
    else if (op == "istop") out(acc, sb(R[reg(a[1])].is_top()));
    else if (op == "isbot") out(acc, sb(R[reg(a[1])].is_bottom()));
    else if (op == "size") out(acc, R[reg(a[1])].is_top() ? std::string("undef") : std::to_string(R[reg(a[1])].size()));
    else if (op == "dump") out(acc, dump_ddom(R[reg(a[1])]));
    else return "HARNESS-ERROR " + op;
  }
  return acc;
}

static std::string eval(const std::vector<std::string> &t) {
  if (t.empty()) return "HARNESS-ERROR";
  if (t[0] == "env") return run_env(t);
  if (t[0] == "pset") return run_pset(t);
  if (t[0] == "ddom") return run_ddom(t);
  return "HARNESS-ERROR";
}
int main(int argc, char **argv) {
  crab::CrabEnableWarningMsg(false);
  return vh::run_cases(argc, argv, eval);
}
