// Shared part of harness/fwddoms{1,2,3,4,5}.cpp (C01/C02, oracle-only streams fwd-<dom>-oracle):
// intra_fwd_analyzer<cfg_ref, Dom> (+ intra_checker / assert_property_checker with check=1)
// on textual CFG programs (cfgtext.hpp), for a domain chosen with --mode=<dom>.
// Same header options, sections and output format as harness/fwditv.cpp:
//   delay= desc= thr= live=0|1 entry=<blk> check=0|1 nasserts=<n>;  I <C>...;  A <blk> <C>...
//   pre=<at(v0)>|<at(v1)>|... post=... per block ("_|_" for bottom), " ; checks=" + verdicts
// The states are printed through the domain's at(v): only the interval of every integer
// variable is exported (what the oracles of gen/cfgprog.py need).
// Release configuration (the default CMAKE_BUILD_TYPE of crab): assert() is compiled out,
// as in harness/domall*.cpp.
#pragma once
#include "cfgtext.hpp"
#include <crab/analysis/fwd_analyzer.hpp>
#include <crab/analysis/dataflow/liveness.hpp>
#include <crab/checkers/assertion.hpp>
#include <crab/checkers/checker.hpp>
#include <cstring>

namespace fwddoms {
using namespace cfgtext;
typedef linear_constraint_system<z_number, varname_t> csts_t;

template <typename T> static std::string str(const T &x) { crab::crab_string_os os; os << x; return os.str(); }

template <typename Dom> static std::string show_state(program &P, const Dom &d0) {
  Dom d(d0);
  if (d.is_bottom()) return "_|_";
  std::string r;
  for (size_t i = 0; i < P.vars.size(); ++i) {
    auto itv = d.at(P.vars[i]);
    if (itv.is_bottom()) return "_|_";      // empty concretization found only by the query (lazy normalisation)
    r += (i ? "|" : ""); r += str(itv);
  }
  return r;
}

// `fac` is only used through make_top() (the wrappers abstract_domain / abstract_domain_ref
// have no default constructor)
template <typename Dom> static std::string eval(const std::vector<std::string> &line, const Dom &fac) {
  typedef crab::analyzer::intra_fwd_analyzer<z_cfg_ref_t, Dom> analyzer_t;
  program P;
  if (!parse_program(line, P)) return "HARNESS-ERROR";
  auto sec = sections(line);
  Dom init = fac.make_top();
  typename analyzer_t::assumption_map_t asm_map;
  bool general = false;
  for (size_t i = 1; i < sec.size(); ++i) {
    auto &s = sec[i];
    if (s.empty()) continue;
    if (s[0] == "I") { std::vector<std::string> r(s.begin() + 1, s.end()); tok k{r, 0}; csts_t cs; while (k.more()) cs += parse_cst(P, k); init += cs; }
    if (s[0] == "A") {
      std::vector<std::string> r(s.begin() + 2, s.end()); tok k{r, 0}; csts_t cs; while (k.more()) cs += parse_cst(P, k);
      Dom a = fac.make_top(); a += cs; asm_map.insert({program::bname(std::stol(s[1])), a}); general = true;
    }
  }
  crab::fixpoint_parameters params;
  params.get_widening_delay() = std::stoul(P.opt("delay", "2"));
  params.get_descending_iterations() = std::stoul(P.opt("desc", "1"));
  params.get_max_thresholds() = std::stoul(P.opt("thr", "0"));
  long entry = std::stol(P.opt("entry", "0"));
  if (entry != 0) general = true;
  z_cfg_ref_t ref(*P.cfg);
  std::unique_ptr<crab::analyzer::live_and_dead_analysis<z_cfg_ref_t>> live;
  if (P.opt("live", "0") == "1") {
    live.reset(new crab::analyzer::live_and_dead_analysis<z_cfg_ref_t>(ref));
    live->exec();
  }
  Dom absval_fac = fac.make_top();
  analyzer_t a(ref, absval_fac, live.get(), params);
  if (general) a.run(program::bname(entry), init, asm_map); else a.run(init);
  std::string out;
  for (unsigned i = 0; i < P.nblocks; ++i) {
    if (i) out += " ; ";
    out += "pre=" + show_state(P, a.get_pre(program::bname(i))) + " post=" + show_state(P, a.get_post(program::bname(i)));
  }
  if (P.opt("check", "0") == "1") {
    typedef crab::checker::intra_checker<analyzer_t> checker_t;
    typedef crab::checker::assert_property_checker<analyzer_t> assert_checker_t;
    typename checker_t::prop_checker_ptr prop(new assert_checker_t(1));
    checker_t checker(a, {prop});
    checker.run();
    crab::checker::checks_db db = checker.get_all_checks();
    out += " ; checks=";
    for (long id = 1; id <= std::stol(P.opt("nasserts", "0")); ++id) {
      crab::cfg::debug_info di("prog", (unsigned)id, 0, (int64_t)id);
      if (!db.has_checks(di)) { out += "-"; continue; }
      for (auto k : db.get_checks(di))
        out += (k == crab::checker::check_kind::CRAB_SAFE ? "S" : k == crab::checker::check_kind::CRAB_ERR ? "E" :
                k == crab::checker::check_kind::CRAB_WARN ? "W" : "U");
      out += ",";
    }
  }
  return out;
}

static std::string mode;
template <typename F> int main_with(int argc, char **argv, F dispatch) {
  crab::CrabEnableWarningMsg(false);
  if (argc > 1 && std::strncmp(argv[1], "--mode=", 7) == 0) {
    mode = argv[1] + 7;
    return vh::run_cases(argc - 1, argv + 1, dispatch);
  }
  std::cerr << "usage: fwddomsN --mode=<dom> <casefile> [start]\n";
  return 2;
}
} // namespace fwddoms
