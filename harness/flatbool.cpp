// Correspondence harness: crab::domains::flat_boolean_numerical_domain<interval_domain<z_number>>
// under operation histories with boolean operations (harness/domhist.hpp).  Mirror:
// coq/Dom/FlatBool.v, driver ocaml/flatbool_drv.ml.
// Release configuration (the default CMAKE_BUILD_TYPE of crab): assert() is compiled out.
#ifndef NDEBUG
#define NDEBUG
#endif
#include "domhist.hpp"
#include <crab/domains/intervals.hpp>
#include <crab/domains/flat_boolean_domain.hpp>
typedef ikos::interval_domain<ikos::z_number, crab::cfg_impl::varname_t> itv_t;
typedef crab::domains::flat_boolean_numerical_domain<itv_t> dom_t;
static std::string eval(const std::vector<std::string> &t) {
  dom_t top;
  return domhist::run_history<dom_t>(t, top);
}
int main(int argc, char **argv) {
  crab::CrabEnableWarningMsg(false);
  return vh::run_cases(argc, argv, eval);
}
