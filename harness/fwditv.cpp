// Correspondence harness for C01/C02: intra_fwd_analyzer<cfg_ref, interval_domain> on textual
// CFG programs (cfgtext.hpp).  Options in the header: delay= desc= thr= live=0|1 entry=<blk>
// Extra sections:  I <C> <C> ...   constraints of the initial value (default top)
//                  A <blk> <C> ... assumption at a block (makes the run use run(entry,init,asm))
// Output: for every block  pre=<state> post=<state>, joined by " ; "; then, with check=1,
// the verdict of every assertion (sorted by id).
#include "cfgtext.hpp"
#include <crab/analysis/fwd_analyzer.hpp>
#include <crab/analysis/dataflow/liveness.hpp>
#include <crab/checkers/assertion.hpp>
#include <crab/checkers/checker.hpp>
#include <crab/domains/intervals.hpp>
using namespace cfgtext;
typedef ikos::interval_domain<ikos::z_number, varname_t> dom_t;
typedef crab::analyzer::intra_fwd_analyzer<z_cfg_ref_t, dom_t> analyzer_t;
typedef linear_constraint_system<z_number, varname_t> csts_t;

template <typename T> static std::string str(const T &x) { crab::crab_string_os os; os << x; return os.str(); }
static std::string show_state(program &P, const dom_t &d) {
  if (d.is_bottom()) return "_|_";
  std::string r;
  for (size_t i = 0; i < P.vars.size(); ++i) { r += (i ? "|" : ""); r += str(d.at(P.vars[i])); }
  return r;
}

static std::string eval(const std::vector<std::string> &line) {
  program P;
  if (!parse_program(line, P)) return "HARNESS-ERROR";
  auto sec = sections(line);
  dom_t init;
  analyzer_t::assumption_map_t asm_map;
  bool general = false;
  for (size_t i = 1; i < sec.size(); ++i) {
    auto &s = sec[i];
    if (s.empty()) continue;
    if (s[0] == "I") { std::vector<std::string> r(s.begin() + 1, s.end()); tok k{r, 0}; csts_t cs; while (k.more()) cs += parse_cst(P, k); init += cs; }
    if (s[0] == "A") {
      std::vector<std::string> r(s.begin() + 2, s.end()); tok k{r, 0}; csts_t cs; while (k.more()) cs += parse_cst(P, k);
      dom_t a; a += cs; asm_map.insert({program::bname(std::stol(s[1])), a}); general = true;
    }
  }
  crab::fixpoint_parameters params;
  params.get_widening_delay() = std::stoul(P.opt("delay", "2"));
  params.get_descending_iterations() = std::stoul(P.opt("desc", "1"));
  params.get_max_thresholds() = std::stoul(P.opt("thr", "0"));
  long entry = std::stol(P.opt("entry", "0"));
  if (entry != 0) general = true;
  z_cfg_ref_t ref(*P.cfg);
  std::unique_ptr<crab::analyzer::live_and_dead_analysis<z_cfg_ref_t>> live;
  if (P.opt("live", "0") == "1") {
    live.reset(new crab::analyzer::live_and_dead_analysis<z_cfg_ref_t>(ref));
    live->exec();
  }
  dom_t absval_fac;
  analyzer_t a(ref, absval_fac, live.get(), params);
  if (general) a.run(program::bname(entry), init, asm_map); else a.run(init);
  std::string out;
  for (unsigned i = 0; i < P.nblocks; ++i) {
    if (i) out += " ; ";
    out += "pre=" + show_state(P, a.get_pre(program::bname(i))) + " post=" + show_state(P, a.get_post(program::bname(i)));
  }
  if (P.opt("check", "0") == "1") {
    typedef crab::checker::intra_checker<analyzer_t> checker_t;
    typedef crab::checker::assert_property_checker<analyzer_t> assert_checker_t;
    typename checker_t::prop_checker_ptr prop(new assert_checker_t(1));
    checker_t checker(a, {prop});
    checker.run();
    crab::checker::checks_db db = checker.get_all_checks();
    out += " ; checks=";
    for (long id = 1; id <= std::stol(P.opt("nasserts", "0")); ++id) {
      crab::cfg::debug_info di("prog", (unsigned)id, 0, (int64_t)id);
      if (!db.has_checks(di)) { out += "-"; continue; }
      for (auto k : db.get_checks(di))
        out += (k == crab::checker::check_kind::CRAB_SAFE ? "S" : k == crab::checker::check_kind::CRAB_ERR ? "E" :
                k == crab::checker::check_kind::CRAB_WARN ? "W" : "U");
      out += ",";
    }
  }
  return out;
}
int main(int argc, char **argv) { crab::CrabEnableWarningMsg(false); return vh::run_cases(argc, argv, eval); }
