// C02, oracle-only streams fwd-refs-<dom>-oracle: intra_fwd_analyzer<cfg_ref, Dom> + intra_checker +
// assert_property_checker on small CFG programs with reference statements, for the region domains of
// /repo/tests/crab_dom.hpp:
//   --mode=rgn-zones       z_rgn_sdbm_t      region_domain over split_dbm_domain (DefaultParams, adapt_ss)
//   --mode=rgn-itv         z_rgn_int_t       region_domain over interval_domain
//   --mode=rgn-bool-itv    z_rgn_bool_int_t  region_domain over flat_boolean_numerical_domain<interval_domain>
//   --mode=rgn-bool-zones                    region_domain over flat_boolean_numerical_domain<split_dbm_domain>
// (same TestRegionParams as crab_dom.hpp: program variables are strings, the base domain gets its
// names from str_var_alloc_col).
//
// Case line (gen/refprog.py writes and interprets the same language):
//   refs <nblocks> <nint> <nref> <nreg> <exit|-1> [delay=<n>] [desc=<n>] [prm=<5 bits>] nasserts=<n>
//        | B <k> <stmt> ; <stmt> ... | ... | E <a> <b> <a> <b> ...
// variables: integers i<k> (32 bit), references p<k>, regions of integers M<k>; reference p<k> lives
// in region M<k mod nreg>.  prm = region_domain_params (allocation_sites deallocation tag_analysis
// is_dereferenceable skip_unknown_regions), default 10101 as in crab.
// statements:
//   rinit <m>                       region_init(M<m>)
//   mk <p> <size> <site>            p := make_ref(M, size)   (allocation site number <site>)
//   gep <q> <p> k <c>               q := gep_ref(p, c)
//   gep <q> <p> v <a> <i> <c>       q := gep_ref(p, a*i + c)
//   rhavoc <p>                      havoc(p)
//   rassume <RC>                    assume_ref(RC)
//   rassert <RC> <id>               assert_ref(RC) with debug info id
//   iassign <i> <c> | iadd <i> <j> <c> (i := j + c) | ihavoc <i>
//   iassume <rel> <i> <c> (i rel c) | iassume2 <rel> <i> <j> <c> (i rel j + c)     rel in eq ne le lt ge gt
// reference constraints RC:
//   u <rel> <p>            p rel NULL  (mk_null, mk_not_null, mk_le_null, mk_lt_null, mk_ge_null, mk_gt_null)
//   b <rel> <p> <q> <k>    p rel q + k (mk_eq, mk_not_eq, mk_le, mk_lt, mk_ge, mk_gt)
// Answer: "checks=" + for every assertion id 1..nasserts the verdict letters of checks_db
// (S safe, W warning, E error, U unreachable; "-" when the checker recorded nothing) + ",".
// Release configuration (NDEBUG), as harness/fwddoms*.cpp.
#ifndef NDEBUG
#define NDEBUG
#endif
#include "crab_lang.hpp"
#include "hcommon.hpp"
#include <crab/domains/abstract_domain_params.hpp>
#include <crab/domains/intervals.hpp>
#include <crab/domains/flat_boolean_domain.hpp>
#include <crab/domains/split_dbm.hpp>
#include <crab/domains/region_domain.hpp>
#include <crab/analysis/fwd_analyzer.hpp>
#include <crab/checkers/assertion.hpp>
#include <crab/checkers/checker.hpp>
#include <crab/types/tag.hpp>
#include <cstring>
#include <memory>

namespace refasserts {
using namespace crab::cfg_impl;
using namespace crab::domains;
using namespace ikos;

typedef crab::var_factory_impl::str_var_alloc_col var_allocator;
template <class BaseAbsDom> struct TestRegionParams {        // as in /repo/tests/crab_dom.hpp
  using number_t = z_number;
  using varname_t = crab::cfg_impl::varname_t;
  using varname_allocator_t = crab::var_factory_impl::str_var_alloc_col;
  using base_abstract_domain_t = BaseAbsDom;
  using base_varname_t = typename BaseAbsDom::varname_t;
};
typedef typename var_allocator::varname_t bvarname_t;
typedef DBM_impl::DefaultParams<z_number, DBM_impl::GraphRep::adapt_ss> z_dbm_graph_t;
typedef interval_domain<z_number, bvarname_t> b_itv_t;
typedef split_dbm_domain<z_number, bvarname_t, z_dbm_graph_t> b_zones_t;
typedef region_domain<TestRegionParams<b_zones_t>> rgn_zones_t;
typedef region_domain<TestRegionParams<b_itv_t>> rgn_itv_t;
typedef region_domain<TestRegionParams<flat_boolean_numerical_domain<b_itv_t>>> rgn_bool_itv_t;
typedef region_domain<TestRegionParams<flat_boolean_numerical_domain<b_zones_t>>> rgn_bool_zones_t;

struct tok {
  const std::vector<std::string> &t; size_t p;
  bool more() const { return p < t.size(); }
  const std::string &next() { if (p >= t.size()) { std::cerr << "parse error\n"; std::exit(3); } return t[p++]; }
  long nexti() { return std::stol(next()); }
  z_number nextz() { return z_number(next()); }
};

struct program {
  variable_factory_t vfac;
  crab::tag_manager tm;
  std::vector<z_var> I, P, M;
  std::vector<crab::tag> sites;
  std::unique_ptr<z_cfg_t> cfg;
  unsigned nblocks = 0, nreg = 1;
  std::vector<std::pair<std::string, std::string>> opts;
  std::string opt(const std::string &k, const std::string &d) const {
    for (auto &o : opts) if (o.first == k) return o.second;
    return d;
  }
  static std::string bname(long i) { return "b" + std::to_string(i); }
  z_var &iv(long k) { if (k < 0 || (size_t)k >= I.size()) { std::cerr << "bad int\n"; std::exit(3); } return I[k]; }
  z_var &pv(long k) { if (k < 0 || (size_t)k >= P.size()) { std::cerr << "bad ref\n"; std::exit(3); } return P[k]; }
  z_var &rgn_of(long k) { return M[k % nreg]; }
  crab::tag site(long k) { while ((long)sites.size() <= k) sites.push_back(tm.mk_tag()); return sites[k]; }
};

static z_ref_cst_t parse_rcst(program &P, tok &k) {
  std::string ar = k.next(), rel = k.next();
  if (ar == "u") {
    z_var p = P.pv(k.nexti());
    if (rel == "eq") return z_ref_cst_t::mk_null(p);
    if (rel == "ne") return z_ref_cst_t::mk_not_null(p);
    if (rel == "le") return z_ref_cst_t::mk_le_null(p);
    if (rel == "lt") return z_ref_cst_t::mk_lt_null(p);
    if (rel == "ge") return z_ref_cst_t::mk_ge_null(p);
    if (rel == "gt") return z_ref_cst_t::mk_gt_null(p);
    std::cerr << "bad rel\n"; std::exit(3);
  }
  z_var p = P.pv(k.nexti()), q = P.pv(k.nexti());
  z_number off = k.nextz();
  if (rel == "eq") return z_ref_cst_t::mk_eq(p, q, off);
  if (rel == "ne") return z_ref_cst_t::mk_not_eq(p, q, off);
  if (rel == "le") return z_ref_cst_t::mk_le(p, q, off);
  if (rel == "lt") return z_ref_cst_t::mk_lt(p, q, off);
  if (rel == "ge") return z_ref_cst_t::mk_ge(p, q, off);
  if (rel == "gt") return z_ref_cst_t::mk_gt(p, q, off);
  std::cerr << "bad rel\n"; std::exit(3);
}

static z_lin_cst_t rel_cst(const std::string &rel, const z_lin_exp_t &a, const z_lin_exp_t &b) {
  if (rel == "eq") return a == b;
  if (rel == "ne") return a != b;
  if (rel == "le") return a <= b;
  if (rel == "lt") return a < b;
  if (rel == "ge") return a >= b;
  if (rel == "gt") return a > b;
  std::cerr << "bad rel\n"; std::exit(3);
}

static void parse_stmt(program &P, z_basic_block_t &b, const std::vector<std::string> &s) {
  tok k{s, 0};
  std::string op = k.next();
  if (op == "rinit") { b.region_init(P.M.at(k.nexti())); }
  else if (op == "mk") {
    long p = k.nexti(); z_number sz = k.nextz(); long site = k.nexti();
    b.make_ref(P.pv(p), P.rgn_of(p), z_var_or_cst_t(sz, crab::variable_type(crab::INT_TYPE, 32)), P.site(site));
  } else if (op == "gep") {
    long q = k.nexti(), p = k.nexti();
    std::string kind = k.next();
    z_lin_exp_t off;
    if (kind == "k") off = z_lin_exp_t(k.nextz());
    else { z_number a = k.nextz(); long i = k.nexti(); z_number c = k.nextz(); off = a * z_lin_exp_t(P.iv(i)) + c; }
    b.gep_ref(P.pv(q), P.rgn_of(q), P.pv(p), P.rgn_of(p), off);
  } else if (op == "rhavoc") { b.havoc(P.pv(k.nexti())); }
  else if (op == "rassume") { b.assume_ref(parse_rcst(P, k)); }
  else if (op == "rassert") {
    z_ref_cst_t c = parse_rcst(P, k);
    long id = k.nexti();
    b.assert_ref(c, crab::cfg::debug_info("prog", (unsigned)id, 0, (int64_t)id));
  } else if (op == "iassign") { long i = k.nexti(); b.assign(P.iv(i), z_lin_exp_t(k.nextz())); }
  else if (op == "iadd") { long i = k.nexti(), j = k.nexti(); b.assign(P.iv(i), z_lin_exp_t(P.iv(j)) + k.nextz()); }
  else if (op == "ihavoc") { b.havoc(P.iv(k.nexti())); }
  else if (op == "iassume") {
    std::string rel = k.next(); long i = k.nexti();
    b.assume(rel_cst(rel, z_lin_exp_t(P.iv(i)), z_lin_exp_t(k.nextz())));
  } else if (op == "iassume2") {
    std::string rel = k.next(); long i = k.nexti(), j = k.nexti();
    b.assume(rel_cst(rel, z_lin_exp_t(P.iv(i)), z_lin_exp_t(P.iv(j)) + k.nextz()));
  } else { std::cerr << "unknown statement " << op << "\n"; std::exit(3); }
  if (k.more()) { std::cerr << "trailing tokens after " << op << "\n"; std::exit(3); }
}

static bool parse_program(const std::vector<std::string> &line, program &P) {
  std::vector<std::vector<std::string>> sec(1);
  for (auto &s : line) { if (s == "|") sec.emplace_back(); else sec.back().push_back(s); }
  auto &h = sec[0];
  if (h.size() < 6 || h[0] != "refs") return false;
  P.nblocks = std::stoul(h[1]);
  unsigned ni = std::stoul(h[2]), np = std::stoul(h[3]);
  P.nreg = std::stoul(h[4]);
  long exit_block = std::stol(h[5]);
  if (P.nreg == 0) return false;
  for (size_t i = 6; i < h.size(); ++i) {
    size_t e = h[i].find('=');
    if (e == std::string::npos) return false;
    P.opts.push_back({h[i].substr(0, e), h[i].substr(e + 1)});
  }
  for (unsigned i = 0; i < ni; ++i) P.I.push_back(z_var(P.vfac["i" + std::to_string(i)], crab::INT_TYPE, 32));
  for (unsigned i = 0; i < np; ++i) P.P.push_back(z_var(P.vfac["p" + std::to_string(i)], crab::REF_TYPE, 32));
  for (unsigned i = 0; i < P.nreg; ++i) P.M.push_back(z_var(P.vfac["M" + std::to_string(i)], crab::REG_INT_TYPE, 32));
  if (exit_block >= 0) P.cfg.reset(new z_cfg_t(program::bname(0), program::bname(exit_block)));
  else P.cfg.reset(new z_cfg_t(program::bname(0)));
  for (unsigned i = 0; i < P.nblocks; ++i) P.cfg->insert(program::bname(i));
  for (size_t si = 1; si < sec.size(); ++si) {
    auto &s = sec[si];
    if (s.empty()) continue;
    if (s[0] == "B") {
      z_basic_block_t &b = P.cfg->get_node(program::bname(std::stol(s.at(1))));
      std::vector<std::string> cur;
      for (size_t j = 2; j <= s.size(); ++j) {
        if (j == s.size() || s[j] == ";") { if (!cur.empty()) parse_stmt(P, b, cur); cur.clear(); }
        else cur.push_back(s[j]);
      }
    } else if (s[0] == "E") {
      for (size_t j = 1; j + 1 < s.size(); j += 2)
        P.cfg->get_node(program::bname(std::stol(s[j]))) >> P.cfg->get_node(program::bname(std::stol(s[j + 1])));
    } else return false;
  }
  return true;
}

template <typename Dom> static std::string eval(const std::vector<std::string> &line) {
  typedef crab::analyzer::intra_fwd_analyzer<z_cfg_ref_t, Dom> analyzer_t;
  program P;
  if (!parse_program(line, P)) return "HARNESS-ERROR";
  std::string ps = P.opt("prm", "10101");
  if (ps.size() != 5) return "HARNESS-ERROR";
  region_domain_params prm(ps[0] == '1', ps[1] == '1', ps[2] == '1', ps[3] == '1', ps[4] == '1');
  crab_domain_params_man::get().update_params(prm);
  crab::fixpoint_parameters params;
  params.get_widening_delay() = std::stoul(P.opt("delay", "2"));
  params.get_descending_iterations() = std::stoul(P.opt("desc", "1"));
  params.get_max_thresholds() = std::stoul(P.opt("thr", "0"));
  z_cfg_ref_t ref(*P.cfg);
  Dom init;
  analyzer_t a(ref, init, nullptr, params);
  a.run(init);
  typedef crab::checker::intra_checker<analyzer_t> checker_t;
  typedef crab::checker::assert_property_checker<analyzer_t> assert_checker_t;
  typename checker_t::prop_checker_ptr prop(new assert_checker_t(1));
  checker_t checker(a, {prop});
  checker.run();
  crab::checker::checks_db db = checker.get_all_checks();
  std::string out = "checks=";
  for (long id = 1; id <= std::stol(P.opt("nasserts", "0")); ++id) {
    crab::cfg::debug_info di("prog", (unsigned)id, 0, (int64_t)id);
    if (!db.has_checks(di)) { out += "-,"; continue; }
    for (auto k : db.get_checks(di))
      out += (k == crab::checker::check_kind::CRAB_SAFE ? "S" : k == crab::checker::check_kind::CRAB_ERR ? "E" :
              k == crab::checker::check_kind::CRAB_WARN ? "W" : "U");
    out += ",";
  }
  return out;
}

static std::string mode;
static std::string dispatch(const std::vector<std::string> &line) {
  if (mode == "rgn-zones") return eval<rgn_zones_t>(line);
  if (mode == "rgn-itv") return eval<rgn_itv_t>(line);
  if (mode == "rgn-bool-itv") return eval<rgn_bool_itv_t>(line);
  if (mode == "rgn-bool-zones") return eval<rgn_bool_zones_t>(line);
  return "HARNESS-ERROR unknown mode";
}
} // namespace refasserts

int main(int argc, char **argv) {
  crab::CrabEnableWarningMsg(false);
  if (argc > 1 && std::strncmp(argv[1], "--mode=", 7) == 0) {
    refasserts::mode = argv[1] + 7;
    return vh::run_cases(argc - 1, argv + 1, refasserts::dispatch);
  }
  std::cerr << "usage: refasserts --mode=<dom> <casefile> [start]\n";
  return 2;
}
