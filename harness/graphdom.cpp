// Correspondence harness for property C12 (graph domains exact on their language):
// operation histories (harness/domhist.hpp) over
//   --mode=zones      split_dbm_domain  (DefaultParams, int64 weights)
//   --mode=zones-safe split_dbm_domain  (SafeInt64DefaultParams)
//   --mode=sparse     sparse_dbm_domain
//   --mode=oct        split_oct_domain
//   --mode=itv        interval_domain   (the interval language)
// and the liftings (same numerical history, at(v) must equal the base domain's):
//   --mode=lift-bool-itv / lift-bool-zones   flat_boolean_numerical_domain<base>
//   --mode=lift-smash-itv / lift-smash-zones array_smashing<base>
//   --mode=lift-prod-itv-zones               reduced_numerical_domain_product2<itv, zones>
//   --mode=lift-prod-zones-itv               reduced_numerical_domain_product2<zones, itv>
//   --mode=lift-dprod-zones                  reduced_domain_product2 over (zones, itv) (basic product)
// A case line may start with "P <abcd>": the four closure-related crab_domain_params
// (chrome_dijkstra, widen_restabilize, special_assign, close_bounds_inline; 0/1 each) set for
// both zones.* and oct.* before the history runs.
#include "domhist.hpp"
#include <crab/domains/intervals.hpp>
#include <crab/domains/split_dbm.hpp>
#include <crab/domains/sparse_dbm.hpp>
#include <crab/domains/split_oct.hpp>
#include <crab/domains/flat_boolean_domain.hpp>
#include <crab/domains/array_smashing.hpp>
#include <crab/domains/combined_domains.hpp>
#include <crab/domains/abstract_domain_params.hpp>
#include <cstring>

using namespace crab::domains;
using crab::cfg_impl::varname_t;
typedef ikos::z_number zn;
typedef ikos::interval_domain<zn, varname_t> itv_t;
typedef DBM_impl::DefaultParams<zn, DBM_impl::GraphRep::adapt_ss> gparams_t;
typedef DBM_impl::SafeInt64DefaultParams<zn, DBM_impl::GraphRep::adapt_ss> sparams_t;
typedef split_dbm_domain<zn, varname_t, gparams_t> zones_t;
typedef split_dbm_domain<zn, varname_t, sparams_t> zones_safe_t;
typedef sparse_dbm_domain<zn, varname_t, gparams_t> sparse_t;
typedef split_oct_domain<zn, varname_t, gparams_t> oct_t;
typedef flat_boolean_numerical_domain<itv_t> bool_itv_t;
typedef flat_boolean_numerical_domain<zones_t> bool_zones_t;
typedef array_smashing<itv_t> smash_itv_t;
typedef array_smashing<zones_t> smash_zones_t;
typedef reduced_numerical_domain_product2<itv_t, zones_t> prod_iz_t;
typedef reduced_numerical_domain_product2<zones_t, itv_t> prod_zi_t;

static std::string mode = "zones";

static void set_params(const std::string &bits) {
  static const char *names[4] = {"chrome_dijkstra", "widen_restabilize", "special_assign", "close_bounds_inline"};
  crab_domain_params &p = crab_domain_params_man::get();
  for (int i = 0; i < 4; ++i) {
    std::string v = (i < (int)bits.size() && bits[i] == '1') ? "true" : "false";
    p.set_param(std::string("zones.") + names[i], v);
    p.set_param(std::string("oct.") + names[i], v);
  }
}

static std::string eval(const std::vector<std::string> &t0) {
  std::vector<std::string> t(t0);
  if (t.size() >= 2 && t[0] == "P") {
    set_params(t[1]);
    t.erase(t.begin(), t.begin() + 2);
  } else {
    set_params("1110");   // the defaults
  }
  if (mode == "zones") { zones_t d; return domhist::run_history<zones_t>(t, d); }
  if (mode == "zones-safe") { zones_safe_t d; return domhist::run_history<zones_safe_t>(t, d); }
  if (mode == "sparse") { sparse_t d; return domhist::run_history<sparse_t>(t, d); }
  if (mode == "oct") { oct_t d; return domhist::run_history<oct_t>(t, d); }
  if (mode == "itv") { itv_t d; return domhist::run_history<itv_t>(t, d); }
  if (mode == "lift-bool-itv") { bool_itv_t d; return domhist::run_history<bool_itv_t>(t, d); }
  if (mode == "lift-bool-zones") { bool_zones_t d; return domhist::run_history<bool_zones_t>(t, d); }
  if (mode == "lift-smash-itv") { smash_itv_t d; return domhist::run_history<smash_itv_t>(t, d); }
  if (mode == "lift-smash-zones") { smash_zones_t d; return domhist::run_history<smash_zones_t>(t, d); }
  if (mode == "lift-prod-itv-zones") { prod_iz_t d; return domhist::run_history<prod_iz_t>(t, d); }
  if (mode == "lift-prod-zones-itv") { prod_zi_t d; return domhist::run_history<prod_zi_t>(t, d); }
  return "HARNESS-ERROR mode";
}

int main(int argc, char **argv) {
  crab::CrabEnableWarningMsg(false);
  if (argc > 1 && std::strncmp(argv[1], "--mode=", 7) == 0) {
    mode = argv[1] + 7;
    return vh::run_cases(argc - 1, argv + 1, eval);
  }
  return vh::run_cases(argc, argv, eval);
}
