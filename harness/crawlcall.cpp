// Correspondence harness for C18 (call sites of the assertion crawler): calls the REAL static functions
//   assertion_crawler_operations<z_cfg_ref_t>::transfer_function::callee_to_caller
//   assertion_crawler_operations<z_cfg_ref_t>::transfer_function::apply_summary<Key>
// (both public members of the public nested class transfer_function) on textual cases.
//
// Case lines (tokens separated by blanks; a list is  n,n,n  or - ; a map is  k:n,n;k:;k:n  or - ):
//   c2c <tag> <vars> <fins> <ins>                                  -> {n,n}
//   as  <tag> <outs> <fouts> <fins> <ins> <dpd> <sdd>              -> [k:{..};k:{..}]      Key = variable_t
//   cs  <tag> <outs> <fouts> <fins> <ins> <amd> <sdm> <camd> <csdd> -> amd=[..] sdm=[..]
// (<tag> = the generator's policy name, ignored)
// `cs` performs the statements of transfer_function::visit(callsite_t&) for a call site with a summary:
// apply_summary on the assertion map (Key = assert_wrapper, real assert statements of a scratch CFG),
// the renaming loop over the callee's assertion map with callee_to_caller, the join `|` of
// discrete_pair_domain, apply_summary on the summary dependencies (Key = variable_t).  Those few
// statements are copied here (visit itself needs a whole inter-procedural crawler: that path is the
// oracle stream crawler-inter); the two functions are the library's.
// Variable n is the crab variable named "v<n>"; keys and sets are printed sorted by number.
#ifndef NDEBUG
#define NDEBUG
#endif
#include "crab_lang.hpp"
#include "hcommon.hpp"
#include <crab/analysis/dataflow/assertion_crawler.hpp>
#include <algorithm>
#include <map>
#include <memory>

using namespace crab::cfg_impl;
typedef crab::analyzer::assertion_crawler_operations<z_cfg_ref_t> ops_t;
typedef ops_t::transfer_function tf_t;
typedef ops_t::assertion_crawler_domain_t dom_t;
typedef dom_t::var_dom_t varset_t;
typedef dom_t::first_domain_t amd_t;
typedef dom_t::second_domain_t sdd_t;
typedef ops_t::assert_wrapper_t aw_t;

static variable_factory_t *VF;
static std::map<long, z_var> *VARS;

static z_var var_of(long n) {
  auto it = VARS->find(n);
  if (it != VARS->end()) return it->second;
  z_var v(VF->operator[]("v" + std::to_string(n)), crab::INT_TYPE, 32);
  VARS->insert({n, v});
  return v;
}
static long num_of(const z_var &v) {
  for (auto &kv : *VARS) if (kv.second.index() == v.index()) return kv.first;
  return -1;
}
static std::vector<long> nums(const std::string &s) {
  std::vector<long> r;
  if (s == "-") return r;
  for (auto &t : vh::split(s, ',')) r.push_back(std::stol(t));
  return r;
}
static std::vector<z_var> vars(const std::string &s) {
  std::vector<z_var> r;
  for (long n : nums(s)) r.push_back(var_of(n));
  return r;
}
static varset_t set_of(const std::string &s) {
  varset_t r = varset_t::bottom();
  for (long n : nums(s)) r += var_of(n);
  return r;
}
static std::vector<std::pair<long, std::string>> entries(const std::string &s) {
  std::vector<std::pair<long, std::string>> r;
  if (s == "-") return r;
  for (auto &e : vh::split(s, ';')) {
    size_t c = e.find(':');
    std::string v = e.substr(c + 1);
    r.push_back({std::stol(e.substr(0, c)), v.empty() ? "-" : v});
  }
  return r;
}
static std::string show_set(const varset_t &s) {
  if (s.is_top()) return "T";
  std::vector<long> r;
  for (auto it = s.begin(), et = s.end(); it != et; ++it) r.push_back(num_of(*it));
  std::sort(r.begin(), r.end());
  std::string o = "{";
  for (size_t i = 0; i < r.size(); ++i) { if (i) o += ","; o += std::to_string(r[i]); }
  return o + "}";
}
static std::string show_entries(std::vector<std::pair<long, std::string>> f) {
  std::sort(f.begin(), f.end());
  std::string o = "[";
  for (size_t i = 0; i < f.size(); ++i) { if (i) o += ";"; o += std::to_string(f[i].first) + ":" + f[i].second; }
  return o + "]";
}
static std::string show_sdd(const sdd_t &m) {
  if (m.is_top()) return "T";
  std::vector<std::pair<long, std::string>> f;
  for (auto it = m.begin(), et = m.end(); it != et; ++it) f.push_back({num_of(it->first), show_set(it->second)});
  return show_entries(f);
}
static std::string show_amd(const amd_t &m) {
  if (m.is_top()) return "T";
  std::vector<std::pair<long, std::string>> f;
  for (auto it = m.begin(), et = m.end(); it != et; ++it) f.push_back({(long)it->first.index(), show_set(it->second)});
  return show_entries(f);
}
static sdd_t sdd_of(const std::string &s) {
  sdd_t r = sdd_t::bottom();
  for (auto &e : entries(s)) r.set(var_of(e.first), set_of(e.second));
  return r;
}

static std::string eval(const std::vector<std::string> &tt) {
  variable_factory_t vfac;
  std::map<long, z_var> vmap;
  VF = &vfac; VARS = &vmap;
  if (tt.size() < 2) return "HARNESS-ERROR";
  std::vector<std::string> t(tt);
  t.erase(t.begin() + 1);        // the policy tag of the generator
  if (t[0] == "c2c" && t.size() == 4) {
    varset_t W = set_of(t[1]);
    std::vector<z_var> fins = vars(t[2]), ins = vars(t[3]);
    return show_set(tf_t::callee_to_caller(W, fins, ins));
  }
  if (t[0] == "as" && t.size() == 7) {
    std::vector<z_var> outs = vars(t[1]), fouts = vars(t[2]), fins = vars(t[3]), ins = vars(t[4]);
    sdd_t dpd = sdd_of(t[5]), sdd = sdd_of(t[6]);
    tf_t::apply_summary(dpd, sdd, outs, fouts, fins, ins);
    return show_sdd(dpd);
  }
  if (t[0] == "cs" && t.size() == 9) {
    std::vector<z_var> callsite_outputs = vars(t[1]), callee_outputs = vars(t[2]),
                       callee_inputs = vars(t[3]), callsite_inputs = vars(t[4]);
    // real assert statements for the keys of the assertion maps
    z_cfg_t cfg("b0");
    z_basic_block_t &b = cfg.insert("b0");
    std::map<long, z_cfg_t::statement_t *> stmts;
    z_var z = var_of(0);
    auto stmt_of = [&](long id) {
      auto it = stmts.find(id);
      if (it != stmts.end()) return it->second;
      auto *s = const_cast<z_cfg_t::statement_t *>(b.assertion(z_lin_exp_t(z) >= ikos::z_number(id)));
      stmts[id] = s;
      return s;
    };
    amd_t amd = amd_t::bottom(), callee_amd = amd_t::bottom();
    for (auto &e : entries(t[5])) amd.set(aw_t((ikos::index_t)e.first, stmt_of(e.first)), set_of(e.second));
    sdd_t sdm = sdd_of(t[6]);
    for (auto &e : entries(t[7])) callee_amd.set(aw_t((ikos::index_t)e.first, stmt_of(e.first)), set_of(e.second));
    sdd_t callee_sdd = sdd_of(t[8]);
    // ---- the statements of visit(callsite_t&)
    tf_t::apply_summary(amd, callee_sdd, callsite_outputs, callee_outputs, callee_inputs, callsite_inputs);
    if (!callee_amd.is_top() && !callee_amd.is_bottom()) {
      amd_t renamed_callee_amd = amd_t::bottom();
      for (auto kv : callee_amd) {
        renamed_callee_amd.set(kv.first, tf_t::callee_to_caller(kv.second, callee_inputs, callsite_inputs));
      }
      std::swap(callee_amd, renamed_callee_amd);
    }
    amd_t first = amd | callee_amd;
    tf_t::apply_summary(sdm, callee_sdd, callsite_outputs, callee_outputs, callee_inputs, callsite_inputs);
    return "amd=" + show_amd(first) + " sdm=" + show_sdd(sdm);
  }
  return "HARNESS-ERROR";
}

int main(int argc, char **argv) {
  crab::CrabEnableWarningMsg(false);
  return vh::run_cases(argc, argv, eval);
}
