// Textual CFG programs for the analysis-level harnesses (C01, C02, C11, C17, C18, ...).
// One case = one line:
//   cfg <nblocks> <nvars> <exit|-1> [opt=val ...] | B <id> <stmt> ; <stmt> ; ... | ... | E a b a b ...
// Blocks are b0..b(n-1) (b0 = CFG entry); variables v0..v(nvars-1) are 32-bit integers.
// Statements:
//   assign x <E>           x := linear expression      (E n c1 v1 ... cn vn k)
//   arith <op> x y v z | arith <op> x y k c            op in add sub mul sdiv udiv srem urem
//   bit <op> x y v z | bit <op> x y k c                op in and or xor shl lshr ashr
//   assume <C>             C kind E...   kind in eq ne le lt   (expression kind 0)
//   assert <C> <id>        id = unique debug line number
//   havoc x
//   select x <C> <E1> <E2>
//   unreachable
// Boolean statements (boolean variables b0, b1, ... of crab::BOOL_TYPE are created on first use; <b> = number):
//   bassign <b> <C>        b := linear constraint
//   bcopy <b> <b'> | bnot <b> <b'>            b := b' | b := not b'
//   bbin and|or|xor <b> <b1> <b2>
//   bselect <b> <c> <b1> <b2>                 b := c ? b1 : b2
//   bassume <b> | bnassume <b>                assume(b) | assume(not b)
//   bassert <b> <id>       id = unique debug line number (as for assert)
//   bhavoc <b>
//   bzext <x> <b>          x := zext(b)   (integer variable x becomes 0 / 1)
// Array statements (array variables a0, a1, ... of crab::ARR_INT_TYPE are created on first use; <a> = number,
// <sz> = element size, a constant):
//   ainit <a> <sz> <Elb> <Eub> <Eval>         array_init: a[lb..ub] := val, every other cell undefined
//   astore <a> <sz> <strong 0|1> <Eidx> <Eval>   array_store of one cell
//   astorer <a> <sz> <Elb> <Eub> <Eval>       array_store_range: a[lb..ub] := val
//   aload <x> <a> <sz> <Eidx>                 x := a[idx]
//   aassign <a> <a'>                          a := a'
// Edges are added in the order given (this fixes successor / predecessor order).
#pragma once
#include "crab_lang.hpp"
#include "hcommon.hpp"
#include <memory>

namespace cfgtext {
using namespace crab::cfg_impl;
using namespace ikos;
typedef z_lin_exp_t lin_t;
typedef z_lin_cst_t cst_t;

struct tok {
  const std::vector<std::string> &t; size_t p;
  bool more() const { return p < t.size(); }
  const std::string &next() { if (p >= t.size()) { std::cerr << "cfgtext: parse error\n"; std::exit(3);} return t[p++]; }
  long nexti() { return std::stol(next()); }
  z_number nextz() { return z_number(next()); }
};

struct program {
  variable_factory_t vfac;
  std::vector<z_var> vars;
  std::unique_ptr<z_cfg_t> cfg;
  unsigned nblocks = 0, nvars = 0;
  long exit_block = -1;
  std::vector<std::pair<std::string, std::string>> opts;
  std::vector<z_var> bools;   // boolean variables b0, b1, ...: created on first use (after all integer variables)
  z_var bvar(long i) {
    if (i < 0) { std::cerr << "cfgtext: parse error\n"; std::exit(3); }
    while ((long)bools.size() <= i) {
      std::string n = "b" + std::to_string(bools.size());
      bools.push_back(z_var(vfac[n], crab::BOOL_TYPE, 1));
    }
    return bools[i];
  }
  std::vector<z_var> arrs;    // array variables a0, a1, ...: created on first use
  z_var avar(long i) {
    if (i < 0) { std::cerr << "cfgtext: parse error\n"; std::exit(3); }
    while ((long)arrs.size() <= i) {
      std::string n = "a" + std::to_string(arrs.size());
      arrs.push_back(z_var(vfac[n], crab::ARR_INT_TYPE));
    }
    return arrs[i];
  }
  std::string opt(const std::string &k, const std::string &def) const {
    for (auto &kv : opts) if (kv.first == k) return kv.second;
    return def;
  }
  static std::string bname(long i) { return "b" + std::to_string(i); }
  std::string vname(const z_var &v) const {
    for (size_t i = 0; i < vars.size(); ++i) if (vars[i].index() == v.index()) return "v" + std::to_string(i);
    return "v?";
  }
};

inline lin_t parse_exp(program &P, tok &k) {
  k.next();
  long n = k.nexti();
  lin_t e;
  for (long i = 0; i < n; ++i) { z_number c = k.nextz(); long v = k.nexti(); e = e + lin_t(c, P.vars[v]); }
  e = e + k.nextz();
  return e;
}
inline cst_t parse_cst(program &P, tok &k) {
  k.next();
  std::string kind = k.next();
  lin_t e = parse_exp(P, k);
  if (kind == "eq") return cst_t(e, cst_t::EQUALITY);
  if (kind == "ne") return cst_t(e, cst_t::DISEQUATION);
  if (kind == "le") return cst_t(e, cst_t::INEQUALITY);
  return cst_t(e, cst_t::STRICT_INEQUALITY);
}

inline void add_stmt(program &P, z_basic_block_t &b, tok &k) {
  std::string op = k.next();
  if (op == "assign") { long x = k.nexti(); lin_t e = parse_exp(P, k); b.assign(P.vars[x], e); }
  else if (op == "arith" || op == "bit") {
    std::string o = k.next(); long x = k.nexti(), y = k.nexti(); std::string kind = k.next();
    z_var X = P.vars[x], Y = P.vars[y];
    if (kind == "v") {
      z_var Z = P.vars[k.nexti()];
      if (o == "add") b.add(X, Y, Z); else if (o == "sub") b.sub(X, Y, Z); else if (o == "mul") b.mul(X, Y, Z);
      else if (o == "sdiv") b.div(X, Y, Z); else if (o == "udiv") b.udiv(X, Y, Z); else if (o == "srem") b.rem(X, Y, Z);
      else if (o == "urem") b.urem(X, Y, Z); else if (o == "and") b.bitwise_and(X, Y, Z); else if (o == "or") b.bitwise_or(X, Y, Z);
      else if (o == "xor") b.bitwise_xor(X, Y, Z); else if (o == "shl") b.shl(X, Y, Z); else if (o == "lshr") b.lshr(X, Y, Z);
      else b.ashr(X, Y, Z);
    } else {
      z_number Z = k.nextz();
      if (o == "add") b.add(X, Y, Z); else if (o == "sub") b.sub(X, Y, Z); else if (o == "mul") b.mul(X, Y, Z);
      else if (o == "sdiv") b.div(X, Y, Z); else if (o == "udiv") b.udiv(X, Y, Z); else if (o == "srem") b.rem(X, Y, Z);
      else if (o == "urem") b.urem(X, Y, Z); else if (o == "and") b.bitwise_and(X, Y, Z); else if (o == "or") b.bitwise_or(X, Y, Z);
      else if (o == "xor") b.bitwise_xor(X, Y, Z); else if (o == "shl") b.shl(X, Y, Z); else if (o == "lshr") b.lshr(X, Y, Z);
      else b.ashr(X, Y, Z);
    }
  }
  else if (op == "assume") { cst_t c = parse_cst(P, k); b.assume(c); }
  else if (op == "assert") {
    cst_t c = parse_cst(P, k); long id = k.nexti();
    b.assertion(c, crab::cfg::debug_info("prog", (unsigned)id, 0, (int64_t)id));
  }
  else if (op == "havoc") { long x = k.nexti(); b.havoc(P.vars[x]); }
  else if (op == "select") { long x = k.nexti(); cst_t c = parse_cst(P, k); lin_t e1 = parse_exp(P, k); lin_t e2 = parse_exp(P, k); b.select(P.vars[x], c, e1, e2); }
  else if (op == "unreachable") { b.unreachable(); }
  else if (op == "bassign") { z_var x = P.bvar(k.nexti()); cst_t c = parse_cst(P, k); b.bool_assign(x, c); }
  else if (op == "bcopy") { z_var x = P.bvar(k.nexti()); z_var y = P.bvar(k.nexti()); b.bool_assign(x, y, false); }
  else if (op == "bnot") { z_var x = P.bvar(k.nexti()); z_var y = P.bvar(k.nexti()); b.bool_not_assign(x, y); }
  else if (op == "bbin") {
    std::string o = k.next(); z_var x = P.bvar(k.nexti()); z_var y = P.bvar(k.nexti()); z_var z = P.bvar(k.nexti());
    if (o == "and") b.bool_and(x, y, z); else if (o == "or") b.bool_or(x, y, z); else if (o == "xor") b.bool_xor(x, y, z);
    else { std::cerr << "cfgtext: unknown boolean operator " << o << "\n"; std::exit(3); }
  }
  else if (op == "bselect") { z_var x = P.bvar(k.nexti()); z_var c = P.bvar(k.nexti()); z_var y = P.bvar(k.nexti()); z_var z = P.bvar(k.nexti()); b.bool_select(x, c, y, z); }
  else if (op == "bassume") { b.bool_assume(P.bvar(k.nexti())); }
  else if (op == "bnassume") { b.bool_not_assume(P.bvar(k.nexti())); }
  else if (op == "bassert") {
    z_var x = P.bvar(k.nexti()); long id = k.nexti();
    b.bool_assert(x, crab::cfg::debug_info("prog", (unsigned)id, 0, (int64_t)id));
  }
  else if (op == "bhavoc") { b.havoc(P.bvar(k.nexti())); }
  else if (op == "bzext") { long x = k.nexti(); b.zext(P.bvar(k.nexti()), P.vars[x]); }
  else if (op == "ainit") { z_var a = P.avar(k.nexti()); z_number sz = k.nextz(); lin_t lb = parse_exp(P, k); lin_t ub = parse_exp(P, k); lin_t v = parse_exp(P, k); b.array_init(a, lb, ub, v, lin_t(sz)); }
  else if (op == "astore") { z_var a = P.avar(k.nexti()); z_number sz = k.nextz(); long strong = k.nexti(); lin_t i = parse_exp(P, k); lin_t v = parse_exp(P, k); b.array_store(a, i, v, lin_t(sz), strong != 0); }
  else if (op == "astorer") { z_var a = P.avar(k.nexti()); z_number sz = k.nextz(); lin_t lb = parse_exp(P, k); lin_t ub = parse_exp(P, k); lin_t v = parse_exp(P, k); b.array_store_range(a, lb, ub, v, lin_t(sz)); }
  else if (op == "aload") { long x = k.nexti(); z_var a = P.avar(k.nexti()); z_number sz = k.nextz(); lin_t i = parse_exp(P, k); b.array_load(P.vars[x], a, i, lin_t(sz)); }
  else if (op == "aassign") { z_var a = P.avar(k.nexti()); z_var a2 = P.avar(k.nexti()); b.array_assign(a, a2); }
  else { std::cerr << "cfgtext: unknown statement " << op << "\n"; std::exit(3); }
}

// sections separated by "|"
inline std::vector<std::vector<std::string>> sections(const std::vector<std::string> &line) {
  std::vector<std::vector<std::string>> sec(1);
  for (auto &s : line) { if (s == "|") sec.emplace_back(); else sec.back().push_back(s); }
  return sec;
}

inline bool parse_program(const std::vector<std::string> &line, program &P) {
  auto sec = sections(line);
  if (sec[0].size() < 4 || sec[0][0] != "cfg") return false;
  P.nblocks = std::stoul(sec[0][1]); P.nvars = std::stoul(sec[0][2]); P.exit_block = std::stol(sec[0][3]);
  for (size_t i = 4; i < sec[0].size(); ++i) {
    size_t e = sec[0][i].find('=');
    if (e != std::string::npos) P.opts.push_back({sec[0][i].substr(0, e), sec[0][i].substr(e + 1)});
  }
  for (unsigned i = 0; i < P.nvars; ++i)
    P.vars.push_back(z_var(P.vfac["v" + std::to_string(i)], crab::INT_TYPE, 32));
  if (P.exit_block >= 0) P.cfg.reset(new z_cfg_t(program::bname(0), program::bname(P.exit_block)));
  else P.cfg.reset(new z_cfg_t(program::bname(0)));
  for (unsigned i = 0; i < P.nblocks; ++i) P.cfg->insert(program::bname(i));
  for (size_t i = 1; i < sec.size(); ++i) {
    auto &s = sec[i];
    if (s.empty()) continue;
    if (s[0] == "B") {
      z_basic_block_t &b = P.cfg->get_node(program::bname(std::stol(s[1])));
      // statements separated by ";"
      std::vector<std::string> cur;
      for (size_t j = 2; j <= s.size(); ++j) {
        if (j == s.size() || s[j] == ";") {
          if (!cur.empty()) { tok k{cur, 0}; add_stmt(P, b, k); }
          cur.clear();
        } else cur.push_back(s[j]);
      }
    } else if (s[0] == "E") {
      for (size_t j = 1; j + 1 < s.size(); j += 2)
        P.cfg->get_node(program::bname(std::stol(s[j]))) >> P.cfg->get_node(program::bname(std::stol(s[j + 1])));
    }
  }
  return true;
}
} // namespace cfgtext
