// Correspondence harness: ikos::wto<G> (wto family, property C07).
// case line:  <kind> <N> <entry> <succ_0> ... <succ_{N-1}>
//   kind  = cfg  : crab CFG with blocks b0..b{N-1}; the edges of block i are added with >>
//                  in the order of the comma separated list succ_i ("-" = no successor);
//                  wto<cfg_ref>(cfg) with the CFG entry = b<entry>
//           cfge : same graph, CFG entry b0, wto<cfg_ref>(cfg, b<entry>) (explicit entry)
//           cg   : call graph of N functions f0..f{N-1}; function i has one block with
//                  the call sites succ_i in that order; wto<call_graph_ref>(cg, f<entry>)
// answer:  W <components> N <i>:<nesting> ...      nesting = [h1,h2] | -  (no entry)
#include "crab_lang.hpp"
#include <crab/cg/cg.hpp>
#include <crab/cg/cg_bgl.hpp>
#include <crab/cfg/cfg_bgl.hpp>
#include <crab/fixpoint/wto.hpp>
#include "hcommon.hpp"
#include <memory>

using namespace crab;
using namespace crab::cfg_impl;
using namespace crab::cfg;

template <typename T> static std::string str(const T &x) {
  crab::crab_string_os os; os << x; return os.str();
}
// node name -> decimal index (b12 / f12 -> 12)
static std::string idx(const std::string &name) { return name.substr(1); }

template <typename G> struct printer : public ikos::wto_component_visitor<G> {
  using wto_vertex_t = ikos::wto_vertex<G>;
  using wto_cycle_t = ikos::wto_cycle<G>;
  std::string out;
  bool first = true;
  void sep() { if (!first) out += " "; first = false; }
  void visit(wto_vertex_t &v) override { sep(); out += idx(str(v.node())); }
  void visit(wto_cycle_t &c) override {
    sep(); out += "(" + idx(str(c.head()));
    for (auto it = c.begin(); it != c.end(); ++it) it->accept(this);
    out += ")";
  }
};

template <typename G, typename Node>
static std::string show(ikos::wto<G> &w, const std::vector<Node> &nodes) {
  printer<G> p;
  w.accept(&p);
  std::string r = "W " + p.out + " N";
  for (size_t i = 0; i < nodes.size(); ++i) {
    r += " " + std::to_string(i) + ":";
    auto n = w.nesting(nodes[i]);
    if (!n) { r += "-"; continue; }
    r += "[";
    bool f = true;
    for (auto it = n->begin(); it != n->end(); ++it) { if (!f) r += ","; f = false; r += idx(str(*it)); }
    r += "]";
  }
  return r;
}

static std::vector<std::vector<int>> parse_succs(const std::vector<std::string> &t, size_t n) {
  std::vector<std::vector<int>> g(n);
  for (size_t i = 0; i < n; ++i) {
    if (t[3 + i] == "-") continue;
    for (auto &s : vh::split(t[3 + i], ',')) g[i].push_back(std::atoi(s.c_str()));
  }
  return g;
}

static std::string eval(const std::vector<std::string> &t) {
  if (t.size() < 3) return "HARNESS-ERROR";
  const std::string &kind = t[0];
  size_t n = std::strtoul(t[1].c_str(), nullptr, 10);
  size_t e = std::strtoul(t[2].c_str(), nullptr, 10);
  if (t.size() != 3 + n || e >= n) return "HARNESS-ERROR";
  auto g = parse_succs(t, n);
  if (kind == "cfg" || kind == "cfge") {
    std::vector<basic_block_label_t> names;
    for (size_t i = 0; i < n; ++i) names.push_back("b" + std::to_string(i));
    z_cfg_t cfg(kind == "cfg" ? names[e] : names[0]);
    for (size_t i = 0; i < n; ++i) cfg.insert(names[i]);
    for (size_t i = 0; i < n; ++i)
      for (int j : g[i]) cfg.get_node(names[i]) >> cfg.get_node(names[j]);
    z_cfg_ref_t ref(cfg);
    if (kind == "cfg") {
      ikos::wto<z_cfg_ref_t> w(ref);
      return show(w, names);
    } else {
      ikos::wto<z_cfg_ref_t> w(ref, names[e]);
      return show(w, names);
    }
  }
  if (kind == "cg") {
    using cg_t = crab::cg::call_graph<z_cfg_ref_t>;
    using cg_ref_t = crab::cg::call_graph_ref<cg_t>;
    std::vector<std::unique_ptr<z_cfg_t>> cfgs;
    std::vector<z_cfg_ref_t> refs;
    std::vector<z_var> none;
    for (size_t i = 0; i < n; ++i) {
      function_decl<ikos::z_number, varname_t> decl("f" + std::to_string(i), none, none);
      cfgs.emplace_back(new z_cfg_t("entry", "entry", decl));
      z_basic_block_t &b = cfgs.back()->insert("entry");
      for (int j : g[i]) b.callsite("f" + std::to_string(j), none, none);
    }
    for (auto &c : cfgs) refs.push_back(z_cfg_ref_t(*c));
    cg_t cg(refs);
    cg_ref_t cgr(cg);
    std::vector<cg_ref_t::node_t> nodes(n);
    for (auto v : boost::make_iterator_range(cgr.nodes())) nodes[v.index()] = v;
    ikos::wto<cg_ref_t> w(cgr, nodes[e]);
    return show(w, nodes);
  }
  return "HARNESS-ERROR";
}
int main(int argc, char **argv) {
  crab::CrabEnableWarningMsg(false);
  return vh::run_cases(argc, argv, eval);
}
