#!/usr/bin/env python3
"""keepall.py: store every confirmed seeded change under /verif/seeded/<id>/ (patch.diff, demo.cpp,
meta.json) from the scratch area /tmp/seed/out-<prop>/<a|b>/, using
  seeded/detect.json                      which of my checks catch it (bin/seedtest.sh runs), what was added
  /tmp/seeddemo_results.txt               bin/seeddemo.py: demo on HEAD (exit 0) and on HEAD + patch (exit != 0)
  /tmp/seedconfirm_results*.txt           bin/seedconfirm.sh: full ctest with the patch applied
and rewrite the seed table of DESIGN.md (between the markers SEEDTABLE-BEGIN / SEEDTABLE-END)."""
import json, os, re, glob, shutil, sys
V = "/verif"
det = json.load(open(os.path.join(V, "seeded", "detect.json")))
demo = {}
R2 = {"a": "c", "b": "d"}      # second round: out2-<prop>/a -> <prop>c, b -> <prop>d
for f in glob.glob("/tmp/seeddemo*_results.txt"):
    for l in open(f):
        m = re.match(r"/tmp/seed/out(2?)-(C\d+)/([ab]) .*HEAD: rc=(\S+) .*PATCHED: rc=(\S+) .*=> (\S+)", l)
        if m:
            sid = m.group(2) + (R2[m.group(3)] if m.group(1) else m.group(3))
            demo[sid] = (m.group(4), m.group(5), m.group(6))
        m = re.match(r"/tmp/seed/out-(C\d+[a-z]) .*HEAD: rc=(\S+) .*PATCHED: rc=(\S+) .*=> (\S+)", l)   # round 5: one directory per seed id
        if m:
            demo[m.group(1)] = (m.group(2), m.group(3), m.group(4))
ctest = {}
for f in sorted(glob.glob("/tmp/seedconfirm_results*.txt")):
    for l in open(f):
        m = re.match(r"(C\d\d)(2?)([ab]): build=(\S+) (.*tests passed.*?) notpassed:\s*(.*)$", l)
        if m:
            sid = m.group(1) + (R2[m.group(3)] if m.group(2) else m.group(3))
            ctest[sid] = (m.group(4), m.group(5).strip(), m.group(6).strip())
        m = re.match(r"COMBINED\(([^)]*)\): build=(\S+) (.*tests passed.*?) notpassed:\s*(.*)$", l)   # several independent patches applied together, one run
        if m:
            for sid in m.group(1).split("+"):
                ctest[sid] = (m.group(2), m.group(3).strip() + " [one run with the patches " + m.group(1) + " applied together; they touch different files]", m.group(4).strip())
rows = []
kept = 0
for sid in sorted(det):
    d = det[sid]
    src = d.get("src") or "/tmp/seed/out-%s/%s" % (sid[:3], sid[3])
    dst = os.path.join(V, "seeded", sid)
    dm = demo.get(sid); ct = ctest.get(sid)
    if os.path.isdir(src):
        os.makedirs(dst, exist_ok=True)
        for f in os.listdir(src):
            if f.startswith("patch") or f.startswith("demo"):
                shutil.copy(os.path.join(src, f), os.path.join(dst, f))
        meta = {}
        mp = os.path.join(src, "meta.json")
        if os.path.exists(mp):
            try: meta = json.load(open(mp))
            except Exception: meta = {"raw": open(mp).read()}
        conf = {}
        if os.path.exists(os.path.join(dst, "meta.json")):
            try: conf = json.load(open(os.path.join(dst, "meta.json"))).get("confirmed_by_me", {})
            except Exception: conf = {}
        if dm: conf["demo"] = "bin/seeddemo.py: exit %s on /repo HEAD, exit %s on HEAD + patch (%s)" % dm
        if ct: conf["test_suite"] = "bin/seedconfirm.sh (full ctest with the patch): %s; not passed: %s (wrapint is not one of the 120 baseline tests and does not build on the unchanged tree either)" % (ct[1], ct[2] or "none")
        conf["my_checks"] = "bin/seedtest.sh: caught by " + ", ".join(d["caught_by"])
        out = {"property": d["prop"], "summary": d.get("summary", ""), "what_changed": meta.get("what_changed", ""),
               "needs_to_manifest": meta.get("needs_to_manifest", ""), "caught_by": d["caught_by"],
               "check_strengthened": d.get("strengthened", ""), "note": d.get("note", ""), "confirmed_by_me": conf, "author_notes": meta}
        json.dump(out, open(os.path.join(dst, "meta.json"), "w"), indent=1)
        kept += 1
    rows.append("| %s | %s | %s | %s |" % (sid[:3] + "/" + sid[3], d.get("summary", ""), ", ".join(d["caught_by"]), d.get("strengthened", "") or "—"))
print("kept", kept, "of", len(det), "| demos recorded:", len(demo), "| ctest recorded:", len(ctest))
p = os.path.join(V, "DESIGN.md")
s = open(p).read()
tbl = "<!-- SEEDTABLE-BEGIN -->\n" + "\n".join(rows) + "\n<!-- SEEDTABLE-END -->"
if "SEEDTABLE-BEGIN" in s:
    s = re.sub(r"<!-- SEEDTABLE-BEGIN -->.*?<!-- SEEDTABLE-END -->", lambda m: tbl, s, flags=re.S)
else:
    s = s.replace("SEEDTABLE", tbl, 1)
open(p, "w").write(s)
missing = [k for k in det if k not in demo or k not in ctest]
print("not yet fully confirmed:", missing)
