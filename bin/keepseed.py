#!/usr/bin/env python3
"""keepseed.py <seed-id> <src-dir> <property> "<what I ran / observed>" : store a confirmed seeded change under /verif/seeded/<seed-id>/"""
import sys, os, json, shutil
sid, src, prop, ran = sys.argv[1:5]
dst = os.path.join("/verif/seeded", sid)
os.makedirs(dst, exist_ok=True)
shutil.copy(os.path.join(src, "patch.diff"), os.path.join(dst, "patch.diff"))
for f in os.listdir(src):
    if f.startswith("demo"):
        shutil.copy(os.path.join(src, f), os.path.join(dst, f))
meta = {}
mp = os.path.join(src, "meta.json")
if os.path.exists(mp):
    try: meta = json.load(open(mp))
    except Exception: meta = {"raw": open(mp).read()}
out = {"property": prop, "what_changed": meta.get("what_changed", ""), "needs_to_manifest": meta.get("needs_to_manifest", ""),
       "author_notes": meta, "confirmed_by_me": ran}
json.dump(out, open(os.path.join(dst, "meta.json"), "w"), indent=1)
print("kept", dst)
