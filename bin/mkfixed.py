#!/usr/bin/env python3
"""Regenerates the `fixed` list of known_findings.json from /repo's git history (every commit
whose subject starts with "fix:").  The property is derived from the files the commit touches
(the check that found the defect); entries suppress nothing, they are a record."""
import json, os, subprocess, re
V = os.path.dirname(os.path.dirname(os.path.abspath(__file__)))
RULES = [  # first match wins
    (r"wrapped_interval|wrapint", "C13"),
    (r"region", "C15"),
    (r"array_(adaptive|smashing)", "C14"),
    (r"inter/|top_down|bottom_up|inter_analyzer|call_graph|cg/", "C09"),
    (r"patricia|separate_domains|discrete_domain", "C19"),
    (r"numbers|bignums|linear_(expression|constraint)|linear_constraints", "C20"),
    (r"fixpoint/wto|wto\.hpp", "C07"),
    (r"interleaved_fixpoint|fixpoint/", "C06"),
    (r"backward|abduction|necessary_preconditions", "C11"),
    (r"transforms/|dce|liveness|dominance|graphs/", "C17"),
    (r"split_oct|split_dbm|sparse_dbm|graph_ops", "C12"),
    (r"linear_interval_solver", "C03"),
    (r"lib/interval\.cpp|interval\.hpp|interval_impl|bound", "C08"),
    (r"congruence|sign|constant|boolean\.|small_range|dis_interval|lib/", "C08"),
    (r"term_equiv|uf_domain|powerset|value_partitioning|numerical_packing|union_find|fixed_tvpi|tvpi|term/", "C03"),
]
OVERRIDE = {"140127f": "C05", "e852a9c": "C18", "61bef63": "C18", "850cda9": "C18", "073d640": "C17", "23e99fe": "C18", "de2e762": "C03", "ca6fd31": "C03",
            "54f53f4": "C04", "b3e9dcd": "C16", "b2556dc": "C10", "e5e4ea3": "C04", "c706d46": "C04", "fd43778": "C02", "f8d1691": "C01", "fcd59f9": "C03", "9223cdb": "C02", "9a6bfed": "C02", "7d5f17d": "C02", "52cf904": "C10", "c0d2f63": "C02", "e264fb7": "C03", "1652174": "C01", "64109f1": "C01"}
log = subprocess.check_output(["git", "-C", "/repo", "log", "--reverse", "--format=%h\t%s"], universal_newlines=True)
fixed = []
for line in log.splitlines():
    h, s = line.split("\t", 1)
    if not s.startswith("fix:"):
        continue
    files = subprocess.check_output(["git", "-C", "/repo", "show", "--name-only", "--format=", h], universal_newlines=True).split()
    prop = OVERRIDE.get(h)
    if not prop:
        for rx, p in RULES:
            if any(re.search(rx, f) for f in files):
                prop = p; break
    prop = prop or "C03"
    fixed.append({"entry": "fixed: property=%s %s %s" % (prop, h, s[4:].strip()), "property": prop, "commit": h, "files": files})
k = json.load(open(os.path.join(V, "known_findings.json")))
k["fixed"] = fixed
json.dump(k, open(os.path.join(V, "known_findings.json"), "w"), indent=1)
for f in fixed:
    print(f["entry"][:150], "|", ",".join(os.path.basename(x) for x in f["files"]))
