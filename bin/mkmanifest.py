#!/usr/bin/env python3
"""Regenerates MANIFEST.json from checks/manifest_entries.json (one entry per claimed
property) so that the file is always schema-valid."""
import json, os
V = os.path.dirname(os.path.dirname(os.path.abspath(__file__)))
ent = json.load(open(os.path.join(V, "checks", "manifest_entries.json")))
props = [json.loads(l)["id"] for l in open(os.path.join(V, "properties.jsonl"))]
checks, na = [], []
for p in props:
    e = ent.get(p)
    if e and e.get("claimed"):
        checks.append({
            "property_id": p,
            "quick_cmd": "bin/check %s --tier quick" % p,
            "thorough_cmd": "bin/check %s --tier thorough" % p,
            "evidence_file": "/verif/evidence/%s.json" % p,
            "replay_cmd_template": "bin/check %s --replay {path}" % p,
            "engine": "coq-model+correspondence",
            "level_claimed": {"category": "proof", "text": e["text"], "design_ref": e.get("design_ref", "DESIGN.md section 5")},
            "level_note": e["note"],
            "technique": e.get("technique", "Coq theorems about an executable Gallina model; model tied to /repo by differential correspondence of the extracted model with a C++ harness built from the working tree"),
        })
    else:
        na.append({"property_id": p, "reason": (e or {}).get("reason", "check not built yet (work in progress); not claimed")})
m = {
    "version": 1,
    "setup_cmd": "bin/check prebuild",
    "hooks": {"guard": "SEAHORN_CRAB_VERIF",
              "enable": "harnesses and lib/*.cpp are compiled with -DSEAHORN_CRAB_VERIF by bin/vlib.py; no source hook exists, so the define changes nothing",
              "baseline_off_cmd": "cmake --build /repo/_build -j16 && ctest --test-dir /repo/_build -j8 --timeout 900",
              "source_commits": [], "add_only": True},
    "engines": [
        {"name": "coq-development", "path": "coq/", "serves_properties": [c["property_id"] for c in checks],
         "kind_free_text": "Coq 8.16.1 development (logical root CrabV): executable models + theorems; Props/Properties_Cnn.v hold the property statements"},
        {"name": "extracted-model-drivers", "path": "ocaml/", "serves_properties": [c["property_id"] for c in checks],
         "kind_free_text": "OCaml programs extracted from the Coq models (ExtrOcamlBasic only) + hand-written drivers that evaluate case files"},
        {"name": "cpp-harnesses", "path": "harness/", "serves_properties": [c["property_id"] for c in checks],
         "kind_free_text": "C++ harnesses compiled against /repo's working tree (headers + fresh lib/*.cpp) evaluating the same case files"},
        {"name": "generators-oracles", "path": "gen/", "serves_properties": [c["property_id"] for c in checks],
         "kind_free_text": "seeded case generators and property-level oracles used to search for a concrete failing input when a proof or the correspondence breaks"},
    ],
    "checks": checks,
    "not_applicable": na,
    "notes": "See DESIGN.md. Every check: (1) re-checks the Coq theorems of Props/Properties_<id>.v and their Print Assumptions, (2) rebuilds the implementation side from /repo's working tree, (3) compares implementation and extracted model on generated cases, (4) searches for a concrete failing input with a property-level oracle. known_findings.json lists recorded and fixed defects.",
}
json.dump(m, open(os.path.join(V, "MANIFEST.json"), "w"), indent=1)
print("claimed:", [c["property_id"] for c in checks])
