#!/bin/sh
# applyfix.sh <name>: apply /verif/fixes/<name>.diff to /repo as one "fix:" commit
set -e
n="$1"
git -C /repo apply --check /verif/fixes/$n.diff
git -C /repo apply /verif/fixes/$n.diff
git -C /repo add -A include lib
git -C /repo commit -q -F /verif/fixes/$n.msg
git -C /repo log --oneline | head -1
