#!/bin/sh
# seedconfirm.sh <name>=<patch> ... : in the scratch clone /tmp/seedrepo (with its own _build), for each patch:
# apply on top of /repo HEAD, rebuild incrementally, run the full ctest suite, record pass/fail, revert.
cd /tmp/seedrepo || exit 2
git fetch -q /repo HEAD && git reset -q --hard FETCH_HEAD
nice -n 5 cmake --build _build -j8 -- -k 0 > /tmp/seedconfirm_base_build.log 2>&1
ctest --test-dir _build -j8 --timeout 900 > /tmp/seedconfirm_base.log 2>&1
echo "BASE $(git log --oneline | head -1 | cut -c1-60): $(grep 'tests passed' /tmp/seedconfirm_base.log) failed: $(grep -c 'Failed\|\*\*\*' /tmp/seedconfirm_base.log)" >> /tmp/seedconfirm_results.txt
for a in "$@"; do
  n=${a%%=*}; p=${a#*=}
  git reset -q --hard FETCH_HEAD
  if ! git apply "$p"; then echo "$n: PATCH-DOES-NOT-APPLY" >> /tmp/seedconfirm_results.txt; continue; fi
  if nice -n 5 cmake --build _build -j8 -- -k 0 > /tmp/seedconfirm_$n.build.log 2>&1; then b=ok; else b="BUILD-ERRORS($(grep -c 'FAILED:' /tmp/seedconfirm_$n.build.log))"; fi
  ctest --test-dir _build -j8 --timeout 900 > /tmp/seedconfirm_$n.ctest.log 2>&1
  echo "$n: build=$b $(grep 'tests passed' /tmp/seedconfirm_$n.ctest.log) notpassed: $(grep -E '^\s+[0-9]+ - ' /tmp/seedconfirm_$n.ctest.log | tr -s ' ' | tr '\n' ';')" >> /tmp/seedconfirm_results.txt
done
git reset -q --hard FETCH_HEAD
echo DONE >> /tmp/seedconfirm_results.txt
