#!/bin/sh
# seedtest.sh <patch> <prop> [<prop> ...] : apply a patch to a scratch worktree of /repo HEAD and run the quick checks on it
P="$1"; shift
W=/tmp/wt-seedtest
git -C /repo worktree remove --force $W 2>/dev/null
git -C /repo worktree add -q $W HEAD || exit 2
if ! git -C $W apply "$P"; then echo "PATCH DOES NOT APPLY"; git -C /repo worktree remove --force $W; exit 3; fi
for p in "$@"; do
  echo "--- $p"
  VERIF_REPO=$W /verif/bin/check $p | cut -c1-200
  grep -h "FAILING INPUT" /verif/out/$p/replay-*.txt 2>/dev/null | cut -c1-260 | head -2
done
git -C /repo worktree remove --force $W
