#!/usr/bin/env python3
"""Shared machinery for /verif checks: building the implementation side from /repo's
working tree, building the Coq development and the extracted OCaml drivers, running
correspondence streams, writing evidence and VIOLATION / KNOWN-FINDING lines."""
import hashlib, json, os, subprocess, sys, time, shutil, glob, re
from concurrent.futures import ThreadPoolExecutor

VERIF = os.path.dirname(os.path.dirname(os.path.abspath(__file__)))
REPO = os.environ.get("VERIF_REPO", "/repo")
BUILD = os.path.join(VERIF, "build")
GUARD = "SEAHORN_CRAB_VERIF"
CXX = os.environ.get("CXX", "g++")
CXXFLAGS = ["-std=c++11", "-O1", "-w", "-D" + GUARD]
NCPU = os.cpu_count() or 4


def sh(cmd, timeout=None, cwd=None, env=None, input=None):
    """run, return (rc, stdout+stderr)"""
    try:
        p = subprocess.run(cmd, cwd=cwd, env=env, input=input, timeout=timeout,
                           stdout=subprocess.PIPE, stderr=subprocess.STDOUT,
                           universal_newlines=True, errors="replace")
        return p.returncode, p.stdout
    except subprocess.TimeoutExpired as e:
        out = e.stdout or ""
        if isinstance(out, bytes):
            out = out.decode(errors="replace")
        return 124, out + "\n[timeout]"


def _hash_tree(paths):
    h = hashlib.sha256()
    for root in paths:
        if os.path.isfile(root):
            files = [root]
        else:
            files = []
            for d, _, fs in os.walk(root):
                for f in fs:
                    files.append(os.path.join(d, f))
        for f in sorted(files):
            h.update(f.encode())
            with open(f, "rb") as fh:
                h.update(fh.read())
    return h.hexdigest()[:16]


def repo_hash():
    return _hash_tree([os.path.join(REPO, "include"), os.path.join(REPO, "lib"),
                       os.path.join(REPO, "tests", "crab_lang.hpp")])


def _prune_builds(keep):
    """drop old implementation builds: keep the 6 most recent ones and everything touched
    within the last 45 minutes (concurrent checks must not delete each other's build)"""
    if not os.path.isdir(BUILD):
        return
    ds = [os.path.join(BUILD, d) for d in os.listdir(BUILD) if d.startswith("impl-")]
    ds.sort(key=lambda d: os.path.getmtime(d), reverse=True)
    now = time.time()
    for d in ds[6:]:
        if os.path.basename(d) != keep and now - os.path.getmtime(d) > 45 * 60:
            shutil.rmtree(d, ignore_errors=True)


def build_lib():
    """compile /repo/lib/*.cpp from the current working tree into build/impl-<hash>/libCrab.a"""
    h = repo_hash()
    d = os.path.join(BUILD, "impl-" + h)
    lib = os.path.join(d, "libCrab.a")
    if os.path.exists(lib):
        os.utime(d, None)
        return d, None
    os.makedirs(os.path.join(d, "include", "crab"), exist_ok=True)
    os.makedirs(os.path.join(d, "obj"), exist_ok=True)
    with open(os.path.join(REPO, "include", "crab", "config.h.cmake")) as f:
        cfg = f.read()
    cfg = cfg.replace("#cmakedefine CRAB_STATS ${CRAB_STATS}", "#define CRAB_STATS TRUE")
    cfg = re.sub(r"#cmakedefine (\w+) \$\{\w+\}", r"/* #undef \1 */", cfg)
    with open(os.path.join(d, "include", "crab", "config.h"), "w") as f:
        f.write(cfg)
    srcs = sorted(glob.glob(os.path.join(REPO, "lib", "*.cpp")))

    def cc(src):
        obj = os.path.join(d, "obj", os.path.basename(src)[:-4] + ".o")
        return sh([CXX] + CXXFLAGS + ["-I" + os.path.join(REPO, "include"),
                                      "-I" + os.path.join(d, "include"),
                                      "-c", src, "-o", obj], timeout=900) + (obj,)
    with ThreadPoolExecutor(NCPU) as ex:
        res = list(ex.map(cc, srcs))
    errs = [o for rc, o, _ in res if rc != 0]
    if errs:
        shutil.rmtree(d, ignore_errors=True)
        return None, "libCrab build failed:\n" + "\n".join(errs)[:4000]
    rc, out = sh(["ar", "rcs", lib] + [o for _, _, o in res])
    if rc != 0:
        return None, out
    _prune_builds(os.path.basename(d))
    return d, None


def build_harness(name, extra_flags=()):
    """compile harness/<name>.cpp against the current tree; returns (exe, err)"""
    d, err = build_lib()
    if err:
        return None, err
    src = os.path.join(VERIF, "harness", name + ".cpp")
    hh = _hash_tree([src] + sorted(glob.glob(os.path.join(VERIF, "harness", "*.hpp"))))
    exe = os.path.join(d, "h-%s-%s" % (name, hh))
    try:
        os.utime(d, None)
    except OSError:
        pass
    if os.path.exists(exe):
        return exe, None
    for old in glob.glob(os.path.join(d, "h-%s-*" % name)):
        os.remove(old)
    rc, out = sh([CXX] + CXXFLAGS + list(extra_flags) +
                 ["-I" + os.path.join(REPO, "include"), "-I" + os.path.join(d, "include"),
                  "-I" + os.path.join(REPO, "tests"), "-I" + os.path.join(VERIF, "harness"),
                  src, os.path.join(d, "libCrab.a"), "-lgmp", "-o", exe], timeout=1800)
    if rc != 0:
        return None, "harness %s does not compile against the current tree:\n%s" % (name, out[-4000:])
    return exe, None


def build_harnesses(names):
    with ThreadPoolExecutor(max(1, min(len(names), NCPU // 2))) as ex:
        return dict(zip(names, ex.map(build_harness, names)))


# ---------------------------------------------------------------- Coq / OCaml side

def coq_make(targets, timeout=3000, clean=False):
    cq = os.path.join(VERIF, "coq")
    os.makedirs(os.path.join(VERIF, "ocaml", "gen"), exist_ok=True)      # target of the Extraction commands
    sh(["sh", os.path.join(cq, "mk.sh")])
    if clean:
        for t in targets:
            for ext in (".vo", ".glob", ".vok", ".vos"):
                f = os.path.join(cq, t[:-3] + ext)
                if os.path.exists(f):
                    os.remove(f)
    # every coqc call under its own time limit: one diverging file must not stall the build
    rc, out = sh(["make", "-C", cq, "-k", "-j%d" % NCPU, "COQC=timeout 900 coqc"] + list(targets), timeout=timeout)
    return rc, out


FORBIDDEN = re.compile(r"\b(Admitted|admit|Axiom|Axioms|Parameter|Parameters|Conjecture|"
                       r"Admit Obligations|bypass_check|Unset Guard Checking|"
                       r"Unset Positivity Checking|Unset Universe Checking)\b|"
                       r"-type-in-type|-impredicative-set")


def strip_coq_comments(s):
    out, depth, i = [], 0, 0
    while i < len(s):
        if s.startswith("(*", i):
            depth += 1; i += 2
        elif s.startswith("*)", i) and depth > 0:
            depth -= 1; i += 2
        else:
            if depth == 0:
                out.append(s[i])
            i += 1
    return "".join(out)


def forbidden_tokens():
    """scan the whole development (outside comments) for declarations of axioms etc."""
    bad = []
    cq = os.path.join(VERIF, "coq")
    for f in glob.glob(os.path.join(cq, "**", "*.v"), recursive=True):
        txt = strip_coq_comments(open(f).read())
        for n, line in enumerate(txt.split("\n"), 1):
            m = FORBIDDEN.search(line)
            if m:
                bad.append("%s:%d: %s" % (os.path.relpath(f, VERIF), n, m.group(0)))
    for f in (os.path.join(cq, "_CoqProject.head"),):
        m = FORBIDDEN.search(open(f).read())
        if m:
            bad.append("%s: %s" % (f, m.group(0)))
    return bad


def theorems_in(vfile):
    txt = strip_coq_comments(open(vfile).read())
    return re.findall(r"^\s*Theorem\s+(\w+)", txt, flags=re.M)


def property_files(prop):
    """Props/Properties_<prop>.v and Props/Properties_<prop>_<part>.v"""
    cq = os.path.join(VERIF, "coq", "Props")
    fs = sorted(glob.glob(os.path.join(cq, "Properties_%s.v" % prop)) +
                glob.glob(os.path.join(cq, "Properties_%s_*.v" % prop)))
    return fs


def property_assumptions(v):
    """Compile one property file afresh (coqc prints the Print Assumptions output)
    and return {theorem: [axioms]} plus raw log."""
    cq = os.path.join(VERIF, "coq")
    rc, out = sh(["coqc", "-Q", cq, "CrabV", "-w", "-notation-overridden,-deprecated", v],
                 timeout=1200, cwd=cq)
    ths = theorems_in(v)
    res = {}
    if rc != 0:
        return rc, out, res, ths
    # the outputs come in order of the Print Assumptions commands
    blocks = re.split(r"(?m)^(?=Closed under the global context|Axioms:)", out)
    blocks = [b for b in blocks if b.startswith("Closed") or b.startswith("Axioms:")]
    pa = re.findall(r"Print Assumptions\s+(\w+)", strip_coq_comments(open(v).read()))
    for name, b in zip(pa, blocks):
        if b.startswith("Closed"):
            res[name] = []
        else:
            res[name] = re.findall(r"(?m)^(\S+)\s*:", b[len("Axioms:"):])
    return rc, out, res, ths


def build_driver(name):
    """ocaml/<name>_drv.ml + extracted ocaml/gen/<name>_model.ml -> build/ocaml/<name>_drv"""
    od = os.path.join(VERIF, "ocaml")
    gen = os.path.join(od, "gen")
    outd = os.path.join(BUILD, "ocaml")
    os.makedirs(outd, exist_ok=True)
    srcs = [os.path.join(gen, name + "_model.mli"), os.path.join(gen, name + "_model.ml"),
            os.path.join(od, "zio.ml.in"), os.path.join(od, name + "_drv.ml")]
    for s in srcs:
        if not os.path.exists(s):
            return None, "missing " + s
    hh = _hash_tree(srcs)
    exe = os.path.join(outd, "%s_drv-%s" % (name, hh))
    if os.path.exists(exe):
        return exe, None
    for old in glob.glob(os.path.join(outd, "%s_drv-*" % name)):
        os.remove(old)
    wd = os.path.join(outd, "w-" + name)
    shutil.rmtree(wd, ignore_errors=True)
    os.makedirs(wd)
    for s in srcs:
        shutil.copy(s, wd)
    with open(os.path.join(wd, "zio.ml"), "w") as f:
        f.write("module ZA = Z\nopen %s_model\n" % name.capitalize() + open(os.path.join(od, "zio.ml.in")).read())
    files = [name + "_model.mli", name + "_model.ml", "zio.ml", name + "_drv.ml"]
    rc, out = sh(["ocamlfind", "ocamlopt", "-w", "-a", "-package", "zarith,str", "-linkpkg"] +
                 files + ["-o", exe], cwd=wd, timeout=900)
    shutil.rmtree(wd, ignore_errors=True)
    if rc != 0:
        return None, "ocaml driver %s failed to build:\n%s" % (name, out[-3000:])
    return exe, None


# ---------------------------------------------------------------- running streams

def run_lines(exe, args, infile, timeout=600):
    rc, out = sh([exe] + list(args) + [infile], timeout=timeout)
    return rc, out.split("\n")


def _run_until_stall(cmd, stall, deadline):
    """run cmd, collecting stdout lines; kill it when no new line arrives within `stall`
    seconds or the deadline passes.  Returns (lines, status) with status in ok|stall|exit."""
    import threading, queue
    p = subprocess.Popen(cmd, stdout=subprocess.PIPE, stderr=subprocess.DEVNULL,
                         universal_newlines=True, errors="replace", bufsize=1)
    q = queue.Queue()

    def reader():
        for line in p.stdout:
            q.put(line)
        q.put(None)
    th = threading.Thread(target=reader, daemon=True)
    th.start()
    lines = []
    status = "ok"
    while True:
        try:
            wait = min(stall, max(0.1, deadline - time.time()))
            item = q.get(timeout=wait)
        except queue.Empty:
            status = "stall"
            p.kill()
            break
        if item is None:
            break
        lines.append(item.rstrip("\n"))
        if time.time() > deadline:
            status = "stall"
            p.kill()
            break
    try:
        p.wait(timeout=5)
    except Exception:
        p.kill()
    if status == "ok" and p.returncode not in (0, None):
        status = "exit"
    return lines, status


def run_harness_resilient(exe, args, infile, ncases, timeout=600, stall=25):
    """Run a harness that prints 'R <i> <answer>' per case.  CRAB_ERROR calls exit(1): the case
    after the last answer is marked ABORT and the run restarts after it.  A case that
    produces no answer within `stall` seconds is marked TIMEOUT (a hang must not block the
    check); after 4 timeouts the remaining cases stay MISSING."""
    results = {}
    start = 0
    deadline = time.time() + timeout
    timeouts = 0
    while start < ncases and time.time() < deadline:
        lines, status = _run_until_stall([exe] + list(args) + [infile, str(start)], stall, deadline)
        last = start - 1
        for line in lines:
            if line.startswith("R "):
                sp = line.split(" ", 2)
                try:
                    i = int(sp[1])
                except ValueError:
                    continue
                results[i] = sp[2] if len(sp) > 2 else ""
                last = max(last, i)
        if last + 1 >= ncases:
            break
        if status == "stall":
            results[last + 1] = "TIMEOUT"
            timeouts += 1
            if timeouts >= 4:
                break
        else:
            results[last + 1] = "ABORT"
        start = last + 2
    return results


# ---------------------------------------------------------------- reporting

def load_known():
    p = os.path.join(VERIF, "known_findings.json")
    if not os.path.exists(p):
        return {"findings": [], "fixed": []}
    return json.load(open(p))


REPLAY = None      # (stream name, input line) when a replay file is being re-run


def generic_replay(mod, prop, tier, seed, path):
    """bin/check <id> --replay <file>: re-run the input recorded in a replay file through the stream
    that reported it (same harness, model and oracle), on the current tree.  A replay file that
    records no input (a proof obligation or a build that broke) re-runs the proof step.  Exit 1
    with a VIOLATION line if it still fails."""
    global REPLAY
    text = open(path).read()
    ms = re.search(r"^stream=(\S+)", text, re.M)
    mi = re.search(r"^input: (.*)$", text, re.M)
    rep = Report(prop, tier, seed, replay=True)
    if ms and mi:
        REPLAY = (ms.group(1), mi.group(1).strip())
    # streams run through run_stream are restricted to the recorded input; anything else the check
    # does (proof step, hand-written loops) is simply run again
    mod.run(rep, tier, seed)
    return rep.finish(getattr(mod, "LEVEL", "proof"))


class Report:
    def __init__(self, prop, tier, seed, replay=False):
        self.prop, self.tier, self.seed = prop, tier, seed
        self.replay = replay
        self.t0 = time.time()
        self.violations = []     # (replay_path, witness_found, text)
        self.known = []
        self.cov = {"evaluations": 0, "distinct_nontrivial": 0, "rule": "", "samples": [],
                    "obligations": 0, "discharged": 0, "checker_cmd": "", "trusted_base": [],
                    "streams": {}, "theorems": {}}
        self.assumptions = []
        os.makedirs(os.path.join(VERIF, "out", prop), exist_ok=True)
        if not replay:
            for f in glob.glob(os.path.join(VERIF, "out", prop, "replay-*")):
                os.remove(f)

    def replay_path(self, tag):
        return os.path.join(VERIF, "out", self.prop, "%s-%s.txt" % ("replayed" if self.replay else "replay", tag))

    def violation(self, tag, text, witness):
        """witness: True if a concrete failing input against the implementation is in text"""
        p = self.replay_path(tag)
        with open(p, "w") as f:
            f.write(text + "\n")
        self.violations.append((p, witness, text.split("\n")[0][:300]))

    def known_finding(self, what):
        self.known.append(what)

    def finish(self, level="proof"):
        ev = {"property_id": self.prop, "tier": self.tier, "seed": self.seed, "level": level,
              "coverage": self.cov, "assumptions": self.assumptions,
              "wall_s": round(time.time() - self.t0, 2), "violations": len(self.violations),
              "known_findings_reported": self.known}
        if not self.replay:       # a replay describes one input, not the check: the evidence file is left alone
            os.makedirs(os.path.join(VERIF, "evidence"), exist_ok=True)
            with open(os.path.join(VERIF, "evidence", self.prop + ".json"), "w") as f:
                json.dump(ev, f, indent=1, sort_keys=True)
        for k in self.known:
            print("KNOWN-FINDING: property=%s %s" % (self.prop, k))
        for p, wit, _ in self.violations:
            print("VIOLATION property=%s replay=%s%s" %
                  (self.prop, p, "" if wit else " no-failing-input-found"))
        sys.stdout.flush()
        return 1 if self.violations else 0


# ---------------------------------------------------------------- generic steps

def prove(rep, extra_targets=()):
    """Step 1 of every check: build the property files Props/Properties_<id>*.v, scan for
    forbidden tokens, collect Print Assumptions.  Any failure is a violation (no failing
    input: the proof is what broke)."""
    prop = rep.prop
    files = property_files(prop)
    tgts = ["Props/" + os.path.basename(f)[:-2] + ".vo" for f in files]
    ths = []
    for f in files:
        ths += theorems_in(f)
    rep.cov["obligations"] = len(ths)
    rep.cov["checker_cmd"] = "make -C coq %s (coqc 8.16.1, full .vo) + coqc on each property file for Print Assumptions" % " ".join(tgts)
    rep.cov["discharged"] = 0
    if not files:
        rep.violation("proof", "no property file for %s" % prop, False)
        return False
    rc, out = coq_make(tgts + list(extra_targets))
    if rc != 0:
        rep.violation("proof", "theorem files %s no longer compile:\n%s" % (tgts, out[-3000:]), False)
        return False
    bad = forbidden_tokens()
    if bad:
        rep.violation("forbidden", "forbidden declarations in the development:\n" + "\n".join(bad), False)
        return False
    allowed = set(json.load(open(os.path.join(VERIF, "checks", "allowed_axioms.json"))).get(prop, []))
    ass = {}
    for f in files:
        rc, out, a1, _ = property_assumptions(f)
        if rc != 0:
            rep.violation("proof", "%s does not compile:\n%s" % (f, out[-3000:]), False)
            return False
        ass.update(a1)
    unexpected = {t: [a for a in ax if a not in allowed] for t, ax in ass.items()}
    unexpected = {t: a for t, a in unexpected.items() if a}
    rep.cov["theorems"] = {t: (ass.get(t) if ass.get(t) else "Closed under the global context")
                           for t in ths}
    missing = [t for t in ths if t not in ass]
    if unexpected or missing:
        rep.cov["discharged"] = len(ths) - len(unexpected) - len(missing)
        rep.violation("assumptions", "unexpected axioms %s / theorems without Print Assumptions %s"
                      % (unexpected, missing), False)
        return False
    rep.cov["discharged"] = len(ths)
    if rep.tier == "thorough":
        # independent re-check of the compiled property files and of everything they depend on
        mods = ["CrabV.Props." + os.path.basename(f)[:-2] for f in files]
        rc, out = sh(["coqchk", "-o", "-silent", "-Q", ".", "CrabV"] + mods, cwd=os.path.join(VERIF, "coq"), timeout=3000)
        summary = out[out.find("CONTEXT SUMMARY"):] if "CONTEXT SUMMARY" in out else out[-1500:]
        rep.cov["coqchk"] = {"cmd": "coqchk -o -silent -Q . CrabV " + " ".join(mods), "rc": rc, "summary": " ".join(summary.split())[:1500]}
        ok = rc == 0 and "Axioms: <none>" in " ".join(summary.split()) and "type-in-type: <none>" in " ".join(summary.split())
        if not ok:
            rep.violation("coqchk", "coqchk does not accept the compiled property files (or reports axioms):\n" + out[-2500:], False)
            return False
    return True


def run_stream(rep, name, harness, driver, lines, oracle=None, nontrivial=None,
               key=lambda line: " ".join(line.split()[:2]), extra_args=(), timeout=900,
               oracle_all=True, known_stream=None):
    """Correspondence of one stream: both sides evaluate the same case file; every
    difference is examined with the property-level oracle on the implementation's
    answer.  The oracle is also applied to the implementation's answers on the whole
    stream (witness search over inputs on which model and code agree)."""
    import random
    if REPLAY is not None:
        if REPLAY[0] != name:
            return None
        lines = [REPLAY[1]]
    d = os.path.join(VERIF, "out", rep.prop)
    os.makedirs(d, exist_ok=True)
    cf = os.path.join(d, name + (".replay" if REPLAY is not None else "") + ".cases")
    with open(cf, "w") as f:
        f.write("\n".join(lines) + "\n")
    st = {"cases": len(lines), "mismatches": 0, "oracle_violations": 0, "aborts": 0}
    rep.cov["streams"][name] = st
    hexe, err = build_harness(harness)
    if err:
        rep.violation(name + "-build", "correspondence stream %s: %s" % (name, err), False)
        return
    dexe, err = build_driver(driver)
    if err:
        rep.violation(name + "-driver", "model driver %s: %s" % (driver, err), False)
        return
    impl = run_harness_resilient(hexe, extra_args, cf, len(lines), timeout)
    rc, out = sh([dexe] + list(extra_args) + [cf], timeout=timeout)
    model = {}
    for l in out.split("\n"):
        if l.startswith("R "):
            sp = l.split(" ", 2)
            model[int(sp[1])] = sp[2] if len(sp) > 2 else ""
    if rc != 0 or len(model) != len(lines):
        rep.violation(name + "-model", "model driver failed on stream %s (rc=%s, %d/%d answers)\n%s"
                      % (name, rc, len(model), len(lines), out[-1500:]), False)
        return
    known = [k for k in load_known().get("findings", [])
             if k.get("property") == rep.prop and k.get("stream", name) == name]
    rng = random.Random(rep.seed * 7919 + 13)
    reported = {}
    nontriv = set()
    hist = {}
    for i, line in enumerate(lines):
        a = impl.get(i, "MISSING")
        m = model[i]
        k = key(line)
        hist[k] = hist.get(k, 0) + 1
        if a == "ABORT":
            st["aborts"] += 1
        wit = None
        if oracle is not None and (a != m or oracle_all):
            try:
                wit = oracle(line, a, rng)
            except Exception as e:  # an oracle crash must not hide a mismatch
                wit = None if a == m else None
        if nontrivial is not None and a == m and nontrivial(line, a):
            nontriv.add(line)
        if a == m and wit is None:
            continue
        if a != m:
            st["mismatches"] += 1
        if wit is not None:
            st["oracle_violations"] += 1
        kn = [kk for kk in known if re.search(kk["line_regex"], line)]
        if kn and wit is not None:
            rep.known_finding("%s (%s)" % (kn[0]["what"], line))
            continue
        tag = "%s-%s" % (name, re.sub(r"\W+", "_", k))
        # prefer a report that has a concrete witness
        if tag in reported and (reported[tag][1] or wit is None):
            continue
        text = ("stream=%s case=%d\ninput: %s\nimplementation: %s\nmodel: %s\n" % (name, i, line, a, m))
        if wit is not None:
            text = "FAILING INPUT (property oracle on the implementation's answer): " + wit + "\n" + text
        else:
            text = ("correspondence broken: the implementation no longer agrees with the Coq model "
                    "(theorems of Properties_%s.v no longer apply to this code); the oracle found no "
                    "concrete counterexample on this input\n" % rep.prop) + text
        reported[tag] = (text, wit is not None)
    for tag, (text, w) in reported.items():
        rep.violation(tag, text, w)
    rep.cov["evaluations"] += len(lines)
    rep.cov["distinct_nontrivial"] += len(nontriv)
    st["distinct_nontrivial"] = len(nontriv)
    st["histogram"] = dict(sorted(hist.items(), key=lambda kv: -kv[1])[:40])
    if lines:
        for i in sorted(rng.sample(range(len(lines)), min(3, len(lines)))):
            rep.cov["samples"].append({"stream": name, "input": lines[i][:600], "implementation": (impl.get(i) or "")[:600], "model": model[i][:600]})
    if REPLAY is not None:
        return None          # the caller's follow-up steps index the full stream
    return impl, model
