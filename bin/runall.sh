#!/bin/sh
# runall.sh [tier] [seed]: run every registered check in turn, print exit codes and VIOLATION / KNOWN-FINDING counts
cd /verif
t=${1:-quick}
[ -n "$2" ] && export VERIF_SEED=$2
mkdir -p out
for p in C01 C02 C03 C04 C05 C06 C07 C08 C09 C10 C11 C12 C13 C14 C15 C16 C17 C18 C19 C20; do
  s=$(date +%s)
  timeout 3600 bin/check $p --tier $t > out/runall-$p.log 2>&1; rc=$?
  e=$(date +%s)
  echo "$p rc=$rc t=$((e-s))s viol=$(grep -c '^VIOLATION' out/runall-$p.log) known=$(grep -c '^KNOWN-FINDING' out/runall-$p.log)"
done
