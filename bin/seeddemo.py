#!/usr/bin/env python3
"""seeddemo.py <seed-dir> ... : confirm the demo of a seeded change myself.  For each directory
(with patch.diff and demo*.cpp): build the demo against /repo HEAD (expect exit 0) and against a
scratch worktree of HEAD with the patch applied (expect exit != 0).  Prints one line per seed."""
import os, subprocess, sys, glob
sys.path.insert(0, "/verif/bin")
W = "/tmp/wt-seeddemo"

def sh(cmd, **kw):
    p = subprocess.run(cmd, stdout=subprocess.PIPE, stderr=subprocess.STDOUT, universal_newlines=True, **kw)
    return p.returncode, p.stdout

def build_and_run(repo, demo, tag):
    env = dict(os.environ, VERIF_REPO=repo)
    rc, out = sh([sys.executable, "-c", "import vlib; d,e=vlib.build_lib(); print(d if d else 'ERR '+str(e))"], env=env, cwd="/verif/bin")
    d = out.strip().splitlines()[-1]
    if d.startswith("ERR"):
        return None, out[-500:]
    exe = "/tmp/seeddemo-%s" % tag
    rc, out = sh(["g++", "-std=c++11", "-O1", "-w", "-DSEAHORN_CRAB_VERIF", "-I" + repo + "/include", "-I" + d + "/include", "-I" + repo + "/tests",
                  demo, d + "/libCrab.a", "-lgmp", "-o", exe])
    if rc != 0:
        return None, "demo does not compile: " + out[-800:]
    try:
        rc, out = sh([exe], timeout=900)
    except subprocess.TimeoutExpired:
        return 124, "timeout"
    os.remove(exe)
    return rc, out[-300:].replace("\n", " | ")

for sd in sys.argv[1:]:
    demos = sorted(glob.glob(os.path.join(sd, "demo*.cpp")))
    if not demos:
        up = os.path.join(os.path.dirname(sd.rstrip("/")), "demo.cpp")
        demos = [up] if os.path.exists(up) else []
    if not demos:
        print(sd, "NO-DEMO"); continue
    demo = demos[0]
    rc0, o0 = build_and_run("/repo", demo, "base")
    sh(["git", "-C", "/repo", "worktree", "remove", "--force", W])
    sh(["git", "-C", "/repo", "worktree", "add", "-q", W, "HEAD"])
    rc, o = sh(["git", "-C", W, "apply", os.path.join(os.path.abspath(sd), "patch.diff")])
    if rc != 0:
        print(sd, "PATCH-DOES-NOT-APPLY", o[:200]); continue
    rc1, o1 = build_and_run(W, demo, "patched")
    sh(["git", "-C", "/repo", "worktree", "remove", "--force", W])
    ok = (rc0 == 0 and rc1 not in (0, None))
    print("%s demo=%s HEAD: rc=%s [%s]  PATCHED: rc=%s [%s]  => %s" % (sd, os.path.basename(demo), rc0, o0[-120:], rc1, o1[-160:], "CONFIRMED" if ok else "NOT-CONFIRMED"))
    sys.stdout.flush()
