(* CfgSem.v — CFGs of the modelled CrabIR fragment as cfg.hpp stores them (blocks with a
   statement list and insertion-ordered predecessor / successor vectors, an entry, an
   optional exit, the outputs of the function declaration), per-statement use / def sets
   exactly as the constructors of cfg.hpp's statement classes fill `live_t`, and a
   small-step trace semantics over mathematical integers.

   Semantic choices (DESIGN §4): division by zero and the operators outside the fragment
   with an unambiguous integer meaning have no successor state; `assume` filters;
   a failing `assert` goes to the error configuration and the execution stops; `havoc`
   and `goto` are non-deterministic; `unreachable` has no successor.  An execution that is
   at the end of the exit block may finish, emitting the values of the outputs. *)
From Coq Require Import ZArith List Bool Lia.
From CrabV Require Import Ir.Syntax.
Import ListNotations.
Local Open Scope Z_scope.

Definition label := N.
Inductive operand := OVar (v : var) | OCst (k : Z).

Inductive stmt :=
| SAssign (x : var) (e : linexp)
| SArith (op : arith_op) (x y : var) (z : operand)
| SBit (op : bit_op) (x y : var) (z : operand)
| SAssume (c : lincst)
| SAssert (c : lincst) (id : N)
| SHavoc (x : var)
| SSelect (x : var) (c : lincst) (e1 e2 : linexp)
| SUnreach.

Record block := mkBlock { b_stmts : list stmt; b_prev : list label; b_next : list label }.

Record cfg := mkCfg {
  c_entry : label;
  c_exit : option label;
  c_blocks : list (label * block);
  c_outs : list var            (* outputs of the function declaration ([] if none) *)
}.

(* ------------------------------------------------------------------ finite sets of variables / labels as lists *)
Definition vset := list N.
Definition mem (x : N) (L : vset) : bool := existsb (N.eqb x) L.
Definition vadd (x : N) (L : vset) : vset := if mem x L then L else x :: L.
Definition union (A B : vset) : vset := fold_right vadd B A.
Definition diff (A B : vset) : vset := filter (fun x => negb (mem x B)) A.
Definition inter (A B : vset) : vset := filter (fun x => mem x B) A.
Definition subset (A B : vset) : bool := forallb (fun x => mem x B) A.
Definition is_empty (A : vset) : bool := match A with [] => true | _ => false end.

Lemma mem_In x L : mem x L = true <-> In x L.
Proof.
  unfold mem. rewrite existsb_exists. split.
  - intros [y [H1 H2]]. apply N.eqb_eq in H2. subst; auto.
  - intros H. exists x. split; auto. apply N.eqb_refl.
Qed.
Lemma mem_false x L : mem x L = false <-> ~ In x L.
Proof. rewrite <- mem_In. destruct (mem x L); split; congruence. Qed.
Lemma vadd_In x y L : In y (vadd x L) <-> y = x \/ In y L.
Proof.
  unfold vadd. destruct (mem x L) eqn:E.
  - apply mem_In in E. split; auto. intros [->|]; auto.
  - simpl. split; intros [H|H]; auto.
Qed.
Lemma union_In x A B : In x (union A B) <-> In x A \/ In x B.
Proof.
  induction A as [|a A IH]; simpl.
  - tauto.
  - rewrite vadd_In, IH. split; intros H; decompose [or] H; auto.
Qed.
Lemma diff_In x A B : In x (diff A B) <-> In x A /\ ~ In x B.
Proof. unfold diff. rewrite filter_In, negb_true_iff, mem_false. tauto. Qed.
Lemma inter_In x A B : In x (inter A B) <-> In x A /\ In x B.
Proof. unfold inter. rewrite filter_In, mem_In. tauto. Qed.
Lemma subset_spec A B : subset A B = true <-> (forall x, In x A -> In x B).
Proof.
  unfold subset. rewrite forallb_forall. split; intros H x Hx.
  - apply mem_In; auto.
  - apply mem_In; auto.
Qed.
Lemma is_empty_spec A : is_empty A = true <-> A = [].
Proof. destruct A; simpl; split; congruence. Qed.

(* ------------------------------------------------------------------ uses / defs (cfg.hpp, live_t) *)
Definition le_vars (e : linexp) : list var := map snd (le_terms e).
Definition operand_vars (o : operand) : list var := match o with OVar v => [v] | OCst _ => [] end.

Definition uses (s : stmt) : vset :=
  match s with
  | SAssign _ e => le_vars e
  | SArith _ _ y z | SBit _ _ y z => y :: operand_vars z
  | SAssume c | SAssert c _ => lc_vars c
  | SHavoc _ => []
  | SSelect _ c e1 e2 => lc_vars c ++ le_vars e1 ++ le_vars e2
  | SUnreach => []
  end.
Definition defs (s : stmt) : vset :=
  match s with
  | SAssign x _ | SArith _ x _ _ | SBit _ x _ _ | SHavoc x | SSelect x _ _ _ => [x]
  | SAssume _ | SAssert _ _ | SUnreach => []
  end.
Definition is_unreach (s : stmt) : bool := match s with SUnreach => true | _ => false end.

(* ------------------------------------------------------------------ CFG access *)
Fixpoint lookup {A} (l : label) (m : list (label * A)) : option A :=
  match m with
  | [] => None
  | (k, v) :: r => if N.eqb l k then Some v else lookup l r
  end.
Definition get_block (P : cfg) (l : label) : option block := lookup l (c_blocks P).
Definition stmts_of (P : cfg) (l : label) : list stmt :=
  match get_block P l with Some b => b_stmts b | None => [] end.
Definition succs (P : cfg) (l : label) : list label :=
  match get_block P l with Some b => b_next b | None => [] end.
Definition preds (P : cfg) (l : label) : list label :=
  match get_block P l with Some b => b_prev b | None => [] end.
Definition labels (P : cfg) : list label := map fst (c_blocks P).
Definition is_exit (P : cfg) (l : label) : bool :=
  match c_exit P with Some e => N.eqb l e | None => false end.

Lemma lookup_In {A} l (m : list (label * A)) v : lookup l m = Some v -> In (l, v) m.
Proof.
  induction m as [|[k w] r IH]; simpl; [discriminate|].
  destruct (N.eqb_spec l k); intros H.
  - inversion H; subst; auto.
  - auto.
Qed.
Lemma lookup_None {A} l (m : list (label * A)) : lookup l m = None <-> ~ In l (map fst m).
Proof.
  induction m as [|[k w] r IH]; simpl; [tauto|].
  destruct (N.eqb_spec l k).
  - subst. split; [discriminate|]. intros H; exfalso; auto.
  - rewrite IH. split; intros H; [intros [?|?]; auto; congruence | tauto].
Qed.
Lemma lookup_Some_In {A} l (m : list (label * A)) v : lookup l m = Some v -> In l (map fst m).
Proof. intros H. apply lookup_In in H. apply (in_map fst) in H. exact H. Qed.
Lemma lookup_NoDup {A} l (m : list (label * A)) v :
  NoDup (map fst m) -> In (l, v) m -> lookup l m = Some v.
Proof.
  induction m as [|[k w] r IH]; simpl; [tauto|].
  intros ND [H|H].
  - inversion H; subst. rewrite N.eqb_refl. auto.
  - inversion ND; subst. destruct (N.eqb_spec l k).
    + subst. exfalso. apply H2. apply (in_map fst) in H. exact H.
    + auto.
Qed.

(* ------------------------------------------------------------------ concrete semantics *)
Definition operand_val (o : operand) (s : store) : Z :=
  match o with OVar v => s v | OCst k => k end.

Inductive event :=
| EvAssume                          (* an assume was evaluated (and held) *)
| EvAssert (id : N) (ok : bool)     (* outcome of an assertion *)
| EvGoto (l : label)                (* branch taken *)
| EvExit (outs : list Z).           (* end of the exit block: values of the outputs *)

(* normal completion of one statement *)
Inductive exec_stmt : stmt -> store -> list event -> store -> Prop :=
| XAssign x e s : exec_stmt (SAssign x e) s [] (upd s x (eval_le e s))
| XArith op x y z s v : arith_sem op (s y) (operand_val z s) = Some v ->
                        exec_stmt (SArith op x y z) s [] (upd s x v)
| XBit op x y z s v : bit_sem op (s y) (operand_val z s) = Some v ->
                      exec_stmt (SBit op x y z) s [] (upd s x v)
| XAssume c s : satb c s = true -> exec_stmt (SAssume c) s [EvAssume] s
| XAssert c id s : satb c s = true -> exec_stmt (SAssert c id) s [EvAssert id true] s
| XHavoc x s v : exec_stmt (SHavoc x) s [] (upd s x v)
| XSelect x c e1 e2 s :
    exec_stmt (SSelect x c e1 e2) s [] (upd s x (if satb c s then eval_le e1 s else eval_le e2 s)).

Inductive config :=
| Run (l : label) (rest : list stmt) (s : store)
| Done
| Err.

Inductive step (P : cfg) : config -> list event -> config -> Prop :=
| StStmt l st r s ev s' : exec_stmt st s ev s' -> step P (Run l (st :: r) s) ev (Run l r s')
| StFail l c id r s : satb c s = false -> step P (Run l (SAssert c id :: r) s) [EvAssert id false] Err
| StGoto l l' b' s : In l' (succs P l) -> get_block P l' = Some b' ->
                     step P (Run l [] s) [EvGoto l'] (Run l' (b_stmts b') s)
| StExit l s : c_exit P = Some l -> step P (Run l [] s) [EvExit (map s (c_outs P))] Done.

Inductive star (P : cfg) : config -> list event -> config -> Prop :=
| StarRefl c : star P c [] c
| StarStep c ev c' tr c'' : step P c ev c' -> star P c' tr c'' -> star P c (ev ++ tr) c''.

Lemma star_one P c ev c' : step P c ev c' -> star P c ev c'.
Proof. intros H. rewrite <- (app_nil_r ev). eapply StarStep; eauto. constructor. Qed.
Lemma star_trans P c1 t1 c2 t2 c3 : star P c1 t1 c2 -> star P c2 t2 c3 -> star P c1 (t1 ++ t2) c3.
Proof.
  induction 1; simpl; auto. intros H2. rewrite <- app_assoc. eapply StarStep; eauto.
Qed.

(* initial configuration and the three kinds of observation of an execution *)
Definition init (P : cfg) (s : store) : config := Run (c_entry P) (stmts_of P (c_entry P)) s.
Definition at_end (l : label) (s : store) : config := Run l [] s.

(* stores that agree on a set of variables *)
Definition agree (L : vset) (s1 s2 : store) : Prop := forall x, In x L -> s1 x = s2 x.

Lemma agree_refl L s : agree L s s.
Proof. intros x _. auto. Qed.
Lemma agree_sym L s1 s2 : agree L s1 s2 -> agree L s2 s1.
Proof. intros H x Hx. symmetry. auto. Qed.
Lemma agree_mono L L' s1 s2 : (forall x, In x L' -> In x L) -> agree L s1 s2 -> agree L' s1 s2.
Proof. intros H A x Hx. auto. Qed.

Lemma eval_terms_agree ts s1 s2 :
  (forall x, In x (map snd ts) -> s1 x = s2 x) -> eval_terms ts s1 = eval_terms ts s2.
Proof.
  induction ts as [|[c v] r IH]; simpl; auto. intros H.
  rewrite (H v) by auto. rewrite IH; auto.
Qed.
Lemma eval_le_agree e s1 s2 : agree (le_vars e) s1 s2 -> eval_le e s1 = eval_le e s2.
Proof. intros H. unfold eval_le. f_equal. apply eval_terms_agree. exact H. Qed.
Lemma satb_agree c s1 s2 : agree (lc_vars c) s1 s2 -> satb c s1 = satb c s2.
Proof.
  intros H. unfold satb. rewrite (eval_le_agree (lc_exp c) s1 s2); auto.
Qed.
Lemma operand_val_agree z s1 s2 : agree (operand_vars z) s1 s2 -> operand_val z s1 = operand_val z s2.
Proof. destruct z; simpl; auto. intros H. apply H. simpl; auto. Qed.

Lemma agree_upd L s1 s2 x v :
  agree (diff L [x]) s1 s2 -> agree L (upd s1 x v) (upd s2 x v).
Proof.
  intros H y Hy. unfold upd. destruct (N.eqb_spec y x); auto.
  apply H. apply diff_In. split; auto. simpl. intros [?|[]]. congruence.
Qed.
