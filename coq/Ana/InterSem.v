(* InterSem.v — concrete semantics of programs with calls (mathematical integers), with a call
   stack in big-step form.

   Call semantics (the one the inter-procedural analyzers claim): the callee runs on its own
   store, in which its formal inputs hold the values of the actual parameters and every other
   variable holds an arbitrary value; when the end of the callee's exit block is reached, the
   values of its formal outputs are copied into the lhs variables of the callsite; no other
   variable of the caller changes.  A callee that never reaches the end of its exit block does
   not return.

   exec_fun g s0 s1     : a call of g started in store s0 returns with (callee) store s1
   IRPre f n s          : an execution started at an entry function in an initial state enters
                          block n of function f (in any frame of the call stack) with store s
   IRPost f n s         : ... reaches the end of block n of f with store s *)
From Coq Require Import ZArith NArith List Bool Arith Lia.
From CrabV Require Import Ir.Syntax Ir.Cfg Ana.InterSyntax.
Import ListNotations.

Definition bind_ins (formals actuals : list var) (a s0 : store) : Prop :=
  Forall2 (fun x y => s0 x = a y) formals actuals.

Fixpoint assign_outs (a : store) (outs fouts : list var) (s1 : store) : store :=
  match outs, fouts with
  | o :: os, f :: fs => assign_outs (upd a o (s1 f)) os fs s1
  | _, _ => a
  end.

Section Sem.
  Variable p : iprog.

  Inductive exec_stmt : istmt -> store -> store -> Prop :=
  | XS_base s a b : sstep s a b -> exec_stmt (IBase s) a b
  | XS_call outs g ins a s0 s1 b :
      bind_ins (f_ins (get_fn p g)) ins a s0 -> exec_fun g s0 s1 ->
      (forall k, b k = assign_outs a outs (f_outs (get_fn p g)) s1 k) ->
      exec_stmt (ICall outs g ins) a b
  with exec_block : iblock -> store -> store -> Prop :=
  | XB_nil a : exec_block [] a a
  | XB_cons s r a m b : exec_stmt s a m -> exec_block r m b -> exec_block (s :: r) a b
  with exec_from : nat -> nat -> store -> store -> Prop :=
  | XF_exit g n a b :
      f_exit (get_fn p g) = Some n -> exec_block (fn_block (get_fn p g) n) a b -> exec_from g n a b
  | XF_step g n m a b c :
      exec_block (fn_block (get_fn p g) n) a b -> In (n, m) (f_edges (get_fn p g)) ->
      exec_from g m b c -> exec_from g n a c
  with exec_fun : nat -> store -> store -> Prop :=
  | XFun g s0 s1 : exec_from g 0 s0 s1 -> exec_fun g s0 s1.

  Scheme exec_stmt_mut := Minimality for exec_stmt Sort Prop
    with exec_block_mut := Minimality for exec_block Sort Prop
    with exec_from_mut := Minimality for exec_from Sort Prop
    with exec_fun_mut := Minimality for exec_fun Sort Prop.
  Combined Scheme exec_mutind from exec_stmt_mut, exec_block_mut, exec_from_mut, exec_fun_mut.

  Variable entries : list nat.
  Variable Init : store -> Prop.

  Inductive IRPre : nat -> nat -> store -> Prop :=
  | IR_init f s : In f entries -> Init s -> IRPre f 0 s
  | IR_edge f q n s : In (q, n) (f_edges (get_fn p f)) -> IRPost f q s -> IRPre f n s
  | IR_call f n s l1 outs g ins l2 m s0 :
      IRPre f n s -> fn_block (get_fn p f) n = l1 ++ ICall outs g ins :: l2 ->
      exec_block l1 s m -> bind_ins (f_ins (get_fn p g)) ins m s0 -> IRPre g 0 s0
  with IRPost : nat -> nat -> store -> Prop :=
  | IR_post f n s s' : IRPre f n s -> exec_block (fn_block (get_fn p f) n) s s' -> IRPost f n s'.

  Scheme IRPre_mut := Minimality for IRPre Sort Prop
    with IRPost_mut := Minimality for IRPost Sort Prop.
  Combined Scheme IR_mutind from IRPre_mut, IRPost_mut.

  (* a call returns only from the end of the exit block *)
  Lemma exec_from_exit g n a b : exec_from g n a b -> exists x, f_exit (get_fn p g) = Some x.
  Proof. induction 1; eauto. Qed.
  Lemma exec_fun_exit g s0 s1 : exec_fun g s0 s1 -> exists x, f_exit (get_fn p g) = Some x.
  Proof. intros H. inversion H; subst. eapply exec_from_exit; eauto. Qed.

  (* ------------------------------------------------------------ frame properties *)
  Lemma assign_outs_other outs : forall fouts a s1 k, ~ In k outs -> assign_outs a outs fouts s1 k = a k.
  Proof.
    induction outs as [|o r IH]; intros [|f fs] a s1 k NI; simpl; auto.
    rewrite IH by (intros I; apply NI; right; exact I).
    apply upd_other. intros E. apply NI. left. auto.
  Qed.

  Lemma assign_outs_in outs : forall fouts a s1 o f,
    NoDup outs -> In (o, f) (combine outs fouts) -> assign_outs a outs fouts s1 o = s1 f.
  Proof.
    induction outs as [|o' r IH]; intros [|f' fs] a s1 o f ND I; simpl in *; try contradiction.
    inversion ND as [|? ? NI ND']; subst. destruct I as [E|I].
    - inversion E; subst. rewrite assign_outs_other by exact NI. apply upd_same.
    - apply IH; auto.
  Qed.

  Lemma sstep_frame s a b x : sstep s a b -> ~ In x (stmt_defs s) -> b x = a x.
  Proof.
    intros H NI. destruct s; simpl in *.
    - subst. apply upd_other. intros E. apply NI. left. auto.
    - destruct H as (v & _ & ->). apply upd_other. intros E. apply NI. left. auto.
    - destruct H as (v & _ & ->). apply upd_other. intros E. apply NI. left. auto.
    - destruct H as [_ ->]. auto.
    - destruct H as [_ ->]. auto.
    - destruct H as (v & ->). apply upd_other. intros E. apply NI. left. auto.
    - subst. apply upd_other. intros E. apply NI. left. auto.
    - contradiction.
  Qed.

  Lemma exec_stmt_frame st a b x : exec_stmt st a b -> ~ In x (istmt_defs st) -> b x = a x.
  Proof.
    intros H NI. inversion H; subst; simpl in *.
    - eapply sstep_frame; eauto.
    - rewrite H2. apply assign_outs_other. exact NI.
  Qed.

  Lemma exec_block_frame bl a b x :
    exec_block bl a b -> (forall st, In st bl -> ~ In x (istmt_defs st)) -> b x = a x.
  Proof.
    induction 1 as [|s r a m b S B IH]; intros NI; auto.
    rewrite IH by (intros st I; apply NI; right; exact I).
    eapply exec_stmt_frame; eauto. apply NI. left. auto.
  Qed.

  (* a well-formed function never changes its formal inputs *)
  Variable voff : N.
  Hypothesis WF : iprog_wfb p voff = true.

  Lemma wf_block_frame g n x : g < length p -> In x (f_ins (get_fn p g)) ->
    forall st, In st (fn_block (get_fn p g) n) -> ~ In x (istmt_defs st).
  Proof.
    intros L I st J. pose proof (wf_istmt p voff _ n st (wf_func p voff g WF L) J) as W.
    destruct st as [s|outs g' ins]; simpl in *.
    - apply andb_true_iff in W. destruct W as [_ W]. rewrite forallb_forall in W.
      intros K. specialize (W _ K). apply negb_true_iff in W. apply vmem_false in W. auto.
    - repeat (apply andb_true_iff in W; destruct W as [W ?]).
      rewrite forallb_forall in H2. intros K. specialize (H2 _ K).
      apply negb_true_iff in H2. apply vmem_false in H2. auto.
  Qed.

  Lemma exec_from_frame g n a b : exec_from g n a b -> g < length p ->
    forall x, In x (f_ins (get_fn p g)) -> b x = a x.
  Proof.
    induction 1 as [g n a b E B | g n m a b c B I F IH]; intros L x J.
    - eapply exec_block_frame; eauto. apply wf_block_frame; auto.
    - rewrite IH by auto. eapply exec_block_frame; eauto. apply wf_block_frame; auto.
  Qed.

  Lemma exec_fun_frame g s0 s1 : exec_fun g s0 s1 -> g < length p ->
    forall x, In x (f_ins (get_fn p g)) -> s1 x = s0 x.
  Proof. intros H. inversion H; subst. eapply exec_from_frame; eauto. Qed.
End Sem.
