(* InterBU.v — mirror of analysis/inter/bottom_up_inter_analyzer.hpp with the interval domain
   for both phases (after fixes/inter-2), for call graphs without cycles:
   summary (projection of the exit invariant on the formal parameters, renaming to the internal
   names $0,$1,.., re-instantiation at callsites: bu_summ_abs_transformer::reuse_summary), the
   bottom-up phase (callees before callers, analysis from top), td_summ_abs_transformer::exec
   (calling context of the callee, continuation through the summary), the call-context table
   with joins, the top-down phase (callers before callees, one analysis per function from the
   join of its calling contexts).
   NOT mirrored: recursive components of the call graph (sccg.hpp member order), the choice of
   the root when several functions have no caller (the model gives init to all of them: equal
   when there is one such function or init is top), domains other than intervals.

   The results are validated by the certificate checker of InterTD.v (ig_check): bu_validate. *)
From Coq Require Import ZArith NArith List Bool Arith.
From CrabV Require Import Base.ZInf Scalar.Itv Ir.Syntax Ir.Cfg Dom.ItvEnv Dom.ItvDomain
     Fix.Wto Fix.Engine Fix.EngineFS Ana.Transformer Ana.FwdItv Ana.InterSyntax Ana.InterTD.
Import ListNotations.

(* the internal name of the k-th parameter of a summary ("$k") *)
Definition intern (voff : N) (k : nat) : var := (voff + N.of_nat k)%N.

Section Reuse.
  Variable voff : N.
  Variables outs ins fins fouts : list var.

  Definition iins : list var := map (intern voff) (seq 0 (length fins)).
  Definition iouts : list var := map (intern voff) (seq (length fins) (length fouts)).

  (* bu_summ_abs_transformer::reuse_summary(caller, cs, summ) *)
  Definition bu_reuse (caller sum : env) : env :=
    let c1 := assign_list (combine iins ins) caller in
    let rsum := e_rename sum (fins ++ fouts) (iins ++ iouts) in
    let c2 := e_meet c1 rsum in
    let c3 := assign_list (combine outs iouts) c2 in
    d_forget (iins ++ iouts) c3.

  (* td_summ_abs_transformer::exec: the calling context of the callee *)
  Definition bu_callee_ctx (caller : env) : env :=
    e_rename (e_project (assign_list (combine iins ins) caller) iins) iins fins.
End Reuse.

Definition havoc_list (vs : list var) (e : env) : env := fold_left e_forget vs e.

Record bures := mkBU {
  b_sum : nat -> option env;         (* m_summ_tbl *)
  b_pre : nat -> nat -> env;         (* get_pre *)
  b_post : nat -> nat -> env;
  b_err : bool }.

Section BU.
  Variable p : iprog.
  Variable voff : N.
  Variables delay desc : nat.
  Variable efuel : nat.
  Variable wtos : nat -> wto.

  (* ---------------------------------------------------------------- bottom-up phase *)
  Definition bu_stmt (sums : nat -> option env) (st : istmt) (e : env) : env :=
    match st with
    | IBase s => tr_stmt s e
    | ICall outs g ins =>
      match sums g with
      | Some sum => bu_reuse voff outs ins (f_ins (get_fn p g)) (f_outs (get_fn p g)) e sum
      | None => havoc_list outs e
      end
    end.
  Definition bu_block (sums : nat -> option env) (bl : iblock) (e : env) : env :=
    fold_left (fun acc st => bu_stmt sums st acc) bl e.

  (* Some None: no summary (main, no exit block); None: out of fuel *)
  Definition bu_summary (sums : nat -> option env) (f : nat) : option (option env) :=
    let fn := get_fn p f in
    if Nat.eqb f 0 then Some None
    else match f_outs fn with
         | [] => Some (Some e_top)
         | _ =>
           match f_exit fn with
           | None => Some None
           | Some x =>
             match run env itv_ops (fun n e => bu_block sums (fn_block fn n) e) (fn_preds fn)
                       (nest_of (wtos f)) 0 delay desc false (fun _ => None) e_top efuel (wtos f) with
             | Some st => Some (Some (e_project (e_post env st x) (fn_formals fn)))
             | None => None
             end
           end
         end.

  Definition all_in (l done : list nat) : bool := forallb (fun x => nmem x done) l.

  (* one sweep: every function whose callees are all done gets its summary *)
  Definition bu_sweep (st : (nat -> option env) * list nat * bool) : (nat -> option env) * list nat * bool :=
    fold_left (fun acc f =>
                 let '(sums, done, err) := acc in
                 if nmem f done then acc
                 else if all_in (cg_succs p f) done then
                        match bu_summary sums f with
                        | Some r => (fupd sums f r, f :: done, err)
                        | None => (sums, f :: done, true)
                        end
                      else acc) (seq 0 (length p)) st.

  (* ---------------------------------------------------------------- top-down phase *)
  Definition ctab := nat -> option env.       (* call_ctx_table *)
  Definition ctab_insert (ct : ctab) (g : nat) (inv : env) : ctab :=
    fupd ct g (match ct g with Some old => Some (e_join old inv) | None => Some inv end).

  Definition td2_stmt (sums : nat -> option env) (st : istmt) (e : env) (ct : ctab) : env * ctab :=
    match st with
    | IBase s => (tr_stmt s e, ct)
    | ICall outs g ins =>
      match sums g with
      | Some sum =>
        let fi := f_ins (get_fn p g) in
        let fo := f_outs (get_fn p g) in
        (bu_reuse voff outs ins fi fo e sum, ctab_insert ct g (bu_callee_ctx voff ins fi e))
      | None => (havoc_list outs e, ct)
      end
    end.
  Fixpoint td2_block (sums : nat -> option env) (bl : iblock) (e : env) (ct : ctab) : env * ctab :=
    match bl with
    | [] => (e, ct)
    | st :: r => let q := td2_stmt sums st e ct in td2_block sums r (fst q) (snd q)
    end.

  Definition cg_preds (f : nat) : list nat :=
    filter (fun g => nmem f (cg_succs p g)) (seq 0 (length p)).

  Record tdst := mkTS { t_ct : ctab; t_pre : nat -> nat -> env; t_post : nat -> nat -> env;
                        t_done : list nat; t_err : bool }.

  Definition td2_sweep (sums : nat -> option env) (init : env) (st : tdst) : tdst :=
    fold_left (fun acc f =>
                 if nmem f (t_done acc) then acc
                 else if all_in (cg_preds f) (t_done acc) then
                        let fn := get_fn p f in
                        let init_inv :=
                            match cg_preds f with
                            | [] => init
                            | _ => match t_ct acc f with Some c => c | None => e_top end
                            end in
                        match srun env ctab itv_ops (fun n e ct => td2_block sums (fn_block fn n) e ct)
                                   (fn_preds fn) (nest_of (wtos f)) 0 delay desc efuel (wtos f) init_inv (t_ct acc) with
                        | Some r => mkTS (se_g env ctab r) (fupd (t_pre acc) f (se_pre env ctab r))
                                         (fupd (t_post acc) f (se_post env ctab r)) (f :: t_done acc) (t_err acc)
                        | None => mkTS (t_ct acc) (t_pre acc) (t_post acc) (f :: t_done acc) true
                        end
                      else acc) (seq 0 (length p)) st.

  Fixpoint iter {A : Type} (n : nat) (f : A -> A) (x : A) : A :=
    match n with O => x | S k => iter k f (f x) end.

  (* bottom_up_inter_analyzer::run(init).  A function that is never processed (call graph with
     a cycle) raises the error flag: not mirrored. *)
  Definition bu_run (init : env) : bures :=
    let n := length p in
    if forallb (fun f => match cg_succs p f with [] => true | _ => false end) (seq 0 n) then
      (* the call graph has no edges: only main is analyzed *)
      let fn := get_fn p 0 in
      match srun env ctab itv_ops (fun k e ct => td2_block (fun _ => None) (fn_block fn k) e ct)
                 (fn_preds fn) (nest_of (wtos 0)) 0 delay desc efuel (wtos 0) init (fun _ => None) with
      | Some r => mkBU (fun _ => None)
                       (fun f => if Nat.eqb f 0 then se_pre env ctab r else fun _ => e_top)
                       (fun f => if Nat.eqb f 0 then se_post env ctab r else fun _ => e_top) false
      | None => mkBU (fun _ => None) (fun _ _ => e_top) (fun _ _ => e_top) true
      end
    else
      let '(sums, done, err) := iter n bu_sweep (fun _ => None, [], false) in
      let st := iter n (td2_sweep sums init)
                     (mkTS (fun _ => None) (fun _ _ => e_top) (fun _ _ => e_top) [] false) in
      mkBU sums (t_pre st) (t_post st)
           (err || t_err st || negb (Nat.eqb (length done) n) || negb (Nat.eqb (length (t_done st)) n)).
End BU.

(* ------------------------------------------------------------------ validation
   get_summary(f) = (top, summary): one summary per function that has one; its certificate is
   recomputed from top.  The executions are covered by ONE context per function: the tables of
   the top-down phase themselves (they are context-insensitive), started from their own entry
   invariant. *)
Definition bu_summaries (p : iprog) (sums : nat -> option env) : list summ :=
  flat_map (fun f => match sums f with Some s => [mkSumm f e_top s] | None => [] end) (seq 0 (length p)).

Definition bu_validate (p : iprog) (voff : N) (entries : list nat) (init : env)
           (tpre tpost : nat -> nat -> env) (S : list summ)
           (delay desc efuel : nat) (wtos : nat -> wto) : bool :=
  (* a called function without summary (main, a member of a recursive component: fixes/inter-7):
     its callsites forget the lhs variables; the certificate uses the trivial summary (top, top),
     justified by the context that starts from top.  Untrusted: ig_check decides *)
  let called := flat_map (cg_succs p) (seq 0 (length p)) in
  let S' := S ++ flat_map (fun f => if nmem f called && negb (existsb (fun sm => Nat.eqb (s_fn sm) f) S)
                                    then [mkSumm f e_top e_top] else []) (seq 0 (length p)) in
  let mk := mk_cert p voff S' delay desc efuel wtos in
  ig_check p voff entries init tpre tpost
           (map (fun f => mkCert f (tpre f 0) (tpre f) (tpost f)) (seq 0 (length p)))
           (map (fun sm => (sm, mk (s_fn sm) (s_pre sm))) S').
