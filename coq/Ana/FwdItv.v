(* FwdItv.v — the forward analyzer model: engine (Fix/Engine.v) + interval transformer
   (Ana/Transformer.v); the verified invariant checker instantiated for it. *)
From Coq Require Import ZArith List Bool Arith.
From CrabV Require Import Base.ZInf Scalar.Itv Ir.Syntax Ir.Cfg Dom.ItvEnv Dom.ItvEnvSound Dom.ItvDomain
     Fix.Wto Fix.Engine Fix.EngineCheck Fix.EngineFS Ana.Transformer.
Import ListNotations.

Definition itv_ops : aops env :=
  mkOps env EBot e_top e_join e_meet (fun _ => e_widen) e_narrow e_leq.

Record prog := mkProg { p_blocks : list block; p_edges : list (nat * nat) }.

Definition p_preds (p : prog) (n : nat) : list nat :=
  map fst (filter (fun e => Nat.eqb (snd e) n) (p_edges p)).
Fixpoint dedup (l : list nat) : list nat :=
  match l with [] => [] | h :: t => h :: filter (fun x => negb (Nat.eqb x h)) (dedup t) end.
Definition p_succs (p : prog) (n : nat) : list nat :=
  dedup (map snd (filter (fun e => Nat.eqb (fst e) n) (p_edges p))).
Definition p_graph (p : prog) : graph := map (p_succs p) (seq 0 (length (p_blocks p))).
Definition p_block (p : prog) (n : nat) : block := nth n (p_blocks p) [].

Definition fwd_run (p : prog) (w : wto) (entry delay desc : nat) (use_asm : bool)
           (asm : nat -> option env) (fuel : nat) (init : env) : option (est env) :=
  run env itv_ops (fun n e => tr_block (p_block p n) e) (p_preds p) (nest_of w) entry
      delay desc use_asm asm init fuel w.

Definition fwd_check (p : prog) (entry : nat) (use_asm : bool) (asm : nat -> option env)
           (init : env) (pre post : nat -> env) : bool :=
  forallb (fun b => forallb stmt_wfb b) (p_blocks p) &&
  forallb (fun e => (fst e <? length (p_blocks p)) && (snd e <? length (p_blocks p))) (p_edges p) &&
  (entry <? length (p_blocks p)) &&
  inductive_ok env itv_ops (fun n e => tr_block (p_block p n) e) (p_preds p) entry use_asm asm init
               (seq 0 (length (p_blocks p))) pre post.
