(* InterTDRecSound.v — property C09 for the MODEL of the top-down inter-procedural analyzer with
   analyze_recursive_functions = true (Ana/InterTDRec.v, rec_run / rec_run_checked), directly and
   without the certificate checker: whenever the model returns without its error flag, with
   max_call_contexts unbounded,
     - the context-insensitive tables contain every state with which an execution started at an
       entry function enters / leaves a block, in any frame of the call stack;
     - every stored (precondition, postcondition) summary relates the inputs and outputs of every
       concrete call whose inputs satisfy the precondition.
   For every well-formed program and call graph (direct, mutual and nested recursion, cycles
   entered through a function that is not their head), every exact_summary_reuse, widening delay,
   number of descending iterations and fuels.

   Structure of the proof.
   * Induction on the depth of concrete recursion: the big-step semantics is stratified
     (Ana/InterSemIdx.v, xfun n = calls whose nested calls have depth < n); every statement about a
     sub-computation of the analyzer is quantified over the level n.
   * A sub-computation (the analysis of a function from an entry value) is specified relative to
     the fixpoints that are running when it starts (rspec): for any family A of assumed entry
     states of the heads h in m_func_fixpoint_table that the function can reach in the call graph,
     if the final table entries are inside A (FinA) and calls of level n to h from A h return
     inside the pre-fixpoint exit (AssV), then the result is valid for calls of level n + 1 and
     the entry states are covered (GG) relative to the promises PR: the assumed entries of those
     heads, and the functions of the call stack that started from top (Top).
   * Coverage is the greatest set GG P of function entries closed under "the tables contain the
     states reached in the body and every callee entry reached is covered or promised (P)"
     (Ana/InterTDRecBase.v); a promise is discharged by the cut rule GG_cut when the promised
     entries have been covered relative to themselves (coinduction).
   * When the test new_entry <= old_entry && new_exit <= old_exit of a head succeeds, the
     assumption AssV for that head is proved by induction on the level from the soundness of the
     last run of its body (riter_spec), its promise is cut, and the invariants of that run are the
     ones that are stored.
   * Stored summaries are unconditional: has_been_stabilized only stores a summary when no
     fixpoint is running, or when the callee is outside the recursive set, hence on no call graph
     cycle, hence reaches neither a head whose fixpoint is running nor a function of the call stack
     (REC: the recursive set contains every reachable function on a call graph cycle).
   * A function found on the call stack whose fixpoint is not running started from top
     (onstack_Top): otherwise propagate_from_caller saw the fixpoints of all the heads of its
     nesting running, they are below it on the stack, and a call graph cycle through it that avoids
     them contradicts the nesting of the call graph WTO (NEST).
   * The body of a function is handled by Ana/InterEngineSound.v (srun_sound), instantiated with
     the block semantics of level n guarded by the assumptions.

   Side conditions (executable, Ana/InterTDRec.v rec_cfg_okb; rec_run_checked sets the error flag
   when one fails): NEST for the call graph orderings; an entry function of the recursive set is in
   the widening set; the entry block of a function of the widening set is not a loop head of its
   CFG (the stored precondition of a head is the invariant at its entry block, which the engine
   theorem only relates to the entry value when that block is a vertex of the ordering). *)
From Coq Require Import ZArith NArith List Bool Arith Lia Relations.
From CrabV Require Import Base.ZInf Scalar.Itv Ir.Syntax Ir.Cfg Dom.ItvEnv Dom.ItvEnvSound Dom.ItvDomain
     Dom.ItvDomainSound Fix.Wto Fix.WtoCheck Fix.WtoSound Fix.WtoRoot Fix.Engine Fix.EngineCheck Fix.EngineRel
     Fix.EngineFS Ana.Transformer Ana.FwdItv Ana.FwdItvEngineSound Ana.InterSyntax Ana.InterSem Ana.InterSemIdx
     Ana.InterTD Ana.InterTDSound Ana.InterEngineSound Ana.InterTDModelSound Ana.InterTDRecset Ana.InterTDRec Ana.InterTDRecBase.
Import ListNotations.

(* ------------------------------------------------------------------ positions in the call stack *)
(* m occurs before the first occurrence of f *)
Fixpoint belowb (l : list nat) (m f : nat) : bool :=
  match l with
  | [] => false
  | a :: r => if Nat.eqb a f then false else (Nat.eqb a m && nmem f r) || belowb r m f
  end.

Lemma nmem_app x l1 l2 : nmem x (l1 ++ l2) = nmem x l1 || nmem x l2.
Proof. unfold nmem. apply existsb_app. Qed.
Lemma nmem_false x l : nmem x l = false <-> ~ In x l.
Proof.
  rewrite <- nmem_spec. destruct (nmem x l); split; intros H.
  - discriminate.
  - exfalso. apply H. reflexivity.
  - intros K. discriminate.
  - reflexivity.
Qed.

Lemma belowb_push l x m f : In f l -> belowb (l ++ [x]) m f = belowb l m f.
Proof.
  induction l as [|a r IH]; cbn [app belowb]; [intros []|]. intros I.
  destruct (Nat.eqb_spec a f) as [E|E]; [reflexivity|].
  destruct I as [I|I]; [contradiction|]. rewrite IH by exact I. f_equal. f_equal.
  rewrite nmem_app. apply (proj2 (nmem_spec f r)) in I. rewrite I. reflexivity.
Qed.
Lemma belowb_in l m f : belowb l m f = true -> In m l /\ In f l /\ m <> f.
Proof.
  induction l as [|a r IH]; cbn [belowb]; [discriminate|].
  destruct (Nat.eqb_spec a f) as [E|E]; [discriminate|]. intros H. apply orb_true_iff in H. destruct H as [H|H].
  - apply andb_true_iff in H. destruct H as [H1 H2]. apply Nat.eqb_eq in H1. apply nmem_spec in H2.
    subst a. split; [left; reflexivity|]. split; [right; exact H2|exact E].
  - destruct (IH H) as (A & B & C). split; [right; exact A|]. split; [right; exact B|exact C].
Qed.
Lemma belowb_last K x m : In m K -> ~ In x K -> belowb (K ++ [x]) m x = true.
Proof.
  induction K as [|a r IH]; cbn [app belowb]; [intros []|]. intros I N.
  destruct (Nat.eqb_spec a x) as [E|E]; [exfalso; apply N; left; exact E|].
  destruct I as [->|I].
  - rewrite Nat.eqb_refl. rewrite nmem_app. cbn [nmem existsb]. rewrite Nat.eqb_refl.
    rewrite orb_true_r. reflexivity.
  - rewrite IH; [apply orb_true_r|exact I|]. intros J. apply N. right. exact J.
Qed.
(* m occurs after f in a list without repetition: m is not below f *)
Lemma belowb_after K1 f K2 m : NoDup (K1 ++ f :: K2) -> In m K2 -> belowb (K1 ++ f :: K2) m f = false.
Proof.
  induction K1 as [|a r IH]; cbn [app belowb]; intros ND I.
  - rewrite Nat.eqb_refl. reflexivity.
  - inversion ND as [|? ? NI ND']; subst.
    destruct (Nat.eqb_spec a f) as [E|E]; [reflexivity|].
    rewrite (IH ND' I), orb_false_r.
    destruct (Nat.eqb_spec a m) as [E2|E2]; [|reflexivity]. exfalso. subst a.
    apply NI. apply in_or_app. right. right. exact I.
Qed.

Lemma hd_app (l : list nat) x d : l <> [] -> hd d (l ++ [x]) = hd d l.
Proof. destruct l; [congruence|reflexivity]. Qed.

Section Model.
  Variable p : iprog.
  Variable voff : N.
  Hypothesis WF : iprog_wfb p voff = true.
  Variable exact_reuse : bool.
  Variables delay desc efuel ifuel : nat.
  Variable wtos : nat -> wto.
  Variable cgwto : nat -> wto.
  Variable wset recset : list nat.
  Hypothesis WTO : forall f, f < length p -> build (fn_graph (get_fn p f)) 0 = Some (wtos f).
  (* the entry block of a function of the widening set is not a loop head *)
  Hypothesis HEADV : forall f, In f wset -> f < length p -> exists r, wtos f = Vertex 0 :: r.
  (* the functions that the analysis can reach *)
  Variable Reach : nat -> Prop.
  Hypothesis Reach_edge : forall f g, Reach f -> cg_edge p f g -> Reach g.
  Hypothesis REC : forall f, Reach f -> cg_path p f f -> In f recset.

  (* call chains *)
  Fixpoint chain (l : list nat) : Prop :=
    match l with
    | a :: (b :: _) as r => cg_edge p a b /\ chain r
    | _ => True
    end.
  Definition reach (f h : nat) : Prop := clos_refl_trans nat (cg_edge p) f h.

  (* a cycle through a function f that is not a head goes through a head of the nesting of f *)
  Variable Ent : nat -> Prop.               (* the entry functions *)
  Hypothesis NEST : forall e f hs K, Ent e ->
    nesting (cgwto e) f = Some hs -> ~ In f wset -> reach e f ->
    chain (f :: K) -> cg_edge p (last K f) f -> exists m, In m hs /\ In m K.

  Lemma chain_snoc l a x : chain (l ++ [a]) -> cg_edge p a x -> chain ((l ++ [a]) ++ [x]).
  Proof.
    induction l as [|b r IH]; cbn [app]; intros C E.
    - cbn. auto.
    - destruct r as [|c r']; cbn [app] in *.
      + destruct C as [C1 _]. cbn. auto.
      + destruct C as [C1 C2]. split; [exact C1|]. apply IH; auto.
  Qed.
  Lemma chain_tail a l : chain (a :: l) -> chain l.
  Proof. destruct l as [|b l']; [intros _; exact I|intros [_ C]; exact C]. Qed.
  Lemma chain_suffix l1 l2 : chain (l1 ++ l2) -> chain l2.
  Proof.
    induction l1 as [|a l1' IH]; cbn [app]; auto. intros C. apply IH. eapply chain_tail; eauto.
  Qed.
  Lemma chain_prefix l1 l2 : chain (l1 ++ l2) -> chain l1.
  Proof.
    induction l1 as [|a r IH]; cbn [app]; [intros _; exact I|]. intros C.
    destruct r as [|b r']; [exact I|]. cbn [app] in *. destruct C as [C1 C2]. split; [exact C1|]. apply IH. exact C2.
  Qed.
  Lemma chain_path a : forall K b, chain (a :: K ++ [b]) -> cg_path p a b.
  Proof.
    intros K. revert a. induction K as [|c r IH]; intros a b C; cbn [app] in C.
    - apply t_step. exact (proj1 C).
    - destruct C as [C1 C2]. eapply t_trans; [apply t_step; exact C1|]. apply IH. exact C2.
  Qed.
  Lemma chain_reach K : forall a b, chain (a :: K) -> In b (a :: K) -> reach a b.
  Proof.
    induction K as [|c r IH]; intros a b C I.
    - destruct I as [<-|[]]. apply rt_refl.
    - destruct I as [<-|I]; [apply rt_refl|]. destruct C as [C1 C2].
      eapply rt_trans; [apply rt_step; exact C1|]. apply IH; auto.
  Qed.
  Lemma path_reach a b : cg_path p a b -> reach a b.
  Proof. induction 1; [apply rt_step; auto|eapply rt_trans; eauto]. Qed.
  Lemma reach_path_r a b c : reach a b -> cg_path p b c -> cg_path p a c.
  Proof.
    intros R. apply clos_rt_rt1n in R. induction R as [|x y z E _ IH]; auto.
    intros P. eapply t_trans; [apply t_step; exact E|]. apply IH. exact P.
  Qed.
  Lemma reach_edge_path a b c : reach a b -> cg_edge p b c -> cg_path p a c.
  Proof. intros R E. eapply reach_path_r; [exact R|apply t_step; exact E]. Qed.

  (* ---------------------------------------------------------------- structural invariant *)
  Record SIc (g : rgst) (f : nat) : Prop := mkSIc {
    si_nodup : NoDup (stk g);
    si_last : exists K, stk g = K ++ [f];
    si_reach : forall h, In h (stk g) -> Reach h;
    si_chain : chain (stk g);
    si_knodup : NoDup (keys (fx g));
    si_keys : forall h, In h (keys (fx g)) -> In h wset /\ In h (stk g);
    si_ent : Ent (hd 0 (stk g)) }.
  Definition HeadsIn (g : rgst) : Prop := forall h, In h (stk g) -> In h wset -> In h (keys (fx g)).
  Definition HeadsInX (g : rgst) (f : nat) : Prop :=
    forall h, In h (stk g) -> In h wset -> h <> f -> In h (keys (fx g)).

  Lemma SIc_step g g' f : rstep g g' -> SIc g f -> SIc g' f.
  Proof.
    intros S [A B C D E F G]. pose proof (rstep_stk _ _ S) as ES. pose proof (rs_keys _ _ S) as EK.
    constructor; rewrite ?ES, ?EK; auto.
  Qed.
  Lemma HeadsIn_step g g' : rstep g g' -> HeadsIn g -> HeadsIn g'.
  Proof. intros S H h. rewrite (rstep_stk _ _ S), (rs_keys _ _ S). apply H. Qed.
  Lemma HeadsInX_step g g' f : rstep g g' -> HeadsInX g f -> HeadsInX g' f.
  Proof. intros S H h. rewrite (rstep_stk _ _ S), (rs_keys _ _ S). apply H. Qed.

  (* every function of the stack reaches the one on top *)
  Lemma stack_path g f h : SIc g f -> In h (stk g) -> h = f \/ cg_path p h f.
  Proof.
    intros S I. destruct (si_last _ _ S) as [K EK]. pose proof (si_chain _ _ S) as C. rewrite EK in I, C.
    apply in_app_or in I. destruct I as [I|[<-|[]]]; [|left; reflexivity]. right.
    apply in_split in I. destruct I as (K1 & K2 & ->). rewrite <- app_assoc in C. cbn [app] in C.
    apply chain_suffix in C. apply chain_path in C. exact C.
  Qed.

  (* ---------------------------------------------------------------- promises *)
  Definition nestof (g : rgst) (f : nat) : option (list nat) := nesting (cgwto (cur_entry g)) f.

  (* f is on the stack and its analysis started from top: f is a member of the recursive set
     that is not a head, and not all the heads of its nesting had their fixpoint running *)
  Definition Top (g : rgst) (f : nat) : Prop :=
    In f (stk g) /\ In f recset /\ ~ In f wset /\
    match nestof g f with
    | None => True
    | Some hs => ~ (forall m, In m hs -> In m (keys (fx g)) /\ belowb (stk g) m f = true)
    end.
  (* ... and no fixpoint was running when it started *)
  Definition CleanTop (g : rgst) (f : nat) : Prop :=
    Top g f /\ forall h, In h (keys (fx g)) -> belowb (stk g) f h = true.

  Section WithRoot.
  Variable Root : nat -> store -> Prop.      (* finished entry functions and their entry states *)

  Definition SP (g : rgst) (h : nat) (s0 : store) : Prop := Root h s0 \/ CleanTop g h.
  Definition PR (F : nat -> Prop) (A : nat -> store -> Prop) (g : rgst) (h : nat) (s0 : store) : Prop :=
    Root h s0 \/ CleanTop g h \/ (F h /\ Top g h) \/ (F h /\ In h (keys (fx g)) /\ A h s0).

  Lemma SP_PR F A g h s0 : SP g h s0 -> PR F A g h s0.
  Proof. intros [H|H]; [left; exact H|right; left; exact H]. Qed.

  (* Top / CleanTop depend on the stack and on the keys of the fixpoint table only *)
  Lemma Top_ext g g' f : stk g' = stk g -> keys (fx g') = keys (fx g) -> Top g f -> Top g' f.
  Proof.
    intros ES EK (A & B & C & D). unfold Top, nestof, cur_entry in *. fold (stk g) in *. fold (stk g').
    rewrite ES, EK. auto.
  Qed.
  Lemma CleanTop_ext g g' f : stk g' = stk g -> keys (fx g') = keys (fx g) -> CleanTop g f -> CleanTop g' f.
  Proof.
    intros ES EK [A B]. split; [eapply Top_ext; eauto|]. rewrite ES, EK. exact B.
  Qed.
  Lemma SP_ext g g' : stk g' = stk g -> keys (fx g') = keys (fx g) -> forall h s, SP g h s -> SP g' h s.
  Proof. intros ES EK h s [H|H]; [left; exact H|right; eapply CleanTop_ext; eauto]. Qed.
  Lemma PR_ext F A g g' : stk g' = stk g -> keys (fx g') = keys (fx g) -> forall h s, PR F A g h s -> PR F A g' h s.
  Proof.
    intros ES EK h s [H|[H|[[H1 H2]|(H1 & H2 & H3)]]].
    - left. exact H.
    - right. left. eapply CleanTop_ext; eauto.
    - right. right. left. split; [exact H1|eapply Top_ext; eauto].
    - right. right. right. rewrite EK. auto.
  Qed.

  (* fewer keys *)
  Lemma Top_fewer g1 g2 h : stk g2 = stk g1 ->
    (forall k, In k (keys (fx g2)) -> In k (keys (fx g1))) -> Top g1 h -> Top g2 h.
  Proof.
    intros ES SK (A & B & C & D). unfold Top, nestof, cur_entry in *. fold (stk g1) in *. fold (stk g2).
    rewrite ES. split; [exact A|]. split; [exact B|]. split; [exact C|].
    destruct (nesting (cgwto (hd 0 (stk g1))) h) as [hs|]; [|exact I].
    intros ALL. apply D. intros m Im. destruct (ALL m Im) as [X Y]. split; [apply SK; exact X|exact Y].
  Qed.
  Lemma CleanTop_fewer g1 g2 h : stk g2 = stk g1 ->
    (forall k, In k (keys (fx g2)) -> In k (keys (fx g1))) -> CleanTop g1 h -> CleanTop g2 h.
  Proof.
    intros ES SK [A B]. split; [eapply Top_fewer; eauto|]. intros k Ik. rewrite ES. apply B, SK, Ik.
  Qed.

  (* one more function on the stack *)
  Lemma Top_grow g1 g2 f h : stk g1 = stk g2 ++ [f] -> keys (fx g1) = keys (fx g2) -> Top g2 h -> Top g1 h.
  Proof.
    intros ES EK (A & B & C & D). unfold Top, nestof, cur_entry in *. fold (stk g1). fold (stk g2) in *.
    rewrite ES, EK. split; [apply in_or_app; left; exact A|]. split; [exact B|]. split; [exact C|].
    rewrite hd_app by (intros E; rewrite E in A; destruct A).
    destruct (nesting (cgwto (hd 0 (stk g2))) h) as [hs|]; [|exact I].
    intros ALL. apply D. intros m Im. destruct (ALL m Im) as [X Y]. split; [exact X|].
    rewrite belowb_push in Y by exact A. exact Y.
  Qed.
  Lemma Top_shrink g1 g2 f h : stk g1 = stk g2 ++ [f] -> keys (fx g1) = keys (fx g2) -> h <> f -> Top g1 h -> Top g2 h.
  Proof.
    intros ES EK N (A & B & C & D). unfold Top, nestof, cur_entry in *. fold (stk g1) in *. fold (stk g2).
    rewrite ES, EK in *.
    assert (A' : In h (stk g2)).
    { apply in_app_or in A. destruct A as [A|[A|[]]]; [exact A|congruence]. }
    split; [exact A'|]. split; [exact B|]. split; [exact C|].
    rewrite hd_app in D by (intros E; rewrite E in A'; destruct A').
    destruct (nesting (cgwto (hd 0 (stk g2))) h) as [hs|]; [|exact I].
    intros ALL. apply D. intros m Im. destruct (ALL m Im) as [X Y]. split; [exact X|].
    rewrite belowb_push by exact A'. exact Y.
  Qed.
  Lemma CleanTop_grow g1 g2 f h : stk g1 = stk g2 ++ [f] -> keys (fx g1) = keys (fx g2) ->
    (forall k, In k (keys (fx g2)) -> In k (stk g2)) -> CleanTop g2 h -> CleanTop g1 h.
  Proof.
    intros ES EK KS [A B]. split; [eapply Top_grow; eauto|]. intros k Ik. rewrite EK in Ik. rewrite ES.
    rewrite belowb_push by (apply KS; exact Ik). apply B, Ik.
  Qed.
  Lemma CleanTop_shrink g1 g2 f h : stk g1 = stk g2 ++ [f] -> keys (fx g1) = keys (fx g2) ->
    (forall k, In k (keys (fx g2)) -> In k (stk g2)) -> h <> f -> CleanTop g1 h -> CleanTop g2 h.
  Proof.
    intros ES EK KS N [A B]. split; [eapply Top_shrink; eauto|]. intros k Ik.
    specialize (B k). rewrite EK, ES in B. rewrite belowb_push in B by (apply KS; exact Ik). apply B, Ik.
  Qed.

  (* the fixpoint of the function on top of the stack starts *)
  Lemma Top_insert g1 g2 f K h : stk g2 = stk g1 -> stk g1 = K ++ [f] -> NoDup (stk g1) -> In f wset ->
    keys (fx g2) = keys (fx g1) ++ [f] -> Top g1 h -> Top g2 h.
  Proof.
    intros ES EK ND FW EKS (A & B & C & D). unfold Top, nestof, cur_entry in *. fold (stk g1) in *. fold (stk g2).
    rewrite ES. split; [exact A|]. split; [exact B|]. split; [exact C|].
    destruct (nesting (cgwto (hd 0 (stk g1))) h) as [hs|]; [|exact I].
    intros ALL. apply D. intros m Im. destruct (ALL m Im) as [X Y]. split; [|exact Y].
    rewrite EKS in X. apply in_app_or in X. destruct X as [X|[X|[]]]; [exact X|]. exfalso. subst m.
    assert (NF : h <> f) by (intros ->; contradiction).
    assert (IK : In h K).
    { rewrite EK in A. apply in_app_or in A. destruct A as [A|[A|[]]]; [exact A|congruence]. }
    rewrite EK in Y. rewrite belowb_push in Y by exact IK. apply belowb_in in Y. destruct Y as [Y _].
    rewrite EK in ND. apply NoDup_remove_2 in ND. rewrite app_nil_r in ND. contradiction.
  Qed.
  Lemma CleanTop_insert g1 g2 f K h : stk g2 = stk g1 -> stk g1 = K ++ [f] -> NoDup (stk g1) -> In f wset ->
    keys (fx g2) = keys (fx g1) ++ [f] -> CleanTop g1 h -> CleanTop g2 h.
  Proof.
    intros ES EK ND FW EKS [A B]. split; [eapply Top_insert; eauto|]. intros k Ik. rewrite ES.
    rewrite EKS in Ik. apply in_app_or in Ik. destruct Ik as [Ik|[Ik|[]]]; [apply B; exact Ik|]. subst k.
    destruct A as (A & _ & C & _).
    assert (NF : h <> f) by (intros ->; contradiction).
    rewrite EK in *. apply belowb_last.
    - apply in_app_or in A. destruct A as [A|[A|[]]]; [exact A|congruence].
    - apply NoDup_remove_2 in ND. rewrite app_nil_r in ND. exact ND.
  Qed.

  (* ---------------------------------------------------------------- invariant of the global state *)
  Definition tpre (g : rgst) : nat -> nat -> env := g_pre (r_g g).
  Definition tpost (g : rgst) : nat -> nat -> env := g_post (r_g g).

  Definition SummOKn (n f : nat) (c : ctx) : Prop :=
    exists sum, c_post c = e_project sum (fn_formals (get_fn p f)) /\
                forall s0 s1, genv (c_pre c) s0 -> xfun p n f s0 s1 -> genv sum s1.
  Definition GIn (n : nat) (g : rgst) : Prop :=
    forall f c, In c (rcc g f) -> f < length p /\ SummOKn n f c /\
      forall s0, genv (c_pre c) s0 -> GG p n (tpre g) (tpost g) (SP g) f s0.

  Definition FinA (A : nat -> store -> Prop) (F : nat -> Prop) (g : rgst) : Prop :=
    rerr g = false /\
    forall h E X, fix_find h (fx g) = Some (E, X) -> F h -> forall s, genv E s -> A h s.
  Definition AssV (n : nat) (A : nat -> store -> Prop) (F : nat -> Prop) (g : rgst) : Prop :=
    forall h E X, fix_find h (fx g) = Some (E, X) -> F h ->
      forall s0 s1, A h s0 -> xfun p n h s0 s1 -> genv X s1.

  Lemma FinA_down A F g g' : rstep g g' -> FinA A F g' -> FinA A F g.
  Proof.
    intros S [E H]. split; [eapply rstep_err; eauto|]. intros h En X FF Fh s Gs.
    destruct (rs_fix _ _ S h En X FF) as (E' & FF' & SUB). eapply H; eauto.
  Qed.
  Lemma FinA_sub A (F F' : nat -> Prop) g : (forall h, F' h -> F h) -> FinA A F g -> FinA A F' g.
  Proof. intros SUB [E H]. split; [exact E|]. intros h En X FF Fh. eapply H; eauto. Qed.
  Lemma AssV_sub n A (F F' : nat -> Prop) g : (forall h, F' h -> F h) -> AssV n A F g -> AssV n A F' g.
  Proof. intros SUB H h En X FF Fh. eapply H; eauto. Qed.
  Lemma AssV_level n m A F g : m <= n -> AssV n A F g -> AssV m A F g.
  Proof. intros L H h En X FF Fh s0 s1 As Xs. eapply H; eauto. eapply xfun_le; eauto. Qed.
  Lemma AssV_step n A F g g' : rstep g g' -> AssV n A F g -> AssV n A F g'.
  Proof.
    intros S H h En X FF Fh.
    assert (IK : In h (keys (fx g))) by (rewrite <- (rs_keys _ _ S); eapply fix_find_some; eauto).
    destruct (fix_find_in _ _ IK) as [[E0 X0] F0].
    destruct (rs_fix _ _ S h E0 X0 F0) as (E' & FF' & _). rewrite FF in FF'. inversion FF'; subst.
    eapply H; eauto.
  Qed.
  Lemma AssV_back n A F g g' : rstep g g' -> AssV n A F g' -> AssV n A F g.
  Proof.
    intros S H h En X FF Fh. destruct (rs_fix _ _ S h En X FF) as (E' & FF' & _). eapply H; eauto.
  Qed.

  Lemma SummOKn_level n m f c : m <= n -> SummOKn n f c -> SummOKn m f c.
  Proof.
    intros L (sum & E & H). exists sum. split; [exact E|]. intros s0 s1 G0 X. eapply H; eauto. eapply xfun_le; eauto.
  Qed.

  Lemma CtxCovn_level n m tp tq cov f S0 : m <= n -> CtxCovn p n tp tq cov f S0 -> CtxCovn p m tp tq cov f S0.
  Proof.
    intros L [A B]. destruct (IPn_level p m n f S0 L) as [M1 M2]. split.
    - intros blk s R. destruct (A blk s (M1 _ _ R)) as [X Y]. split; [exact X|].
      intros l1 outs g0 ins l2 mid s0 E1 E2 E3. eapply Y; eauto.
      eapply gblock_mono; [|exact E2]. apply xfun_le. exact L.
    - intros blk s R. apply B, M2, R.
  Qed.
  Lemma GG_level n m tp tq P f s : m <= n -> GG p n tp tq P f s -> GG p m tp tq P f s.
  Proof.
    intros L (C & HC & I). exists C. split; [|exact I]. intros h s1 X. eapply CtxCovn_level; eauto.
  Qed.
  Lemma GIn_level n m g : m <= n -> GIn n g -> GIn m g.
  Proof.
    intros L H f c IC. destruct (H f c IC) as (A & B & C). split; [exact A|]. split; [eapply SummOKn_level; eauto|].
    intros s0 G0. eapply GG_level; eauto.
  Qed.

  Lemma GIn_transfer n g g' :
    (forall f c, In c (rcc g' f) -> In c (rcc g f)) ->
    (forall f blk s, genv (tpre g f blk) s -> genv (tpre g' f blk) s) ->
    (forall f blk s, genv (tpost g f blk) s -> genv (tpost g' f blk) s) ->
    (forall h s, SP g h s -> SP g' h s) ->
    GIn n g -> GIn n g'.
  Proof.
    intros HC H1 H2 H3 H f c IC. destruct (H f c (HC f c IC)) as (A & B & C).
    split; [exact A|]. split; [exact B|]. intros s0 G0. eapply GG_mono; [exact H1|exact H2|exact H3|]. apply C, G0.
  Qed.
  Lemma GIn_ext n g g' : r_g g' = r_g g -> keys (fx g') = keys (fx g) -> GIn n g -> GIn n g'.
  Proof.
    intros E EK. apply GIn_transfer; unfold rcc, tpre, tpost; rewrite ?E; auto.
    apply SP_ext; [unfold stk; rewrite E; reflexivity|exact EK].
  Qed.

  (* ---------------------------------------------------------------- small facts *)
  Lemma NoDup_snoc (l : list nat) x : NoDup l -> ~ In x l -> NoDup (l ++ [x]).
  Proof.
    intros ND N. induction l as [|a r IH]; cbn [app]; [constructor; [intros []|constructor]|].
    inversion ND as [|? ? NA ND']; subst. constructor.
    - intros I. apply in_app_or in I. destruct I as [I|[I|[]]]; [contradiction|]. apply N. left. symmetry. exact I.
    - apply IH; [exact ND'|]. intros I. apply N. right. exact I.
  Qed.
  Lemma last_indep (l : list nat) : forall b d d', last (b :: l) d = last (b :: l) d'.
  Proof. induction l as [|c r IH]; intros b d d'; [reflexivity|]. cbn [last] in *. apply (IH c). Qed.
  Lemma last_cons (K2 : list nat) f d : last (f :: K2) d = last K2 f.
  Proof. destruct K2 as [|b r]; [reflexivity|]. cbn [last]. apply (last_indep r b). Qed.
  Lemma last_mid (K1 K2 : list nat) f d : last (K1 ++ f :: K2) d = last K2 f.
  Proof.
    induction K1 as [|a r IH]; cbn [app]; [apply last_cons|].
    rewrite last_cons, <- IH. destruct r as [|c r']; cbn [app]; apply last_indep.
  Qed.
  Lemma last_snoc (K : list nat) x d : last (K ++ [x]) d = x.
  Proof. rewrite last_mid. reflexivity. Qed.
  Lemma keys_nil (t : fixtab) : keys t = [] -> t = [].
  Proof. destruct t; [reflexivity|discriminate]. Qed.

  (* the function on top of the stack is below no other one *)
  Lemma top_not_below K f k : NoDup (K ++ [f]) -> belowb (K ++ [f]) f k = true -> False.
  Proof.
    intros ND B. destruct (belowb_in _ _ _ B) as (_ & Ik & N).
    apply in_app_or in Ik. destruct Ik as [Ik|[Ik|[]]]; [|congruence].
    apply in_split in Ik. destruct Ik as (K1 & K2 & ->). rewrite <- app_assoc in *. cbn [app] in *.
    rewrite belowb_after in B; [discriminate|exact ND|]. apply in_or_app. right. left. reflexivity.
  Qed.
  Lemma CleanTop_last_nokeys g K f : stk g = K ++ [f] -> NoDup (stk g) -> CleanTop g f -> keys (fx g) = [].
  Proof.
    intros ES ND [_ B]. destruct (keys (fx g)) as [|k r] eqn:E; [reflexivity|]. exfalso.
    specialize (B k (or_introl eq_refl)). rewrite ES in *. eapply top_not_below; eauto.
  Qed.
  Lemma Top_nokeys_clean g h : keys (fx g) = [] -> Top g h -> CleanTop g h.
  Proof. intros E T. split; [exact T|]. rewrite E. intros k []. Qed.

  Notation propagate' := (propagate cgwto wset recset).
  Notation stabilized' := (stabilized cgwto recset).

  (* a function whose analysis started from top was not given its calling context *)
  Lemma Top_not_propagate g g' f : stk g' = stk g ++ [f] -> keys (fx g') = keys (fx g) -> stk g <> [] ->
    ~ In f (stk g) -> (forall k, In k (keys (fx g)) -> In k (stk g)) ->
    Top g' f -> propagate' g f = false.
  Proof.
    intros ES EK NE NI KS (A & B & C & D). unfold propagate.
    rewrite (proj2 (nmem_spec f recset) B). cbn [negb].
    rewrite (proj2 (nmem_false f wset) C).
    unfold nestof, cur_entry in D. fold (stk g') in D. rewrite ES, hd_app in D by exact NE.
    unfold cur_entry. fold (stk g).
    destruct (nesting (cgwto (hd 0 (stk g))) f) as [hs|]; [|reflexivity].
    destruct (forallb (fun h => fix_mem h (r_fix g)) hs) eqn:FB; [|reflexivity].
    exfalso. apply D. intros m Im. rewrite forallb_forall in FB. specialize (FB m Im).
    apply fix_mem_spec in FB. split; [rewrite EK; exact FB|]. apply belowb_last; [apply KS; exact FB|exact NI].
  Qed.

  (* a function found on the stack whose fixpoint is not running started from top *)
  Lemma onstack_Top g fcur f : SIc g fcur -> HeadsIn g -> cg_edge p fcur f ->
    In f (stk g) -> ~ In f (keys (fx g)) -> Top g f.
  Proof.
    intros S HI CE Istk NK. destruct (si_last _ _ S) as [K EK].
    assert (Rc : Reach fcur) by (apply (si_reach _ _ S); rewrite EK; apply in_or_app; right; left; reflexivity).
    assert (NW : ~ In f wset) by (intros FW; apply NK, HI; assumption).
    split; [exact Istk|]. split; [|split; [exact NW|]].
    - apply REC; [eapply Reach_edge; eauto|]. destruct (stack_path g fcur f S Istk) as [->|P].
      + apply t_step. exact CE.
      + eapply t_trans; [exact P|apply t_step; exact CE].
    - destruct (nestof g f) as [hs|] eqn:NE; [|exact I]. intros ALL.
      pose proof Istk as I'. apply in_split in I'. destruct I' as (K1 & K2 & ES).
      pose proof (si_chain _ _ S) as CH. pose proof (si_nodup _ _ S) as ND. rewrite ES in CH, ND.
      assert (EL : last K2 f = fcur).
      { rewrite <- (last_mid K1 K2 f 0), <- ES, EK. apply last_snoc. }
      assert (RE : reach (cur_entry g) f).
      { unfold cur_entry. fold (stk g). rewrite ES. destruct K1 as [|e0 K1']; cbn [app hd]; [apply rt_refl|].
        cbn [app] in CH. eapply chain_reach; [exact CH|]. right. apply in_or_app. right. left. reflexivity. }
      destruct (NEST (cur_entry g) f hs K2 (si_ent _ _ S) NE NW RE (chain_suffix _ _ CH)) as (m & Im & IK2).
      { rewrite EL. exact CE. }
      destruct (ALL m Im) as [_ B]. rewrite ES, belowb_after in B; [discriminate|exact ND|exact IK2].
  Qed.

  (* a function outside the recursive set reaches no function of the call stack *)
  Lemma nonrec_unreach g fcur f h : SIc g fcur -> cg_edge p fcur f -> ~ In f recset ->
    In h (stk g) -> reach f h -> False.
  Proof.
    intros S CE NR I R. destruct (si_last _ _ S) as [K EK].
    assert (Rc : Reach fcur) by (apply (si_reach _ _ S); rewrite EK; apply in_or_app; right; left; reflexivity).
    apply NR. apply REC; [eapply Reach_edge; eauto|].
    eapply reach_path_r; [exact R|]. destruct (stack_path g fcur h S I) as [->|P].
    - apply t_step. exact CE.
    - eapply t_trans; [exact P|apply t_step; exact CE].
  Qed.

  Lemma rstep_pop f g g2 : rstep (r_lift (push f) g) g2 -> rstep g (r_lift pop g2).
  Proof.
    intros [[A1 A2 A3 A4 A5] B C]. constructor; [|exact B|exact C].
    constructor; cbn; auto. rewrite A5. cbn. apply removelast_last.
  Qed.
  Lemma rstep_pop_add f g g2 c : rstep (r_lift (push f) g) g2 ->
    rstep g (r_lift (fun g0 => add_ctx None g0 f c) (r_lift pop g2)).
  Proof.
    intros [A B C]. constructor; [|exact B|exact C]. cbn. apply pop_add_step. exact A.
  Qed.

  (* ---------------------------------------------------------------- specification of analyze_function *)
  Definition cpre_of (f : nat) (entry : env) (tp : nat -> env) : env := if nmem f wset then tp 0 else entry.

  Definition rspec (td : nat -> env -> rgst -> (nat -> env) * (nat -> env) * rgst) : Prop :=
    forall f entry g,
      (~ In f (keys (fx g)) -> rstep g (snd (td f entry g))) /\
      (rerr (snd (td f entry g)) = false -> f < length p -> SIc g f -> HeadsInX g f -> ~ In f (keys (fx g)) ->
       forall n, GIn n g ->
         GIn n (snd (td f entry g)) /\
         (forall s, genv entry s -> genv (cpre_of f entry (fst (fst (td f entry g)))) s) /\
         forall A, FinA A (reach f) (snd (td f entry g)) -> AssV n A (reach f) g ->
           (forall s0 s1 x, genv (cpre_of f entry (fst (fst (td f entry g)))) s0 -> xfun p (S n) f s0 s1 ->
                            f_exit (get_fn p f) = Some x -> genv (snd (fst (td f entry g)) x) s1) /\
           (forall s0, genv (cpre_of f entry (fst (fst (td f entry g)))) s0 ->
                       GG p n (tpre (snd (td f entry g))) (tpost (snd (td f entry g)))
                          (PR (reach f) A (snd (td f entry g))) f s0)).

  Definition Cv (n fcur : nat) (A : nat -> store -> Prop) (g : rgst) (h : nat) (s : store) : Prop :=
    GG p n (tpre g) (tpost g) (PR (reach fcur) A g) h s \/ PR (reach fcur) A g h s.

  Lemma Cv_mono n fcur A g g' :
    (forall f blk s, genv (tpre g f blk) s -> genv (tpre g' f blk) s) ->
    (forall f blk s, genv (tpost g f blk) s -> genv (tpost g' f blk) s) ->
    (forall h s, PR (reach fcur) A g h s -> PR (reach fcur) A g' h s) ->
    forall h s, Cv n fcur A g h s -> Cv n fcur A g' h s.
  Proof.
    intros H1 H2 H3 h s [X|X]; [left; eapply GG_mono; eauto|right; auto].
  Qed.

  Section Spec.
    Variable td : nat -> env -> rgst -> (nat -> env) * (nat -> env) * rgst.
    Hypothesis TD : rspec td.

    Notation trc := (rtr_call p voff None exact_reuse cgwto wset recset td).

    Lemma rtr_call_step outs f ins e g : rstep g (snd (trc outs f ins e g)).
    Proof.
      unfold rtr_call. destruct (e_is_bot e); [apply rstep_refl|].
      destruct (find _ _); [apply rstep_refl|].
      destruct (fix_find f (r_fix g)) as [[en ex]|] eqn:FF.
      - cbn [snd]. constructor; cbn; [apply gstep_refl|apply keys_set|].
        intros h E X H. destruct (Nat.eq_dec h f) as [->|N].
        + unfold fx in H. rewrite FF in H. inversion H; subst. eexists. split.
          * apply fix_find_set_same. eapply fix_find_some; eauto.
          * intros s Gs. apply e_join_sound. right. exact Gs.
        + exists E. split; [rewrite fix_find_set_other by exact N; exact H|auto].
      - destruct (nmem f (g_stack (r_g g))); [apply rstep_refl|].
        cbn [snd]. destruct (TD f (if propagate' g f then
                                     callee_entry voff outs ins (f_ins (get_fn p f)) (f_outs (get_fn p f)) e
                                   else e_top) (r_lift (push f) g)) as [ST _].
        apply fix_find_none in FF. specialize (ST FF).
        destruct (stabilized' _ f); [apply rstep_pop_add; exact ST|apply (rstep_pop f); exact ST].
    Qed.

    Lemma rtr_call_sound n A fcur outs f ins e g :
      istmt_wfb p voff (get_fn p fcur) (ICall outs f ins) = true -> cg_edge p fcur f ->
      FinA A (reach fcur) (snd (trc outs f ins e g)) -> GIn n g -> SIc g fcur -> HeadsIn g ->
      GIn n (snd (trc outs f ins e g)) /\
      (AssV n A (reach fcur) g -> forall a, genv e a ->
        (forall s0, bind_ins (f_ins (get_fn p f)) ins a s0 -> Cv n fcur A (snd (trc outs f ins e g)) f s0) /\
        (forall b, gstmt p (xfun p n) (ICall outs f ins) a b -> genv (fst (trc outs f ins e g)) b)).
    Proof.
      intros W CE FN GI0 SI HI.
      destruct (call_wf _ _ _ _ _ _ W) as (Lf & Li & Lo & NDo & Bi & Bo).
      destruct (fn_wf p voff WF f Lf) as (NDf & Bf & _).
      set (fi := f_ins (get_fn p f)) in *. set (fo := f_outs (get_fn p f)) in *.
      set (ce := if propagate' g f then callee_entry voff outs ins fi fo e else e_top).
      assert (RF : reach fcur f) by (apply rt_step; exact CE).
      assert (CEs : forall a s0, genv e a -> bind_ins fi ins a s0 -> genv ce s0).
      { intros a s0 Ga B. unfold ce. destruct (propagate' g f); [|apply genv_top].
        eapply (chk_call_entry p voff WF); eauto. }
      assert (EX : forall sum a b, genv e a -> gstmt p (xfun p n) (ICall outs f ins) a b ->
                     (forall s0 s1, bind_ins fi ins a s0 -> xfun p n f s0 s1 -> genv sum s1) ->
                     genv (cont voff outs ins fi fo e (e_project sum (fi ++ fo))) b).
      { intros sum a b Ga X HS. inversion X as [|outs' g' ins' a' s0 s1 b' B XF Hb]; subst.
        apply (cont_sound voff outs ins fi fo NDf Li Lo NDo Bf Bi Bo e sum a s1 b Ga).
        - eapply HS; eauto.
        - intros f0 y J. rewrite (exec_fun_frame p voff WF f s0 s1 (xfun_exec p n _ _ _ XF) Lf) by (eapply in_combine_l; eauto).
          apply (Forall2_combine _ _ _ _ _ B J).
        - exact Hb. }
      destruct (si_last _ _ SI) as [K0 EK0].
      assert (NE0 : stk g <> []) by (rewrite EK0; intros E0; destruct K0; discriminate).
      unfold rtr_call in *. fold fi fo in FN |- *. fold ce in FN |- *.
      destruct (e_is_bot e) eqn:EB.
      { split; [exact GI0|]. intros _ a Ga. rewrite (genv_not_bot _ _ Ga) in EB. discriminate. }
      destruct (find (fun c => is_subsumed c ce (exact_reuse && negb (nmem f wset))) (g_cc (r_g g) f)) as [c|] eqn:FD.
      { (* a stored summary is reused *)
        apply find_some in FD. destruct FD as [IC SUB]. apply is_subsumed_leq in SUB.
        cbn [fst snd] in *. split; [exact GI0|]. intros _ a Ga.
        destruct (GI0 f c IC) as (_ & (sum & EQ & SS) & CC). split.
        - intros s0 B. left. eapply GG_mono; [| | |apply CC]; auto.
          + intros h s. apply SP_PR.
          + eapply e_leq_sound; [exact SUB|]. eapply CEs; eauto.
        - intros b X. rewrite EQ. apply (EX sum a b Ga X). intros s0 s1 B XF.
          apply (SS s0 s1); [|exact XF]. eapply e_leq_sound; [exact SUB|]. eapply CEs; eauto. }
      destruct (fix_find f (r_fix g)) as [[en ex]|] eqn:FF.
      { (* the fixpoint of f is running *)
        cbn [fst snd] in *.
        set (g' := r_setfix (fix_set f (e_join ce en, ex) (r_fix g)) g) in *.
        assert (IKf : In f (keys (fx g))) by (eapply fix_find_some; eauto).
        assert (EKS : keys (fx g') = keys (fx g)) by apply keys_set.
        split; [apply (GIn_ext n g g'); [reflexivity|exact EKS|exact GI0]|].
        intros AV a Ga.
        assert (AF : forall s0, bind_ins fi ins a s0 -> A f s0).
        { intros s0 B. destruct FN as [_ FA]. apply (FA f (e_join ce en) ex); [|exact RF|].
          - unfold g', fx. cbn. apply fix_find_set_same. exact IKf.
          - apply e_join_sound. left. eapply CEs; eauto. }
        split.
        - intros s0 B. right. right. right. right. split; [exact RF|]. split; [rewrite EKS; exact IKf|auto].
        - intros b X. apply (EX ex a b Ga X). intros s0 s1 B XF.
          apply (AV f en ex FF RF s0 s1); auto. }
      destruct (nmem f (g_stack (r_g g))) eqn:NM.
      { (* f is on the call stack *)
        apply nmem_spec in NM. cbn [fst snd] in *.
        assert (TP : Top g f).
        { eapply onstack_Top; eauto. apply fix_find_none. exact FF. }
        split; [exact GI0|]. intros _ a Ga. split.
        - intros s0 B. right. right. right. left. split; [exact RF|exact TP].
        - intros b X. apply (EX e_top a b Ga X). intros. apply genv_top. }
      (* the callee is analysed *)
      apply nmem_false in NM. fold (stk g) in NM.
      apply fix_find_none in FF. fold (fx g) in FF.
      set (gp := r_lift (push f) g) in *.
      destruct (TD f ce gp) as [ST SPEC]. specialize (ST FF).
      set (r := td f ce gp) in *. cbn [fst snd] in *.
      set (g1 := r_lift pop (snd r)) in *.
      set (cexit0 := match f_exit (get_fn p f) with Some x => snd (fst r) x | None => EBot end) in *.
      set (cpre := cpre_of f ce (fst (fst r))).
      set (cnew := mkCtx (if nmem f wset then fst (fst r) 0 else ce) (e_project cexit0 (fi ++ fo)) true) in *.
      set (g2 := if stabilized' g1 f then r_lift (fun g0 => add_ctx None g0 f cnew) g1 else g1) in *.
      assert (ESp : stk gp = stk g ++ [f]) by reflexivity.
      assert (ESr : stk (snd r) = stk g ++ [f]) by (rewrite (rstep_stk _ _ ST); exact ESp).
      assert (EKr : keys (fx (snd r)) = keys (fx g)) by (rewrite (rs_keys _ _ ST); reflexivity).
      assert (ES1 : stk g1 = stk g).
      { unfold g1, stk. cbn. fold (stk (snd r)). rewrite ESr. apply removelast_last. }
      assert (EK1 : keys (fx g1) = keys (fx g)) by exact EKr.
      assert (ES2 : stk g2 = stk g) by (unfold g2; destruct (stabilized' g1 f); exact ES1).
      assert (EF2 : fx g2 = fx (snd r)) by (unfold g2; destruct (stabilized' g1 f); reflexivity).
      assert (T2a : forall f0 blk, tpre g2 f0 blk = tpre (snd r) f0 blk) by (intros; unfold g2; destruct (stabilized' g1 f); reflexivity).
      assert (T2b : forall f0 blk, tpost g2 f0 blk = tpost (snd r) f0 blk) by (intros; unfold g2; destruct (stabilized' g1 f); reflexivity).
      assert (ER : rerr (snd r) = false).
      { destruct FN as [FE _]. unfold g2 in FE. destruct (stabilized' g1 f); exact FE. }
      assert (Rc : Reach fcur) by (apply (si_reach _ _ SI); rewrite EK0; apply in_or_app; right; left; reflexivity).
      assert (KS : forall k, In k (keys (fx g)) -> In k (stk g)) by (intros k Ik; apply (si_keys _ _ SI k Ik)).
      assert (SIp : SIc gp f).
      { constructor.
        - rewrite ESp. apply NoDup_snoc; [apply (si_nodup _ _ SI)|exact NM].
        - exists (stk g). exact ESp.
        - intros h Ih. rewrite ESp in Ih. apply in_app_or in Ih. destruct Ih as [Ih|[<-|[]]].
          + apply (si_reach _ _ SI h Ih).
          + eapply Reach_edge; eauto.
        - rewrite ESp, EK0. apply chain_snoc; [rewrite <- EK0; apply (si_chain _ _ SI)|exact CE].
        - apply (si_knodup _ _ SI).
        - intros h Ih. destruct (si_keys _ _ SI h Ih) as [X Y]. split; [exact X|]. rewrite ESp. apply in_or_app. left. exact Y.
        - rewrite ESp, hd_app by exact NE0. apply (si_ent _ _ SI). }
      assert (HXp : HeadsInX gp f).
      { intros h Ih HW N. rewrite ESp in Ih. apply in_app_or in Ih. destruct Ih as [Ih|[Ih|[]]]; [|congruence].
        apply HI; assumption. }
      assert (GIp : GIn n gp).
      { apply (GIn_transfer n g gp); auto. intros h s [X|X]; [left; exact X|right].
        eapply CleanTop_grow; eauto. }
      destruct (SPEC ER Lf SIp HXp FF n GIp) as (GI1 & SUBE & COND).
      fold cpre in SUBE, COND.
      assert (NDr : NoDup (stk (snd r))) by (rewrite ESr, <- ESp; apply (si_nodup _ _ SIp)).
      (* a promise of f itself is discharged by its analysis from top *)
      assert (TOPALL : Top (snd r) f -> forall s, genv cpre s).
      { intros TP s. apply SUBE. unfold ce. rewrite (Top_not_propagate g (snd r) f ESr EKr NE0 NM KS TP). apply genv_top. }
      (* the clean promises of the state after the callee, without the one of f *)
      set (SPx := fun h (s : store) => Root h s \/ (CleanTop (snd r) h /\ h <> f)).
      assert (SPx2 : forall h s, SPx h s -> SP g2 h s).
      { intros h s [X|[X N]]; [left; exact X|right].
        apply (CleanTop_ext g1 g2); [rewrite ES2, ES1; reflexivity|rewrite EF2; reflexivity|].
        eapply (CleanTop_shrink (snd r) g1); eauto.
        - rewrite ESr, ES1. reflexivity.
        - intros k Ik. rewrite ES1. apply KS. rewrite <- EK1. exact Ik. }
      (* unconditional results when no fixpoint on which f depends is running *)
      assert (UNC : (nmem f recset = true -> keys (fx g) = []) ->
                    (forall s0 s1 x, genv cpre s0 -> xfun p (S n) f s0 s1 -> f_exit (get_fn p f) = Some x ->
                                     genv (snd (fst r) x) s1) /\
                    (forall s0, genv cpre s0 -> GG p n (tpre (snd r)) (tpost (snd r)) (SP (snd r)) f s0)).
      { intros HK.
        assert (NOK : forall h, In h (keys (fx g)) -> reach f h -> False).
        { intros h Ih Rh. destruct (nmem f recset) eqn:NR.
          - rewrite (HK eq_refl) in Ih. destruct Ih.
          - apply nmem_false in NR. eapply (nonrec_unreach g fcur f h); eauto. }
        destruct (COND (fun _ _ => True)) as [VAL COV].
        - split; [exact ER|]. intros; exact I.
        - intros h E X FFh Rh. exfalso. apply (NOK h); [|exact Rh]. eapply fix_find_some; eauto.
        - split; [exact VAL|]. intros s0 G0. eapply GG_mono; [| | |apply COV; exact G0]; auto.
          intros h s [X|[X|[[Rh TP]|(Rh & Ih & _)]]].
          + left. exact X.
          + right. exact X.
          + right. destruct (nmem f recset) eqn:NR.
            * apply Top_nokeys_clean; [rewrite EKr; apply HK; reflexivity|exact TP].
            * exfalso. apply nmem_false in NR. destruct TP as (Ih & Br & _).
              rewrite ESr in Ih. apply in_app_or in Ih. destruct Ih as [Ih|[Ih|[]]].
              -- eapply (nonrec_unreach g fcur f h); eauto.
              -- subst h. contradiction.
          + exfalso. rewrite EKr in Ih. eapply NOK; eauto. }
      (* the clean promise of f is cut *)
      assert (CUT1 : forall h s, GG p n (tpre (snd r)) (tpost (snd r)) (SP (snd r)) h s ->
                                 GG p n (tpre (snd r)) (tpost (snd r)) SPx h s).
      { intros h s X.
        apply (GG_cut p n (tpre (snd r)) (tpost (snd r)) SPx (fun h' (_ : store) => h' = f /\ CleanTop (snd r) f)).
        - intros h' s' [-> CT].
          pose proof (CleanTop_last_nokeys (snd r) (stk g) f ESr NDr CT) as NK0. rewrite EKr in NK0.
          destruct (UNC (fun _ => NK0)) as [_ COV].
          eapply GG_mono; [| | |apply COV; apply TOPALL; exact (proj1 CT)]; auto.
          intros h0 s0 [Y|Y]; [left; left; exact Y|].
          destruct (Nat.eq_dec h0 f) as [->|N0]; [right; split; [reflexivity|exact CT]|left; right; split; assumption].
        - eapply GG_mono; [| | |exact X]; auto.
          intros h0 s0 [Y|Y]; [left; left; exact Y|].
          destruct (Nat.eq_dec h0 f) as [->|N0]; [right; split; [reflexivity|exact Y]|left; right; split; assumption]. }
      assert (GIg1 : GIn n g1).
      { intros f' c IC. destruct (GI1 f' c IC) as (L' & SO & CC). split; [exact L'|]. split; [exact SO|].
        intros s0 G0. eapply GG_mono; [| | |apply CUT1, CC, G0]; auto.
        intros h s [X|[X N]]; [left; exact X|right].
        eapply (CleanTop_shrink (snd r) g1); eauto.
        - rewrite ESr, ES1. reflexivity.
        - intros k Ik. rewrite ES1. apply KS. rewrite <- EK1. exact Ik. }
      split.
      - (* the invariant *)
        unfold g2. destruct (stabilized' g1 f) eqn:STB; [|exact GIg1].
        unfold stabilized in STB.
        destruct (fix_mem f (r_fix g1)) eqn:FM; [discriminate|].
        destruct (nmem f recset && negb (fix_empty (r_fix g1))) eqn:RE; [discriminate|]. clear STB.
        assert (HK : nmem f recset = true -> keys (fx g) = []).
        { intros NR. rewrite NR in RE. cbn [andb] in RE. apply negb_false_iff in RE.
          apply fix_empty_keys in RE. rewrite <- EK1. exact RE. }
        destruct (UNC HK) as [VAL COV].
        intros f' c IC. cbn in IC. unfold fupd in IC.
        assert (OLD : In c (rcc g1 f') -> f' < length p /\ SummOKn n f' c /\
                      forall s0, genv (c_pre c) s0 ->
                        GG p n (tpre (r_lift (fun g0 => add_ctx None g0 f cnew) g1))
                           (tpost (r_lift (fun g0 => add_ctx None g0 f cnew) g1))
                           (SP (r_lift (fun g0 => add_ctx None g0 f cnew) g1)) f' s0).
        { intros IC'. destruct (GIg1 f' c IC') as (L' & SO & CC). split; [exact L'|]. split; [exact SO|].
          intros s0 G0. eapply GG_mono; [| | |apply CC, G0]; auto. }
        destruct (Nat.eqb_spec f' f) as [->|N]; [|exact (OLD IC)].
        apply in_app_or in IC. destruct IC as [IC|[<-|[]]]; [exact (OLD IC)|].
        split; [exact Lf|]. split.
        + exists cexit0. split; [reflexivity|]. intros s0 s1 G0 XF.
          destruct (gfrom_exit p _ _ _ _ _ (xfun_S p n _ _ _ XF : xfun p (S n) f s0 s1)) as [x Ex].
          unfold cexit0. rewrite Ex. apply (VAL s0 s1 x); [exact G0|apply xfun_S; exact XF|exact Ex].
        + intros s0 G0. eapply GG_mono; [| | |apply CUT1, COV, G0]; auto.
      - (* the conditional results *)
        intros AV a Ga.
        assert (FINf : FinA A (reach f) (snd r)).
        { destruct FN as [_ FA]. split; [exact ER|]. intros h E X FFh Rh. apply (FA h E X).
          - rewrite EF2. exact FFh.
          - eapply rt_trans; [exact RF|exact Rh]. }
        assert (AVf : AssV n A (reach f) gp).
        { intros h E X FFh Rh. apply (AV h E X FFh). eapply rt_trans; [exact RF|exact Rh]. }
        destruct (COND A FINf AVf) as [VAL COV].
        split.
        + intros s0 B. left.
          set (Px := fun h (s : store) =>
                 Root h s \/ (CleanTop (snd r) h /\ h <> f) \/ (reach f h /\ Top (snd r) h /\ h <> f) \/
                 (reach f h /\ In h (keys (fx (snd r))) /\ A h s)).
          assert (SPLIT : forall h s, PR (reach f) A (snd r) h s -> Px h s \/ (h = f /\ Top (snd r) f)).
          { intros h s [X|[X|[[Rh TP]|X]]].
            - left. left. exact X.
            - destruct (Nat.eq_dec h f) as [->|N0]; [right; split; [reflexivity|exact (proj1 X)]|left; right; left; split; assumption].
            - destruct (Nat.eq_dec h f) as [->|N0]; [right; split; [reflexivity|exact TP]|left; right; right; left; split; [exact Rh|split; [exact TP|exact N0]]].
            - left. right. right. right. exact X. }
          assert (G1 : GG p n (tpre (snd r)) (tpost (snd r)) Px f s0).
          { apply (GG_cut p n (tpre (snd r)) (tpost (snd r)) Px (fun h' (_ : store) => h' = f /\ Top (snd r) f)).
            - intros h' s' [-> TP]. eapply GG_mono; [| | |apply COV; apply TOPALL; exact TP]; auto.
            - eapply GG_mono; [| | |apply COV; apply SUBE; eapply CEs; eauto]; auto. }
          eapply GG_mono; [| | |exact G1].
          * intros f0 blk s. rewrite T2a. auto.
          * intros f0 blk s. rewrite T2b. auto.
          * intros h s [X|[[X N0]|[(Rh & TP & N0)|(Rh & Ih & Ah)]]].
            -- left. exact X.
            -- right. left. destruct (SPx2 h s (or_intror (conj X N0))) as [Y|Y]; [|exact Y].
               apply (CleanTop_ext g1 g2); [rewrite ES2, ES1; reflexivity|rewrite EF2; reflexivity|].
               eapply (CleanTop_shrink (snd r) g1); eauto.
               ++ rewrite ESr, ES1. reflexivity.
               ++ intros k Ik. rewrite ES1. apply KS. rewrite <- EK1. exact Ik.
            -- right. right. left. split; [eapply rt_trans; [exact RF|exact Rh]|].
               apply (Top_ext g1 g2); [rewrite ES2, ES1; reflexivity|rewrite EF2; reflexivity|].
               eapply (Top_shrink (snd r) g1); eauto. rewrite ESr, ES1. reflexivity.
            -- right. right. right. split; [eapply rt_trans; [exact RF|exact Rh]|]. rewrite EF2. auto.
        + intros b X. apply (EX cexit0 a b Ga X). intros s0 s1 B XF.
          destruct (gfrom_exit p _ _ _ _ _ (xfun_S p n _ _ _ XF : xfun p (S n) f s0 s1)) as [x Ex].
          unfold cexit0. rewrite Ex. apply (VAL s0 s1 x); [|apply xfun_S; exact XF|exact Ex].
          apply SUBE. eapply CEs; eauto.
    Qed.

    (* ---------------------------------------------------------------- blocks *)
    Lemma Cv_step n fcur A g g' : rstep g g' -> forall h s, Cv n fcur A g h s -> Cv n fcur A g' h s.
    Proof.
      intros S. apply Cv_mono.
      - intros f0 blk s. apply (gs_pre _ _ (rs_base _ _ S)).
      - intros f0 blk s. apply (gs_post _ _ (rs_base _ _ S)).
      - apply PR_ext; [apply (rstep_stk _ _ S)|apply (rs_keys _ _ S)].
    Qed.

    Lemma rtr_istmt_step st e g : rstep g (snd (rtr_istmt trc st e g)).
    Proof. destruct st as [s|outs f ins]; cbn [rtr_istmt snd]; [apply rstep_refl|apply rtr_call_step]. Qed.
    Lemma rtr_iblock_step : forall bl e g, rstep g (snd (rtr_iblock trc bl e g)).
    Proof.
      induction bl as [|st r IH]; intros e g; cbn [rtr_iblock]; [apply rstep_refl|].
      eapply rstep_trans; [apply rtr_istmt_step|apply IH].
    Qed.

    Lemma rtr_istmt_sound n A fcur st e g : stmt_ok p voff fcur st ->
      FinA A (reach fcur) (snd (rtr_istmt trc st e g)) -> GIn n g -> SIc g fcur -> HeadsIn g ->
      GIn n (snd (rtr_istmt trc st e g)) /\
      (AssV n A (reach fcur) g -> forall a, genv e a ->
        (forall outs f ins s0, st = ICall outs f ins -> bind_ins (f_ins (get_fn p f)) ins a s0 ->
                               Cv n fcur A (snd (rtr_istmt trc st e g)) f s0) /\
        (forall b, gstmt p (xfun p n) st a b -> genv (fst (rtr_istmt trc st e g)) b)).
    Proof.
      intros [W CE] FN GI0 SI HI. destruct st as [s|outs f ins]; cbn [rtr_istmt fst snd] in *.
      - split; [exact GI0|]. intros _ a Ga. split; [intros; discriminate|].
        intros b X. inversion X; subst. cbn in W. apply andb_true_iff in W. destruct W as [W _].
        eapply tr_stmt_sound; eauto. apply stmt_wfb_sound. exact W.
      - destruct (rtr_call_sound n A fcur outs f ins e g W (CE _ _ _ eq_refl) FN GI0 SI HI) as [GI1 H].
        split; [exact GI1|]. intros AV a Ga. destruct (H AV a Ga) as [H1 H2]. split; [|exact H2].
        intros outs' f' ins' s0 E. inversion E; subst. apply H1.
    Qed.

    Lemma rtr_iblock_sound n A fcur : forall bl e g, (forall st, In st bl -> stmt_ok p voff fcur st) ->
      FinA A (reach fcur) (snd (rtr_iblock trc bl e g)) -> GIn n g -> SIc g fcur -> HeadsIn g ->
      GIn n (snd (rtr_iblock trc bl e g)) /\
      (AssV n A (reach fcur) g -> forall a, genv e a ->
        (forall l1 outs g0 ins l2 mid s0, bl = l1 ++ ICall outs g0 ins :: l2 -> gblock p (xfun p n) l1 a mid ->
           bind_ins (f_ins (get_fn p g0)) ins mid s0 -> Cv n fcur A (snd (rtr_iblock trc bl e g)) g0 s0) /\
        (forall b, gblock p (xfun p n) bl a b -> genv (fst (rtr_iblock trc bl e g)) b)).
    Proof.
      induction bl as [|st r IH]; intros e g OK FN GI0 SI HI; cbn [rtr_iblock] in *.
      - split; [exact GI0|]. intros _ a Ga. split.
        + intros l1 outs g0 ins l2 mid s0 E. destruct l1; discriminate.
        + intros b X. inversion X; subst. exact Ga.
      - set (q := rtr_istmt trc st e g) in *.
        pose proof (rtr_iblock_step r (fst q) (snd q)) as STr.
        pose proof (rtr_istmt_step st e g) as STq. fold q in STq.
        destruct (rtr_istmt_sound n A fcur st e g (OK st (or_introl eq_refl)) (FinA_down _ _ _ _ STr FN) GI0 SI HI) as [GI1 HS].
        fold q in GI1, HS.
        destruct (IH (fst q) (snd q) (fun st' I => OK st' (or_intror I)) FN GI1
                     (SIc_step _ _ _ STq SI) (HeadsIn_step _ _ STq HI)) as [GI2 HB].
        split; [exact GI2|]. intros AV a Ga. destruct (HS AV a Ga) as [HS1 HS2].
        pose proof (HB (AssV_step _ _ _ _ _ STq AV)) as HB'. split.
        + intros l1 outs g0 ins l2 mid s0 E XB B. destruct l1 as [|st' l1'].
          * cbn [app] in E. inversion E; subst. inversion XB; subst.
            apply (Cv_step _ _ _ _ _ STr). eapply HS1; eauto.
          * cbn [app] in E. inversion E; subst. inversion XB as [|? ? ? m ? XS XR]; subst.
            destruct (HB' m (HS2 m XS)) as [HB1 _]. eapply HB1; eauto.
        + intros b X. inversion X as [|? ? ? m ? XS XR]; subst.
          destruct (HB' m (HS2 m XS)) as [_ HB2]. apply HB2. exact XR.
    Qed.

    (* ---------------------------------------------------------------- the body of a function *)
    Notation body f := (fun (en : env) (g : rgst) =>
      srun env rgst itv_ops (fun blk e g => rtr_iblock trc (fn_block (get_fn p f) blk) e g)
           (fn_preds (get_fn p f)) (nest_of (wtos f)) 0 delay desc efuel (wtos f) en g).

    Lemma body_step f en g st : body f en g = Some st -> rstep g (se_g env rgst st).
    Proof.
      intros RUN.
      exact (srun_step env rgst itv_ops _ rstep rstep_refl rstep_trans
               (fun blk a g1 => rtr_iblock_step _ a g1) _ _ _ _ _ _ _ _ _ _ RUN).
    Qed.

    Lemma body_sound f en g st : body f en g = Some st ->
      rerr (se_g env rgst st) = false -> f < length p -> SIc g f -> HeadsIn g ->
      forall n, GIn n g ->
        GIn n (se_g env rgst st) /\
        forall A, FinA A (reach f) (se_g env rgst st) -> AssV n A (reach f) g ->
          (forall blk s, IPren p n f (genv en) blk s ->
                         genv (se_pre env rgst st blk) s /\ CallsCovn p n (Cv n f A (se_g env rgst st)) f blk s) /\
          (forall blk s, IPostn p n f (genv en) blk s -> genv (se_post env rgst st blk) s).
    Proof.
      intros RUN ER Lf SI HI n GI0.
      destruct (wto_ok p voff WF wtos WTO f Lf) as (WN & WE & WS).
      destruct (fn_wf p voff WF f Lf) as (_ & _ & _ & _ & Wb).
      set (an := fun (blk : nat) (e : env) (g : rgst) => rtr_iblock trc (fn_block (get_fn p f) blk) e g) in *.
      assert (AST : forall blk a g1, rstep g1 (snd (an blk a g1))) by (intros; apply rtr_iblock_step).
      assert (MAIN : forall A, FinA A (reach f) (se_g env rgst st) ->
                GIn n (se_g env rgst st) /\
                (AssV n A (reach f) g ->
                 (forall blk s, IPren p n f (genv en) blk s ->
                                genv (se_pre env rgst st blk) s /\ CallsCovn p n (Cv n f A (se_g env rgst st)) f blk s) /\
                 (forall blk s, IPostn p n f (genv en) blk s -> genv (se_post env rgst st blk) s))).
      { intros A FN.
        set (TH := AssV n A (reach f) g).
        set (GIx := fun g1 : rgst => GIn n g1 /\ SIc g1 f /\ HeadsIn g1 /\ (TH -> AssV n A (reach f) g1)).
        set (EffS := fun (blk : nat) (s : store) (g1 : rgst) => TH -> CallsCovn p n (Cv n f A g1) f blk s).
        set (bst := fun (blk : nat) (s s' : store) => TH /\ bsn p n f blk s s').
        assert (EFM : forall blk s g1 g2, rstep g1 g2 -> EffS blk s g1 -> EffS blk s g2).
        { intros blk s g1 g2 S12 H T l1 outs g0 ins l2 mid s0 E XB B.
          eapply Cv_step; [exact S12|]. eapply H; eauto. }
        assert (ANS : forall blk a g1, FinA A (reach f) (snd (an blk a g1)) -> GIx g1 ->
                  GIx (snd (an blk a g1)) /\
                  forall s, genv a s -> EffS blk s (snd (an blk a g1)) /\
                                        forall s', bst blk s s' -> genv (fst (an blk a g1)) s').
        { intros blk a g1 FN1 (G1 & S1 & H1 & AV1).
          assert (OKB : forall st0, In st0 (fn_block (get_fn p f) blk) -> stmt_ok p voff f st0).
          { intros st0 I0. split; [exact (Wb blk st0 I0)|]. intros outs f' ins ->. exists blk, outs, ins. exact I0. }
          destruct (rtr_iblock_sound n A f (fn_block (get_fn p f) blk) a g1 OKB FN1 G1 S1 H1) as [G2 H].
          split.
          - split; [exact G2|]. split; [eapply SIc_step; eauto|]. split; [eapply HeadsIn_step; eauto|].
            intros T. eapply AssV_step; [apply AST|apply AV1; exact T].
          - intros s Gs. split.
            + intros T l1 outs g0 ins l2 mid s0 E XB B. destruct (H (AV1 T) s Gs) as [X _]. eapply X; eauto.
            + intros s' [T B]. destruct (H (AV1 T) s Gs) as [_ X]. apply X. exact B. }
        destruct (srun_sound env rgst store genv itv_ops
                    (fun a b s H => e_join_sound a b s (or_introl H))
                    (fun a b s H => e_join_sound a b s (or_intror H))
                    e_meet_sound e_narrow_sound
                    (fun a b s L Gs => e_leq_sound a b s L Gs)
                    an bst rstep rstep_refl rstep_trans AST
                    (FinA A (reach f)) (FinA_down A (reach f))
                    GIx EffS EFM ANS
                    (fn_preds (get_fn p f)) (nest_of (wtos f)) 0 delay desc (genv en) efuel en
                    (fun s H => H) (wtos f) WN WE WS g st RUN FN
                    (conj GI0 (conj SI (conj HI (fun T => T)))))
          as (_ & (GI1 & _) & HP & HQ).
        split; [exact GI1|]. intros AV.
        destruct (RP_mono env store genv (bsn p n f) bst (fn_preds (get_fn p f)) 0 (genv en) (genv en)) as [M1 M2].
        { intros blk s s' B. split; [exact AV|exact B]. }
        { auto. }
        split.
        - intros blk s R. destruct (HP blk s (M1 _ _ R)) as [X Y]. split; [exact X|exact (Y AV)].
        - intros blk s R. apply HQ, M2, R. }
      split.
      - apply (MAIN (fun _ _ => True)). split; [exact ER|]. intros; exact I.
      - intros A FN AV. apply (MAIN A FN). exact AV.
    Qed.

    Lemma GG_intro2 n tp tq (P P1 : nat -> store -> Prop) f (S : store -> Prop) :
      (forall h s, P1 h s -> P h s \/ (h = f /\ S s)) ->
      (forall s0, S s0 -> CtxCovn p n tp tq (fun h s => GG p n tp tq P1 h s \/ P1 h s) f (eq s0)) ->
      forall s0, S s0 -> GG p n tp tq P f s0.
    Proof.
      intros H1 H2 s0 I0. exists (fun h s => GG p n tp tq P1 h s \/ (h = f /\ S s)).
      split; [|right; split; [reflexivity|exact I0]].
      assert (CV : forall g0 s1, GG p n tp tq P1 g0 s1 \/ P1 g0 s1 ->
                     (GG p n tp tq P1 g0 s1 \/ g0 = f /\ S s1) \/ P g0 s1).
      { intros g0 s1 [Y|Y]; [left; left; exact Y|]. destruct (H1 _ _ Y) as [Z|Z]; [right; exact Z|left; right; exact Z]. }
      intros h s [X|[-> X]].
      - eapply CtxCovn_mono; [| | | |exact (GG_cl p n tp tq P1 h s X)]; auto.
      - eapply CtxCovn_mono; [| | | |exact (H2 s X)]; auto.
    Qed.

    (* from the invariants of the body of f to the coverage of its entry states *)
    Lemma body_cov n f A1 A g1 g2 (tp tq : nat -> env) (S : store -> Prop) :
      (forall blk s, IPren p n f S blk s -> genv (tp blk) s /\ CallsCovn p n (Cv n f A1 g1) f blk s) ->
      (forall blk s, IPostn p n f S blk s -> genv (tq blk) s) ->
      (forall blk s, genv (tp blk) s -> genv (tpre g2 f blk) s) ->
      (forall blk s, genv (tq blk) s -> genv (tpost g2 f blk) s) ->
      (forall f0 blk s, genv (tpre g1 f0 blk) s -> genv (tpre g2 f0 blk) s) ->
      (forall f0 blk s, genv (tpost g1 f0 blk) s -> genv (tpost g2 f0 blk) s) ->
      (forall h s, PR (reach f) A1 g1 h s -> PR (reach f) A g2 h s \/ (h = f /\ S s)) ->
      forall s0, S s0 -> GG p n (tpre g2) (tpost g2) (PR (reach f) A g2) f s0.
    Proof.
      intros HP HQ T1 T2 T3 T4 HPR.
      apply (GG_intro2 n (tpre g2) (tpost g2) (PR (reach f) A g2) (PR (reach f) A1 g1) f S HPR).
      intros s0 I0. destruct (IPn_mono p n f (eq s0) S) as [M1 M2]; [intros s <-; exact I0|].
      split.
      - intros blk s R. destruct (HP blk s (M1 _ _ R)) as [X Y]. split; [apply T1, X|].
        intros l1 outs g0 ins l2 mid s1 E1 E2 E3. destruct (Y l1 outs g0 ins l2 mid s1 E1 E2 E3) as [Z|Z].
        + left. eapply GG_mono; [exact T3|exact T4| |exact Z]. auto.
        + right. exact Z.
      - intros blk s R. apply T2, HQ, M2, R.
    Qed.

    Notation riter' f := (riter p delay (body f) f).

    Lemma riter_spec f : forall k it en g K X0,
      keys (fx g) = K ++ [f] -> ~ In f K -> fix_find f (fx g) = Some (en, X0) ->
      (gstep (r_g g) (r_g (snd (riter' f k it en g))) /\
       keys (fx (snd (riter' f k it en g))) = K /\
       (forall h E X, h <> f -> fix_find h (fx g) = Some (E, X) ->
          exists E', fix_find h (fx (snd (riter' f k it en g))) = Some (E', X) /\ forall s, genv E s -> genv E' s)) /\
      (f < length p -> In f wset ->
       rerr (snd (riter' f k it en g)) = false -> SIc g f -> HeadsIn g -> forall n, GIn n g ->
       GIn n (snd (riter' f k it en g)) /\
       (forall s, genv en s -> genv (fst (fst (riter' f k it en g)) 0) s) /\
       forall A, FinA A (reach f) (snd (riter' f k it en g)) -> AssV n A (fun h => reach f h /\ h <> f) g ->
         (forall s0 s1 x, genv (fst (fst (riter' f k it en g)) 0) s0 -> xfun p (S n) f s0 s1 ->
                          f_exit (get_fn p f) = Some x -> genv (snd (fst (riter' f k it en g)) x) s1) /\
         (forall s0, genv (fst (fst (riter' f k it en g)) 0) s0 ->
                     GG p n (tpre (snd (riter' f k it en g))) (tpost (snd (riter' f k it en g)))
                        (PR (reach f) A (snd (riter' f k it en g))) f s0)).
    Proof.
      induction k as [|k IH]; intros it en g K X0 EK NK FF.
      - (* out of fuel *)
        cbn [riter fst snd]. split.
        + split; [apply set_err_step|]. split; [cbn; apply keys_erase_last; assumption|].
          intros h E X N H. exists E. split; [cbn; rewrite fix_find_erase_other by exact N; exact H|auto].
        + intros _ _ ER. cbn in ER. discriminate.
      - cbn [riter].
        destruct (body f en g) as [st|] eqn:RUN.
        2:{ cbn [fst snd]. split.
            + split; [apply set_err_step|]. split; [cbn; apply keys_erase_last; assumption|].
              intros h E X N H. exists E. split; [cbn; rewrite fix_find_erase_other by exact N; exact H|auto].
            + intros _ _ ER. cbn in ER. discriminate. }
        pose proof (body_step f en g st RUN) as ST1.
        set (tp := se_pre env rgst st) in *. set (tq := se_post env rgst st) in *. set (g1 := se_g env rgst st) in *.
        assert (EK1 : keys (fx g1) = K ++ [f]) by (rewrite (rs_keys _ _ ST1); exact EK).
        destruct (rs_fix _ _ ST1 f en X0 FF) as (new_en & FF1 & SUB1).
        unfold fx in FF1. rewrite FF1.
        set (new_ex := match f_exit (get_fn p f) with Some x => tq x | None => EBot end).
        destruct (e_leq new_en en && e_leq new_ex X0) eqn:LEQ.
        + (* the fixpoint is reached *)
          apply andb_true_iff in LEQ. destruct LEQ as [LEQ1 LEQ2].
          set (g2 := r_lift (join_tables f tp tq) (r_setfix (fix_erase f (r_fix g1)) g1)).
          cbn [fst snd].
          assert (EK2 : keys (fx g2) = K) by (cbn; apply keys_erase_last; assumption).
          assert (FO2 : forall h, h <> f -> fix_find h (fx g2) = fix_find h (fx g1)).
          { intros h N. cbn. apply fix_find_erase_other. exact N. }
          split.
          * split; [eapply gstep_trans; [exact (rs_base _ _ ST1)|apply join_tables_step]|]. split; [exact EK2|].
            intros h E X N H. destruct (rs_fix _ _ ST1 h E X H) as (E' & H' & S'). exists E'.
            split; [rewrite FO2 by exact N; exact H'|exact S'].
          * intros Lf FW ER SI HI n GI0.
            assert (ER1 : rerr g1 = false) by exact ER.
            assert (TP0 : tp 0 = en).
            { destruct (HEADV f FW Lf) as [r EW]. destruct (wto_ok p voff WF wtos WTO f Lf) as (WN & _ & _).
              rewrite EW in RUN, WN. cbn [flat cnodes app] in WN. apply NoDup_cons_iff in WN.
              exact (srun_entry_pre env rgst itv_ops _ _ _ 0 delay desc efuel r en g st (proj1 WN) RUN). }
            destruct (body_sound f en g st RUN ER1 Lf SI HI n GI0) as [GI1 _].
            assert (T3 : forall f0 blk s, genv (tpre g1 f0 blk) s -> genv (tpre g2 f0 blk) s).
            { intros f0 blk s Gs. cbn. unfold fupd. destruct (Nat.eqb_spec f0 f) as [->|N]; auto.
              apply e_join_sound. left. exact Gs. }
            assert (T4 : forall f0 blk s, genv (tpost g1 f0 blk) s -> genv (tpost g2 f0 blk) s).
            { intros f0 blk s Gs. cbn. unfold fupd. destruct (Nat.eqb_spec f0 f) as [->|N]; auto.
              apply e_join_sound. left. exact Gs. }
            assert (KSUB : forall k0, In k0 (keys (fx g2)) -> In k0 (keys (fx g1))).
            { intros k0 I0. rewrite EK2 in I0. rewrite EK1. apply in_or_app. left. exact I0. }
            split; [|split].
            -- apply (GIn_transfer n g1 g2); auto.
               intros h s [X|X]; [left; exact X|right]. apply (CleanTop_fewer g1 g2); [reflexivity|exact KSUB|exact X].
            -- rewrite TP0. auto.
            -- intros A FN AV. rewrite TP0.
               set (A' := fun h (s : store) => if Nat.eqb h f then genv en s else A h s).
               assert (FN1 : FinA A' (reach f) g1).
               { split; [exact ER1|]. intros h E X H Rh s Gs. unfold A'.
                 destruct (Nat.eqb_spec h f) as [->|N].
                 - unfold fx in H. rewrite FF1 in H. inversion H; subst. eapply e_leq_sound; eauto.
                 - destruct FN as [_ FA]. apply (FA h E X); [rewrite FO2 by exact N; exact H|exact Rh|exact Gs]. }
               assert (AVJ : forall j, j <= n -> AssV j A' (reach f) g).
               { induction j as [|j IHj]; intros Lj h E X H Rh s0 s1 As Xs; [destruct Xs|].
                 unfold A' in As. destruct (Nat.eqb_spec h f) as [->|N].
                 - rewrite FF in H. inversion H; subst E X.
                   destruct (body_sound f en g st RUN ER1 Lf SI HI j (GIn_level n j g ltac:(lia) GI0)) as [_ BS].
                   destruct (BS A' FN1 (IHj ltac:(lia))) as [_ HQ].
                   cbn [xfun] in Xs.
                   destruct (gfrom_intra p j (genv en) f 0 s0 s1 Xs (IPren_init p j f _ s0 As)) as (x & Ex & R).
                   eapply e_leq_sound; [exact LEQ2|]. unfold new_ex. rewrite Ex. apply HQ. exact R.
                 - apply (AV h E X H (conj Rh N) s0 s1 As). eapply xfun_le; [|exact Xs]. lia. }
               destruct (body_sound f en g st RUN ER1 Lf SI HI n GI0) as [_ BS].
               destruct (BS A' FN1 (AVJ n (le_n n))) as [HP HQ].
               split.
               ++ intros s0 s1 x G0 XF Ex. cbn [xfun] in XF.
                  destruct (gfrom_intra p n (genv en) f 0 s0 s1 XF (IPren_init p n f _ s0 G0)) as (x' & Ex' & R).
                  rewrite Ex in Ex'. inversion Ex'; subst x'. apply HQ. exact R.
               ++ apply (body_cov n f A' A g1 g2 tp tq (genv en) HP HQ); auto.
                  ** intros blk s Gs. cbn. unfold fupd. rewrite Nat.eqb_refl. apply e_join_sound. right. exact Gs.
                  ** intros blk s Gs. cbn. unfold fupd. rewrite Nat.eqb_refl. apply e_join_sound. right. exact Gs.
                  ** intros h s [X|[X|[[Rh TP]|(Rh & Ih & Ah)]]].
                     --- left. left. exact X.
                     --- left. right. left. apply (CleanTop_fewer g1 g2); [reflexivity|exact KSUB|exact X].
                     --- left. right. right. left. split; [exact Rh|]. apply (Top_fewer g1 g2); [reflexivity|exact KSUB|exact TP].
                     --- unfold A' in Ah. destruct (Nat.eqb_spec h f) as [->|N].
                         +++ right. split; [reflexivity|exact Ah].
                         +++ left. right. right. right. split; [exact Rh|]. split; [|exact Ah].
                             rewrite EK2. rewrite EK1 in Ih. apply in_app_or in Ih. destruct Ih as [Ih|[Ih|[]]]; [exact Ih|congruence].
        + (* another iteration *)
          set (ne := if delay <=? it then e_widen en new_en else e_join new_en en).
          set (nx := if delay <=? it then e_widen X0 new_ex else e_join new_ex X0).
          set (g' := r_setfix (fix_set f (ne, nx) (r_fix g1)) g1).
          assert (IKf : In f (keys (fx g1))) by (rewrite EK1; apply in_or_app; right; left; reflexivity).
          assert (EK' : keys (fx g') = K ++ [f]) by (cbn; rewrite keys_set; exact EK1).
          assert (FF' : fix_find f (fx g') = Some (ne, nx)) by (cbn; apply fix_find_set_same; exact IKf).
          assert (FO' : forall h, h <> f -> fix_find h (fx g') = fix_find h (fx g1)).
          { intros h N. cbn. apply fix_find_set_other. exact N. }
          destruct (IH (S it) ne g' K nx EK' NK FF') as [[S1 [S2 S3]] SEM].
          split.
          * split; [eapply gstep_trans; [exact (rs_base _ _ ST1)|exact S1]|]. split; [exact S2|].
            intros h E X N H. destruct (rs_fix _ _ ST1 h E X H) as (E' & H' & SB').
            destruct (S3 h E' X N) as (E'' & H'' & SB''); [rewrite FO' by exact N; exact H'|].
            exists E''. split; [exact H''|auto].
          * intros Lf FW ER SI HI n GI0.
            assert (ER1 : rerr g1 = false).
            { destruct (rerr g1) eqn:E1; auto. pose proof (gs_err _ _ S1) as X. cbn in X. unfold rerr in E1, ER.
              rewrite (X E1) in ER. discriminate. }
            destruct (body_sound f en g st RUN ER1 Lf SI HI n GI0) as [GI1 _].
            assert (SI' : SIc g' f).
            { pose proof (SIc_step _ _ _ ST1 SI) as [A1 A2 A3 A4 A5 A6 A7]. constructor; auto.
              - rewrite EK', <- EK1. exact A5.
              - intros h Ih. rewrite EK', <- EK1 in Ih. exact (A6 h Ih). }
            assert (HI' : HeadsIn g').
            { intros h Ih HW. rewrite EK', <- EK1. apply (HeadsIn_step _ _ ST1 HI h Ih HW). }
            assert (GI' : GIn n g').
            { apply (GIn_ext n g1 g'); [reflexivity|rewrite EK', EK1; reflexivity|exact GI1]. }
            destruct (SEM Lf FW ER SI' HI' n GI') as (GI2 & SUB2 & COND).
            split; [exact GI2|]. split.
            -- intros s Gs. apply SUB2. unfold ne. destruct (delay <=? it).
               ++ apply e_widen_sound. left. exact Gs.
               ++ apply e_join_sound. right. exact Gs.
            -- intros A FN AV. apply (COND A FN).
               intros h E X H [Rh N] s0 s1 As Xs. rewrite FO' in H by exact N.
               assert (IKh : In h (keys (fx g))) by (rewrite <- (rs_keys _ _ ST1); eapply fix_find_some; eauto).
               destruct (fix_find_in _ _ IKh) as [[E0 X1] H0].
               destruct (rs_fix _ _ ST1 h E0 X1 H0) as (E1 & H1 & _). rewrite H in H1. inversion H1; subst.
               apply (AV h E0 X1 H0 (conj Rh N) s0 s1 As Xs).
    Qed.
  End Spec.


  (* ---------------------------------------------------------------- analyze_function *)
  Notation rf := (rfun p voff None exact_reuse delay desc efuel ifuel wtos cgwto wset recset).

  Lemma r_err_step g : rstep g (r_err_set g).
  Proof. apply rstep_lift. apply set_err_step. Qed.

  Lemma rfun_spec : forall d, rspec (rf d).
  Proof.
    induction d as [|d IH]; intros f entry g.
    - cbn [rfun fst snd]. split; [intros _; apply r_err_step|]. intros ER. cbn in ER. discriminate.
    - cbn [rfun].
      set (bd := fun (en : env) (g0 : rgst) =>
                   srun env rgst itv_ops
                        (fun blk e g1 => rtr_iblock (rtr_call p voff None exact_reuse cgwto wset recset (rf d))
                                                    (fn_block (get_fn p f) blk) e g1)
                        (fn_preds (get_fn p f)) (nest_of (wtos f)) 0 delay desc efuel (wtos f) en g0).
      destruct (nmem f wset) eqn:FWb.
      + (* a function of the widening set *)
        apply nmem_spec in FWb.
        destruct (fix_find f (r_fix g)) as [[en0 ex0]|] eqn:FF.
        { split; [intros NK|intros _ _ _ _ NK]; exfalso; apply NK; eapply fix_find_some; eauto. }
        apply fix_find_none in FF. fold (fx g) in FF.
        set (g0 := r_setfix (r_fix g ++ [(f, (entry, EBot))]) g).
        assert (EK0 : keys (fx g0) = keys (fx g) ++ [f]) by apply keys_app.
        assert (FF0 : fix_find f (fx g0) = Some (entry, EBot)) by (apply fix_find_app_same; exact FF).
        destruct (riter_spec (rf d) IH f ifuel 0 entry g0 (keys (fx g)) EBot EK0 FF FF0) as [[S1 [S2 S3]] SEM].
        fold bd in S1, S2, S3, SEM |- *.
        set (r := riter p delay bd f ifuel 0 entry g0) in *.
        split.
        * intros _. constructor; [exact S1|exact S2|].
          intros h E X H.
          assert (N : h <> f) by (intros ->; apply FF; eapply fix_find_some; eauto).
          apply (S3 h E X N). unfold g0, fx. cbn. rewrite fix_find_app_other by exact N. exact H.
        * intros ER Lf SI HX NK n GI0.
          destruct (si_last _ _ SI) as [K EK].
          assert (SI0 : SIc g0 f).
          { destruct SI as [A1 A2 A3 A4 A5 A6 A7]. constructor; auto.
            - rewrite EK0. apply NoDup_snoc; assumption.
            - intros h Ih. rewrite EK0 in Ih. apply in_app_or in Ih. destruct Ih as [Ih|[<-|[]]]; [exact (A6 h Ih)|].
              split; [exact FWb|]. change (stk g0) with (stk g). rewrite EK. apply in_or_app. right. left. reflexivity. }
          assert (HI0 : HeadsIn g0).
          { intros h Ih HW. rewrite EK0. destruct (Nat.eq_dec h f) as [->|N].
            - apply in_or_app. right. left. reflexivity.
            - apply in_or_app. left. apply HX; assumption. }
          assert (GIg0 : GIn n g0).
          { apply (GIn_transfer n g g0); auto. intros h s [X|X]; [left; exact X|right].
            eapply (CleanTop_insert g g0 f K); eauto. apply (si_nodup _ _ SI). }
          destruct (SEM Lf FWb ER SI0 HI0 n GIg0) as (GI2 & SUB2 & COND).
          unfold cpre_of. rewrite (proj2 (nmem_spec f wset) FWb).
          split; [exact GI2|]. split; [exact SUB2|].
          intros A FN AV. apply (COND A FN).
          intros h E X H [Rh N] s0 s1 As Xs. unfold g0, fx in H. cbn in H. rewrite fix_find_app_other in H by exact N.
          exact (AV h E X H Rh s0 s1 As Xs).
      + (* a function that is not iterated *)
        apply nmem_false in FWb.
        match goal with |- context [match ?X with Some _ => _ | None => _ end] => destruct X as [st|] eqn:RUN end.
        2:{ cbn [fst snd]. split; [intros _; apply r_err_step|]. intros ER. cbn in ER. discriminate. }
        cbn [fst snd].
        pose proof (body_step (rf d) IH f entry g st RUN) as ST1.
        set (tp := se_pre env rgst st) in *. set (tq := se_post env rgst st) in *. set (g1 := se_g env rgst st) in *.
        set (g2 := r_lift (join_tables f tp tq) g1).
        assert (ST2 : rstep g1 g2) by (apply rstep_lift; intros; apply join_tables_step).
        split; [intros _; eapply rstep_trans; eauto|].
        intros ER Lf SI HX NK n GI0.
        assert (HI : HeadsIn g).
        { intros h Ih HW. apply HX; auto. intros ->. contradiction. }
        assert (ER1 : rerr g1 = false) by exact ER.
        destruct (body_sound (rf d) IH f entry g st RUN ER1 Lf SI HI n GI0) as [GI1 BS].
        assert (T3 : forall f0 blk s, genv (tpre g1 f0 blk) s -> genv (tpre g2 f0 blk) s).
        { intros f0 blk s. apply (gs_pre _ _ (rs_base _ _ ST2)). }
        assert (T4 : forall f0 blk s, genv (tpost g1 f0 blk) s -> genv (tpost g2 f0 blk) s).
        { intros f0 blk s. apply (gs_post _ _ (rs_base _ _ ST2)). }
        unfold cpre_of. rewrite (proj2 (nmem_false f wset) FWb).
        split; [|split; [auto|]].
        * apply (GIn_transfer n g1 g2); auto.
        * intros A FN AV.
          destruct (BS A FN AV) as [HP HQ]. split.
          -- intros s0 s1 x G0 XF Ex. cbn [xfun] in XF.
             destruct (gfrom_intra p n (genv entry) f 0 s0 s1 XF (IPren_init p n f _ s0 G0)) as (x' & Ex' & R).
             rewrite Ex in Ex'. inversion Ex'; subst x'. apply HQ. exact R.
          -- apply (body_cov n f A A g1 g2 tp tq (genv entry) HP HQ); auto.
             ++ intros blk s Gs. cbn. unfold fupd. rewrite Nat.eqb_refl. apply e_join_sound. right. exact Gs.
             ++ intros blk s Gs. cbn. unfold fupd. rewrite Nat.eqb_refl. apply e_join_sound. right. exact Gs.
  Qed.
  End WithRoot.

  (* ---------------------------------------------------------------- run(init) *)
  Notation rf := (rfun p voff None exact_reuse delay desc efuel ifuel wtos cgwto wset recset).

  Definition RootOf (done : list nat) (init : env) : nat -> store -> Prop :=
    fun g0 s0 => In g0 done /\ genv init s0.

  Definition run_inv (init : env) (done : list nat) (g : rgst) : Prop :=
    (forall n, GIn (RootOf done init) n g) /\
    forall f n s0, In f done -> genv init s0 -> GG p n (tpre g) (tpost g) (RootOf done init) f s0.
  Definition Inv0 (g : rgst) : Prop := stk g = [] /\ keys (fx g) = [].

  Notation runf depth init := (fun g f => r_lift pop (snd (rf depth f init (r_lift (push f) g)))).

  Lemma SP_empty R g h s : stk g = [] -> SP R g h s -> R h s.
  Proof. intros E [X|[(I & _) _]]; [exact X|]. rewrite E in I. destruct I. Qed.

  Lemma run_one_struct depth init g f : Inv0 g ->
    Inv0 (runf depth init g f) /\ rstep (r_lift (push f) g) (snd (rf depth f init (r_lift (push f) g))).
  Proof.
    intros [ES EK].
    destruct (rfun_spec (fun _ _ => False) depth f init (r_lift (push f) g)) as [ST _].
    assert (NK : ~ In f (keys (fx (r_lift (push f) g)))) by (change (fx (r_lift (push f) g)) with (fx g); rewrite EK; intros []).
    specialize (ST NK). split; [|exact ST]. split.
    - unfold stk. cbn. fold (stk (snd (rf depth f init (r_lift (push f) g)))). rewrite (rstep_stk _ _ ST).
      unfold stk. cbn. fold (stk g). rewrite ES. reflexivity.
    - exact (eq_trans (rs_keys _ _ ST) EK).
  Qed.

  Lemma run_one depth init done g f :
    Inv0 g -> run_inv init done g -> f < length p -> Reach f -> Ent f -> (In f recset -> In f wset) ->
    rerr (runf depth init g f) = false -> run_inv init (f :: done) (runf depth init g f).
  Proof.
    intros [ES EK] [GI0 RC] Lf Rf Ef ENT FN.
    set (R := RootOf done init). set (R' := RootOf (f :: done) init).
    set (gp := r_lift (push f) g).
    destruct (rfun_spec R depth f init gp) as [_ SPEC].
    destruct (run_one_struct depth init g f (conj ES EK)) as [_ ST]. fold gp in ST.
    set (r := rf depth f init gp) in *.
    assert (ESp : stk gp = [f]) by (unfold gp, stk; cbn; fold (stk g); rewrite ES; reflexivity).
    assert (ESr : stk (snd r) = [f]) by (rewrite (rstep_stk _ _ ST); exact ESp).
    assert (EKr : keys (fx (snd r)) = []) by (rewrite (rs_keys _ _ ST); exact EK).
    assert (ER : rerr (snd r) = false) by exact FN.
    assert (SIp : SIc gp f).
    { constructor; rewrite ?ESp.
      - constructor; [intros []|constructor].
      - exists []. reflexivity.
      - intros h [<-|[]]. exact Rf.
      - exact I.
      - change (fx gp) with (fx g). rewrite EK. constructor.
      - change (fx gp) with (fx g). rewrite EK. intros h [].
      - exact Ef. }
    assert (HXp : HeadsInX gp f).
    { intros h Ih _ N. rewrite ESp in Ih. destruct Ih as [Ih|[]]. congruence. }
    assert (NKp : ~ In f (keys (fx gp))) by (change (fx gp) with (fx g); rewrite EK; intros []).
    assert (R'sub : forall h s, R h s -> R' h s) by (intros h s [X Y]; split; [right; exact X|exact Y]).
    assert (TR1 : forall f0 blk s, genv (tpre g f0 blk) s -> genv (tpre (snd r) f0 blk) s).
    { intros f0 blk s. apply (gs_pre _ _ (rs_base _ _ ST)). }
    assert (TR2 : forall f0 blk s, genv (tpost g f0 blk) s -> genv (tpost (snd r) f0 blk) s).
    { intros f0 blk s. apply (gs_post _ _ (rs_base _ _ ST)). }
    assert (NOTOP : forall h, Top (snd r) h -> False).
    { intros h (Ih & Br & NW & _). rewrite ESr in Ih. destruct Ih as [<-|[]]. apply NW, ENT, Br. }
    assert (NF : fx (snd r) = []) by (apply keys_nil; exact EKr).
    split.
    - intros n.
      assert (GIp : GIn R n gp).
      { apply (GIn_transfer R n g gp); auto. intros h s X. left. exact (SP_empty R g h s ES X). }
      destruct (SPEC ER Lf SIp HXp NKp n GIp) as (GI1 & _ & _).
      intros f' c IC. destruct (GI1 f' c IC) as (L' & SO & CC). split; [exact L'|]. split; [exact SO|].
      intros s0 G0. eapply GG_mono; [| | |apply CC, G0]; auto.
      intros h s [X|[TP _]]; [left; apply R'sub; exact X|exfalso; eapply NOTOP; eauto].
    - intros f' n s0 If G0.
      assert (GIp : GIn R n gp).
      { apply (GIn_transfer R n g gp); auto. intros h s X. left. exact (SP_empty R g h s ES X). }
      destruct (SPEC ER Lf SIp HXp NKp n GIp) as (_ & SUBE & COND).
      destruct If as [<-|If].
      + destruct (COND (fun _ _ => True)) as [_ COV].
        * split; [exact ER|]. intros; exact I.
        * intros h E X H. change (fx gp) with (fx g) in H. rewrite (keys_nil _ EK) in H. discriminate.
        * eapply GG_mono; [| | |apply COV, SUBE, G0]; auto.
          intros h s [X|[[TP _]|[[_ TP]|(_ & Ih & _)]]].
          -- apply R'sub. exact X.
          -- exfalso. eapply NOTOP; eauto.
          -- exfalso. eapply NOTOP; eauto.
          -- rewrite EKr in Ih. destruct Ih.
      + eapply GG_mono; [exact TR1|exact TR2|exact R'sub|]. apply RC; assumption.
  Qed.

  Lemma run_all depth init : forall l done g,
    Inv0 g -> (rerr g = false -> run_inv init done g) ->
    (forall f, In f l -> f < length p /\ Reach f /\ Ent f /\ (In f recset -> In f wset)) ->
    Inv0 (fold_left (runf depth init) l g) /\
    (rerr (fold_left (runf depth init) l g) = false -> run_inv init (rev l ++ done) (fold_left (runf depth init) l g)).
  Proof.
    induction l as [|f l IH]; intros done g I0 INV H; cbn [fold_left rev app]; [split; assumption|].
    destruct (run_one_struct depth init g f I0) as [I1 ST].
    rewrite <- app_assoc. cbn [app].
    apply IH; [exact I1| |intros f' I'; apply H; right; exact I'].
    intros FN. destruct (H f (or_introl eq_refl)) as (Lf & Rf & Ef & ENT).
    apply run_one; auto. apply INV.
    assert (E1 : rerr (snd (rf depth f init (r_lift (push f) g))) = false) by exact FN.
    exact (rstep_err _ _ ST E1).
  Qed.

  Theorem rec_run_sound_gen depth entries init :
    (forall f, In f entries -> f < length p /\ Reach f /\ Ent f /\ (In f recset -> In f wset)) ->
    let g := rec_run p voff None exact_reuse delay desc efuel ifuel wtos cgwto wset recset depth entries init in
    g_err (r_g g) = false ->
    forall Init : store -> Prop, (forall s, Init s -> genv init s) ->
    (forall f n s, IRPre p entries Init f n s -> genv (g_pre (r_g g) f n) s) /\
    (forall f n s, IRPost p entries Init f n s -> genv (g_post (r_g g) f n) s) /\
    (forall sm, In sm (g_summaries p (r_g g)) ->
       forall s0 s1, genv (s_pre sm) s0 -> exec_fun p (s_fn sm) s0 s1 -> genv (s_post sm) s1).
  Proof.
    intros HE g FN Init HI.
    assert (I0 : Inv0 rg0) by (split; reflexivity).
    assert (INV0 : rerr rg0 = false -> run_inv init [] rg0).
    { intros _. split; [intros n f c []|intros f n s0 []]. }
    destruct (run_all depth init entries [] rg0 I0 INV0 HE) as [[ES EK] INV].
    change (fold_left (runf depth init) entries rg0) with g in ES, EK, INV.
    specialize (INV FN). rewrite app_nil_r in INV. destruct INV as [GIf RC].
    set (R := RootOf (rev entries) init) in *.
    (* the promises of the finished entry functions are discharged *)
    assert (G0 : forall n f s, GG p n (tpre g) (tpost g) R f s -> GG p n (tpre g) (tpost g) (fun _ _ => False) f s).
    { intros n f s X. apply (GG_cut p n (tpre g) (tpost g) (fun _ _ => False) R).
      - intros f' s' [If Gs]. eapply GG_mono; [| | |apply (RC f' n s' If Gs)]; auto.
      - eapply GG_mono; [| | |exact X]; auto. }
    assert (COVn : forall n,
              (forall f blk s, GIRPre p (xfun p n) entries Init f blk s ->
                 exists s0, GG p n (tpre g) (tpost g) (fun _ _ => False) f s0 /\ IPren p n f (eq s0) blk s) /\
              (forall f blk s, GIRPost p (xfun p n) entries Init f blk s ->
                 exists s0, GG p n (tpre g) (tpost g) (fun _ _ => False) f s0 /\ IPostn p n f (eq s0) blk s)).
    { intros n. apply GIR_mutind.
      - intros f s If Is. exists s. split; [|apply IPren_init; reflexivity].
        apply G0. apply RC; [apply -> in_rev; exact If|apply HI; exact Is].
      - intros f q blk s E _ (s0 & C0 & R0). exists s0. split; [exact C0|]. eapply IPren_edge; eauto.
      - intros f blk s l1 outs g1 ins l2 m s1 _ (s0 & C0 & R0) EB X B.
        destruct (GG_cl p n _ _ _ f s0 C0) as [CA _]. destruct (CA blk s R0) as [_ CV].
        destruct (CV l1 outs g1 ins l2 m s1 EB X B) as [Y|[]].
        exists s1. split; [exact Y|apply IPren_init; reflexivity].
      - intros f blk s s' _ (s0 & C0 & R0) X. exists s0. split; [exact C0|]. eapply IPostn_step; eauto. }
    split; [|split].
    - intros f blk s X. destruct (proj1 (IR_strat p entries Init) f blk s X) as [n Xn].
      destruct (proj1 (COVn n) f blk s Xn) as (s0 & C0 & R0).
      destruct (GG_cl p n _ _ _ f s0 C0) as [CA _]. apply (CA blk s R0).
    - intros f blk s X. destruct (proj2 (IR_strat p entries Init) f blk s X) as [n Xn].
      destruct (proj2 (COVn n) f blk s Xn) as (s0 & C0 & R0).
      destruct (GG_cl p n _ _ _ f s0 C0) as [_ CB]. apply (CB blk s R0).
    - intros sm I s0 s1 Gs XF. unfold g_summaries in I. apply in_flat_map in I.
      destruct I as (f & _ & I). apply in_map_iff in I. destruct I as (c & <- & IC).
      cbn [s_fn s_pre s_post] in *.
      destruct (exec_fun_strat p _ _ _ XF) as [n Xn].
      destruct (GIf n f c IC) as (_ & (sum & EQ & SS) & _). rewrite EQ.
      apply (e_project_sound _ _ s1); [apply (SS s0 s1); auto|auto].
  Qed.
End Model.

(* ------------------------------------------------------------------ the executable side conditions *)
Fixpoint schain (g : graph) (l : list nat) : Prop :=
  match l with
  | a :: (b :: _) as r => In b (succs g a) /\ schain g r
  | _ => True
  end.

Lemma last_cons' (K : list nat) f d : last (f :: K) d = last K f.
Proof.
  destruct K as [|b r]; [reflexivity|]. cbn [last].
  revert b. induction r as [|c r IH]; intros b; [reflexivity|]. cbn [last] in *. apply (IH c).
Qed.

Lemma nest_ok1_sound g f hs : nest_ok1 g f hs = true ->
  forall K, schain g (f :: K) -> In f (succs g (last K f)) -> exists m, In m hs /\ In m K.
Proof.
  unfold nest_ok1.
  set (init := filter (fun v => negb (nmem v hs)) (succs g f)).
  set (R := closeN g hs (length g) init).
  intros H. repeat (apply andb_true_iff in H; destruct H as [H ?]).
  rename H into NH, H2 into NF, H1 into INIT, H0 into CL.
  apply negb_true_iff in NH, NF. apply nmem_false in NH, NF.
  rewrite forallb_forall in INIT, CL.
  assert (A : forall K a, (a = f \/ In a R) -> schain g (a :: K) -> (forall m, In m K -> ~ In m hs) ->
                          last K a = f \/ In (last K a) R).
  { induction K as [|b K' IH]; intros a Ha C NHS; [exact Ha|].
    destruct C as [E C']. rewrite last_cons'.
    assert (Nb : ~ In b hs) by (apply NHS; left; reflexivity).
    apply IH; [right| exact C'|intros m Im; apply NHS; right; exact Im].
    destruct Ha as [->|Ha].
    - apply nmem_spec, INIT. apply filter_In. split; [exact E|]. apply negb_true_iff, nmem_false. exact Nb.
    - specialize (CL a Ha). rewrite forallb_forall in CL. specialize (CL b E).
      apply orb_true_iff in CL. destruct CL as [X|X]; apply nmem_spec in X; [contradiction|exact X]. }
  intros K C E.
  destruct (existsb (fun m => nmem m hs) K) eqn:EX.
  - apply existsb_exists in EX. destruct EX as (m & Im & Hm). apply nmem_spec in Hm. exists m. split; assumption.
  - exfalso.
    assert (NHS : forall m, In m K -> ~ In m hs).
    { intros m Im Hm. assert (X : existsb (fun m => nmem m hs) K = true).
      { apply existsb_exists. exists m. split; [exact Im|apply nmem_spec; exact Hm]. }
      rewrite X in EX. discriminate. }
    destruct (A K f (or_introl eq_refl) C NHS) as [U|U].
    + rewrite U in E. apply NF, nmem_spec, INIT. apply filter_In. split; [exact E|].
      apply negb_true_iff, nmem_false. exact NH.
    + specialize (CL _ U). rewrite forallb_forall in CL. specialize (CL f E).
      apply orb_true_iff in CL. destruct CL as [X|X]; apply nmem_spec in X; contradiction.
Qed.

Lemma chain_schain p : forall l, chain p l -> schain (cg_graph p) l.
Proof.
  induction l as [|a r IH]; [intros _; exact I|]. destruct r as [|b r']; [intros _; exact I|].
  intros [E C]. split; [apply cg_edge_succs; exact E|apply IH; exact C].
Qed.

Lemma cg_edge_callee_lt p voff : iprog_wfb p voff = true -> forall a f, cg_edge p a f -> f < length p.
Proof.
  intros WF a f E. pose proof (cg_edge_lt p a f E) as La. destruct E as (n & outs & ins & I).
  destruct (fn_wf p voff WF a La) as (_ & _ & _ & _ & Wb).
  destruct (call_wf _ _ _ _ _ _ (Wb n _ I)) as (Lf & _). exact Lf.
Qed.

Lemma nest_okb_sound p voff cgwto wset entries : iprog_wfb p voff = true -> nest_okb p cgwto wset entries = true ->
  forall e f hs K, In e entries -> nesting (cgwto e) f = Some hs -> ~ In f wset -> reach p e f ->
    chain p (f :: K) -> cg_edge p (last K f) f -> exists m, In m hs /\ In m K.
Proof.
  intros WF H e f hs K Ie NE NW RE C E. unfold nest_okb in H. rewrite forallb_forall in H.
  assert (Lf : f < length p) by (eapply cg_edge_callee_lt; eauto).
  assert (He := H e Ie). rewrite forallb_forall in He.
  specialize (He f ltac:(apply in_seq; lia)). rewrite NE in He.
  apply orb_true_iff in He. destruct He as [X|X]; [apply nmem_spec in X; contradiction|].
  apply (nest_ok1_sound _ _ _ X K (chain_schain p _ C)). apply cg_edge_succs. exact E.
Qed.

(* ------------------------------------------------------------------ the theorems *)
Theorem td_rec_model_sound p voff exact_reuse delay desc efuel ifuel wtos cgwto wset recset depth entries init :
  iprog_wfb p voff = true ->
  (forall f, f < length p -> build (fn_graph (get_fn p f)) 0 = Some (wtos f)) ->
  (forall f, In f entries -> f < length p) ->
  (forall f, cg_reach p entries f -> cg_path p f f -> In f recset) ->
  let g := rec_run_checked p voff None exact_reuse delay desc efuel ifuel wtos cgwto wset recset depth entries init in
  g_err (r_g g) = false ->
  forall Init : store -> Prop, (forall s, Init s -> genv init s) ->
  (forall f n s, IRPre p entries Init f n s -> genv (g_pre (r_g g) f n) s) /\
  (forall f n s, IRPost p entries Init f n s -> genv (g_post (r_g g) f n) s) /\
  (forall sm, In sm (g_summaries p (r_g g)) ->
     forall s0 s1, genv (s_pre sm) s0 -> exec_fun p (s_fn sm) s0 s1 -> genv (s_post sm) s1).
Proof.
  intros WF WTO HL REC. unfold rec_run_checked.
  destruct (rec_cfg_okb p wtos cgwto wset recset entries) eqn:CFG; [|intros g FN; cbn in FN; discriminate].
  unfold rec_cfg_okb in CFG. apply andb_true_iff in CFG. destruct CFG as [CFG NEST].
  apply andb_true_iff in CFG. destruct CFG as [HV ENT].
  apply (rec_run_sound_gen p voff WF exact_reuse delay desc efuel ifuel wtos cgwto wset recset WTO)
    with (Reach := cg_reach p entries) (Ent := fun e => In e entries).
  - intros f FW _. unfold headv_okb in HV. rewrite forallb_forall in HV. specialize (HV f FW).
    destruct (wtos f) as [|[[|k]|h b] r]; try discriminate. exists r. reflexivity.
  - intros f g (e & I & P) E. exists e. split; [exact I|].
    eapply rt_trans; [exact P|apply rt_step; exact E].
  - exact REC.
  - intros e f hs K Ie. apply (nest_okb_sound p voff cgwto wset entries WF NEST e f hs K Ie).
  - intros f I. split; [apply HL, I|]. split; [exists f; split; [exact I|apply rt_refl]|]. split; [exact I|].
    intros IR. unfold ent_okb in ENT. rewrite forallb_forall in ENT. specialize (ENT f I).
    apply nmem_spec in IR. rewrite IR in ENT. cbn in ENT. apply nmem_spec. exact ENT.
Qed.

(* entries, call graph orderings, widening set and recursive set as the analyzer computes them *)
Theorem td_rec_model_sound_cfg p voff exact_reuse delay desc efuel ifuel wtos rs depth init :
  iprog_wfb p voff = true ->
  (forall f, f < length p -> build (fn_graph (get_fn p f)) 0 = Some (wtos f)) ->
  cg_recset p = Some rs ->
  let g := rec_run_checked p voff None exact_reuse delay desc efuel ifuel wtos (cg_wto p) (cg_wset p) rs depth
                           (cg_entries p) init in
  g_err (r_g g) = false ->
  forall Init : store -> Prop, (forall s, Init s -> genv init s) ->
  (forall f n s, IRPre p (cg_entries p) Init f n s -> genv (g_pre (r_g g) f n) s) /\
  (forall f n s, IRPost p (cg_entries p) Init f n s -> genv (g_post (r_g g) f n) s) /\
  (forall sm, In sm (g_summaries p (r_g g)) ->
     forall s0 s1, genv (s_pre sm) s0 -> exec_fun p (s_fn sm) s0 s1 -> genv (s_post sm) s1).
Proof.
  intros WF WTO RS. apply td_rec_model_sound; auto.
  - apply cg_entries_lt.
  - apply cg_recset_ok. exact RS.
Qed.
