(* BackwardSound.v — the backward transformers return necessary preconditions
   (property C11, statement and block level): if s takes a to b, b is described by the
   post-condition and a by the forward invariant supplied for s, then a is described by
   the result; in error mode a state that fails an assertion is in the result as well. *)
From Coq Require Import ZArith NArith List Bool Lia.
From CrabV Require Import Base.ZInf Scalar.Itv Scalar.ItvSound Ir.Syntax Ir.Cfg Dom.ItvEnv Dom.ItvEnvSound
     Dom.ItvDomain Dom.ItvDomainSound Dom.ItvSolverSound Ana.Transformer Ana.Backward.
Import ListNotations.
Local Open Scope Z_scope.

Arguments d_add : simpl never.
Arguments d_apply_arith : simpl never.

Lemma genv_ext e s s' : (forall k, s k = s' k) -> genv e s -> genv e s'.
Proof. intros E G. destruct e; simpl in *; auto. intros k. rewrite <- E. apply G. Qed.

Lemma eval_add_term c v ts s : eval_terms (le_add_term c v ts) s = c * s v + eval_terms ts s.
Proof.
  induction ts as [|[c' v'] r IH]; simpl.
  - destruct (Z.eqb_spec c 0); simpl; lia.
  - destruct (N.ltb v v').
    + destruct (Z.eqb_spec c 0); simpl; lia.
    + destruct (N.eqb_spec v v').
      * subst. destruct (Z.eqb_spec (c + c') 0); simpl; nia.
      * simpl. rewrite IH. lia.
Qed.

Lemma eval_sub_var e x s : eval_le (le_sub_var e x) s = eval_le e s - s x.
Proof. unfold eval_le, le_sub_var; simpl. rewrite eval_add_term. lia. Qed.

Lemma eval_terms_upd_notin ts x v s :
  existsb (fun p => N.eqb (snd p) x) ts = false -> eval_terms ts (upd s x v) = eval_terms ts s.
Proof.
  induction ts as [|[c w] r IH]; simpl; auto. intros H.
  apply orb_false_iff in H. destruct H as [H1 H2]. rewrite IH by auto.
  rewrite upd_other; auto. intros ->. rewrite N.eqb_refl in H1. discriminate.
Qed.

Lemma eval_le_upd_notin e x v s : le_mentions e x = false -> eval_le e (upd s x v) = eval_le e s.
Proof. unfold le_mentions, eval_le. intros H. rewrite eval_terms_upd_notin; auto. Qed.

(* side condition of the modelled backward assignment: the assigned variable does not occur
   on the right-hand side, and the constraint built by the code is in canonical form *)
Definition bwd_assign_ok (x : var) (e : linexp) : bool :=
  negb (le_mentions e x) && wf_lcb (mkLC EQ (le_sub_var e x)).

Theorem bwd_assign_sound fresh x e inv post a :
  bwd_assign_ok x e = true ->
  genv post (upd a x (eval_le e a)) -> genv inv a -> genv (bwd_assign fresh x e inv post) a.
Proof.
  intros OK GP GI. unfold bwd_assign_ok in OK. apply andb_true_iff in OK. destruct OK as [NM W].
  apply negb_true_iff in NM. unfold bwd_assign. rewrite (genv_not_bot _ _ GP). rewrite NM.
  apply e_meet_sound; auto.
  set (b := upd a x (eval_le e a)) in *.
  assert (G1 : genv (d_add [mkLC EQ (le_sub_var e x)] post) b).
  { apply d_add_sound; auto. intros c [<-|[]]. split; [apply wf_lcb_sound; auto|].
    unfold sat; simpl. rewrite eval_sub_var. unfold b. rewrite eval_le_upd_notin by auto.
    rewrite upd_same. lia. }
  apply (genv_ext _ (upd b x (a x))).
  - intros k. unfold b, upd. destruct (N.eqb_spec k x); subst; auto.
  - apply e_forget_sound; auto.
Qed.

Lemma forget_if_distinct_sound x y d s v :
  genv d s -> (x = y -> v = s x) -> genv (forget_if_distinct x y d) (upd s x v).
Proof.
  intros G H. unfold forget_if_distinct. destruct (N.eqb_spec x y).
  - apply (genv_ext _ s); auto. intros k. unfold upd. destruct (N.eqb_spec k x); subst; auto.
    symmetry. auto.
  - apply e_forget_sound; auto.
Qed.

Lemma wf_lcb_single c v k : c <> 0 -> wf_lc (mkLC INEQ (mkLE [(c, v)] k)).
Proof. intros. apply wf_single; auto. Qed.

Theorem bwd_apply_cst_sound op x y k inv post a v :
  arith_sem op (a y) k = Some v ->
  genv post (upd a x v) -> genv inv a -> genv (bwd_apply_cst op x y k inv post) a.
Proof.
  intros SEM GP GI. unfold bwd_apply_cst. rewrite (genv_not_bot _ _ GP).
  apply e_meet_sound; auto.
  remember (upd a x v) as b eqn:Eb.
  assert (BY : x <> y -> b y = a y) by (intros N; rewrite Eb; apply upd_other; auto).
  (* a is b with x restored (and y, when x = y) *)
  assert (BACK : forall d, genv d (upd b y (a y)) -> genv (forget_if_distinct x y d) a).
  { intros d G. apply (genv_ext _ (upd (upd b y (a y)) x (a x))).
    - intros k0. rewrite Eb. unfold upd. destruct (N.eqb_spec k0 x); subst; auto.
      destruct (N.eqb_spec k0 y); subst; auto.
    - apply forget_if_distinct_sound; auto. intros ->. rewrite upd_same. auto. }
  assert (FORG : genv (e_forget post x) a).
  { apply (genv_ext _ (upd b x (a x))).
    - intros k0. rewrite Eb. unfold upd. destruct (N.eqb_spec k0 x); subst; auto.
    - apply e_forget_sound; auto. }
  assert (BX : b x = v) by (rewrite Eb; apply upd_same).
  destruct op; simpl in SEM; auto.
  - (* add *) inversion SEM as [EV]; rewrite <- EV in *. apply BACK.
    apply d_apply_arith_sound; auto. simpl. rewrite BX. f_equal. lia.
  - (* sub *) inversion SEM as [EV]; rewrite <- EV in *. apply BACK.
    apply d_apply_arith_sound; auto. simpl. rewrite BX. f_equal. lia.
  - (* mul *) inversion SEM as [EV]; rewrite <- EV in *. destruct (Z.eqb_spec k 0); auto. apply BACK.
    apply d_apply_arith_sound; auto. simpl. rewrite BX.
    destruct (Z.eqb_spec k 0); [contradiction|]. f_equal. apply Z.quot_mul; auto.
  - (* sdiv *)
    destruct (Z.eqb_spec k 0) as [K0|K0]; [discriminate|]. inversion SEM as [EV]; rewrite <- EV in *. clear SEM EV.
    set (q := Z.quot (a y) k) in *.
    set (d1 := d_apply_arith OpMul y x (OCst k) post).
    assert (G1 : genv d1 (upd b y (q * k))).
    { apply d_apply_arith_sound; auto. simpl. rewrite BX. reflexivity. }
    set (r := (if k <? 0 then - k else k) - 1).
    assert (RR : Z.abs (a y - q * k) <= r).
    { pose proof (Z.quot_rem' (a y) k) as QR. destruct (rem_range (a y) k K0) as (AB & _ & _).
      fold q in QR. unfold r. destruct (k <? 0) eqn:E; [apply Z.ltb_lt in E|apply Z.ltb_ge in E]; lia. }
    apply BACK.
    destruct (0 <? r) eqn:RP.
    + apply Z.ltb_lt in RP.
      set (yi := iadd (e_at d1 y) (imk (Fin (- r)) (Fin r))).
      assert (GY : gamma yi (a y)).
      { replace (a y) with (q * k + (a y - q * k)) by lia. apply iadd_sound.
        - pose proof (e_at_sound d1 _ y G1) as X. rewrite upd_same in X. exact X.
        - apply gamma_imk. simpl. rewrite !Z.leb_le. lia. }
      assert (G3 : genv (e_forget d1 y) (upd b y (a y))).
      { apply (genv_ext _ (upd (upd b y (q * k)) y (a y))).
        - intros k0. unfold upd. destruct (N.eqb_spec k0 y); auto.
        - apply e_forget_sound; auto. }
      destruct GY as [GL GU].
      assert (G4 : genv (match lb yi with Fin l => d_add [mkLC INEQ (mkLE [(-1, y)] l)] (e_forget d1 y) | _ => e_forget d1 y end) (upd b y (a y))).
      { destruct (lb yi) as [| l |] eqn:EL; auto. apply d_add_sound; auto.
        intros c [<-|[]]. split; [apply wf_single; lia|].
        unfold sat, eval_le; cbn [lc_kind lc_exp eval_terms le_terms le_cst]. rewrite upd_same.
        simpl in GL. apply Z.leb_le in GL. lia. }
      destruct (ub yi) as [| u |] eqn:EU; auto. apply d_add_sound; auto.
      intros c [<-|[]]. split; [apply wf_single; lia|].
      unfold sat, eval_le; cbn [lc_kind lc_exp eval_terms le_terms le_cst]. rewrite upd_same.
      simpl in GU. apply Z.leb_le in GU. lia.
    + apply Z.ltb_ge in RP. assert (a y = q * k) by lia.
      apply (genv_ext _ (upd b y (q * k))); auto. intros k0. unfold upd. destruct (N.eqb k0 y); auto.
Qed.

(* statement-level theorem for the statements whose backward transformer is modelled
   without the self-referencing assignment and select cases *)
Definition bwd_stmt_ok (s : stmt) : bool :=
  match s with
  | SAssign x e => bwd_assign_ok x e
  | SArith op x y (OVar z) =>
    match op with
    | OpAdd => bwd_assign_ok x (le_var_plus_var y z)
    | OpSub => bwd_assign_ok x (le_var_sub_var y z)
    | _ => true
    end
  | SAssume c | SAssert c _ => wf_lcb c
  | SSelect _ _ _ _ => false
  | _ => true
  end.

Lemma eval_var_plus_var y z s : eval_le (le_var_plus_var y z) s = s y + s z.
Proof. unfold eval_le, le_var_plus_var; cbn [le_terms le_cst]. rewrite !eval_add_term. cbn [eval_terms]. lia. Qed.
Lemma eval_var_sub_var y z s : eval_le (le_var_sub_var y z) s = s y - s z.
Proof. unfold eval_le, le_var_sub_var; cbn [le_terms le_cst]. rewrite !eval_add_term. cbn [eval_terms]. lia. Qed.

Lemma forget_back post x a v : genv post (upd a x v) -> genv (e_forget post x) a.
Proof.
  intros G. apply (genv_ext _ (upd (upd a x v) x (a x))).
  - intros k. unfold upd. destruct (N.eqb_spec k x); subst; auto.
  - apply e_forget_sound; auto.
Qed.

Theorem bwd_stmt_sound fresh good s inv post a b :
  bwd_stmt_ok s = true -> sstep s a b -> genv post b -> genv inv a ->
  genv (bwd_stmt fresh good s inv post) a.
Proof.
  intros OK ST GP GI. destruct s; simpl in *.
  - subst b. apply bwd_assign_sound; auto.
  - destruct ST as (v & SEM & ->).
    destruct op; try (eapply forget_back; eauto; fail); destruct z as [zv|k]; simpl in SEM;
      try (eapply bwd_apply_cst_sound; eauto; fail).
    + unfold bwd_apply_var. rewrite (genv_not_bot _ _ GP). inversion SEM; subst.
      apply bwd_assign_sound; auto. rewrite eval_var_plus_var. auto.
    + unfold bwd_apply_var. rewrite (genv_not_bot _ _ GP). inversion SEM; subst.
      apply bwd_assign_sound; auto. rewrite eval_var_sub_var. auto.
    + unfold bwd_apply_var. rewrite (genv_not_bot _ _ GP). apply e_meet_sound; auto. eapply forget_back; eauto.
    + unfold bwd_apply_var. rewrite (genv_not_bot _ _ GP). apply e_meet_sound; auto. eapply forget_back; eauto.
  - destruct ST as (v & _ & ->). eapply forget_back; eauto.
  - destruct ST as [S ->]. apply d_add_sound; auto. intros c' [<-|[]]. split; auto. apply wf_lcb_sound; auto.
  - destruct ST as [S ->]. destruct good.
    + apply d_add_sound; auto. intros c' [<-|[]]. split; auto. apply wf_lcb_sound; auto.
    + apply e_join_sound. left; auto.
  - destruct ST as (v & ->). eapply forget_back; eauto.
  - discriminate.
  - contradiction.
Qed.

(* error mode: a state in which the assertion fails is part of the precondition *)
Theorem bwd_assert_error_sound fresh c id inv post a :
  wf_lcb c = true -> ~ sat c a -> genv (bwd_stmt fresh false (SAssert c id) inv post) a.
Proof.
  intros W N. simpl. apply e_join_sound. right.
  apply d_add_sound; [|apply genv_top].
  intros c' [<-|[]]. split.
  - apply wf_lc_negate. apply wf_lcb_sound; auto.
  - apply lc_negate_spec; auto.
Qed.
