(* BackwardCheck.v — block-level necessary preconditions and a verified checker for
   backward precondition tables (property C11 at the CFG level): tables that are
   backward-inductive for the modelled transformer contain every state, consistent with the
   supplied forward invariants, from which some execution goes on to violate an assertion
   (error mode) / to reach the exit block in one of the final states (good mode). *)
From Coq Require Import ZArith NArith List Bool Arith Lia.
From CrabV Require Import Base.ZInf Scalar.Itv Ir.Syntax Ir.Cfg Dom.ItvEnv Dom.ItvEnvSound Dom.ItvDomain
     Dom.ItvDomainSound Ana.Transformer Ana.FwdItv Ana.Backward Ana.BackwardSound.
Import ListNotations.

Definition block_bwd_ok (bl : block) : bool := forallb (fun s => bwd_stmt_ok s && stmt_wfb s) bl.

Lemma bwd_block_cons fresh good s r inv post :
  bwd_block fresh good (s :: r) inv post =
  bwd_stmt fresh good s inv (bwd_block fresh good r (tr_stmt s inv) post).
Proof. reflexivity. Qed.

Theorem bwd_block_sound fresh good bl : forall inv post a b,
  block_bwd_ok bl = true -> bstep bl a b -> genv post b -> genv inv a ->
  genv (bwd_block fresh good bl inv post) a.
Proof.
  induction bl as [|s r IH]; intros inv post a b OK ST GP GI.
  - simpl in ST. subst. exact GP.
  - simpl in OK. apply andb_true_iff in OK. destruct OK as [OKs OKr].
    apply andb_true_iff in OKs. destruct OKs as [O1 O2].
    destruct ST as (m & S & B). rewrite bwd_block_cons.
    eapply bwd_stmt_sound; eauto.
    apply (IH _ _ m b); auto. eapply tr_stmt_sound; eauto. apply stmt_wfb_sound; auto.
Qed.

Theorem bwd_block_error_sound fresh bl : forall inv post a id,
  block_bwd_ok bl = true -> bfails bl a id -> genv inv a ->
  genv (bwd_block fresh false bl inv post) a.
Proof.
  induction bl as [|s r IH]; intros inv post a id OK F GI; [destruct F|].
  simpl in OK. apply andb_true_iff in OK. destruct OK as [OKs OKr].
  apply andb_true_iff in OKs. destruct OKs as [O1 O2].
  rewrite bwd_block_cons. destruct F as [F|(m & S & F)].
  - destruct s; try contradiction. destruct F as [_ N].
    apply bwd_assert_error_sound; auto.
  - eapply bwd_stmt_sound; eauto.
    apply (IH _ _ m id); auto. eapply tr_stmt_sound; eauto. apply stmt_wfb_sound; auto.
Qed.

Section Tables.
  Variable p : prog.
  Variable fresh : var.
  Variable good : bool.
  Variable exit_block : nat.
  Variable final : env.                 (* postcondition at the exit block (bottom in error mode) *)
  Variable finv : nat -> env.           (* forward invariants at block entries *)
  Variable pcond : nat -> env.          (* the precondition table *)

  Definition succ_join (n : nat) : env :=
    let v := fold_left (fun acc s => e_join acc (pcond s)) (p_succs p n) EBot in
    if Nat.eqb n exit_block then e_join v final else v.

  Definition bwd_inductive_ok : bool :=
    forallb block_bwd_ok (p_blocks p) &&
    forallb (fun n => e_leq (bwd_block fresh good (p_block p n) (finv n) (succ_join n)) (pcond n))
            (seq 0 (length (p_blocks p))).

  (* states from which an execution, consistent with the forward invariants at the block
     entries it visits, goes on to fail an assertion *)
  Inductive Bad : nat -> store -> Prop :=
  | Bad_here n a id : n < length (p_blocks p) -> genv (finv n) a -> bfails (p_block p n) a id -> Bad n a
  | Bad_later n a b s : n < length (p_blocks p) -> genv (finv n) a ->
      bstep (p_block p n) a b -> In s (p_succs p n) -> Bad s b -> Bad n a.

  (* states from which an execution reaches the exit block and ends in a final state *)
  Inductive Good : nat -> store -> Prop :=
  | Good_exit a b : exit_block < length (p_blocks p) -> genv (finv exit_block) a ->
      bstep (p_block p exit_block) a b -> genv final b -> Good exit_block a
  | Good_later n a b s : n < length (p_blocks p) -> genv (finv n) a ->
      bstep (p_block p n) a b -> In s (p_succs p n) -> Good s b -> Good n a.

  Lemma succ_join_sound n s b : In s (p_succs p n) -> genv (pcond s) b -> genv (succ_join n) b.
  Proof.
    intros I G. unfold succ_join.
    assert (H : forall l acc, (genv acc b \/ In s l) ->
                genv (fold_left (fun acc s => e_join acc (pcond s)) l acc) b).
    { induction l as [|q r IH]; simpl; intros acc X.
      - destruct X as [X|[]]; auto.
      - apply IH. destruct X as [X|[<-|X]].
        + left. apply e_join_sound; auto.
        + left. apply e_join_sound; auto.
        + right; auto. }
    destruct (Nat.eqb n exit_block); [apply e_join_sound; left|]; apply H; auto.
  Qed.

  Lemma blocks_ok n : forallb block_bwd_ok (p_blocks p) = true -> block_bwd_ok (p_block p n) = true.
  Proof.
    intros H. rewrite forallb_forall in H. unfold p_block.
    destruct (nth_in_or_default n (p_blocks p) []) as [J|E]; [apply H; auto|rewrite E; reflexivity].
  Qed.

  Theorem bwd_tables_error_sound : good = false -> bwd_inductive_ok = true ->
    forall n a, Bad n a -> genv (pcond n) a.
  Proof.
    intros GM OK. unfold bwd_inductive_ok in OK. apply andb_true_iff in OK. destruct OK as [BO IN].
    rewrite forallb_forall in IN.
    induction 1 as [n a id L GI F|n a b s L GI ST I B IH].
    - assert (X := IN n ltac:(apply in_seq; lia)).
      eapply e_leq_sound; [exact X|]. rewrite GM. eapply bwd_block_error_sound; eauto. apply blocks_ok; auto.
    - assert (X := IN n ltac:(apply in_seq; lia)).
      eapply e_leq_sound; [exact X|]. eapply bwd_block_sound; eauto; [apply blocks_ok; auto|].
      eapply succ_join_sound; eauto.
  Qed.

  Theorem bwd_tables_good_sound : bwd_inductive_ok = true ->
    forall n a, Good n a -> genv (pcond n) a.
  Proof.
    intros OK. unfold bwd_inductive_ok in OK. apply andb_true_iff in OK. destruct OK as [BO IN].
    rewrite forallb_forall in IN.
    induction 1 as [a b L GI ST GF|n a b s L GI ST I B IH].
    - assert (X := IN exit_block ltac:(apply in_seq; lia)).
      eapply e_leq_sound; [exact X|]. eapply bwd_block_sound; eauto; [apply blocks_ok; auto|].
      unfold succ_join. rewrite Nat.eqb_refl. apply e_join_sound. right; auto.
    - assert (X := IN n ltac:(apply in_seq; lia)).
      eapply e_leq_sound; [exact X|]. eapply bwd_block_sound; eauto; [apply blocks_ok; auto|].
      eapply succ_join_sound; eauto.
  Qed.
End Tables.
