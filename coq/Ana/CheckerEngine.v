(* CheckerEngine.v — verdicts of the assertion checker model (Ana/Checker.v) on the tables
   computed by the engine model itself: the soundness of the engine (Ana/FwdItvEngineSound.v)
   replaces the "tables accepted by the verified checker" hypothesis of C02. *)
From Coq Require Import ZArith List Bool Arith.
From CrabV Require Import Base.ZInf Scalar.Itv Ir.Syntax Ir.Cfg Dom.ItvEnv Dom.ItvEnvSound Dom.ItvDomain
     Fix.Wto Fix.WtoCheck Fix.Engine Ana.Transformer Ana.FwdItv Ana.FwdItvSound Ana.Checker Ana.FwdItvEngineSound.
Import ListNotations.

Theorem engine_verdicts_sound :
  forall p, prog_wfb p = true ->
  forall use_asm asm (Init : store -> Prop) init, (forall s, Init s -> genv init s) ->
  forall delay desc fuel e0 entry w e,
  build (p_graph p) e0 = Some w -> In entry (flat w) ->
  fwd_run p w entry delay desc use_asm asm fuel init = Some e ->
  forall n a, ReachPre p entry use_asm asm Init n a -> sound_verdicts (p_block p n) (e_pre env e n) a.
Proof.
  intros p W use_asm asm Init init IS delay desc fuel e0 entry w e BU IE RUN n a R.
  destruct (fwd_run_sound_any_entry p W use_asm asm Init init IS delay desc fuel e0 entry w e BU IE RUN) as [S _].
  apply check_block_sound; [|apply S; exact R].
  unfold prog_wfb in W. apply andb_true_iff in W. destruct W as [WB _].
  apply (blocks_wf p WB).
Qed.
