(* InterSyntax.v — programs with functions and callsites (the fragment of CrabIR used by the
   inter-procedural analyzers): a program is a list of functions (function i is called by
   index), each with formal inputs, formal outputs, a CFG whose entry is block 0 and an
   optional exit block; a statement is a statement of Ir/Cfg.v or a callsite
   (outs) := f(ins).

   Crab identifies variables by name across functions: all functions draw their variables
   from one name space [var], so caller and callee may use the same names.

   Well-formedness (iprog_wfb, the executable form of "well-formed functions"): formal inputs
   and outputs of a function are pairwise distinct (function_decl's constructor demands it);
   a function never assigns its formal inputs (the assumption stated at the top of
   top_down_inter_analyzer.hpp: inputs are read-only); a callsite has as many actual
   parameters / lhs variables as its callee has inputs / outputs (call_graph::type_check) and
   its lhs variables are pairwise distinct; every variable of the program is below [voff], the
   first name used for the fresh copies of formal parameters. *)
From Coq Require Import ZArith NArith List Bool Arith Lia.
From CrabV Require Import Ir.Syntax Ir.Cfg Dom.ItvDomain Dom.ItvDomainSound Dom.ItvSolverSound Ana.Transformer.
Import ListNotations.

Inductive istmt :=
| IBase (s : stmt)
| ICall (outs : list var) (f : nat) (ins : list var).
Definition iblock := list istmt.

Record func := mkFunc {
  f_ins : list var; f_outs : list var;
  f_blocks : list iblock; f_edges : list (nat * nat); f_exit : option nat }.
Definition iprog := list func.

Definition dummy_func : func := mkFunc [] [] [] [] None.
Definition get_fn (p : iprog) (f : nat) : func := nth f p dummy_func.
Definition fn_block (fn : func) (n : nat) : iblock := nth n (f_blocks fn) [].
Definition fn_nblocks (fn : func) : nat := length (f_blocks fn).
Definition fn_formals (fn : func) : list var := f_ins fn ++ f_outs fn.

Definition vmem (x : var) (l : list var) : bool := existsb (N.eqb x) l.

Lemma vmem_spec x l : vmem x l = true <-> In x l.
Proof.
  unfold vmem. rewrite existsb_exists. split.
  - intros (y & I & E). apply N.eqb_eq in E. subst. exact I.
  - intros I. exists x. split; auto. apply N.eqb_refl.
Qed.
Lemma vmem_false x l : vmem x l = false <-> ~ In x l.
Proof.
  rewrite <- vmem_spec. destruct (vmem x l); split; intros H.
  - discriminate.
  - exfalso. apply H. reflexivity.
  - intros K. discriminate.
  - reflexivity.
Qed.

(* variables assigned by a statement *)
Definition stmt_defs (s : stmt) : list var :=
  match s with
  | SAssign x _ | SArith _ x _ _ | SBit _ x _ _ | SHavoc x | SSelect x _ _ _ => [x]
  | _ => []
  end.
Definition istmt_defs (s : istmt) : list var :=
  match s with IBase s => stmt_defs s | ICall outs _ _ => outs end.

Fixpoint nodupb (l : list var) : bool :=
  match l with [] => true | x :: r => negb (vmem x r) && nodupb r end.
Lemma nodupb_sound l : nodupb l = true -> NoDup l.
Proof.
  induction l as [|x r IH]; simpl; intros H; [constructor|].
  apply andb_true_iff in H. destruct H as [H1 H2]. constructor; auto.
  apply negb_true_iff in H1. apply vmem_false in H1. exact H1.
Qed.

Definition below (voff : N) (l : list var) : bool := forallb (fun x => N.ltb x voff) l.
Lemma below_spec voff l : below voff l = true -> forall x, In x l -> (x < voff)%N.
Proof. unfold below. rewrite forallb_forall. intros H x I. apply N.ltb_lt. auto. Qed.

Definition istmt_wfb (p : iprog) (voff : N) (fn : func) (s : istmt) : bool :=
  match s with
  | IBase s => stmt_wfb s && forallb (fun x => negb (vmem x (f_ins fn))) (stmt_defs s)
  | ICall outs g ins =>
    (g <? length p) &&
    (length ins =? length (f_ins (get_fn p g))) && (length outs =? length (f_outs (get_fn p g))) &&
    forallb (fun x => negb (vmem x (f_ins fn))) outs && nodupb outs &&
    below voff ins && below voff outs
  end.

Definition func_wfb (p : iprog) (voff : N) (fn : func) : bool :=
  nodupb (fn_formals fn) && below voff (fn_formals fn) &&
  (0 <? fn_nblocks fn) &&
  forallb (fun e => (fst e <? fn_nblocks fn) && (snd e <? fn_nblocks fn)) (f_edges fn) &&
  forallb (fun b => forallb (istmt_wfb p voff fn) b) (f_blocks fn).

Definition iprog_wfb (p : iprog) (voff : N) : bool := forallb (func_wfb p voff) p.

(* ---------------------------------------------------------------- consequences *)
Lemma get_fn_in p f : f < length p -> In (get_fn p f) p.
Proof. intros. unfold get_fn. apply nth_In. auto. Qed.

Lemma fn_block_in fn n s : In s (fn_block fn n) -> In (fn_block fn n) (f_blocks fn).
Proof.
  unfold fn_block. intros I. destruct (nth_in_or_default n (f_blocks fn) []) as [J|E]; auto.
  rewrite E in I. destruct I.
Qed.

Lemma wf_func p voff f : iprog_wfb p voff = true -> f < length p -> func_wfb p voff (get_fn p f) = true.
Proof. unfold iprog_wfb. rewrite forallb_forall. intros H L. apply H. apply get_fn_in. auto. Qed.

Lemma wf_istmt p voff fn n s : func_wfb p voff fn = true -> In s (fn_block fn n) -> istmt_wfb p voff fn s = true.
Proof.
  unfold func_wfb. intros H I. apply andb_true_iff in H. destruct H as [_ H].
  rewrite forallb_forall in H. specialize (H _ (fn_block_in _ _ _ I)). rewrite forallb_forall in H. auto.
Qed.
