(* Crawler.v — model of analysis/dataflow/assertion_crawler.hpp (intra-procedural part, the
   map assertion -> variable set) with control dependences from analysis/graphs/cdg.hpp /
   dominance.hpp.

   * crawl_stmt mirrors transfer_function: add_data_deps::operator() (including its rule
     for statements without definitions: an assume that reads a variable of the fact adds all
     its variables), remove_deps for havoc, process_assertion, set_to_bottom for
     unreachable, add_control_deps for assume.
   * the post-dominance frontier is specified mathematically (immediate post-dominators
     of the blocks that reach the exit; the runner loops of graph_algo_impl::dominance are
     then replayed literally); boost's Lengauer-Tarjan is not mirrored.
   * the solution: killgen_fixpoint_iterator::run_bwd_fixpo accumulates by join a monotone
     system started at the empty maps; process_assertion creates the fact of an assertion
     the first time the statement is visited and the accumulation keeps it, which is the
     least solution of the equations in which an assertion joins its variables into its
     fact.  The model iterates to a validated post-fixpoint. *)
From Coq Require Import ZArith List Bool.
From CrabV Require Import Ir.Syntax Ana.CfgSem.
Import ListNotations.

Definition fmap := list (N * vset).          (* assertion id -> variables *)

Definition intersects (A B : vset) : bool := negb (is_empty (inter A B)).

(* add_data_deps::operator() with m_uses = u, m_defs = d *)
Definition data_deps (u d v : vset) : vset :=
  let v1 := if is_empty d && negb (is_empty u) && intersects u v then union v u else v in
  if intersects v1 d then union (diff v1 d) u else v1.

Definition remove_deps (x : var) (v : vset) : vset :=
  if intersects v [x] then diff v [x] else v.

Definition map_vals (f : vset -> vset) (m : fmap) : fmap := map (fun kv => (fst kv, f (snd kv))) m.

(* m[a] := m[a] U v *)
Fixpoint fadd (a : N) (v : vset) (m : fmap) : fmap :=
  match m with
  | [] => [(a, v)]
  | (k, w) :: r => if N.eqb a k then (k, union v w) :: r else (k, w) :: fadd a v r
  end.
(* discrete_pair_domain::operator| *)
Definition fjoin (A B : fmap) : fmap := fold_right (fun kv acc => fadd (fst kv) (snd kv) acc) B A.

(* ------------------------------------------------------------------ control dependences *)
Fixpoint iter_stable {A} (f : A -> A) (same : A -> A -> bool) (fuel : nat) (x : A) : A :=
  match fuel with
  | O => x
  | S n => let y := f x in if same y x then x else iter_stable f same n y
  end.

Definition set_eqb (A B : vset) : bool := subset A B && subset B A.

(* blocks from which the exit can be reached (vertices reached in cfg_rev from its entry) *)
Definition reach_exit (P : cfg) : vset :=
  match c_exit P with
  | None => []
  | Some e =>
    iter_stable (fun S => fold_right (fun l acc => union (preds P l) acc) S S) set_eqb
                (S (length (c_blocks P))) [e]
  end.

Definition pdmap := list (label * vset).
Definition pd_of (m : pdmap) (l : label) : vset := match lookup l m with Some s => s | None => [] end.

Definition inter_all (all : vset) (sets : list vset) : vset :=
  fold_right (fun s acc => inter acc s) all sets.

(* post-dominator sets of the blocks that reach the exit (greatest solution) *)
Definition pdom_step (P : cfg) (RE : vset) (e : label) (m : pdmap) : pdmap :=
  map (fun l => (l, if N.eqb l e then [e]
                    else vadd l (inter_all RE (map (pd_of m) (filter (fun s => mem s RE) (succs P l)))))) RE.
Definition pdmap_eqb (A B : pdmap) : bool :=
  forallb (fun ls => set_eqb (snd ls) (pd_of B (fst ls))) A.
Definition pdoms (P : cfg) : pdmap :=
  match c_exit P with
  | None => []
  | Some e =>
    let RE := reach_exit P in
    iter_stable (pdom_step P RE e) pdmap_eqb (S (length RE * length RE))
                (map (fun l => (l, if N.eqb l e then [e] else RE)) RE)
  end.

(* immediate post-dominator: the strict post-dominator that all the others post-dominate *)
Definition ipdom (pd : pdmap) (l : label) : option label :=
  let sp := diff (pd_of pd l) [l] in
  find (fun d => forallb (fun d' => mem d' (pd_of pd d)) sp) sp.

Definition opt_eqb (a : option label) (l : label) : bool :=
  match a with Some x => N.eqb x l | None => false end.

(* the runner loop of graph_algo_impl::dominance on the reversed graph: blocks r such that n is in
   the post-dominance frontier of r, found from the successor s of n *)
Fixpoint runner_walk (pd : pdmap) (n : label) (stop : option label) (fuel : nat) (r : option label) : list label :=
  match fuel, r with
  | S f, Some x =>
    if opt_eqb stop x || N.eqb x n then []
    else x :: runner_walk pd n stop f (ipdom pd x)
  | _, _ => []
  end.

(* cdg[n]: the blocks that are control dependent on n *)
Definition cdg_children (P : cfg) (pd : pdmap) (n : label) : vset :=
  fold_right (fun s acc => union (runner_walk pd n (ipdom pd n) (S (length (c_blocks P))) (Some s)) acc)
             [] (succs P n).
Definition cdg_of (P : cfg) : list (label * vset) :=
  match c_exit P with
  | None => []
  | Some _ => let pd := pdoms P in map (fun l => (l, cdg_children P pd l)) (labels P)
  end.
Definition cdg_get (g : list (label * vset)) (l : label) : vset :=
  match lookup l g with Some s => s | None => [] end.

(* add_control_deps::reach: target reachable in the cdg from one of the roots *)
Definition cdg_reach (g : list (label * vset)) (n : nat) (roots : vset) : vset :=
  iter_stable (fun S => fold_right (fun l acc => union (cdg_get g l) acc) S S) set_eqb n roots.

(* block that contains assertion a *)
Definition has_assert (a : N) (ss : list stmt) : bool :=
  existsb (fun s => match s with SAssert _ i => N.eqb i a | _ => false end) ss.
Definition assert_block (P : cfg) (a : N) : option label :=
  match find (fun lb => has_assert a (b_stmts (snd lb))) (c_blocks P) with
  | Some lb => Some (fst lb)
  | None => None
  end.

Record ctx := mkCtx { x_cdg : list (label * vset); x_ablk : N -> option label; x_n : nat }.

Definition make_ctx (P : cfg) (control : bool) : ctx :=
  mkCtx (if control then cdg_of P else []) (assert_block P) (S (length (c_blocks P))).

Definition ctrl_deps (cx : ctx) (prevs : list label) (u : vset) (m : fmap) : fmap :=
  fold_left (fun m p =>
    let children := cdg_get (x_cdg cx) p in
    if is_empty children then m
    else let R := cdg_reach (x_cdg cx) (x_n cx) children in
         map (fun kv => match x_ablk cx (fst kv) with
                        | Some b => if mem b R then (fst kv, union (snd kv) u) else kv
                        | None => kv
                        end) m) prevs m.

Definition crawl_stmt (cx : ctx) (prevs : list label) (st : stmt) (m : fmap) : fmap :=
  match st with
  | SAssert c a => fadd a (lc_vars c) m
  | SUnreach => []
  | SHavoc x => map_vals (remove_deps x) m
  | SAssume c => ctrl_deps cx prevs (uses st) (map_vals (data_deps (uses st) []) m)
  | _ => map_vals (data_deps (uses st) (defs st)) m
  end.

Definition crawl_stmts (cx : ctx) (prevs : list label) (ss : list stmt) (out : fmap) : fmap :=
  fold_right (crawl_stmt cx prevs) out ss.

Definition cmap := list (label * fmap).
Definition cin_of (m : cmap) (l : label) : fmap := match lookup l m with Some f => f | None => [] end.

Definition crawl_out (P : cfg) (m : cmap) (l : label) : fmap :=
  fold_right (fun l' acc => fjoin (cin_of m l') acc) [] (succs P l).

Definition crawl_step (P : cfg) (cx : ctx) (m : cmap) : cmap :=
  map (fun lb => (fst lb, crawl_stmts cx (b_prev (snd lb)) (b_stmts (snd lb)) (crawl_out P m (fst lb))))
      (c_blocks P).

Definition fleq (A B : fmap) : bool :=
  forallb (fun kv => match lookup (fst kv) B with Some w => subset (snd kv) w | None => false end) A.
Definition cleq (A B : cmap) : bool := forallb (fun lf => fleq (snd lf) (cin_of B (fst lf))) A.

Fixpoint csolve (P : cfg) (cx : ctx) (fuel : nat) (m : cmap) : option cmap :=
  match fuel with
  | O => None
  | S f => let m' := crawl_step P cx m in
           if cleq m' m then Some m else csolve P cx f m'
  end.

Definition count_asserts (P : cfg) : nat :=
  fold_right (fun lb acc => length (filter (fun s => match s with SAssert _ _ => true | _ => false end)
                                           (b_stmts (snd lb))) + acc)%nat O (c_blocks P).
Definition cfuel (P : cfg) (nvars : nat) : nat :=
  S (S (length (c_blocks P) * S (count_asserts P * S nvars))).

(* assertion_crawler::exec + get_results(b): facts at the entry of every block *)
Definition crawler (P : cfg) (control : bool) (nvars : nat) : option cmap :=
  csolve P (make_ctx P control) (cfuel P nvars) (map (fun lb => (fst lb, [])) (c_blocks P)).
