(* BwdItv.v — the backward (necessary preconditions) analyzer model: the engine run on the
   reversed CFG with the backward block transformer (bwd_analyzer.hpp). *)
From Coq Require Import ZArith List Bool Arith.
From CrabV Require Import Base.ZInf Scalar.Itv Ir.Syntax Ir.Cfg Dom.ItvEnv Dom.ItvDomain Fix.Wto Fix.Engine
     Fix.EngineFS Ana.Transformer Ana.FwdItv Ana.Backward Ana.BackwardCheck.
Import ListNotations.

Definition p_rev_graph (p : prog) : graph := map (fun n => dedup (p_preds p n)) (seq 0 (length (p_blocks p))).
Definition wto_build (g : graph) (e : nat) : option wto := build g e.

Fixpoint wto_mem (x : nat) (w : list comp) : bool :=
  match w with [] => false | c :: r => comp_member x c || wto_mem x r end.

Definition bwd_run (p : prog) (wrev : wto) (exit_block delay desc fuel : nat) (fresh : var) (good : bool)
           (finv : nat -> env) (final : env) : option (nat -> env) :=
  match run env itv_ops (fun n post => bwd_block fresh good (p_block p n) (finv n) post)
            (p_succs p) (nest_of wrev) exit_block delay desc false (fun _ => None) final fuel wrev with
  | None => None
  | Some e => Some (fun n => if wto_mem n wrev then e_post env e n else e_top)
  end.
