(* InterTD.v — mirror of analysis/inter/top_down_inter_analyzer.hpp over the interval domain
   (after fixes/inter-1, inter-3, inter-6): get_callee_entry, get_caller_continuation (with the
   parallel propagation through fresh copies when caller and callee share names),
   calling_context::is_subsumed, default_context_sensitivity_policy::add, analyze_callee /
   analyze_function with summary reuse, the context-insensitive invariant tables (join_with),
   the imprecise handling of recursive functions (analyze_recursive_functions = false).
   NOT mirrored: analyze_recursive_functions = true (func_fixpoint_map_entry), widening
   thresholds, liveness, the interleaved checker.

   Also: the executable certificate checker for inter-procedural results (td_check); its
   soundness theorem is in InterTDSound.v.  No proofs in this file. *)
From Coq Require Import ZArith NArith List Bool Arith.
From CrabV Require Import Base.ZInf Scalar.Itv Ir.Syntax Ir.Cfg Dom.ItvEnv Dom.ItvDomain
     Fix.Wto Fix.Engine Fix.EngineFS Ana.Transformer Ana.FwdItv Ana.InterSyntax.
Import ListNotations.

(* ------------------------------------------------------------------ restrict / extend *)
(* inter_transformer_helpers::unify for integer variables: inv.assign(lhs, rhs) *)
Definition asg (x y : var) (e : env) : env := d_assign x (mkLE [(1%Z, y)] 0%Z) e.
Definition assign_list (ps : list (var * var)) (e : env) : env :=
  fold_left (fun acc p => asg (fst p) (snd p) acc) ps e.

(* get_copy: the fresh copy of a formal parameter *)
Definition cp (voff : N) (v : var) : var := (voff + v)%N.

(* !formal_used_at_another_position(cs, fdecl): an actual parameter (lhs variable) that is a
   formal input (output) is that formal at its own position, and no actual is a formal output,
   no lhs variable a formal input *)
Definition no_clash (outs ins fins fouts : list var) : bool :=
  forallb (fun q => implb (vmem (snd q) fins) (N.eqb (snd q) (fst q))) (combine fins ins) &&
  forallb (fun a => negb (vmem a fouts)) ins &&
  forallb (fun q => implb (vmem (snd q) fouts) (N.eqb (snd q) (fst q))) (combine fouts outs) &&
  forallb (fun o => negb (vmem o fins)) outs.

Definition neq_pair (q : var * var) : bool := negb (N.eqb (fst q) (snd q)).

(* get_callee_entry(cs, fdecl, caller_dom, top) *)
Definition callee_entry (voff : N) (outs ins fins fouts : list var) (e : env) : env :=
  if e_is_bot e then e
  else
    let cl := negb (no_clash outs ins fins fouts) in
    let e1 := if cl then assign_list (combine (map (cp voff) fins) ins) e else e in
    let acts := if cl then map (cp voff) fins else ins in
    let e2 := assign_list (filter neq_pair (combine fins acts)) e1 in
    e_project (e_meet e_top e2) fins.

(* the part of get_caller_continuation that works on the summary once its parameters are
   called fins' / fouts' *)
Definition cont_tail (outs ins fins' fouts' : list var) (sum : env) : env :=
  let sum2 := assign_list (filter neq_pair (combine outs fouts')) sum in
  let wires := filter (fun q => negb (vmem (fst q) ins) && negb (vmem (snd q) outs)) (combine fins' ins) in
  let sum3 := assign_list (map (fun q => (snd q, fst q)) wires) sum2 in
  let kept := filter (fun f => vmem f ins) fins' in
  let locals := filter (fun v => negb (vmem v (kept ++ outs))) (fins' ++ fouts') in
  d_forget locals sum3.

(* get_caller_continuation(cs, fdecl, caller_dom, inputs ++ outputs, sum_out_dom) *)
Definition cont (voff : N) (outs ins fins fouts : list var) (e sum : env) : env :=
  if e_is_bot e then e
  else if e_is_bot sum then sum
  else
    let caller := d_forget outs e in
    let sum4 :=
      if negb (no_clash outs ins fins fouts) then
        let fs := fins ++ fouts in
        let sum1 := d_forget fs (assign_list (combine (map (cp voff) fs) fs) sum) in
        cont_tail outs ins (map (cp voff) fins) (map (cp voff) fouts) sum1
      else cont_tail outs ins fins fouts sum in
    e_meet caller sum4.

(* ------------------------------------------------------------------ calling contexts *)
Record ctx := mkCtx { c_pre : env; c_post : env; c_exact : bool }.

Definition is_subsumed (c : ctx) (d : env) (exact_check : bool) : bool :=
  if c_exact c && exact_check then e_leq d (c_pre c) && e_leq (c_pre c) d
  else e_leq d (c_pre c).

(* default_context_sensitivity_policy::add; maxc = None stands for UINT_MAX *)
Definition policy_add (maxc : option nat) (ccs : list ctx) (cc : ctx) : list ctx :=
  match maxc with
  | None => ccs ++ [cc]
  | Some m =>
    match ccs with
    | c1 :: c2 :: rest =>
      if m <? length ccs then
        let j := mkCtx (e_join (c_pre c1) (c_pre c2)) (e_join (c_post c1) (c_post c2)) false in
        j :: filter (fun c => negb (e_leq (c_pre c) (c_pre j) && e_leq (c_post c) (c_post j))) (rest ++ [cc])
      else ccs ++ [cc]
    | _ => ccs ++ [cc]
    end
  end.

(* ------------------------------------------------------------------ the engine with a threaded global state
   (copy of Fix/Engine.v without assumption maps: run_forward(init) = run(init); the block
   transformer reads and updates the global context of the inter-procedural analysis) *)
Section SEngine.
  Variable A G : Type.
  Variable OP : aops A.
  Variable analyze : nat -> A -> G -> A * G.
  Variable preds : nat -> list nat.
  Variable nest : nat -> list nat.
  Variable entry : nat.
  Variable delay descending : nat.

  Record sest : Type := mkSE { se_pre : nat -> A; se_post : nat -> A; se_skip : bool; se_g : G }.

  Definition svisit_vertex (n : nat) (st : sest) : sest :=
    let skip := if se_skip st && Nat.eqb n entry then false else se_skip st in
    if skip then mkSE (se_pre st) (se_post st) skip (se_g st)
    else
      let pre := if Nat.eqb n entry then se_pre st n else join_posts A OP (se_post st) (preds n) in
      let r := analyze n pre (se_g st) in
      mkSE (tset A (se_pre st) n pre) (tset A (se_post st) n (fst r)) skip (snd r).

  Definition shead_inflow (h : nat) (entry_pre : option A) (st : sest) : A :=
    let v := join_posts A OP (se_post st) (preds h) in
    match entry_pre with Some ip => o_join A OP v ip | None => v end.

  Section Cycle.
    Variable vbody : sest -> option sest.
    Variable h : nat.
    Variable entry_pre : option A.

    Fixpoint sinc_loop (fuel : nat) (i : nat) (pre : A) (st : sest) : option (A * sest) :=
      match fuel with
      | O => None
      | S f =>
        let r := analyze h pre (se_g st) in
        let st1 := mkSE (tset A (se_pre st) h pre) (tset A (se_post st) h (fst r)) (se_skip st) (snd r) in
        match vbody st1 with
        | None => None
        | Some st2 =>
          let new_pre := shead_inflow h entry_pre st2 in
          if o_leq A OP new_pre pre
          then Some (new_pre, mkSE (tset A (se_pre st2) h new_pre) (se_post st2) (se_skip st2) (se_g st2))
          else sinc_loop f (S i) (extrapolate A OP delay h i pre new_pre) st2
        end
      end.

    Fixpoint sdec_loop (fuel : nat) (i : nat) (pre : A) (st : sest) : option sest :=
      match fuel with
      | O => None
      | S f =>
        let r := analyze h pre (se_g st) in
        let st1 := mkSE (se_pre st) (tset A (se_post st) h (fst r)) (se_skip st) (snd r) in
        match vbody st1 with
        | None => None
        | Some st2 =>
          let new_pre := shead_inflow h entry_pre st2 in
          if o_leq A OP pre new_pre then Some st2
          else if descending <? i then Some st2
          else
            let pre' := refine A OP i pre new_pre in
            sdec_loop f (S i) pre' (mkSE (tset A (se_pre st2) h pre') (se_post st2) (se_skip st2) (se_g st2))
        end
      end.
  End Cycle.

  Variable fuel : nat.

  Fixpoint svisit (c : comp) (st : sest) {struct c} : option sest :=
    match c with
    | Vertex n => Some (svisit_vertex n st)
    | Cycle h body =>
      let vbody := (fix vb (l : list comp) (s : sest) : option sest :=
                      match l with
                      | [] => Some s
                      | c' :: r => match svisit c' s with None => None | Some s' => vb r s' end
                      end) body in
      let entry_in := se_skip st && comp_member entry c in
      if se_skip st && negb entry_in then Some st
      else
        let st := mkSE (se_pre st) (se_post st) false (se_g st) in
        let entry_pre := if entry_in then Some (se_pre st entry) else None in
        let pre0 :=
          if entry_in then se_pre st entry
          else fold_left (fun acc q => if deeper (nest q) (nest h) then acc
                                       else o_join A OP acc (se_post st q)) (preds h) (o_bot A OP) in
        match sinc_loop vbody h entry_pre fuel 1 pre0 st with
        | None => None
        | Some (pre, st') =>
          if Nat.eqb descending 0 then Some st'
          else sdec_loop vbody h entry_pre fuel 1 pre st'
        end
    end.

  Fixpoint svisit_all (w : list comp) (st : sest) : option sest :=
    match w with
    | [] => Some st
    | c :: r => match svisit c st with None => None | Some st' => svisit_all r st' end
    end.

  Definition srun (w : list comp) (init : A) (g : G) : option sest :=
    svisit_all w (mkSE (tset A (fun _ => o_bot A OP) entry init) (fun _ => o_bot A OP) true g).
End SEngine.

(* ------------------------------------------------------------------ the call graph *)
Definition callees_of (fn : func) : list nat :=
  flat_map (fun b => flat_map (fun s => match s with ICall _ g _ => [g] | _ => [] end) b) (f_blocks fn).
Fixpoint insert_nat (x : nat) (l : list nat) : list nat :=
  match l with
  | [] => [x]
  | h :: t => if x <? h then x :: l else if Nat.eqb x h then l else h :: insert_nat x t
  end.
(* out-edges of a boost adjacency_list with setS: sorted by target, no duplicates *)
Definition cg_succs (p : iprog) (f : nat) : list nat := fold_right insert_nat [] (callees_of (get_fn p f)).
Definition cg_graph (p : iprog) : graph := map (cg_succs p) (seq 0 (length p)).
Definition nmem (x : nat) (l : list nat) : bool := existsb (Nat.eqb x) l.
(* call_graph::entries(): nodes without predecessors; all nodes if there is none *)
Definition cg_entries (p : iprog) : list nat :=
  let called := flat_map (cg_succs p) (seq 0 (length p)) in
  match filter (fun f => negb (nmem f called)) (seq 0 (length p)) with
  | [] => seq 0 (length p)
  | es => es
  end.
(* nodes that belong to some cycle of a WTO *)
Fixpoint cycle_nodes (inside : bool) (c : comp) : list nat :=
  match c with
  | Vertex n => if inside then [n] else []
  | Cycle h body =>
    h :: (fix go (l : list comp) : list nat :=
            match l with [] => [] | c' :: r => cycle_nodes true c' ++ go r end) body
  end.
(* m_recursive_set: union over the WTOs of the call graph built from every entry; None = WTO
   construction ran out of fuel *)
Definition cg_recset (p : iprog) : option (list nat) :=
  fold_left (fun acc e =>
               match acc, build (cg_graph p) e with
               | Some l, Some w => Some (l ++ flat_map (cycle_nodes false) w)
               | _, _ => None
               end) (cg_entries p) (Some []).

(* ------------------------------------------------------------------ the analyzer *)
Record gst := mkG {
  g_cc : nat -> list ctx;          (* m_cc_table *)
  g_pre : nat -> nat -> env;       (* m_pre_invariants (absent = bottom) *)
  g_post : nat -> nat -> env;
  g_stack : list nat;              (* m_call_stack *)
  g_err : bool }.                  (* out of fuel somewhere *)

Definition g0 : gst := mkG (fun _ => []) (fun _ _ => EBot) (fun _ _ => EBot) [] false.
Definition fupd {B : Type} (t : nat -> B) (n : nat) (v : B) : nat -> B :=
  fun m => if Nat.eqb m n then v else t m.

Definition fn_preds (fn : func) (n : nat) : list nat :=
  map fst (filter (fun e => Nat.eqb (snd e) n) (f_edges fn)).
Definition fn_succs (fn : func) (n : nat) : list nat :=
  dedup (map snd (filter (fun e => Nat.eqb (fst e) n) (f_edges fn))).
Definition fn_graph (fn : func) : graph := map (fn_succs fn) (seq 0 (fn_nblocks fn)).

Section TD.
  Variable p : iprog.
  Variable voff : N.
  Variable maxc : option nat.          (* max_call_contexts *)
  Variable exact_reuse : bool.         (* exact_summary_reuse *)
  Variables delay desc : nat.          (* widening_delay, descending_iters *)
  Variable efuel : nat.
  Variable wtos : nat -> wto.          (* WTO of the CFG of each function *)
  Variable recset : list nat.          (* m_recursive_set *)

  Definition tr_istmt (trc : list var -> nat -> list var -> env -> gst -> env * gst)
             (st : istmt) (e : env) (g : gst) : env * gst :=
    match st with
    | IBase s => (tr_stmt s e, g)
    | ICall outs f ins => trc outs f ins e g
    end.
  Fixpoint tr_iblock trc (bl : iblock) (e : env) (g : gst) : env * gst :=
    match bl with
    | [] => (e, g)
    | st :: r => let q := tr_istmt trc st e g in tr_iblock trc r (fst q) (snd q)
    end.

  (* add_calling_context *)
  Definition add_ctx (g : gst) (f : nat) (c : ctx) : gst :=
    mkG (fupd (g_cc g) f (policy_add maxc (g_cc g f) c)) (g_pre g) (g_post g) (g_stack g) (g_err g).
  Definition push (f : nat) (g : gst) : gst := mkG (g_cc g) (g_pre g) (g_post g) (g_stack g ++ [f]) (g_err g).
  Definition pop (g : gst) : gst := mkG (g_cc g) (g_pre g) (g_post g) (removelast (g_stack g)) (g_err g).
  Definition set_err (g : gst) : gst := mkG (g_cc g) (g_pre g) (g_post g) (g_stack g) true.
  (* global_context::join_invariants_with *)
  Definition join_tables (f : nat) (tpre tpost : nat -> env) (g : gst) : gst :=
    mkG (g_cc g)
        (fupd (g_pre g) f (fun n => e_join (g_pre g f n) (tpre n)))
        (fupd (g_post g) f (fun n => e_join (g_post g f n) (tpost n)))
        (g_stack g) (g_err g).

  (* exec(callsite) / analyze_callee, imprecise handling of recursion *)
  Definition tr_call (td : nat -> env -> gst -> (nat -> env) * (nat -> env) * gst)
             (outs : list var) (f : nat) (ins : list var) (e : env) (g : gst) : env * gst :=
    if e_is_bot e then (e, g)
    else
      let fn := get_fn p f in
      let fi := f_ins fn in
      let fo := f_outs fn in
      let ce := if nmem f recset then e_top else callee_entry voff outs ins fi fo e in
      match find (fun c => is_subsumed c ce exact_reuse) (g_cc g f) with
      | Some c => (cont voff outs ins fi fo e (c_post c), g)
      | None =>
        if nmem f (g_stack g) then (cont voff outs ins fi fo e (e_project e_top (fi ++ fo)), g)
        else
          let r := td f ce (push f g) in
          let g1 := pop (snd r) in
          let cexit := match f_exit fn with Some x => snd (fst r) x | None => EBot end in
          let cexit := e_project cexit (fi ++ fo) in
          (cont voff outs ins fi fo e cexit, add_ctx g1 f (mkCtx ce cexit true))
      end.

  Definition bot_tab : nat -> env := fun _ => EBot.

  (* analyze_function; d bounds the depth of the call stack *)
  Fixpoint td_fun (d : nat) (f : nat) (entry : env) (g : gst) {struct d}
    : (nat -> env) * (nat -> env) * gst :=
    match d with
    | O => (bot_tab, bot_tab, set_err g)
    | S d' =>
      let fn := get_fn p f in
      match srun env gst itv_ops
                 (fun n e g => tr_iblock (tr_call (td_fun d')) (fn_block fn n) e g)
                 (fn_preds fn) (nest_of (wtos f)) 0 delay desc efuel (wtos f) entry g with
      | None => (bot_tab, bot_tab, set_err g)
      | Some st => (se_pre env gst st, se_post env gst st,
                    join_tables f (se_pre env gst st) (se_post env gst st) (se_g env gst st))
      end
    end.

  (* top_down_inter_analyzer::run(init); after fixes/inter-6: an entry function of the recursive
     set is analysed from top, as when it is called from another function (its recursive calls
     are replaced by top and never analysed) *)
  Definition td_run (depth : nat) (entries : list nat) (init : env) : gst :=
    fold_left (fun g f => pop (snd (td_fun depth f (if nmem f recset then e_top else init) (push f g))))
              entries g0.
End TD.

(* ------------------------------------------------------------------ the certificate checker
   A certificate is a list of analysis contexts, each with invariant tables for its function:
   one root context per entry function, one context per stored summary.  See InterTDSound.v. *)
Record summ := mkSumm { s_fn : nat; s_pre : env; s_post : env }.
Record cert := mkCert { ct_fn : nat; ct_pre : env; ct_tpre : nat -> env; ct_tpost : nat -> env }.

Section Check.
  Variable p : iprog.
  Variable voff : N.
  Variable S : list summ.
  (* the contexts among which the entry state of every callee must be found (None: not asked) *)
  Variable cov : option (list cert).

  (* a callsite is abstracted by all the summaries whose precondition contains the callee's
     entry state; None = no summary applies, or the callee's entry state is in no context *)
  Definition chk_call (outs : list var) (g : nat) (ins : list var) (e : env) : option env :=
    if e_is_bot e then Some e
    else
      let fn := get_fn p g in
      let fi := f_ins fn in
      let fo := f_outs fn in
      let ce := callee_entry voff outs ins fi fo e in
      (* the inputs are read-only: if the callee's entry state is incompatible with what the
         summary says about the inputs, the call does not return *)
      let k sm := if e_is_bot (e_meet ce (e_project (s_post sm) fi)) then EBot
                  else cont voff outs ins fi fo e (e_project (s_post sm) (fi ++ fo)) in
      if match cov with
         | None => true
         | Some cs => existsb (fun c => Nat.eqb (ct_fn c) g && e_leq ce (ct_pre c)) cs
         end
      then
        match f_exit fn with
        | None => Some EBot          (* a callee without exit block does not return *)
        | Some _ =>
          match filter (fun sm => Nat.eqb (s_fn sm) g && e_leq ce (s_pre sm)) S with
          | [] => None
          | m :: r => Some (fold_left (fun acc sm => e_meet acc (k sm)) r (k m))
          end
        end
      else None.

  Definition chk_stmt (st : istmt) (e : env) : option env :=
    match st with
    | IBase s => Some (tr_stmt s e)
    | ICall outs g ins => chk_call outs g ins e
    end.
  Fixpoint chk_block (bl : iblock) (e : env) : option env :=
    match bl with
    | [] => Some e
    | st :: r => match chk_stmt st e with Some e' => chk_block r e' | None => None end
    end.

  (* the tables of a context are inductive and start above its precondition *)
  Definition cert_ok (c : cert) : bool :=
    let fn := get_fn p (ct_fn c) in
    (ct_fn c <? length p) &&
    e_leq (ct_pre c) (ct_tpre c 0) &&
    forallb (fun n => match chk_block (fn_block fn n) (ct_tpre c n) with
                      | Some e' => e_leq e' (ct_tpost c n)
                      | None => false
                      end) (seq 0 (fn_nblocks fn)) &&
    forallb (fun e => e_leq (ct_tpost c (fst e)) (ct_tpre c (snd e))) (f_edges fn).
End Check.

(* a summary is justified by a context of the same function: its precondition is inside the
   context's one, the context's exit invariant projected on the formals is inside its
   postcondition *)
Definition summ_ok (p : iprog) (sm : summ) (c : cert) : bool :=
  let fn := get_fn p (s_fn sm) in
  Nat.eqb (ct_fn c) (s_fn sm) && e_leq (s_pre sm) (ct_pre c) &&
  match f_exit fn with
  | Some x => e_leq (e_project (ct_tpost c x) (fn_formals fn)) (s_post sm)
  | None => true
  end.

(* rcerts: the contexts that cover the executions (every entry function started from init, every
   callee entry state reached from them); scerts: the summaries, each with the context that
   justifies it *)
Definition ig_check (p : iprog) (voff : N) (entries : list nat) (init : env)
           (tpre tpost : nat -> nat -> env)
           (rcerts : list cert) (scerts : list (summ * cert)) : bool :=
  let S := map fst scerts in
  iprog_wfb p voff &&
  forallb (cert_ok p voff S None) (map snd scerts) &&
  forallb (cert_ok p voff S (Some rcerts)) rcerts &&
  forallb (fun q => summ_ok p (fst q) (snd q)) scerts &&
  forallb (fun f => existsb (fun c => Nat.eqb (ct_fn c) f && e_leq init (ct_pre c)) rcerts) entries &&
  forallb (fun c => forallb (fun n => e_leq (ct_tpre c n) (tpre (ct_fn c) n) &&
                                      e_leq (ct_tpost c n) (tpost (ct_fn c) n))
                            (seq 0 (fn_nblocks (get_fn p (ct_fn c))))) rcerts.

(* top-down analyzer: the contexts of the summaries also cover the executions *)
Definition td_check (p : iprog) (voff : N) (entries : list nat) (init : env)
           (tpre tpost : nat -> nat -> env)
           (roots : list cert) (scerts : list (summ * cert)) : bool :=
  ig_check p voff entries init tpre tpost (roots ++ map snd scerts) scerts.

(* ------------------------------------------------------------------ certificates (untrusted helpers)
   The tables of a context are recomputed by the intra-procedural engine, a callsite being
   replaced by a stored summary the way the analyzer reuses summaries (first exact match, else
   first summary whose precondition contains the callee's entry, else top).  Whatever these
   helpers return is then checked by td_check. *)
Section Hints.
  Variable p : iprog.
  Variable voff : N.
  Variable S : list summ.
  Variables delay desc efuel : nat.
  Variable wtos : nat -> wto.

  Definition hint_call (outs : list var) (g : nat) (ins : list var) (e : env) : env :=
    if e_is_bot e then e
    else
      let fn := get_fn p g in
      let fi := f_ins fn in
      let fo := f_outs fn in
      let ce := callee_entry voff outs ins fi fo e in
      let k sm := if e_is_bot (e_meet ce (e_project (s_post sm) fi)) then EBot
                  else cont voff outs ins fi fo e (e_project (s_post sm) (fi ++ fo)) in
      match f_exit fn with
      | None => EBot
      | Some _ =>
        match find (fun sm => Nat.eqb (s_fn sm) g && e_leq ce (s_pre sm) && e_leq (s_pre sm) ce) S with
        | Some sm => k sm
        | None =>
          match find (fun sm => Nat.eqb (s_fn sm) g && e_leq ce (s_pre sm)) S with
          | Some sm => k sm
          | None => cont voff outs ins fi fo e (e_project e_top (fi ++ fo))
          end
        end
      end.
  Definition hint_stmt (st : istmt) (e : env) : env :=
    match st with IBase s => tr_stmt s e | ICall outs g ins => hint_call outs g ins e end.
  Definition hint_block (bl : iblock) (e : env) : env := fold_left (fun acc st => hint_stmt st acc) bl e.

  Definition mk_cert (f : nat) (pre : env) : cert :=
    let fn := get_fn p f in
    match srun env unit itv_ops (fun n e u => (hint_block (fn_block fn n) e, u))
               (fn_preds fn) (nest_of (wtos f)) 0 delay desc efuel (wtos f) pre tt with
    | Some st => mkCert f pre (se_pre env unit st) (se_post env unit st)
    | None => mkCert f pre (fun _ => EBot) (fun _ => EBot)
    end.
End Hints.

(* validation of (tables, summaries), whoever computed them: build the certificate, run the
   verified checker *)
Definition td_validate (p : iprog) (voff : N) (entries : list nat) (init : env)
           (tpre tpost : nat -> nat -> env) (S : list summ)
           (delay desc efuel : nat) (wtos : nat -> wto) : bool :=
  (* an entry function of the recursive set is analysed from top and its recursive calls are
     replaced by top (fixes/inter-6): no summary is stored for it; the certificate uses the
     trivial summary (top, top), justified by the context that starts from top *)
  let rs := match cg_recset p with Some rs => rs | None => [] end in
  let S' := S ++ flat_map (fun f => if nmem f rs then [mkSumm f e_top e_top] else []) entries in
  let mk := mk_cert p voff S' delay desc efuel wtos in
  td_check p voff entries init tpre tpost
           (map (fun f => mk f init) entries)
           (map (fun sm => (sm, mk (s_fn sm) (s_pre sm))) S').

(* the summaries stored by the model: get_summary(f) for every function, in order *)
Definition g_summaries (p : iprog) (g : gst) : list summ :=
  flat_map (fun f => map (fun c => mkSumm f (c_pre c) (c_post c)) (g_cc g f)) (seq 0 (length p)).

(* 1 + the largest variable of the program *)
Definition lmax (l : list var) : N := fold_left N.max l 0%N.
Definition stmt_vars (s : stmt) : list var :=
  match s with
  | SAssign x e => x :: map snd (le_terms e)
  | SArith _ x y z | SBit _ x y z => x :: y :: match z with OVar v => [v] | OCst _ => [] end
  | SAssume c | SAssert c _ => lc_vars c
  | SHavoc x => [x]
  | SSelect x c e1 e2 => x :: lc_vars c ++ map snd (le_terms e1) ++ map snd (le_terms e2)
  | SUnreach => []
  end.
Definition istmt_vars (s : istmt) : list var :=
  match s with IBase s => stmt_vars s | ICall outs _ ins => outs ++ ins end.
Definition prog_voff (p : iprog) : N :=
  N.succ (lmax (flat_map (fun fn => fn_formals fn ++ flat_map (fun b => flat_map istmt_vars b) (f_blocks fn)) p)).
