(* InterBURecOrder.v — the orders used by the mirror Ana/InterBURec.v are the ones its comments
   claim: for a well-formed program the reverse finish order cg_rpost of the depth-first search
   of the call graph lists every function exactly once, and a function that is not recursive
   (cg_isrec = false) comes after all its callers.  Hence in bur_run a function is analysed either
   from the top context of its recursive component or from a call table to which ALL its callers
   have contributed: the defensive third case of bur_td_step (start from top) is never taken.
   Also: cg_isrec f = false implies that no chain of calls leads from f back to f.
   (Not needed for the soundness theorems of Ana/InterBURecSound.v, which hold for all orders.) *)
From Coq Require Import ZArith NArith List Bool Arith Lia Relations.
From CrabV Require Import Ir.Syntax Ir.Cfg Ana.InterSyntax Ana.InterSem Ana.InterTD Ana.InterTDSound Ana.InterBU
     Ana.InterTDModelSound Ana.InterTDRecset Ana.InterBUModelSound Ana.InterBURec.
Import ListNotations.

(* ------------------------------------------------------------------ lists *)
Lemma filter_len_mono {A : Type} (P Q : A -> bool) l :
  (forall x, In x l -> Q x = true -> P x = true) -> length (filter Q l) <= length (filter P l).
Proof.
  induction l as [|a l IH]; intros H; cbn [filter]; [lia|].
  assert (IH' : length (filter Q l) <= length (filter P l)) by (apply IH; intros x I; apply H; right; exact I).
  destruct (Q a) eqn:Qa.
  - rewrite (H a (or_introl eq_refl) Qa). cbn [length]. lia.
  - destruct (P a); cbn [length]; lia.
Qed.

Lemma filter_len_strict {A : Type} (P Q : A -> bool) l u :
  (forall x, In x l -> Q x = true -> P x = true) -> In u l -> P u = true -> Q u = false ->
  length (filter Q l) < length (filter P l).
Proof.
  induction l as [|a l IH]; intros H I Pu Qu; [destruct I|]. cbn [filter].
  assert (M : length (filter Q l) <= length (filter P l)) by (apply filter_len_mono; intros x J; apply H; right; exact J).
  destruct I as [->|I].
  - rewrite Pu, Qu. cbn [length]. lia.
  - assert (S : length (filter Q l) < length (filter P l)) by (apply IH; auto; intros x J; apply H; right; exact J).
    destruct (Q a) eqn:Qa.
    + rewrite (H a (or_introl eq_refl) Qa). cbn [length]. lia.
    + destruct (P a); cbn [length]; lia.
Qed.

Lemma nodup_split_order {A : Type} (f h : A) : forall l1 l2 m1 m2,
  NoDup (l1 ++ f :: l2) -> l1 ++ f :: l2 = m1 ++ h :: m2 -> In f m2 -> In h l1.
Proof.
  induction l1 as [|a l1 IH]; intros l2 m1 m2 ND E I.
  - exfalso. cbn [app] in *. inversion ND as [|? ? NI _]; subst. destruct m1 as [|b m1]; cbn [app] in E; inversion E; subst.
    + apply NI, I.
    + apply NI. apply in_or_app. right. right. exact I.
  - cbn [app] in *. destruct m1 as [|b m1]; cbn [app] in E; inversion E; subst.
    + left. reflexivity.
    + right. inversion ND; subst. eapply IH; eauto.
Qed.

Section Order.
  Variable p : iprog.
  Notation n := (length p).
  Notation succs := (cg_succs p).
  Definition E (u v : nat) : Prop := In v (succs u).
  Notation reach := (clos_refl_trans nat E).
  Hypothesis W : forall u v, E u v -> v < n.

  (* ---------------------------------------------------------------- the recursion test *)
  Lemma insert_all_incl xs : forall l x, In x l -> In x (fold_right insert_nat l xs).
  Proof.
    induction xs as [|a xs IH]; intros l x I; cbn [fold_right]; [exact I|].
    apply insert_nat_In. right. apply IH, I.
  Qed.
  Lemma reach1_incl l x : In x l -> In x (cg_reach1 p l).
  Proof. apply insert_all_incl. Qed.
  Lemma reach_iter_incl k : forall l x, In x l -> In x (iter k (cg_reach1 p) l).
  Proof. induction k as [|k IH]; intros l x I; cbn [iter]; [exact I|]. apply IH, reach1_incl, I. Qed.

  Lemma isrec_false_no_cycle f : cg_isrec p f = false -> ~ clos_trans nat E f f.
  Proof.
    unfold cg_isrec. intros H. apply orb_false_iff in H. destruct H as [NM CL].
    apply negb_false_iff in CL. set (R := cg_reach_plus p f) in *.
    assert (ALL : forall y, clos_trans nat E f y -> In y R).
    { intros y T. apply clos_trans_tn1 in T. induction T as [y E1|y z E1 T IH].
      - unfold R, cg_reach_plus. apply reach_iter_incl. exact E1.
      - unfold cg_closed in CL. rewrite forallb_forall in CL. specialize (CL y IH).
        rewrite forallb_forall in CL. apply nmem_spec. apply CL. exact E1. }
    intros T. apply ALL in T. apply nmem_spec in T. rewrite T in NM. discriminate.
  Qed.

  (* ---------------------------------------------------------------- the depth-first search *)
  Definition unvis (V : list nat) : nat := length (filter (fun x => negb (nmem x V)) (seq 0 n)).

  Lemma unvis_mono V V' : (forall x, In x V -> In x V') -> unvis V' <= unvis V.
  Proof.
    intros H. unfold unvis. apply filter_len_mono. intros x _ Q.
    apply negb_true_iff in Q. apply negb_true_iff. destruct (nmem x V) eqn:M; [|reflexivity].
    apply nmem_spec in M. apply H in M. apply nmem_spec in M. rewrite M in Q. discriminate.
  Qed.
  Lemma unvis_strict V u : u < n -> ~ In u V -> unvis (u :: V) < unvis V.
  Proof.
    intros L NI. unfold unvis. apply filter_len_strict with (u := u).
    - intros x _ Q. apply negb_true_iff in Q. apply negb_true_iff. destruct (nmem x V) eqn:M; [|reflexivity].
      apply nmem_spec in M. assert (X : nmem x (u :: V) = true) by (apply nmem_spec; right; exact M).
      rewrite X in Q. discriminate.
    - apply in_seq. lia.
    - apply negb_true_iff. destruct (nmem u V) eqn:M; [|reflexivity]. apply nmem_spec in M. contradiction.
    - apply negb_false_iff. apply nmem_spec. left. reflexivity.
  Qed.

  (* V: discovered, P: finished (latest first), G: discovered and not finished (the stack) *)
  Record GInv (V P G : list nat) : Prop := mkGI {
    gi_v : forall x, In x V <-> In x P \/ In x G;
    gi_nd : NoDup P;
    gi_dis : forall x, In x P -> ~ In x G;
    gi_edge : forall l1 x l2 y, P = l1 ++ x :: l2 -> E x y ->
                In y l2 \/ y = x \/ ((In y l1 \/ In y G) /\ reach y x) }.

  Definition dfs_ok (fuel : nat) : Prop :=
    forall u V P G, GInv V P G -> unvis V < fuel -> u < n -> (forall g, In g G -> reach g u) ->
      let st' := cg_dfs p fuel u (V, P) in
      GInv (fst st') (snd st') G /\ In u (fst st') /\ (forall x, In x V -> In x (fst st')).

  Lemma dfs_children k (IH : dfs_ok k) u G : (forall g, In g G -> reach g u) ->
    forall vs, (forall v, In v vs -> E u v) ->
    forall V P, GInv V P (u :: G) -> unvis V < k ->
      let st' := fold_left (fun acc v => cg_dfs p k v acc) vs (V, P) in
      GInv (fst st') (snd st') (u :: G) /\ (forall v, In v vs -> In v (fst st')) /\ (forall x, In x V -> In x (fst st')).
  Proof.
    intros RG. induction vs as [|v vs IHv]; intros EV V P GI U; cbn [fold_left].
    - cbn [fst snd]. split; [exact GI|]. split; [intros v []|auto].
    - assert (Ev : E u v) by (apply EV; left; reflexivity).
      destruct (IH v V P (u :: G) GI U (W u v Ev)) as (GI1 & Iv & M1).
      { intros g [<-|Ig]; [apply rt_step, Ev|]. eapply rt_trans; [apply RG, Ig|apply rt_step, Ev]. }
      destruct (cg_dfs p k v (V, P)) as [V1 P1] eqn:D. cbn [fst snd] in *.
      assert (U1 : unvis V1 < k) by (pose proof (unvis_mono V V1 M1); lia).
      destruct (IHv (fun v' I => EV v' (or_intror I)) V1 P1 GI1 U1) as (GI2 & Ivs & M2).
      split; [exact GI2|]. split.
      + intros v' [<-|I]; [apply M2, Iv|apply Ivs, I].
      + intros x I. apply M2, M1, I.
  Qed.

  Lemma dfs_all : forall fuel, dfs_ok fuel.
  Proof.
    induction fuel as [|k IH]; intros u V P G GI U L RG; [lia|].
    cbn [cg_dfs fst snd]. destruct (nmem u V) eqn:MU.
    - cbn [fst snd]. split; [exact GI|]. split; [apply nmem_spec, MU|auto].
    - assert (NU : ~ In u V) by (intros I; apply nmem_spec in I; rewrite I in MU; discriminate).
      assert (NP : ~ In u P) by (intros I; apply NU; apply (gi_v _ _ _ GI); left; exact I).
      assert (NG : ~ In u G) by (intros I; apply NU; apply (gi_v _ _ _ GI); right; exact I).
      assert (GI0 : GInv (u :: V) P (u :: G)).
      { constructor.
        - intros x. cbn [In]. rewrite (gi_v _ _ _ GI x). tauto.
        - apply (gi_nd _ _ _ GI).
        - intros x I [<-|J]; [contradiction|]. exact (gi_dis _ _ _ GI x I J).
        - intros l1 x l2 y EQ Exy. destruct (gi_edge _ _ _ GI l1 x l2 y EQ Exy) as [H|[H|[[H|H] R]]].
          + left. exact H.
          + right. left. exact H.
          + right. right. split; [left; exact H|exact R].
          + right. right. split; [right; right; exact H|exact R]. }
      assert (U0 : unvis (u :: V) < k) by (pose proof (unvis_strict V u L NU); lia).
      destruct (dfs_children k IH u G RG (succs u) (fun v I => I) (u :: V) P GI0 U0) as (GI1 & CH & M1).
      destruct (fold_left (fun acc v => cg_dfs p k v acc) (succs u) (u :: V, P)) as [V1 P1] eqn:FD.
      cbn [fst snd] in *.
      split; [|split; [apply M1; left; reflexivity|intros x I; apply M1; right; exact I]].
      assert (NP1 : ~ In u P1) by (intros I; apply (gi_dis _ _ _ GI1 u I); left; reflexivity).
      constructor.
      + intros x. rewrite (gi_v _ _ _ GI1 x). cbn [In]. tauto.
      + constructor; [exact NP1|apply (gi_nd _ _ _ GI1)].
      + intros x [<-|I] J; [contradiction|]. apply (gi_dis _ _ _ GI1 x I). right. exact J.
      + intros l1 x l2 y EQ Exy. destruct l1 as [|a l1]; cbn [app] in EQ; inversion EQ; subst.
        * (* x = u is being finished: all its successors have been discovered *)
          pose proof (CH y Exy) as IV. apply (gi_v _ _ _ GI1) in IV. destruct IV as [IP|[<-|IG]].
          -- left. exact IP.
          -- right. left. reflexivity.
          -- right. right. split; [right; exact IG|apply RG, IG].
        * destruct (gi_edge _ _ _ GI1 l1 x l2 y eq_refl Exy) as [H|[H|[[H|[<-|H]] R]]].
          -- left. exact H.
          -- right. left. exact H.
          -- right. right. split; [left; right; exact H|exact R].
          -- right. right. split; [left; left; reflexivity|exact R].
          -- right. right. split; [right; exact H|exact R].
  Qed.

  (* the top level: sort<postorder_visitor>() *)
  Lemma dfs_roots : forall roots V P, (forall r, In r roots -> r < n) -> GInv V P [] ->
    let st' := fold_left (fun acc u => cg_dfs p (S n) u acc) roots (V, P) in
    GInv (fst st') (snd st') [] /\ (forall r, In r roots -> In r (fst st')) /\ (forall x, In x V -> In x (fst st')).
  Proof.
    induction roots as [|r roots IH]; intros V P LR GI; cbn [fold_left].
    - cbn [fst snd]. split; [exact GI|]. split; [intros r []|auto].
    - assert (U : unvis V < S n).
      { unfold unvis. pose proof (filter_len_mono (fun _ => true) (fun x => negb (nmem x V)) (seq 0 n) (fun _ _ _ => eq_refl)) as H.
        assert (Hs : filter (fun _ : nat => true) (seq 0 n) = seq 0 n).
        { clear. induction (seq 0 n) as [|a l IHl]; cbn [filter]; [reflexivity|]. rewrite IHl. reflexivity. }
        rewrite Hs, seq_length in H. lia. }
      destruct (dfs_all (S n) r V P [] GI U (LR r (or_introl eq_refl)) (fun g (F : In g []) => match F with end)) as (GI1 & Ir & M1).
      destruct (cg_dfs p (S n) r (V, P)) as [V1 P1]. cbn [fst snd] in *.
      destruct (IH V1 P1 (fun r' I => LR r' (or_intror I)) GI1) as (GI2 & Irs & M2).
      split; [exact GI2|]. split.
      + intros r' [<-|I]; [apply M2, Ir|apply Irs, I].
      + intros x I. apply M2, M1, I.
  Qed.

  Lemma roots_lt r : In r (cg_dfs_roots p) -> r < n.
  Proof.
    unfold cg_dfs_roots. intros I. apply in_app_or in I. destruct I as [I|I]; [|apply in_seq in I; lia].
    destruct (filter (cg_no_preds p) (seq 0 n)) as [|a l] eqn:F; [destruct I|].
    destruct I as [<-|[]]. assert (J : In a (filter (cg_no_preds p) (seq 0 n))) by (rewrite F; left; reflexivity).
    apply filter_In in J. destruct J as [J _]. apply in_seq in J. lia.
  Qed.

  Lemma rpost_inv :
    NoDup (cg_rpost p) /\ (forall f, f < n -> In f (cg_rpost p)) /\
    (forall l1 x l2 y, cg_rpost p = l1 ++ x :: l2 -> E x y -> In y l2 \/ y = x \/ (In y l1 /\ reach y x)).
  Proof.
    assert (G0 : GInv [] [] []).
    { constructor; [intros x; cbn; tauto|constructor|intros x []|intros l1 x l2 y EQ; destruct l1; discriminate]. }
    destruct (dfs_roots (cg_dfs_roots p) [] [] roots_lt G0) as (GI & IR & _).
    unfold cg_rpost. destruct (fold_left (fun acc u => cg_dfs p (S n) u acc) (cg_dfs_roots p) ([], [])) as [V P].
    cbn [fst snd] in *. split; [apply (gi_nd _ _ _ GI)|]. split.
    - intros f L. assert (I : In f V).
      { apply IR. unfold cg_dfs_roots. apply in_or_app. right. apply in_seq. lia. }
      apply (gi_v _ _ _ GI) in I. destruct I as [I|[]]. exact I.
    - intros l1 x l2 y EQ Exy. destruct (gi_edge _ _ _ GI l1 x l2 y EQ Exy) as [H|[H|[[H|[]] R]]].
      + left. exact H.
      + right. left. exact H.
      + right. right. split; [exact H|exact R].
  Qed.

  (* a function that is not recursive comes after all its callers *)
  Theorem rpost_callers_first l1 f l2 :
    cg_rpost p = l1 ++ f :: l2 -> cg_isrec p f = false -> forall h, In h (cg_preds p f) -> In h l1.
  Proof.
    intros EQ NR h Ih. destruct rpost_inv as (ND & ALL & ED).
    pose proof (isrec_false_no_cycle f NR) as NC.
    unfold cg_preds in Ih. apply filter_In in Ih. destruct Ih as [Ih Ehf]. apply in_seq in Ih.
    apply nmem_spec in Ehf. change (E h f) in Ehf.
    assert (Jh : In h (cg_rpost p)) by (apply ALL; lia).
    apply in_split in Jh. destruct Jh as (m1 & m2 & EQ2).
    destruct (ED m1 h m2 f EQ2 Ehf) as [H|[H|[_ R]]].
    - rewrite EQ in ND. rewrite EQ in EQ2. exact (nodup_split_order f h l1 l2 m1 m2 ND EQ2 H).
    - exfalso. subst h. apply NC. apply t_step. exact Ehf.
    - exfalso. apply NC. apply clos_rt_rtn1 in R. apply clos_rtn1_rt in R.
      apply clos_rt_t with h; [exact R|apply t_step; exact Ehf].
  Qed.
End Order.

(* ------------------------------------------------------------------ well-formed programs *)
Lemma wf_succs_lt p voff : iprog_wfb p voff = true -> forall u v, E p u v -> v < length p.
Proof.
  intros WF u v H. unfold E in H. apply cg_succs_In, cg_edge_callees in H.
  pose proof (cg_edge_lt p u v H) as Lu. destruct H as (n & outs & ins & I).
  destruct (fn_wf p voff WF u Lu) as (_ & _ & _ & _ & Wb).
  apply (call_wf p voff _ _ _ _ (Wb n _ I)).
Qed.

Lemma E_path p f g : cg_path p f g -> clos_trans nat (E p) f g.
Proof.
  intros T. induction T as [x y H|x y z _ IH1 _ IH2].
  - apply t_step. unfold E. apply cg_succs_In, cg_edge_callees, H.
  - eapply t_trans; eauto.
Qed.

(* the recursion test is complete: a function that it declares non-recursive is on no cycle of the
   call graph *)
Theorem cg_isrec_false_no_cycle p f : cg_isrec p f = false -> ~ cg_path p f f.
Proof. intros H T. exact (isrec_false_no_cycle p f H (E_path p f f T)). Qed.

(* the top-down order of the mirror: every function once, non-recursive functions after all their
   callers *)
Theorem cg_rpost_ok p voff : iprog_wfb p voff = true ->
  NoDup (cg_rpost p) /\ (forall f, f < length p -> In f (cg_rpost p)) /\
  (forall l1 f l2, cg_rpost p = l1 ++ f :: l2 -> cg_isrec p f = false ->
     forall h, In h (cg_preds p f) -> In h l1).
Proof.
  intros WF. pose proof (wf_succs_lt p voff WF) as W.
  destruct (rpost_inv p W) as (ND & ALL & _).
  split; [exact ND|]. split; [exact ALL|].
  intros l1 f l2 EQ NR h I. exact (rpost_callers_first p W l1 f l2 EQ NR h I).
Qed.

(* the bottom-up order lists every function once *)
Corollary cg_post_ok p voff : iprog_wfb p voff = true ->
  NoDup (cg_post p) /\ (forall f, f < length p -> In f (cg_post p)).
Proof.
  intros WF. destruct (cg_rpost_ok p voff WF) as (ND & ALL & _). unfold cg_post. split.
  - apply NoDup_rev, ND.
  - intros f L. apply in_rev. rewrite rev_involutive. apply ALL, L.
Qed.

(* ------------------------------------------------------------------ consequence for the top-down phase of bur_run *)
Section Dead.
  Variable p : iprog.
  Variable voff : N.
  Variables delay desc efuel : nat.
  Variable wtos : nat -> Wto.wto.
  Variable sums : nat -> option ItvEnv.env.
  Variable init : ItvEnv.env.
  Notation step := (bur_td_step p voff delay desc efuel wtos sums init).

  Lemma step_done acc f : In f (t_done (step acc f)) /\ forall x, In x (t_done acc) -> In x (t_done (step acc f)).
  Proof.
    unfold bur_td_step. destruct (nmem f (t_done acc)) eqn:M.
    - split; [apply nmem_spec, M|auto].
    - cbv zeta. match goal with |- context [match ?X with Some _ => _ | None => _ end] => destruct X end;
        cbn [t_done]; split; try (left; reflexivity); intros x I; right; exact I.
  Qed.

  Lemma fold_done : forall l acc x, In x l \/ In x (t_done acc) -> In x (t_done (fold_left step l acc)).
  Proof.
    induction l as [|f l IH]; intros acc x H; cbn [fold_left]; [destruct H as [[]|H]; exact H|].
    apply IH. destruct (step_done acc f) as [A B]. destruct H as [[<-|I]|I]; [right; exact A|left; exact I|right; apply B, I].
  Qed.

  (* whenever the top-down phase of bur_run reaches a non-recursive function, all its callers
     have been analysed: the function starts from the call table (or from init), never from the
     defensive top of bur_td_step *)
  Theorem bur_td_callers_done : iprog_wfb p voff = true ->
    forall l1 f l2 st0, cg_rpost p = l1 ++ f :: l2 -> cg_isrec p f = false ->
    all_in (cg_preds p f) (t_done (fold_left step l1 st0)) = true.
  Proof.
    intros WF l1 f l2 st0 EQ NR. destruct (cg_rpost_ok p voff WF) as (_ & _ & H).
    unfold all_in. apply forallb_forall. intros h I. apply nmem_spec. apply fold_done. left.
    exact (H l1 f l2 EQ NR h I).
  Qed.
End Dead.
