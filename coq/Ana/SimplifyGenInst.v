(* SimplifyGenInst.v — the concrete development (Ana/CfgSem.v, Ana/Simplify.v, Ana/SimplifySound.v)
   is the instance of the generic one (Ana/SimplifyGen.v) at the numeric statement language:

   * to_gen / of_gen: the obvious isomorphism between CfgSem.cfg and G.cfg CfgSem.stmt (list var);
   * every pass of Simplify.v commutes with to_gen; in particular
       Simplify.simplify P = option_map of_gen (G.simplify (to_gen P));
   * the concrete statement semantics as a generic step relation exec_c (normal completion of
     exec_stmt, or the failing assert), the observation obs_c outs s = map s outs;
   * concrete executions and generic executions of to_gen P correspond step by step, hence
       wf P <-> G.wf (to_gen P),   beh_eq P Q <-> G.beh_eq exec_c obs_c (to_gen P) (to_gen Q);
   * the concrete C17 theorems re-derived from the generic ones. *)
From Coq Require Import ZArith List Bool Lia.
From CrabV Require Import Ir.Syntax Ana.CfgSem Ana.Simplify Ana.SimplifySound.
From CrabV Require Ana.SimplifyGen.
Import ListNotations.
Module G := SimplifyGen.

Definition gblock := G.block stmt.
Definition gcfg := G.cfg stmt (list var).

Definition to_gen_block (b : block) : gblock := G.mkBlock (b_stmts b) (b_prev b) (b_next b).
Definition of_gen_block (b : gblock) : block := mkBlock (G.b_stmts b) (G.b_prev b) (G.b_next b).
Definition to_gen (P : cfg) : gcfg :=
  G.mkCfg (c_entry P) (c_exit P) (map (fun lb => (fst lb, to_gen_block (snd lb))) (c_blocks P)) (c_outs P).
Definition of_gen (P : gcfg) : cfg :=
  mkCfg (G.c_entry P) (G.c_exit P) (map (fun lb => (fst lb, of_gen_block (snd lb))) (G.c_blocks P)) (G.c_outs P).

Lemma of_to_gen P : of_gen (to_gen P) = P.
Proof.
  destruct P as [en ex bs outs]. unfold of_gen, to_gen. simpl. f_equal.
  rewrite map_map. rewrite <- (map_id bs) at 2. apply map_ext. intros [l [ss p n]]. reflexivity.
Qed.
Lemma to_of_gen P : to_gen (of_gen P) = P.
Proof.
  destruct P as [en ex bs outs]. unfold of_gen, to_gen. simpl. f_equal.
  rewrite map_map. rewrite <- (map_id bs) at 2. apply map_ext. intros [l [ss p n]]. reflexivity.
Qed.

Lemma to_of_gen_inverse : (forall P, of_gen (to_gen P) = P) /\ (forall P, to_gen (of_gen P) = P).
Proof. exact (conj of_to_gen to_of_gen). Qed.

(* ------------------------------------------------------------------ access *)
Lemma get_block_to_gen P l :
  G.get_block (to_gen P) l = option_map to_gen_block (get_block P l).
Proof.
  unfold G.get_block, get_block, to_gen. simpl.
  rewrite (G.lookup_map_gen (fun lb => to_gen_block (snd lb))). destruct (lookup l (c_blocks P)); reflexivity.
Qed.
Lemma labels_to_gen P : G.labels (to_gen P) = labels P.
Proof. unfold G.labels, labels, to_gen. simpl. rewrite map_map. reflexivity. Qed.
Lemma succs_to_gen P l : G.succs (to_gen P) l = succs P l.
Proof. unfold G.succs, succs. rewrite get_block_to_gen. destruct (get_block P l); reflexivity. Qed.
Lemma preds_to_gen P l : G.preds (to_gen P) l = preds P l.
Proof. unfold G.preds, preds. rewrite get_block_to_gen. destruct (get_block P l); reflexivity. Qed.
Lemma stmts_to_gen P l : G.stmts_of (to_gen P) l = stmts_of P l.
Proof. unfold G.stmts_of, stmts_of. rewrite get_block_to_gen. destruct (get_block P l); reflexivity. Qed.
Lemma is_exit_to_gen P l : G.is_exit (to_gen P) l = is_exit P l.
Proof. reflexivity. Qed.

(* ------------------------------------------------------------------ the passes commute with to_gen *)
Lemma filter_map_comm {A B} (g : A -> B) (f : B -> bool) l :
  filter f (map g l) = map g (filter (fun x => f (g x)) l).
Proof. induction l as [|a r IH]; simpl; auto. destruct (f (g a)); simpl; rewrite IH; reflexivity. Qed.

Lemma map_block_to_gen f g P :
  (forall l b, to_gen_block (f l b) = g l (to_gen_block b)) ->
  to_gen (map_block f P) = G.map_block _ _ g (to_gen P).
Proof.
  intros H. unfold to_gen, map_block, G.map_block. simpl. f_equal.
  rewrite !map_map. apply map_ext. intros [l b]. simpl. rewrite H. reflexivity.
Qed.

Lemma remove_block_to_gen P b : to_gen (remove_block P b) = G.remove_block _ _ (to_gen P) b.
Proof.
  unfold to_gen, remove_block, G.remove_block. simpl. f_equal.
  rewrite filter_map_comm. rewrite !map_map. apply map_ext. intros [l blk]. reflexivity.
Qed.
Lemma add_edge_to_gen P a b : to_gen (add_edge P a b) = G.add_edge _ _ (to_gen P) a b.
Proof. unfold add_edge, G.add_edge. apply map_block_to_gen. intros l blk. reflexivity. Qed.
Lemma copy_back_to_gen P p ss : to_gen (copy_back P p ss) = G.copy_back _ _ (to_gen P) p ss.
Proof.
  unfold copy_back, G.copy_back. apply map_block_to_gen. intros l blk.
  destruct (N.eqb l p); reflexivity.
Qed.
Lemma set_exit_to_gen P e : to_gen (set_exit P e) = G.set_exit _ _ (to_gen P) e.
Proof. reflexivity. Qed.

Lemma fold_to_gen P cur parent child cb :
  to_gen (fold_into_parent P cur parent child cb) =
  G.fold_into_parent _ _ (to_gen P) cur parent child (to_gen_block cb).
Proof.
  unfold fold_into_parent, G.fold_into_parent. cbv zeta.
  rewrite add_edge_to_gen, remove_block_to_gen. f_equal. f_equal.
  change (G.b_stmts (to_gen_block cb)) with (b_stmts cb).
  rewrite <- copy_back_to_gen. rewrite is_exit_to_gen.
  destruct (is_exit (copy_back P parent (b_stmts cb)) cur); reflexivity.
Qed.

Definition st_gen (st : cfg * vset) : gcfg * vset := (to_gen (fst st), snd st).

Lemma visit_list_to_gen rec grec :
  (forall P vis n, grec (to_gen P) vis n = option_map st_gen (rec P vis n)) ->
  forall ns st, G.visit_list _ _ grec ns (st_gen st) = option_map st_gen (visit_list rec ns st).
Proof.
  intros H ns. induction ns as [|n r IH]; intros [P vis]; simpl; auto.
  rewrite H. destruct (rec P vis n) as [[P1 v1]|]; simpl; auto.
Qed.

Lemma merge_rec_to_gen fuel : forall P vis cur,
  G.merge_rec _ _ fuel (to_gen P) vis cur = option_map st_gen (merge_rec fuel P vis cur).
Proof.
  induction fuel as [|f IH]; intros P vis cur; [reflexivity|].
  cbn [merge_rec G.merge_rec].
  destruct (mem cur vis); [reflexivity|].
  rewrite get_block_to_gen. destruct (get_block P cur) as [cb|]; [|reflexivity]. cbn [option_map].
  change (G.b_next (to_gen_block cb)) with (b_next cb).
  change (G.b_prev (to_gen_block cb)) with (b_prev cb).
  pose proof (visit_list_to_gen (merge_rec f) (G.merge_rec _ _ f) IH (b_next cb) (P, cur :: vis)) as V.
  unfold st_gen at 1 in V. cbn [fst snd] in V.
  destruct (b_next cb) as [|child [|c2 r2]]; try exact V.
  destruct (b_prev cb) as [|parent [|p2 r3]]; try exact V.
  rewrite get_block_to_gen. destruct (get_block P parent) as [pb|]; [|reflexivity]. cbn [option_map].
  change (G.b_next (to_gen_block pb)) with (b_next pb).
  change (G.c_entry (to_gen P)) with (c_entry P). rewrite is_exit_to_gen.
  change (G.has_one (b_next pb)) with (has_one (b_next pb)).
  destruct (negb (N.eqb cur (c_entry P)) && negb (is_exit P parent) && has_one (b_next pb)); [|exact V].
  rewrite <- fold_to_gen. apply IH.
Qed.

Lemma merge_blocks_to_gen P : G.merge_blocks (to_gen P) = option_map to_gen (merge_blocks P).
Proof.
  unfold G.merge_blocks, merge_blocks.
  assert (F : G.merge_fuel _ _ (to_gen P) = merge_fuel P).
  { unfold G.merge_fuel, merge_fuel, to_gen. simpl. rewrite map_length. reflexivity. }
  rewrite F. change (G.c_entry (to_gen P)) with (c_entry P). rewrite merge_rec_to_gen.
  destruct (merge_rec (merge_fuel P) P [] (c_entry P)) as [[P1 v1]|]; reflexivity.
Qed.

Lemma fold_union_ext (f g : label -> vset) B L :
  (forall l, f l = g l) ->
  fold_right (fun l acc => union (f l) acc) B L = fold_right (fun l acc => union (g l) acc) B L.
Proof. intros H. induction L as [|a r IH]; simpl; auto. rewrite H, IH. reflexivity. Qed.
Lemma closure_ext (f g : label -> vset) n : (forall l, f l = g l) -> forall S, G.closure f n S = closure g n S.
Proof.
  intros H. induction n as [|k IH]; intros S; simpl; auto. rewrite IH.
  rewrite (fold_union_ext f g S S H). reflexivity.
Qed.
Lemma forallb_ext_loc {A} (p q : A -> bool) l : (forall x, p x = q x) -> forallb p l = forallb q l.
Proof. intros H. induction l as [|a r IH]; simpl; auto. rewrite H, IH. reflexivity. Qed.
Lemma closedb_ext (f g : label -> vset) S : (forall l, f l = g l) -> G.closedb f S = closedb g S.
Proof.
  intros H. unfold G.closedb, closedb. apply forallb_ext_loc. intros l. rewrite H. reflexivity.
Qed.
Lemma marked_to_gen P f g root : (forall l, f l = g l) -> G.marked _ _ (to_gen P) f root = marked P g root.
Proof.
  intros H. unfold G.marked, marked. cbv zeta.
  assert (L : length (G.c_blocks (to_gen P)) = length (c_blocks P)) by (unfold to_gen; simpl; apply map_length).
  rewrite L, (closure_ext f g _ H), (closedb_ext f g _ H), labels_to_gen. reflexivity.
Qed.

Lemma remove_all_to_gen bs : forall P, to_gen (remove_all P bs) = G.remove_all _ _ (to_gen P) bs.
Proof.
  unfold remove_all, G.remove_all. induction bs as [|b r IH]; intros P; simpl; auto.
  rewrite IH, remove_block_to_gen. reflexivity.
Qed.

Lemma remove_unreachable_to_gen P :
  to_gen (remove_unreachable_blocks P) = G.remove_unreachable_blocks (to_gen P).
Proof.
  unfold remove_unreachable_blocks, G.remove_unreachable_blocks. cbv zeta.
  rewrite remove_all_to_gen, labels_to_gen. f_equal. apply filter_ext. intros l.
  unfold G.alive, alive. change (G.c_entry (to_gen P)) with (c_entry P).
  rewrite (marked_to_gen P (G.succs (to_gen P)) (succs P) (c_entry P) (succs_to_gen P)).
  rewrite is_exit_to_gen. reflexivity.
Qed.

Lemma remove_useless_to_gen P :
  to_gen (remove_useless_blocks P) = G.remove_useless_blocks (to_gen P).
Proof.
  unfold remove_useless_blocks, G.remove_useless_blocks. change (G.c_exit (to_gen P)) with (c_exit P).
  destruct (c_exit P) as [e|]; [|reflexivity]. cbv zeta.
  rewrite remove_all_to_gen, labels_to_gen. f_equal. apply filter_ext. intros l.
  unfold G.useful, useful. change (G.c_entry (to_gen P)) with (c_entry P).
  rewrite (marked_to_gen P (G.preds (to_gen P)) (preds P) e (preds_to_gen P)). reflexivity.
Qed.

Theorem simplify_to_gen P : G.simplify (to_gen P) = option_map to_gen (simplify P).
Proof.
  unfold G.simplify, simplify. rewrite merge_blocks_to_gen.
  destruct (merge_blocks P) as [P1|]; [|reflexivity]. cbn [option_map].
  rewrite <- remove_unreachable_to_gen, <- remove_useless_to_gen. apply merge_blocks_to_gen.
Qed.

(* the concrete simplify IS the generic simplify at the numeric statement language *)
Theorem simplify_is_instance P : simplify P = option_map of_gen (G.simplify (to_gen P)).
Proof.
  rewrite simplify_to_gen. destruct (simplify P) as [Q|]; simpl; [|reflexivity].
  rewrite of_to_gen. reflexivity.
Qed.
Theorem merge_blocks_is_instance P : merge_blocks P = option_map of_gen (G.merge_blocks (to_gen P)).
Proof.
  rewrite merge_blocks_to_gen. destruct (merge_blocks P) as [Q|]; simpl; [|reflexivity].
  rewrite of_to_gen. reflexivity.
Qed.
Theorem remove_unreachable_is_instance P :
  remove_unreachable_blocks P = of_gen (G.remove_unreachable_blocks (to_gen P)).
Proof. rewrite <- remove_unreachable_to_gen, of_to_gen. reflexivity. Qed.
Theorem remove_useless_is_instance P :
  remove_useless_blocks P = of_gen (G.remove_useless_blocks (to_gen P)).
Proof. rewrite <- remove_useless_to_gen, of_to_gen. reflexivity. Qed.

(* ------------------------------------------------------------------ well-formedness coincides *)
Theorem wf_to_gen P : G.wf (to_gen P) <-> wf P.
Proof.
  unfold G.wf, wf. rewrite labels_to_gen.
  change (G.c_entry (to_gen P)) with (c_entry P). change (G.c_exit (to_gen P)) with (c_exit P).
  split; intros (W1 & W2 & W3 & W4 & W5); (split; [exact W1|]); (split; [exact W2|]); (split; [exact W3|]); split.
  - intros l l' H. rewrite <- succs_to_gen in H. rewrite <- preds_to_gen. apply (W4 _ _ H).
  - intros l l' H. rewrite <- preds_to_gen in H. rewrite <- succs_to_gen. apply (W5 _ _ H).
  - intros l l' H. rewrite succs_to_gen in H. rewrite preds_to_gen. apply (W4 _ _ H).
  - intros l l' H. rewrite preds_to_gen in H. rewrite succs_to_gen. apply (W5 _ _ H).
Qed.
Theorem keeps_to_gen P Q : G.keeps (to_gen P) (to_gen Q) <-> keeps P Q.
Proof. reflexivity. Qed.

(* ------------------------------------------------------------------ the concrete semantics as a generic step relation *)
Inductive exec_c : stmt -> store -> list event -> option store -> Prop :=
| XcOk st s ev s' : exec_stmt st s ev s' -> exec_c st s ev (Some s')
| XcFail c id s : satb c s = false -> exec_c (SAssert c id) s [EvAssert id false] None.
Definition obs_c (outs : list var) (s : store) : list Z := map s outs.

Definition gevent := G.event event (list Z).
Definition gconfig := G.config stmt store.

Definition tr_ev (e : event) : gevent :=
  match e with EvGoto l => G.EvGoto l | EvExit o => G.EvExit o | _ => G.EvStmt e end.
Definition tc (c : config) : gconfig :=
  match c with Run l r s => G.Run l r s | Done => G.Done | Err => G.Err end.

Lemma tr_ev_inj a b : tr_ev a = tr_ev b -> a = b.
Proof. destruct a, b; simpl; intros H; inversion H; reflexivity. Qed.
Lemma map_tr_ev_inj t1 t2 : map tr_ev t1 = map tr_ev t2 -> t1 = t2.
Proof.
  revert t2. induction t1 as [|a r IH]; intros [|b r2]; simpl; intros H; try discriminate; auto.
  inversion H. f_equal; auto. apply tr_ev_inj; auto.
Qed.
Lemma tc_inj c1 c2 : tc c1 = tc c2 -> c1 = c2.
Proof. destruct c1, c2; simpl; intros H; inversion H; reflexivity. Qed.

Lemma exec_stmt_events st s ev s' : exec_stmt st s ev s' -> map tr_ev ev = map G.EvStmt ev.
Proof. intros X. inversion X; reflexivity. Qed.

Lemma step_to_gen P c ev c' :
  step P c ev c' -> G.step exec_c obs_c (to_gen P) (tc c) (map tr_ev ev) (tc c').
Proof.
  intros St. destruct St as [l st r s ev s1 X | l c0 id r s F | l l' b' s Hl Hb | l s He]; simpl.
  - rewrite (exec_stmt_events _ _ _ _ X). apply G.StStmt. constructor. exact X.
  - apply (G.StFail _ _ _ _ _ exec_c obs_c (to_gen P) l (SAssert c0 id) r s [EvAssert id false]).
    constructor. exact F.
  - change (b_stmts b') with (G.b_stmts (to_gen_block b')). apply G.StGoto.
    + rewrite succs_to_gen. exact Hl.
    + rewrite get_block_to_gen, Hb. reflexivity.
  - apply (G.StExit _ _ _ _ _ exec_c obs_c (to_gen P) l s). exact He.
Qed.

Lemma step_of_gen P c gev gc' :
  G.step exec_c obs_c (to_gen P) (tc c) gev gc' ->
  exists ev c', step P c ev c' /\ gev = map tr_ev ev /\ gc' = tc c'.
Proof.
  destruct c as [l r0 s| |]; simpl; intros St; [|inversion St|inversion St].
  destruct r0 as [|st r].
  - inversion St as [ | | l0 l' b' s0 Hl Hb | l0 s0 He]; subst.
    + rewrite succs_to_gen in Hl. rewrite get_block_to_gen in Hb.
      destruct (get_block P l') as [b0|] eqn:Gb; [|discriminate]. inversion Hb; subst.
      exists [EvGoto l'], (Run l' (b_stmts b0) s). split; [econstructor; eauto|]. split; reflexivity.
    + exists [EvExit (map s (c_outs P))], Done. split; [apply StExit; exact He|]. split; reflexivity.
  - inversion St as [l0 st0 r1 s0 ev s1 X | l0 st0 r1 s0 ev F | |]; subst.
    + inversion X; subst. exists ev, (Run l r s1). split; [constructor; auto|]. split; auto.
      symmetry. eapply exec_stmt_events; eauto.
    + inversion F; subst. exists [EvAssert id false], Err. split; [constructor; auto|]. split; auto.
Qed.

Lemma star_to_gen P c tr c' :
  star P c tr c' -> G.star exec_c obs_c (to_gen P) (tc c) (map tr_ev tr) (tc c').
Proof.
  induction 1 as [c|c ev c1 tr c2 S1 St IH]; [constructor|].
  rewrite map_app. econstructor; [|exact IH]. apply step_to_gen. exact S1.
Qed.
Lemma star_of_gen P gc gtr gc' :
  G.star exec_c obs_c (to_gen P) gc gtr gc' -> forall c, gc = tc c ->
  exists tr c', star P c tr c' /\ gtr = map tr_ev tr /\ gc' = tc c'.
Proof.
  induction 1 as [gc|gc gev gc1 gtr gc2 S1 St IH]; intros c E; subst.
  - exists [], c. split; [constructor|]. split; reflexivity.
  - destruct (step_of_gen _ _ _ _ S1) as [ev [c1 [S0 [E1 E2]]]].
    destruct (IH c1 E2) as [tr [c2 [St0 [E3 E4]]]].
    exists (ev ++ tr), c2. split; [econstructor; eauto|]. split; auto.
    rewrite map_app, E1, E3. reflexivity.
Qed.

Lemma obs_to_gen tr : G.obs (map tr_ev tr) = map tr_ev (obs tr).
Proof.
  induction tr as [|e r IH]; simpl; auto.
  destruct e; simpl; rewrite IH; reflexivity.
Qed.
Lemma init_to_gen P s : G.init (to_gen P) s = tc (init P s).
Proof. unfold G.init, init. simpl. rewrite stmts_to_gen. reflexivity. Qed.

(* the exit-reaching executions of P and of to_gen P have the same observations *)
Theorem exit_obs_to_gen P s t :
  exit_obs P s t <-> G.exit_obs exec_c obs_c (to_gen P) s (map tr_ev t).
Proof.
  unfold exit_obs, G.exit_obs. split.
  - intros [tr [St O]]. exists (map tr_ev tr). split.
    + rewrite init_to_gen. apply (star_to_gen _ _ _ _ St).
    + rewrite obs_to_gen, O. reflexivity.
  - intros [gtr [St O]]. rewrite init_to_gen in St.
    destruct (star_of_gen _ _ _ _ St _ eq_refl) as [tr [c1 [St0 [E1 E2]]]].
    destruct c1; simpl in E2; try discriminate.
    exists tr. split; auto. apply map_tr_ev_inj. rewrite <- obs_to_gen, <- E1. exact O.
Qed.
(* every observation of the instance is the image of a concrete one *)
Lemma exit_obs_gen_image P s gt :
  G.exit_obs exec_c obs_c (to_gen P) s gt -> exists t, gt = map tr_ev t.
Proof.
  intros [gtr [St O]]. rewrite init_to_gen in St.
  destruct (star_of_gen _ _ _ _ St _ eq_refl) as [tr [c1 [St0 [E1 E2]]]].
  exists (obs tr). rewrite <- obs_to_gen, <- E1. auto.
Qed.

Theorem beh_eq_to_gen P Q : G.beh_eq exec_c obs_c (to_gen P) (to_gen Q) <-> beh_eq P Q.
Proof.
  unfold G.beh_eq, beh_eq. split; intros H s t.
  - rewrite !exit_obs_to_gen. apply H.
  - split; intros X; destruct (exit_obs_gen_image _ _ _ X) as [t0 ->].
    + apply exit_obs_to_gen. apply H. apply exit_obs_to_gen. exact X.
    + apply exit_obs_to_gen. apply H. apply exit_obs_to_gen. exact X.
Qed.

(* ------------------------------------------------------------------ the concrete theorems, from the generic ones *)
Corollary simplify_wf_from_generic P Q : simplify P = Some Q -> wf P -> wf Q /\ keeps P Q.
Proof.
  intros H W. assert (HG : G.simplify (to_gen P) = Some (to_gen Q)) by (rewrite simplify_to_gen, H; reflexivity).
  apply wf_to_gen in W. destruct (G.simplify_wf _ _ _ _ HG W) as [W' K]. split.
  - apply wf_to_gen. exact W'.
  - apply keeps_to_gen. exact K.
Qed.
Corollary simplify_beh_from_generic P Q : simplify P = Some Q -> wf P -> beh_eq P Q.
Proof.
  intros H W. assert (HG : G.simplify (to_gen P) = Some (to_gen Q)) by (rewrite simplify_to_gen, H; reflexivity).
  apply wf_to_gen in W. apply beh_eq_to_gen.
  apply (G.simplify_beh _ _ _ _ _ exec_c obs_c _ _ HG W).
Qed.
