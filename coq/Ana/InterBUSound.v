(* InterBUSound.v — property C10 for the model of the bottom-up inter-procedural analyzer:
   results accepted by bu_validate (the certificate checker ig_check of InterTD.v, the
   executions being covered by the context-insensitive tables of the top-down phase
   themselves) are sound: every summary contains the (inputs, outputs) pair of every
   terminating execution of its function, whatever the inputs; the tables contain every
   state reaching each block from an entry function. *)
From Coq Require Import ZArith NArith List Bool Arith Lia.
From CrabV Require Import Base.ZInf Scalar.Itv Ir.Syntax Ir.Cfg Dom.ItvEnv Dom.ItvEnvSound Dom.ItvDomain
     Dom.ItvDomainSound Ana.Transformer Ana.InterSyntax Ana.InterSem Ana.InterTD Ana.InterTDSound Ana.InterBU.
Import ListNotations.

Theorem bu_validate_sound p voff entries init tpre tpost S delay desc efuel wtos :
  bu_validate p voff entries init tpre tpost S delay desc efuel wtos = true ->
  forall Init : store -> Prop, (forall s, Init s -> genv init s) ->
  (forall f n s, IRPre p entries Init f n s -> genv (tpre f n) s) /\
  (forall f n s, IRPost p entries Init f n s -> genv (tpost f n) s) /\
  (forall sm, In sm S ->
     forall s0 s1, genv (s_pre sm) s0 -> exec_fun p (s_fn sm) s0 s1 -> genv (s_post sm) s1).
Proof.
  unfold bu_validate. intros H Init HI.
  destruct (ig_check_sound _ _ _ _ _ _ _ _ H Init HI) as (A & B & C).
  split; auto. split; auto. intros sm I. apply C.
  rewrite map_map. cbn [fst]. rewrite map_id. apply in_or_app. left. exact I.
Qed.

(* summaries of the bottom-up phase have the precondition top: they hold whatever the inputs *)
Corollary bu_summary_any_input p voff entries init tpre tpost sums delay desc efuel wtos :
  bu_validate p voff entries init tpre tpost (bu_summaries p sums) delay desc efuel wtos = true ->
  forall Init : store -> Prop, (forall s, Init s -> genv init s) ->
  forall f sum, f < length p -> sums f = Some sum ->
  forall s0 s1, exec_fun p f s0 s1 -> genv sum s1.
Proof.
  intros H Init HI f sum L E s0 s1 X.
  destruct (bu_validate_sound _ _ _ _ _ _ _ _ _ _ _ H Init HI) as (_ & _ & C).
  apply (C (mkSumm f e_top sum)) with (s0 := s0); auto.
  - unfold bu_summaries. apply in_flat_map. exists f. split.
    + apply in_seq. lia.
    + rewrite E. left. reflexivity.
  - simpl. apply genv_top.
Qed.

(* ------------------------------------------------------------------ reuse_summary is sound
   (the re-instantiation of a summary at a callsite through the internal names $0,$1,..: a
   parallel propagation by construction).  The caller's value must not constrain the internal
   names (the analyzer forgets them after every callsite) and the summary is over the formal
   parameters: both are imposed here by a forget / a projection. *)
Fixpoint assoc_rev (ps : list (var * var)) (k : var) : option var :=
  match ps with
  | [] => None
  | q :: r => if N.eqb (snd q) k then Some (fst q) else assoc_rev r k
  end.

Lemma assoc_rev_in ps x y : NoDup (map snd ps) -> In (x, y) ps -> assoc_rev ps y = Some x.
Proof.
  induction ps as [|[a b] r IH]; simpl; intros ND I; [contradiction|].
  inversion ND as [|? ? NI ND']; subst. destruct I as [E|I].
  - inversion E; subst. rewrite N.eqb_refl. reflexivity.
  - destruct (N.eqb_spec b y) as [->|NE]; auto.
    exfalso. apply NI. apply (in_map snd) in I. exact I.
Qed.

Lemma assoc_rev_none ps k : ~ In k (map snd ps) -> assoc_rev ps k = None.
Proof.
  induction ps as [|[a b] r IH]; simpl; intros NI; auto.
  destruct (N.eqb_spec b k) as [->|NE]; [exfalso; apply NI; left; reflexivity|].
  apply IH. intros I. apply NI. right. exact I.
Qed.

(* rename_store with old and new names disjoint: new names get the old values, old names the
   chosen values *)
Lemma rename_store_spec (tgt : store) ps : forall s,
  NoDup (map fst ps) ->
  (forall x y, In x (map fst ps) -> In y (map snd ps) -> x <> y) ->
  (forall x y, In (x, y) ps -> s x = tgt y) ->
  forall k, rename_store s ps (map tgt (map fst ps)) k =
            if vmem k (map fst ps) || vmem k (map snd ps) then tgt k else s k.
Proof.
  induction ps as [|[x y] r IH]; intros s ND DJ V k; [reflexivity|].
  cbn [rename_store map fst snd hd tl].
  assert (NE : x <> y) by (apply DJ; left; reflexivity).
  destruct (N.eqb_spec x y) as [E|_]; [contradiction|].
  inversion ND as [|? ? NI ND']; subst.
  rewrite IH; auto.
  - unfold vmem. cbn [existsb]. fold (vmem k (map fst r)). fold (vmem k (map snd r)).
    destruct (vmem k (map fst r) || vmem k (map snd r)) eqn:M.
    + apply orb_true_iff in M. destruct M as [M|M]; rewrite M; rewrite ?orb_true_r; reflexivity.
    + apply orb_false_iff in M. destruct M as [M1 M2]. rewrite M1, M2. rewrite !orb_false_r.
      unfold upd. destruct (N.eqb_spec k x) as [->|N1]; [reflexivity|].
      destruct (N.eqb_spec k y) as [->|N2]; cbn [orb]; auto.
      apply (V x y). left. reflexivity.
  - intros a b I J. apply DJ; right; auto.
  - intros a b I. rewrite upd_other.
    + rewrite upd_other; [apply V; right; exact I|].
      intros E. subst a. apply (DJ y y).
      * right. apply (in_map fst) in I. exact I.
      * left. reflexivity.
      * reflexivity.
    + intros E. subst a. apply NI. apply (in_map fst) in I. exact I.
Qed.

Lemma map_fst_combine {A B} (l1 : list A) (l2 : list B) : length l1 = length l2 -> map fst (combine l1 l2) = l1.
Proof.
  revert l2. induction l1 as [|a r IH]; intros [|b l2] L; simpl in *; try discriminate; auto.
  f_equal. apply IH. lia.
Qed.
Lemma map_snd_combine {A B} (l1 : list A) (l2 : list B) : length l1 = length l2 -> map snd (combine l1 l2) = l2.
Proof.
  revert l2. induction l1 as [|a r IH]; intros [|b l2] L; simpl in *; try discriminate; auto.
  f_equal. apply IH. lia.
Qed.

Lemma in_combine_app_l {A B} (l1 l1' : list A) (l2 l2' : list B) x y :
  length l1 = length l2 -> In (x, y) (combine l1 l2) -> In (x, y) (combine (l1 ++ l1') (l2 ++ l2')).
Proof.
  revert l2. induction l1 as [|a r IH]; intros [|b l2] L I; simpl in *; try discriminate; try contradiction.
  destruct I as [E|I]; [left; exact E|right; apply IH; [lia|exact I]].
Qed.
Lemma in_combine_app_r {A B} (l1 l1' : list A) (l2 l2' : list B) x y :
  length l1 = length l2 -> In (x, y) (combine l1' l2') -> In (x, y) (combine (l1 ++ l1') (l2 ++ l2')).
Proof.
  revert l2. induction l1 as [|a r IH]; intros [|b l2] L I; simpl in *; try discriminate; auto.
Qed.

(* (o, i) in outs x iouts  ->  some f with (o, f) in outs x fouts and (f, i) in fouts x iouts *)
Lemma combine_mid {A B C} (l1 : list A) (l2 : list B) (l3 : list C) x z :
  length l1 = length l2 -> length l2 = length l3 -> In (x, z) (combine l1 l3) ->
  exists y, In (x, y) (combine l1 l2) /\ In (y, z) (combine l2 l3).
Proof.
  revert l2 l3. induction l1 as [|a r IH]; intros [|b l2] [|c l3] L1 L2 I; simpl in *; try discriminate; try contradiction.
  destruct I as [E|I].
  - inversion E; subst. exists b. auto.
  - destruct (IH l2 l3 (eq_add_S _ _ L1) (eq_add_S _ _ L2) I) as (y & J1 & J2). exists y. auto.
Qed.

Lemma e_project_at_other e vs k s : genv e s -> ~ In k vs -> is_top (e_at (e_project e vs) k) = true.
Proof.
  destruct e as [|m]; simpl; [tauto|]. intros _ NI.
  destruct (forallb (fun k0 => is_top (get m k0)) (keys m)) eqn:T; simpl.
  - destruct (in_dec N.eq_dec k (keys m)) as [I|NK].
    + rewrite forallb_forall in T. apply T. exact I.
    + rewrite get_not_key by exact NK. reflexivity.
  - induction vs as [|v r IH]; simpl; [reflexivity|].
    rewrite get_put_other.
    + apply IH. intros I. apply NI. right. exact I.
    + intros E. apply NI. left. auto.
Qed.

Lemma intern_ge voff k : (voff <= intern voff k)%N.
Proof. unfold intern. lia. Qed.

Lemma nodup_interns voff n : forall i, NoDup (map (intern voff) (seq i n)).
Proof.
  induction n as [|n IH]; intros i; simpl; [constructor|]. constructor; auto.
  intros I. apply in_map_iff in I. destruct I as (j & E & J). apply in_seq in J.
  unfold intern in E. lia.
Qed.

Section ReuseSound.
  Variable voff : N.
  Variables outs ins fins fouts : list var.
  Hypothesis ND : NoDup (fins ++ fouts).
  Hypothesis Lin : length fins = length ins.
  Hypothesis Lout : length fouts = length outs.
  Hypothesis NDo : NoDup outs.
  Hypothesis Bf : forall x, In x (fins ++ fouts) -> (x < voff)%N.
  Hypothesis Bi : forall x, In x ins -> (x < voff)%N.
  Hypothesis Bo : forall x, In x outs -> (x < voff)%N.

  Let fs := fins ++ fouts.
  Let ii := iins voff fins.
  Let io := iouts voff fins fouts.
  Let is := ii ++ io.

  Lemma is_seq : is = map (intern voff) (seq 0 (length fins + length fouts)).
  Proof. unfold is, ii, io, iins, iouts. rewrite <- map_app. rewrite <- seq_app. reflexivity. Qed.
  Lemma is_nodup : NoDup is.
  Proof. rewrite is_seq. apply nodup_interns. Qed.
  Lemma is_ge k : In k is -> (voff <= k)%N.
  Proof. rewrite is_seq. intros I. apply in_map_iff in I. destruct I as (j & <- & _). apply intern_ge. Qed.
  Lemma len_ii : length ii = length fins.
  Proof. unfold ii, iins. rewrite map_length, seq_length. reflexivity. Qed.
  Lemma len_io : length io = length fouts.
  Proof. unfold io, iouts. rewrite map_length, seq_length. reflexivity. Qed.
  Lemma len_is : length fs = length is.
  Proof. unfold fs, is. rewrite !app_length, len_ii, len_io. reflexivity. Qed.

  Theorem bu_reuse_sound caller sum a s1 b :
    genv caller a -> genv sum s1 ->
    (forall f y, In (f, y) (combine fins ins) -> s1 f = a y) ->
    (forall k, b k = assign_outs a outs fouts s1 k) ->
    genv (bu_reuse voff outs ins fins fouts (d_forget is caller) (e_project sum fs)) b.
  Proof.
    intros G Gs Vin Hb. unfold bu_reuse. fold ii io is fs.
    set (ps := combine fs is).
    set (tw := fun k : var => match assoc_rev ps k with Some x => s1 x | None => a k end).
    assert (MS : map snd ps = is) by (unfold ps; apply map_snd_combine; apply len_is).
    assert (MF : map fst ps = fs) by (unfold ps; apply map_fst_combine; apply len_is).
    assert (NDs : NoDup (map snd ps)) by (rewrite MS; apply is_nodup).
    assert (TWin : forall x y, In (x, y) ps -> tw y = s1 x).
    { intros x y I. unfold tw. rewrite (assoc_rev_in ps x y NDs I). reflexivity. }
    assert (TWout : forall k, ~ In k is -> tw k = a k).
    { intros k NI. unfold tw. rewrite assoc_rev_none; auto. rewrite MS. exact NI. }
    assert (LOW : forall k, (k < voff)%N -> ~ In k is).
    { intros k L I. apply is_ge in I. lia. }
    assert (Fr : forall k, ~ In k outs -> b k = a k).
    { intros k NI. rewrite Hb. apply assign_outs_other. exact NI. }
    assert (Vout : forall o f, In (o, f) (combine outs fouts) -> b o = s1 f).
    { intros o f I. rewrite Hb. apply assign_outs_in; auto. }
    (* the caller side: the internal inputs receive the actual parameters *)
    assert (G1 : genv (assign_list (combine ii ins) (d_forget is caller)) tw).
    { set (a2 := fun k : var => if vmem k is then tw k else a k).
      assert (Ga2 : genv (d_forget is caller) a2).
      { apply (d_forget_sound _ _ a); auto. intros k NI. unfold a2. apply vmem_false in NI. rewrite NI. reflexivity. }
      eapply genv_ext; [apply assign_list_sound; exact Ga2|].
      intros k. symmetry. rewrite (aseq_spec tw).
      - destruct (vmem k (map fst (combine ii ins))); auto.
        unfold a2. destruct (vmem k is) eqn:V; auto. apply vmem_false in V. symmetry. apply TWout. exact V.
      - intros x y I J. apply in_combine_l in I.
        apply in_map_iff in J. destruct J as ([x' y'] & E & J). cbn [snd] in E. subst y'.
        apply in_combine_r in J. apply Bi in J.
        assert (voff <= x)%N by (apply is_ge; unfold is; apply in_or_app; left; exact I). lia.
      - intros x y I.
        assert (NIy : ~ In y is) by (apply LOW; apply Bi; eapply in_combine_r; eauto).
        unfold a2. apply vmem_false in NIy. rewrite NIy.
        destruct (combine_mid ii fins ins x y len_ii Lin I) as (f & J1 & J2).
        rewrite (TWin f x).
        + symmetry. apply Vin. exact J2.
        + unfold ps, fs, is. apply in_combine_app_l; [symmetry; apply len_ii|]. apply in_combine_swap. exact J1. }
    (* the summary side: renamed to the internal names *)
    assert (G2 : genv (e_rename (e_project sum fs) fs is) tw).
    { set (sP := fun k : var => if vmem k fs then s1 k else tw k).
      assert (GP : genv (e_project sum fs) sP).
      { apply (e_project_sound _ _ s1); auto. intros k I. unfold sP. apply vmem_spec in I. rewrite I. reflexivity. }
      assert (TOP : forall k, In k is -> is_top (e_at (e_project sum fs) k) = true).
      { intros k I. apply (e_project_at_other sum fs k s1 Gs).
        intros J. apply Bf in J. apply is_ge in I. lia. }
      pose proof (e_rename_sound (e_project sum fs) fs is sP (map tw fs) GP is_nodup len_is TOP) as R.
      eapply genv_ext; [exact R|].
      intros k. symmetry. fold ps.
      replace (map tw fs) with (map tw (map fst ps)) by (rewrite MF; reflexivity).
      rewrite (rename_store_spec tw).
      - rewrite MF, MS. destruct (vmem k fs || vmem k is) eqn:M; auto.
        apply orb_false_iff in M. destruct M as [M _]. unfold sP. rewrite M. reflexivity.
      - rewrite MF. exact ND.
      - rewrite MF, MS. intros x y I J E. subst y. apply Bf in I. apply is_ge in J. lia.
      - intros x y I. unfold sP.
        assert (V : vmem x fs = true) by (apply vmem_spec; unfold ps in I; eapply in_combine_l; eauto).
        rewrite V. symmetry. apply TWin. exact I. }
    (* outputs, then the internal names are forgotten *)
    set (psO := combine outs io).
    assert (S3 : forall k, aseq psO tw k = if vmem k (map fst psO) then b k else tw k).
    { apply aseq_spec.
      - intros x y I J. apply in_combine_l in I. apply Bo in I.
        apply in_map_iff in J. destruct J as ([x' y'] & E & J). cbn [snd] in E. subst y'.
        apply in_combine_r in J.
        assert (voff <= x)%N by (apply is_ge; unfold is; apply in_or_app; right; exact J). lia.
      - intros x y I.
        destruct (combine_mid outs fouts io x y (eq_sym Lout) (eq_sym len_io) I) as (f & J1 & J2).
        rewrite (TWin f y).
        + symmetry. apply Vout. exact J1.
        + unfold ps, fs, is. apply in_combine_app_r; [symmetry; apply len_ii|exact J2]. }
    apply (d_forget_sound _ _ (aseq psO tw)).
    { apply assign_list_sound. apply e_meet_sound; auto. }
    intros k NI. rewrite S3.
    destruct (vmem k (map fst psO)) eqn:W; auto.
    rewrite TWout by exact NI. apply Fr.
    intros I. apply vmem_false in W. apply W. unfold psO. rewrite map_fst_combine; auto.
    rewrite len_io. symmetry. exact Lout.
  Qed.
End ReuseSound.
