(* InterBUSound.v — property C10 for the model of the bottom-up inter-procedural analyzer:
   results accepted by bu_validate (the certificate checker ig_check of InterTD.v, the
   executions being covered by the context-insensitive tables of the top-down phase
   themselves) are sound: every summary contains the (inputs, outputs) pair of every
   terminating execution of its function, whatever the inputs; the tables contain every
   state reaching each block from an entry function. *)
From Coq Require Import ZArith NArith List Bool Arith Lia.
From CrabV Require Import Base.ZInf Scalar.Itv Ir.Syntax Ir.Cfg Dom.ItvEnv Dom.ItvEnvSound Dom.ItvDomain
     Dom.ItvDomainSound Ana.Transformer Ana.InterSyntax Ana.InterSem Ana.InterTD Ana.InterTDSound Ana.InterBU.
Import ListNotations.

Theorem bu_validate_sound p voff entries init tpre tpost S delay desc efuel wtos :
  bu_validate p voff entries init tpre tpost S delay desc efuel wtos = true ->
  forall Init : store -> Prop, (forall s, Init s -> genv init s) ->
  (forall f n s, IRPre p entries Init f n s -> genv (tpre f n) s) /\
  (forall f n s, IRPost p entries Init f n s -> genv (tpost f n) s) /\
  (forall sm, In sm S ->
     forall s0 s1, genv (s_pre sm) s0 -> exec_fun p (s_fn sm) s0 s1 -> genv (s_post sm) s1).
Proof.
  unfold bu_validate. intros H Init HI.
  destruct (ig_check_sound _ _ _ _ _ _ _ _ H Init HI) as (A & B & C).
  split; auto. split; auto. intros sm I. apply C.
  rewrite map_map. cbn [fst]. rewrite map_id. exact I.
Qed.

(* summaries of the bottom-up phase have the precondition top: they hold whatever the inputs *)
Corollary bu_summary_any_input p voff entries init tpre tpost sums delay desc efuel wtos :
  bu_validate p voff entries init tpre tpost (bu_summaries p sums) delay desc efuel wtos = true ->
  forall Init : store -> Prop, (forall s, Init s -> genv init s) ->
  forall f sum, f < length p -> sums f = Some sum ->
  forall s0 s1, exec_fun p f s0 s1 -> genv sum s1.
Proof.
  intros H Init HI f sum L E s0 s1 X.
  destruct (bu_validate_sound _ _ _ _ _ _ _ _ _ _ _ H Init HI) as (_ & _ & C).
  apply (C (mkSumm f e_top sum)) with (s0 := s0); auto.
  - unfold bu_summaries. apply in_flat_map. exists f. split.
    + apply in_seq. lia.
    + rewrite E. left. reflexivity.
  - simpl. apply genv_top.
Qed.
