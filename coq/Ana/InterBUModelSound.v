(* InterBUModelSound.v — property C10 for the MODEL of the bottom-up inter-procedural analyzer
   (Ana/InterBU.v, bu_run), directly and without the certificate checker: whenever the model
   returns without error flag (no fuel exhausted, every function processed: in particular the
   call graph has no cycle),
     - every summary of the bottom-up phase contains the final store of every terminating
       concrete execution of its function, whatever the inputs;
     - the tables of the top-down phase contain every state with which an execution started at
       an entry function (a function without callers) enters / leaves a block, in any frame of
       the call stack.
   Every well-formed program whose variables are below voff (the first internal name), every
   widening delay, number of descending iterations and fuel; the orderings of the CFGs are
   those computed by the model of wto.hpp; the initial value does not constrain the internal
   names.
   Bottom-up phase: instance of Fix/EngineSound.v; top-down phase: instance of
   Ana/InterEngineSound.v (the threaded state is the call-context table).  The abstract values
   are read through a concretization that is closed under changes of the internal names: this
   is the invariant "the analyzer forgets the internal names after every callsite". *)
From Coq Require Import ZArith NArith List Bool Arith Lia Relations.
From CrabV Require Import Base.ZInf Scalar.Itv Ir.Syntax Ir.Cfg Dom.ItvEnv Dom.ItvEnvSound Dom.ItvDomain
     Dom.ItvDomainSound Fix.Wto Fix.WtoCheck Fix.WtoSound Fix.WtoRoot Fix.Engine Fix.EngineCheck Fix.EngineRel
     Fix.EngineFS Fix.EngineSound Ana.CfgSem Ana.Transformer Ana.FwdItv Ana.FwdItvEngineSound
     Ana.InterSyntax Ana.InterSem Ana.InterTD Ana.InterTDSound Ana.InterBU Ana.InterBUSound
     Ana.InterEngineSound Ana.InterTDModelSound Ana.InterTDRecset.
Import ListNotations.
Local Notation upd := Syntax.upd.

(* ------------------------------------------------------------------ stores up to the internal names *)
Definition agree_low (voff : N) (s s' : store) : Prop := forall k, (k < voff)%N -> s' k = s k.
Definition mix (voff : N) (s t : store) : store := fun k => if (k <? voff)%N then s k else t k.
(* the concretization closed under changes of the variables >= voff *)
Definition genvL (voff : N) (e : env) (s : store) : Prop := forall s', agree_low voff s s' -> genv e s'.

Lemma agree_low_refl voff s : agree_low voff s s.
Proof. intros k _. reflexivity. Qed.
Lemma agree_low_trans voff a b c : agree_low voff a b -> agree_low voff b c -> agree_low voff a c.
Proof. intros H1 H2 k L. rewrite (H2 k L). apply H1, L. Qed.
Lemma agree_low_sym voff a b : agree_low voff a b -> agree_low voff b a.
Proof. intros H k L. symmetry. apply H, L. Qed.
Lemma mix_low voff s t k : (k < voff)%N -> mix voff s t k = s k.
Proof. intros L. unfold mix. apply N.ltb_lt in L. rewrite L. reflexivity. Qed.
Lemma mix_high voff s t k : ~ (k < voff)%N -> mix voff s t k = t k.
Proof. intros L. unfold mix. destruct (N.ltb_spec k voff); [contradiction|reflexivity]. Qed.
Lemma mix_agree voff s t : agree_low voff s (mix voff s t).
Proof. intros k L. apply mix_low, L. Qed.
Lemma genvL_genv voff e s : genvL voff e s -> genv e s.
Proof. intros H. apply H, agree_low_refl. Qed.
Lemma genvL_agree voff e s s' : genvL voff e s -> agree_low voff s s' -> genvL voff e s'.
Proof. intros H A t B. apply H. eapply agree_low_trans; eauto. Qed.
Lemma genvL_top voff s : genvL voff e_top s.
Proof. intros s' _. apply genv_top. Qed.

Definition belowP (voff : N) (l : list var) : Prop := forall x, In x l -> (x < voff)%N.

(* a statement whose variables are below voff does not see the other variables *)
Lemma sstep_low voff st s s' t' : belowP voff (stmt_vars st) -> sstep st s s' -> agree_low voff s' t' ->
  exists t'', sstep st (mix voff s t') t'' /\ forall k, t'' k = t' k.
Proof.
  intros B H A. set (m := mix voff s t').
  assert (ML : forall l, belowP voff l -> agree l m s).
  { intros l Bl x I. apply mix_low. apply Bl, I. }
  assert (UPD : forall x v, (x < voff)%N -> s' = upd s x v -> forall k, upd m x v k = t' k).
  { intros x v Lx E k. unfold upd. destruct (N.eqb_spec k x) as [->|N].
    - rewrite (A x Lx), E. unfold upd. rewrite N.eqb_refl. reflexivity.
    - unfold m, mix. destruct (N.ltb_spec k voff) as [L|L]; [|reflexivity].
      rewrite (A k L), E. unfold upd. destruct (N.eqb_spec k x); [contradiction|reflexivity]. }
  assert (SAME : s' = s -> forall k, m k = t' k).
  { intros E k. unfold m, mix. destruct (N.ltb_spec k voff) as [L|L]; [|reflexivity].
    rewrite (A k L), E. reflexivity. }
  destruct st as [x e|op x y z|op x y z|c|c i|x|x c e1 e2|]; cbn [sstep stmt_vars] in *.
  - exists (upd m x (eval_le e m)). split; [reflexivity|].
    rewrite (eval_le_agree e m s) by (apply ML; intros v I; apply B; right; exact I).
    apply UPD; [apply B; left; reflexivity|exact H].
  - destruct H as (v & Hv & E). exists (upd m x v). split.
    + exists v. split; [|reflexivity].
      assert (My : m y = s y) by (apply mix_low; apply B; right; left; reflexivity).
      assert (Mz : ItvDomainSound.operand_val z m = ItvDomainSound.operand_val z s).
      { destruct z as [v0|c0]; cbn [ItvDomainSound.operand_val]; [|reflexivity]. apply mix_low. apply B. right. right. left. reflexivity. }
      rewrite My, Mz. exact Hv.
    + apply UPD; [apply B; left; reflexivity|exact E].
  - destruct H as (v & Hv & E). exists (upd m x v). split.
    + exists v. split; [|reflexivity].
      assert (My : m y = s y) by (apply mix_low; apply B; right; left; reflexivity).
      assert (Mz : ItvDomainSound.operand_val z m = ItvDomainSound.operand_val z s).
      { destruct z as [v0|c0]; cbn [ItvDomainSound.operand_val]; [|reflexivity]. apply mix_low. apply B. right. right. left. reflexivity. }
      rewrite My, Mz. exact Hv.
    + apply UPD; [apply B; left; reflexivity|exact E].
  - destruct H as [Hs E]. exists m. split; [|apply SAME, E]. split; [|reflexivity].
    apply satb_spec. rewrite (satb_agree c m s) by (apply ML; exact B). apply satb_spec. exact Hs.
  - destruct H as [Hs E]. exists m. split; [|apply SAME, E]. split; [|reflexivity].
    apply satb_spec. rewrite (satb_agree c m s) by (apply ML; exact B). apply satb_spec. exact Hs.
  - destruct H as (v & E). exists (upd m x v). split; [exists v; reflexivity|].
    apply UPD; [apply B; left; reflexivity|exact E].
  - exists (upd m x (if satb c m then eval_le e1 m else eval_le e2 m)). split; [reflexivity|].
    rewrite (satb_agree c m s) by (apply ML; intros v I; apply B; right; apply in_or_app; left; exact I).
    rewrite (eval_le_agree e1 m s)
      by (apply ML; intros v I; apply B; right; apply in_or_app; right; apply in_or_app; left; exact I).
    rewrite (eval_le_agree e2 m s)
      by (apply ML; intros v I; apply B; right; apply in_or_app; right; apply in_or_app; right; exact I).
    apply UPD; [apply B; left; reflexivity|exact H].
  - destruct H.
Qed.

Lemma tr_stmt_soundL voff st e a b : stmt_wf st -> belowP voff (stmt_vars st) ->
  genvL voff e a -> sstep st a b -> genvL voff (tr_stmt st e) b.
Proof.
  intros W B Ga H t' A.
  destruct (sstep_low voff st a b t' B H A) as (t'' & H' & E).
  apply (genv_ext _ t''); [|intros k; symmetry; apply E].
  eapply tr_stmt_sound; eauto. apply Ga, mix_agree.
Qed.

Lemma havoc_list_sound vs : forall e s s', genv e s -> (forall k, ~ In k vs -> s' k = s k) -> genv (havoc_list vs e) s'.
Proof.
  unfold havoc_list. induction vs as [|v r IH]; cbn [fold_left]; intros e s s' Gs H.
  - apply (genv_ext _ s); [exact Gs|]. intros k. apply H. intros [].
  - apply (IH (e_forget e v) (upd s v (s' v)) s'); [apply e_forget_sound, Gs|].
    intros k NI. unfold upd. destruct (N.eqb_spec k v) as [->|N]; [reflexivity|].
    apply H. intros [E|I]; [apply N; symmetry; exact E|contradiction].
Qed.

(* ------------------------------------------------------------------ reuse_summary, for a caller value that does
   not constrain the internal names (copy of InterBUSound.bu_reuse_sound with that hypothesis
   instead of an explicit forget) *)
Section ReuseSoundL.
  Variable voff : N.
  Variables outs ins fins fouts : list var.
  Hypothesis ND : NoDup (fins ++ fouts).
  Hypothesis Lin : length fins = length ins.
  Hypothesis Lout : length fouts = length outs.
  Hypothesis NDo : NoDup outs.
  Hypothesis Bf : forall x, In x (fins ++ fouts) -> (x < voff)%N.
  Hypothesis Bi : forall x, In x ins -> (x < voff)%N.
  Hypothesis Bo : forall x, In x outs -> (x < voff)%N.

  Let fs := fins ++ fouts.
  Let ii := iins voff fins.
  Let io := iouts voff fins fouts.
  Let is := ii ++ io.

  Theorem bu_reuse_soundL caller sum a s1 b :
    (forall a', (forall k, ~ In k is -> a' k = a k) -> genv caller a') -> genv sum s1 ->
    (forall f y, In (f, y) (combine fins ins) -> s1 f = a y) ->
    (forall k, b k = assign_outs a outs fouts s1 k) ->
    genv (bu_reuse voff outs ins fins fouts caller (e_project sum fs)) b.
  Proof.
    intros G Gs Vin Hb. unfold bu_reuse. fold ii io is fs.
    pose proof (len_ii voff fins) as len_ii'. fold ii in len_ii'.
    pose proof (len_io voff fins fouts) as len_io'. fold io in len_io'.
    pose proof (len_is voff fins fouts) as len_is'. fold fs ii io is in len_is'.
    pose proof (is_nodup voff fins fouts) as is_nodup'. fold ii io is in is_nodup'.
    assert (is_ge' : forall k, In k is -> (voff <= k)%N) by (intros k; apply is_ge).
    set (ps := combine fs is).
    set (tw := fun k : var => match assoc_rev ps k with Some x => s1 x | None => a k end).
    assert (MS : map snd ps = is) by (unfold ps; apply map_snd_combine; apply len_is').
    assert (MF : map fst ps = fs) by (unfold ps; apply map_fst_combine; apply len_is').
    assert (NDs : NoDup (map snd ps)) by (rewrite MS; apply is_nodup').
    assert (TWin : forall x y, In (x, y) ps -> tw y = s1 x).
    { intros x y I. unfold tw. rewrite (assoc_rev_in ps x y NDs I). reflexivity. }
    assert (TWout : forall k, ~ In k is -> tw k = a k).
    { intros k NI. unfold tw. rewrite assoc_rev_none; auto. rewrite MS. exact NI. }
    assert (LOW : forall k, (k < voff)%N -> ~ In k is).
    { intros k L I. apply is_ge' in I. lia. }
    assert (Fr : forall k, ~ In k outs -> b k = a k).
    { intros k NI. rewrite Hb. apply assign_outs_other. exact NI. }
    assert (Vout : forall o f, In (o, f) (combine outs fouts) -> b o = s1 f).
    { intros o f I. rewrite Hb. apply assign_outs_in; auto. }
    assert (G1 : genv (assign_list (combine ii ins) caller) tw).
    { set (a2 := fun k : var => if vmem k is then tw k else a k).
      assert (Ga2 : genv caller a2).
      { apply G. intros k NI. unfold a2. apply vmem_false in NI. rewrite NI. reflexivity. }
      eapply genv_ext; [apply assign_list_sound; exact Ga2|].
      intros k. symmetry. rewrite (aseq_spec tw).
      - destruct (vmem k (map fst (combine ii ins))); auto.
        unfold a2. destruct (vmem k is) eqn:V; auto. apply vmem_false in V. symmetry. apply TWout. exact V.
      - intros x y I J. apply in_combine_l in I.
        apply in_map_iff in J. destruct J as ([x' y'] & E & J). cbn [snd] in E. subst y'.
        apply in_combine_r in J. apply Bi in J.
        assert (voff <= x)%N by (apply is_ge'; unfold is; apply in_or_app; left; exact I). lia.
      - intros x y I.
        assert (NIy : ~ In y is) by (apply LOW; apply Bi; eapply in_combine_r; eauto).
        unfold a2. apply vmem_false in NIy. rewrite NIy.
        destruct (combine_mid ii fins ins x y len_ii' Lin I) as (f & J1 & J2).
        rewrite (TWin f x).
        + symmetry. apply Vin. exact J2.
        + unfold ps, fs, is. apply in_combine_app_l; [symmetry; apply len_ii'|]. apply in_combine_swap. exact J1. }
    assert (G2 : genv (e_rename (e_project sum fs) fs is) tw).
    { set (sP := fun k : var => if vmem k fs then s1 k else tw k).
      assert (GP : genv (e_project sum fs) sP).
      { apply (e_project_sound _ _ s1); auto. intros k I. unfold sP. apply vmem_spec in I. rewrite I. reflexivity. }
      assert (TOP : forall k, In k is -> is_top (e_at (e_project sum fs) k) = true).
      { intros k I. apply (e_project_at_other sum fs k s1 Gs).
        intros J. apply Bf in J. apply is_ge' in I. lia. }
      pose proof (e_rename_sound (e_project sum fs) fs is sP (map tw fs) GP is_nodup' len_is' TOP) as R.
      eapply genv_ext; [exact R|].
      intros k. symmetry. fold ps.
      replace (map tw fs) with (map tw (map fst ps)) by (rewrite MF; reflexivity).
      rewrite (rename_store_spec tw).
      - rewrite MF, MS. destruct (vmem k fs || vmem k is) eqn:M; auto.
        apply orb_false_iff in M. destruct M as [M _]. unfold sP. rewrite M. reflexivity.
      - rewrite MF. exact ND.
      - rewrite MF, MS. intros x y I J E. subst y. apply Bf in I. apply is_ge' in J. lia.
      - intros x y I. unfold sP.
        assert (V : vmem x fs = true) by (apply vmem_spec; unfold ps in I; eapply in_combine_l; eauto).
        rewrite V. symmetry. apply TWin. exact I. }
    set (psO := combine outs io).
    assert (S3 : forall k, aseq psO tw k = if vmem k (map fst psO) then b k else tw k).
    { apply aseq_spec.
      - intros x y I J. apply in_combine_l in I. apply Bo in I.
        apply in_map_iff in J. destruct J as ([x' y'] & E & J). cbn [snd] in E. subst y'.
        apply in_combine_r in J.
        assert (voff <= x)%N by (apply is_ge'; unfold is; apply in_or_app; right; exact J). lia.
      - intros x y I.
        destruct (combine_mid outs fouts io x y (eq_sym Lout) (eq_sym len_io') I) as (f & J1 & J2).
        rewrite (TWin f y).
        + symmetry. apply Vout. exact J1.
        + unfold ps, fs, is. apply in_combine_app_r; [symmetry; apply len_ii'|exact J2]. }
    apply (d_forget_sound _ _ (aseq psO tw)).
    { apply assign_list_sound. apply e_meet_sound; auto. }
    intros k NI. rewrite S3.
    destruct (vmem k (map fst psO)) eqn:W; auto.
    rewrite TWout by exact NI. apply Fr.
    intros I. apply vmem_false in W. apply W. unfold psO. rewrite map_fst_combine; auto.
    rewrite len_io'. symmetry. exact Lout.
  Qed.

  (* td_summ_abs_transformer::exec: the calling context of the callee contains its entry store *)
  Theorem bu_callee_ctx_sound caller a s0 :
    NoDup fins -> genv caller a -> bind_ins fins ins a s0 -> genv (bu_callee_ctx voff ins fins caller) s0.
  Proof.
    intros NDf G B. unfold bu_callee_ctx. fold ii.
    pose proof (len_ii voff fins) as len_ii'. fold ii in len_ii'.
    assert (ii_ge : forall k, In k ii -> (voff <= k)%N).
    { intros k I. apply (is_ge voff fins fouts). apply in_or_app. left. exact I. }
    assert (Bfi : forall x, In x fins -> (x < voff)%N) by (intros x I; apply Bf, in_or_app; left; exact I).
    set (ps := combine ii fins).
    assert (MF : map fst ps = ii) by (unfold ps; apply map_fst_combine; exact len_ii').
    assert (MS : map snd ps = fins) by (unfold ps; apply map_snd_combine; exact len_ii').
    (* the internal inputs receive the actual parameters *)
    set (tg := fun k : var => match assoc_rev (combine fins ii) k with Some f => s0 f | None => a k end).
    assert (NDii : NoDup ii).
    { unfold ii, iins. apply nodup_interns. }
    assert (TG : forall f x, In (f, x) (combine fins ii) -> tg x = s0 f).
    { intros f x I. unfold tg. rewrite (assoc_rev_in _ f x); auto.
      rewrite map_snd_combine by (symmetry; exact len_ii'). exact NDii. }
    assert (S1 : forall k, aseq (combine ii ins) a k = if vmem k (map fst (combine ii ins)) then tg k else a k).
    { apply aseq_spec.
      - intros x y I J. apply in_combine_l in I.
        apply in_map_iff in J. destruct J as ([x' y'] & E & J). cbn [snd] in E. subst y'.
        apply in_combine_r in J. apply Bi in J. apply ii_ge in I. lia.
      - intros x y I. destruct (combine_mid ii fins ins x y len_ii' Lin I) as (f & J1 & J2).
        rewrite (TG f x) by (apply in_combine_swap; exact J1).
        symmetry. apply (Forall2_combine _ _ _ _ _ B J2). }
    set (sP := fun k : var => if vmem k ii then tg k else s0 k).
    assert (GP : genv (e_project (assign_list (combine ii ins) caller) ii) sP).
    { apply (e_project_sound _ _ (aseq (combine ii ins) a)); [apply assign_list_sound, G|].
      intros k I. unfold sP. assert (V : vmem k ii = true) by (apply vmem_spec; exact I). rewrite V.
      rewrite S1. rewrite map_fst_combine by (rewrite len_ii'; exact Lin). rewrite V. reflexivity. }
    assert (TOP : forall k, In k fins -> is_top (e_at (e_project (assign_list (combine ii ins) caller) ii) k) = true).
    { intros k I. apply (e_project_at_other _ ii k (aseq (combine ii ins) a)); [apply assign_list_sound, G|].
      intros J. apply ii_ge in J. apply Bfi in I. lia. }
    pose proof (e_rename_sound _ ii fins sP (map s0 ii) GP NDf len_ii' TOP) as R.
    eapply genv_ext; [exact R|].
    intros k. symmetry. fold ps.
    replace (map s0 ii) with (map s0 (map fst ps)) by (rewrite MF; reflexivity).
    rewrite (rename_store_spec s0).
    - rewrite MF, MS. destruct (vmem k ii || vmem k fins) eqn:M; auto.
      apply orb_false_iff in M. destruct M as [M _]. unfold sP. rewrite M. reflexivity.
    - rewrite MF. exact NDii.
    - rewrite MF, MS. intros x y I J E. subst y. apply ii_ge in I. apply Bfi in J. lia.
    - intros x y I. unfold sP.
      assert (V : vmem x ii = true) by (apply vmem_spec; unfold ps in I; eapply in_combine_l; eauto).
      rewrite V. apply TG. apply in_combine_swap. exact I.
  Qed.
End ReuseSoundL.

(* the collecting semantics of Fix/EngineCheck.v does not depend on the concretization when there
   are no assumptions *)
Lemma RP_gamma_irrel (A State : Type) (g1 g2 : A -> State -> Prop) bstep preds entry asm Init :
  (forall n s, RPre A State g1 bstep preds entry false asm Init n s ->
               RPre A State g2 bstep preds entry false asm Init n s) /\
  (forall n s, RPost A State g1 bstep preds entry false asm Init n s ->
               RPost A State g2 bstep preds entry false asm Init n s).
Proof.
  apply (R_mutind A State g1 bstep preds entry false asm Init
           (fun n s _ => RPre A State g2 bstep preds entry false asm Init n s)
           (fun n s _ => RPost A State g2 bstep preds entry false asm Init n s)).
  - intros s i _. apply RP_init; [exact i|exact I].
  - intros n q s i _ R _. apply RP_edge with q; [exact i|exact R|exact I].
  - intros n s s' _ R b. apply RPo with s; assumption.
Qed.

(* every variable of the program is below voff *)
Definition iprog_lowb (p : iprog) (voff : N) : bool :=
  forallb (fun fn => forallb (fun b => forallb (fun st => InterSyntax.below voff (istmt_vars st)) b) (f_blocks fn)) p.

Lemma fold_left_inv {A B : Type} (P : A -> Prop) (step : A -> B -> A) : forall l acc,
  (forall acc x, In x l -> P acc -> P (step acc x)) -> P acc -> P (fold_left step l acc).
Proof.
  induction l as [|x l IH]; intros acc H H0; cbn [fold_left]; [exact H0|].
  apply IH; [intros acc' y I; apply H; right; exact I|apply H; [left; reflexivity|exact H0]].
Qed.
Lemma iter_inv {A : Type} (P : A -> Prop) (f : A -> A) : (forall x, P x -> P (f x)) ->
  forall n x, P x -> P (iter n f x).
Proof. intros H. induction n as [|n IH]; intros x Hx; cbn [iter]; auto. Qed.

Section BUModel.
  Variable p : iprog.
  Variable voff : N.
  Hypothesis WF : iprog_wfb p voff = true.
  Hypothesis LOW : iprog_lowb p voff = true.
  Variables delay desc efuel : nat.
  Variable wtos : nat -> wto.
  Hypothesis WTO : forall f, f < length p -> build (fn_graph (get_fn p f)) 0 = Some (wtos f).

  Notation gL := (genvL voff).

  Lemma low_stmt f n st : f < length p -> In st (fn_block (get_fn p f) n) -> belowP voff (istmt_vars st).
  Proof.
    intros L I. unfold iprog_lowb in LOW. rewrite forallb_forall in LOW.
    specialize (LOW _ (get_fn_in p f L)). rewrite forallb_forall in LOW.
    specialize (LOW _ (fn_block_in _ _ _ I)). rewrite forallb_forall in LOW.
    specialize (LOW _ I). exact (below_spec _ _ LOW).
  Qed.

  Definition stmt_okL (fcur : nat) (st : istmt) : Prop :=
    istmt_wfb p voff (get_fn p fcur) st = true /\ belowP voff (istmt_vars st).

  Lemma block_okL f n : f < length p -> forall st, In st (fn_block (get_fn p f) n) -> stmt_okL f st.
  Proof.
    intros L st I. destruct (fn_wf p voff WF f L) as (_ & _ & _ & _ & Wb).
    split; [exact (Wb n st I)|exact (low_stmt f n st L I)].
  Qed.

  (* ---------------------------------------------------------------- summaries *)
  Definition SumOK (g : nat) (sum : env) : Prop :=
    exists X, sum = e_project X (fn_formals (get_fn p g)) /\ forall s0 s1, exec_fun p g s0 s1 -> genv X s1.
  Definition SInv (sums : nat -> option env) : Prop := forall g sum, sums g = Some sum -> SumOK g sum.

  Section Stmt.
    Variable sums : nat -> option env.
    Hypothesis SI : SInv sums.

    Lemma call_frame fcur outs g ins a s0 s1 b t' :
      istmt_wfb p voff (get_fn p fcur) (ICall outs g ins) = true ->
      bind_ins (f_ins (get_fn p g)) ins a s0 -> exec_fun p g s0 s1 ->
      (forall k, b k = assign_outs a outs (f_outs (get_fn p g)) s1 k) -> agree_low voff b t' ->
      (forall f y, In (f, y) (combine (f_ins (get_fn p g)) ins) -> s1 f = mix voff a t' y) /\
      (forall k, t' k = assign_outs (mix voff a t') outs (f_outs (get_fn p g)) s1 k) /\
      (forall k, ~ In k outs -> t' k = mix voff a t' k).
    Proof.
      intros W B XF Hb A.
      destruct (call_wf _ _ _ _ _ _ W) as (Lg & Li & Lo & NDo & Bi & Bo).
      assert (OUT : forall k, ~ In k outs -> t' k = mix voff a t' k).
      { intros k NI. unfold mix. destruct (N.ltb_spec k voff) as [L|L]; [|reflexivity].
        rewrite (A k L), Hb. apply assign_outs_other. exact NI. }
      split; [|split; [|exact OUT]].
      - intros f y J. rewrite (exec_fun_frame p voff WF g s0 s1 XF Lg) by (eapply in_combine_l; eauto).
        rewrite (Forall2_combine _ _ _ _ _ B J). symmetry. apply mix_low. apply Bi. eapply in_combine_r; eauto.
      - intros k. destruct (in_dec N.eq_dec k outs) as [I|NI].
        + destruct (combine_in_exists_l outs (f_outs (get_fn p g)) k (eq_sym Lo) I) as (f & J).
          rewrite (assign_outs_in _ _ _ _ k f NDo J). rewrite (A k (Bo k I)), Hb.
          apply (assign_outs_in _ _ _ _ k f NDo J).
        + rewrite assign_outs_other by exact NI. apply OUT, NI.
    Qed.

    Lemma bu_stmt_soundL fcur st e a b : stmt_okL fcur st ->
      gL e a -> exec_stmt p st a b -> gL (bu_stmt p voff sums st e) b.
    Proof.
      intros [W B] Ga X. destruct st as [s|outs g ins]; cbn [bu_stmt].
      - inversion X; subst. cbn in W. apply andb_true_iff in W. destruct W as [W _].
        eapply tr_stmt_soundL; eauto. apply stmt_wfb_sound. exact W.
      - inversion X as [|outs' g' ins' a' s0 s1 b' Bd XF Hb]; subst.
        intros t' A.
        destruct (call_frame fcur outs g ins a s0 s1 b t' W Bd XF Hb A) as (Vin & Hb' & OUT).
        destruct (call_wf _ _ _ _ _ _ W) as (Lg & Li & Lo & NDo & Bi & Bo).
        destruct (fn_wf p voff WF g Lg) as (NDf & Bf & _).
        destruct (sums g) as [sum|] eqn:SG.
        + destruct (SI g sum SG) as (X0 & EQ & SS). rewrite EQ.
          apply (bu_reuse_soundL voff outs ins _ _ NDf Li Lo NDo Bf Bi Bo e X0 (mix voff a t') s1 t').
          * intros a' HA. apply Ga. intros k L. rewrite HA.
            -- apply mix_low, L.
            -- intros I. apply (is_ge voff) in I. lia.
          * apply (SS s0 s1 XF).
          * exact Vin.
          * exact Hb'.
        + apply (havoc_list_sound outs e (mix voff a t') t'); [apply Ga, mix_agree|exact OUT].
    Qed.

    Lemma bu_block_soundL fcur : forall bl e a b, (forall st, In st bl -> stmt_okL fcur st) ->
      gL e a -> exec_block p bl a b -> gL (bu_block p voff sums bl e) b.
    Proof.
      unfold bu_block. induction bl as [|st r IH]; intros e a b OK Ga X; cbn [fold_left].
      - inversion X; subst. exact Ga.
      - inversion X as [|? ? ? m ? XS XR]; subst.
        apply (IH _ m); [intros st' I; apply OK; right; exact I| |exact XR].
        eapply bu_stmt_soundL; eauto. apply OK. left. reflexivity.
    Qed.

    (* ---------------------------------------------------------------- the summary of one function *)
    Lemma bu_summary_ok f sum : f < length p -> bu_summary p voff delay desc efuel wtos sums f = Some (Some sum) -> SumOK f sum.
    Proof.
      intros L H. unfold bu_summary in H.
      destruct (Nat.eqb f 0); [discriminate|].
      destruct (f_outs (get_fn p f)) as [|o os] eqn:FO.
      { inversion H; subst sum. exists e_top. split; [reflexivity|]. intros. apply genv_top. }
      destruct (f_exit (get_fn p f)) as [x|] eqn:FX; [|discriminate].
      destruct (run _ _ _ _ _ _ _ _ _ _ _ _ _) as [st|] eqn:RUN; [|discriminate].
      inversion H; subst sum. clear H.
      exists (e_post env st x). split; [reflexivity|].
      intros s0 s1 XF.
      destruct (wto_ok p voff WF wtos WTO f L) as (WN & WE & WS).
      destruct (engine_sound env store gL itv_ops
                  (fun a b s H s' A => e_join_sound a b s' (or_introl (H s' A)))
                  (fun a b s H s' A => e_join_sound a b s' (or_intror (H s' A)))
                  (fun a b s Ha Hb s' A => e_meet_sound a b s' (Ha s' A) (Hb s' A))
                  (fun a b s Ha Hb s' A => e_narrow_sound a b s' (Ha s' A) (Hb s' A))
                  (fun a b s Lq Ha s' A => e_leq_sound a b s' Lq (Ha s' A))
                  (fun n e => bu_block p voff sums (fn_block (get_fn p f) n) e) (bstepf p f)
                  (fun n a s s' Ga B => bu_block_soundL f _ a s s' (block_okL f n L) Ga B)
                  (fn_preds (get_fn p f)) (nest_of (wtos f)) 0 delay desc false (fun _ => None)
                  (fun _ => True) e_top (fun s _ => genvL_top voff s) efuel (wtos f) WN WE
                  (starts_with_in _ _ WS) st RUN) as [_ HQ].
      inversion XF as [? ? ? XFR]; subst.
      destruct (exec_from_intra p (fun _ => True) f 0 s0 s1 XFR (IPre_init p f _ s0 I)) as (x' & EX' & R).
      rewrite FX in EX'. inversion EX'; subst x'.
      apply (genvL_genv voff). apply HQ.
      apply (proj2 (RP_gamma_irrel env store genv gL _ _ _ _ _)). exact R.
    Qed.
  End Stmt.

  (* ---------------------------------------------------------------- the bottom-up phase *)
  Lemma bu_sweep_inv st : SInv (fst (fst st)) -> SInv (fst (fst (bu_sweep p voff delay desc efuel wtos st))).
  Proof.
    unfold bu_sweep. apply (fold_left_inv (fun acc => SInv (fst (fst acc)))).
    intros [[sums done] err] f If SI. cbn [fst] in *.
    destruct (nmem f done); [exact SI|].
    destruct (all_in (cg_succs p f) done); [|exact SI].
    destruct (bu_summary p voff delay desc efuel wtos sums f) as [r|] eqn:BS; cbn [fst]; [|exact SI].
    intros g sum E. unfold fupd in E. destruct (Nat.eqb_spec g f) as [->|N]; [|exact (SI g sum E)].
    subst r. apply in_seq in If. apply (bu_summary_ok sums SI f sum); [lia|exact BS].
  Qed.

  Lemma bu_phase_inv n : SInv (fst (fst (iter n (bu_sweep p voff delay desc efuel wtos) (fun _ => None, [], false)))).
  Proof.
    apply (iter_inv (fun st => SInv (fst (fst st)))); [intros x; apply bu_sweep_inv|].
    intros g sum E. discriminate.
  Qed.

  (* ---------------------------------------------------------------- the top-down phase *)
  Lemma bind_ins_agree fins ins a s0 s0' :
    bind_ins fins ins a s0 -> (forall f, In f fins -> s0' f = s0 f) -> bind_ins fins ins a s0'.
  Proof.
    unfold bind_ins. intros B. induction B as [|x y l l' H B IH]; intros A; constructor.
    - rewrite A by (left; reflexivity). exact H.
    - apply IH. intros f I. apply A. right. exact I.
  Qed.

  Section TopDown.
    Variable sums : nat -> option env.
    Hypothesis SI : SInv sums.
    Variable entries : list nat.
    Variable Init : store -> Prop.
    Variable init : env.
    Hypothesis HInit : forall s, Init s -> gL init s.
    Hypothesis HE : forall f, In f entries -> f < length p /\ cg_preds p f = [].

    (* the call-context table only grows *)
    Definition ctstep (ct ct' : ctab) : Prop :=
      forall g c, ct g = Some c -> exists c', ct' g = Some c' /\ forall s, gL c s -> gL c' s.
    Lemma ctstep_refl ct : ctstep ct ct.
    Proof. intros g c E. exists c. auto. Qed.
    Lemma ctstep_trans a b c : ctstep a b -> ctstep b c -> ctstep a c.
    Proof.
      intros H1 H2 g x E. destruct (H1 g x E) as (y & E1 & L1). destruct (H2 g y E1) as (z & E2 & L2).
      exists z. auto.
    Qed.
    (* a function without summary gets no calling context *)
    Definition CT (ct : ctab) : Prop := forall g, sums g = None -> ct g = None.
    Definition CovCT (ct : ctab) (g : nat) (s0 : store) : Prop :=
      sums g = None \/ exists c, ct g = Some c /\ gL c s0.
    Definition CallsCovCT (ct : ctab) (f n : nat) (s : store) : Prop :=
      forall l1 outs g ins l2 mid s0, fn_block (get_fn p f) n = l1 ++ ICall outs g ins :: l2 ->
        exec_block p l1 s mid -> bind_ins (f_ins (get_fn p g)) ins mid s0 -> CovCT ct g s0.

    Lemma CovCT_step ct ct' g s0 : ctstep ct ct' -> CovCT ct g s0 -> CovCT ct' g s0.
    Proof.
      intros S [H|(c & E & Gc)]; [left; exact H|]. right.
      destruct (S g c E) as (c' & E' & L). exists c'. auto.
    Qed.
    Lemma CallsCovCT_step ct ct' f n s : ctstep ct ct' -> CallsCovCT ct f n s -> CallsCovCT ct' f n s.
    Proof. intros S H l1 outs g ins l2 mid s0 E X B. eapply CovCT_step; eauto. Qed.

    Notation td2s := (td2_stmt p voff sums).
    Notation td2b := (td2_block p voff sums).

    Lemma td2_stmt_fst st e ct : fst (td2s st e ct) = bu_stmt p voff sums st e.
    Proof. destruct st as [s|outs g ins]; cbn [td2_stmt bu_stmt fst]; [reflexivity|]. destruct (sums g); reflexivity. Qed.

    Lemma ctab_insert_step ct g inv : ctstep ct (ctab_insert ct g inv).
    Proof.
      intros g0 c E. unfold ctab_insert, fupd. destruct (Nat.eqb_spec g0 g) as [->|N].
      - rewrite E. exists (e_join c inv). split; [reflexivity|].
        intros s H s' A. apply e_join_sound. left. apply H, A.
      - exists c. auto.
    Qed.

    Lemma td2_stmt_step st e ct : ctstep ct (snd (td2s st e ct)).
    Proof.
      destruct st as [s|outs g ins]; cbn [td2_stmt snd]; [apply ctstep_refl|].
      destruct (sums g); cbn [snd]; [apply ctab_insert_step|apply ctstep_refl].
    Qed.
    Lemma td2_block_step : forall bl e ct, ctstep ct (snd (td2b bl e ct)).
    Proof.
      induction bl as [|st r IH]; intros e ct; cbn [td2_block]; [apply ctstep_refl|].
      eapply ctstep_trans; [apply td2_stmt_step|apply IH].
    Qed.

    Lemma td2_stmt_CT st e ct : CT ct -> CT (snd (td2s st e ct)).
    Proof.
      intros C0. destruct st as [s|outs g ins]; cbn [td2_stmt snd]; [exact C0|].
      destruct (sums g) eqn:SG; cbn [snd]; [|exact C0].
      intros g0 E0. unfold ctab_insert, fupd. destruct (Nat.eqb_spec g0 g) as [->|N]; [|apply C0, E0].
      rewrite SG in E0. discriminate.
    Qed.
    Lemma td2_block_CT : forall bl e ct, CT ct -> CT (snd (td2b bl e ct)).
    Proof.
      induction bl as [|st r IH]; intros e ct C0; cbn [td2_block]; [exact C0|].
      apply IH. apply td2_stmt_CT, C0.
    Qed.

    Lemma td2_stmt_soundL fcur st e ct a : stmt_okL fcur st -> CT ct -> gL e a ->
      CT (snd (td2s st e ct)) /\
      (forall outs g ins s0, st = ICall outs g ins -> bind_ins (f_ins (get_fn p g)) ins a s0 ->
                             CovCT (snd (td2s st e ct)) g s0) /\
      (forall b, exec_stmt p st a b -> gL (fst (td2s st e ct)) b).
    Proof.
      intros OK C0 Ga. split; [|split].
      - apply td2_stmt_CT, C0.
      - intros outs g ins s0 -> B. cbn [td2_stmt]. destruct OK as [W _].
        destruct (call_wf _ _ _ _ _ _ W) as (Lg & Li & Lo & NDo & Bi & Bo).
        destruct (fn_wf p voff WF g Lg) as (NDf & Bf & _).
        destruct (sums g) eqn:SG; cbn [snd]; [|left; exact SG]. right.
        set (ctx := bu_callee_ctx voff ins (f_ins (get_fn p g)) e).
        assert (GC : gL ctx s0).
        { intros s0' A.
          apply (bu_callee_ctx_sound voff outs ins _ _ Li Lo Bf Bi e a s0' (nodup_app_l _ _ NDf) (genvL_genv _ _ _ Ga)).
          apply (bind_ins_agree _ _ _ s0); [exact B|].
          intros f I. apply A. apply Bf. apply in_or_app. left. exact I. }
        unfold ctab_insert, fupd. rewrite Nat.eqb_refl. destruct (ct g) as [old|].
        + exists (e_join old ctx). split; [reflexivity|]. intros s' A. apply e_join_sound. right. apply GC, A.
        + exists ctx. split; [reflexivity|exact GC].
      - intros b X. rewrite td2_stmt_fst. eapply bu_stmt_soundL; eauto.
    Qed.

    Lemma td2_block_soundL fcur : forall bl e ct a, (forall st, In st bl -> stmt_okL fcur st) -> CT ct -> gL e a ->
      (forall l1 outs g ins l2 mid s0, bl = l1 ++ ICall outs g ins :: l2 -> exec_block p l1 a mid ->
         bind_ins (f_ins (get_fn p g)) ins mid s0 -> CovCT (snd (td2b bl e ct)) g s0) /\
      (forall b, exec_block p bl a b -> gL (fst (td2b bl e ct)) b).
    Proof.
      induction bl as [|st r IH]; intros e ct a OK C0 Ga; cbn [td2_block].
      - split.
        + intros l1 outs g ins l2 mid s0 E. destruct l1; discriminate.
        + intros b X. inversion X; subst. exact Ga.
      - set (q := td2s st e ct).
        destruct (td2_stmt_soundL fcur st e ct a (OK st (or_introl eq_refl)) C0 Ga) as (C1 & HS1 & HS2).
        fold q in C1, HS1, HS2.
        pose proof (td2_block_step r (fst q) (snd q)) as STr.
        split.
        + intros l1 outs g ins l2 mid s0 E XB B. destruct l1 as [|st' l1'].
          * cbn [app] in E. inversion E; subst. inversion XB; subst.
            apply (CovCT_step _ _ _ _ STr). eapply HS1; eauto.
          * cbn [app] in E. inversion E; subst. inversion XB as [|? ? ? m ? XS XR]; subst.
            destruct (IH (fst q) (snd q) m (fun st' I => OK st' (or_intror I)) C1 (HS2 m XS)) as (HB1 & _).
            eapply HB1; eauto.
        + intros b X. inversion X as [|? ? ? m ? XS XR]; subst.
          destruct (IH (fst q) (snd q) m (fun st' I => OK st' (or_intror I)) C1 (HS2 m XS)) as (_ & HB2).
          apply HB2. exact XR.
    Qed.

    (* ---------------------------------------------------------------- the states at the entry of a function *)
    Definition EntryState (f : nat) (s0 : store) : Prop :=
      (In f entries /\ Init s0) \/
      exists h m sm l1 outs ins l2 mid,
        IRPre p entries Init h m sm /\ fn_block (get_fn p h) m = l1 ++ ICall outs f ins :: l2 /\
        exec_block p l1 sm mid /\ bind_ins (f_ins (get_fn p f)) ins mid s0.

    Lemma frame :
      (forall f n s, IRPre p entries Init f n s -> IPre p f (EntryState f) n s) /\
      (forall f n s, IRPost p entries Init f n s -> IPost p f (EntryState f) n s).
    Proof.
      apply IR_mutind.
      - intros f s I J. apply IPre_init. left. auto.
      - intros f q n s E _ IH. eapply IPre_edge; eauto.
      - intros f n s l1 outs g ins l2 m s0 R _ EB X B. apply IPre_init. right.
        exists f, n, s, l1, outs, ins, l2, m. auto.
      - intros f n s s' _ IH X. eapply IPost_step; eauto.
    Qed.

    (* one function *)
    Lemma td2_fun f ct init_inv r : f < length p -> CT ct ->
      (forall s0, EntryState f s0 -> gL init_inv s0) ->
      srun env ctab itv_ops (fun n e ct => td2b (fn_block (get_fn p f) n) e ct) (fn_preds (get_fn p f))
           (nest_of (wtos f)) 0 delay desc efuel (wtos f) init_inv ct = Some r ->
      ctstep ct (se_g env ctab r) /\ CT (se_g env ctab r) /\
      (forall n s, IRPre p entries Init f n s -> gL (se_pre env ctab r n) s /\ CallsCovCT (se_g env ctab r) f n s) /\
      (forall n s, IRPost p entries Init f n s -> gL (se_post env ctab r n) s).
    Proof.
      intros L C0 HI RUN.
      destruct (wto_ok p voff WF wtos WTO f L) as (WN & WE & WS).
      set (an := fun (n : nat) (e : env) (ct : ctab) => td2b (fn_block (get_fn p f) n) e ct) in *.
      assert (ANS : forall (n : nat) (a : env) (g : ctab), True -> CT g ->
                CT (snd (an n a g)) /\
                forall s, gL a s -> CallsCovCT (snd (an n a g)) f n s /\
                                    forall s', bstepf p f n s s' -> gL (fst (an n a g)) s').
      { intros n a g _ Cg. unfold an.
        split; [apply td2_block_CT, Cg|].
        intros s Gs. destruct (td2_block_soundL f _ a g s (block_okL f n L) Cg Gs) as (H1 & H2).
        split; [|exact H2]. intros l1 outs g0 ins l2 mid s0 E XB B. eapply H1; eauto. }
      destruct (srun_sound env ctab store gL itv_ops
                  (fun a b s H s' A => e_join_sound a b s' (or_introl (H s' A)))
                  (fun a b s H s' A => e_join_sound a b s' (or_intror (H s' A)))
                  (fun a b s Ha Hb s' A => e_meet_sound a b s' (Ha s' A) (Hb s' A))
                  (fun a b s Ha Hb s' A => e_narrow_sound a b s' (Ha s' A) (Hb s' A))
                  (fun a b s Lq Ha s' A => e_leq_sound a b s' Lq (Ha s' A))
                  an (bstepf p f) ctstep ctstep_refl ctstep_trans
                  (fun n a g => td2_block_step _ a g)
                  (fun _ => True) (fun _ _ _ _ => I) CT
                  (fun n s g => CallsCovCT g f n s)
                  (fun n s g g' S H => CallsCovCT_step g g' f n s S H) ANS
                  (fn_preds (get_fn p f)) (nest_of (wtos f)) 0 delay desc (EntryState f) efuel init_inv HI
                  (wtos f) WN WE WS ct r RUN I C0) as (ST & C1 & HP & HQ).
      destruct frame as [FA FB].
      split; [exact ST|]. split; [exact C1|]. split.
      - intros n s R. apply HP. apply (proj1 (RP_gamma_irrel env store genv gL _ _ _ _ _)). apply FA, R.
      - intros n s R. apply HQ. apply (proj2 (RP_gamma_irrel env store genv gL _ _ _ _ _)). apply FB, R.
    Qed.

    (* ---------------------------------------------------------------- the sweeps *)
    Definition Cov (st : tdst) (f : nat) : Prop :=
      (forall n s, IRPre p entries Init f n s -> gL (t_pre st f n) s /\ CallsCovCT (t_ct st) f n s) /\
      (forall n s, IRPost p entries Init f n s -> gL (t_post st f n) s).
    Definition TI (st : tdst) : Prop :=
      t_err st = false ->
      CT (t_ct st) /\ (forall f, In f (t_done st) -> Cov st f) /\
      (forall f, ~ In f (t_done st) -> forall n s, genv (t_pre st f n) s /\ genv (t_post st f n) s).

    Lemma cg_preds_in h f : cg_edge p h f -> In h (cg_preds p f).
    Proof.
      intros E. unfold cg_preds. apply filter_In. split.
      - apply in_seq. pose proof (cg_edge_lt p h f E). lia.
      - apply nmem_spec. apply cg_succs_In, cg_edge_callees, E.
    Qed.

    Lemma IRPre_lt : (forall f n s, IRPre p entries Init f n s -> f < length p) /\
                     (forall f n s, IRPost p entries Init f n s -> f < length p).
    Proof.
      apply (IR_mutind p entries Init (fun f _ _ => f < length p) (fun f _ _ => f < length p)).
      - intros f s I _. apply HE, I.
      - intros f q n s _ _ IH. exact IH.
      - intros f n s l1 outs g ins l2 m s0 _ IH EB _ _.
        destruct (fn_wf p voff WF f IH) as (_ & _ & _ & _ & Wb).
        assert (W : istmt_wfb p voff (get_fn p f) (ICall outs g ins) = true).
        { apply (Wb n). rewrite EB. apply in_or_app. right. left. reflexivity. }
        apply (call_wf _ _ _ _ _ _ W).
      - intros f n s s' _ IH _. exact IH.
    Qed.

    Lemma td2_sweep_inv st : TI st -> TI (td2_sweep p voff delay desc efuel wtos sums init st).
    Proof.
      unfold td2_sweep. apply (fold_left_inv TI). intros acc f If HT. cbv beta zeta.
      destruct (nmem f (t_done acc)) eqn:ND; [exact HT|].
      destruct (all_in (cg_preds p f) (t_done acc)) eqn:AI; [|exact HT].
      apply in_seq in If. assert (Lf : f < length p) by lia.
      set (init_inv := match cg_preds p f with
                       | [] => init
                       | _ :: _ => match t_ct acc f with Some c => c | None => e_top end
                       end).
      match goal with |- TI (match ?X with _ => _ end) => destruct X as [r|] eqn:RUN end.
      2: { intros E. cbn in E. discriminate. }
      intros E. cbn [t_err] in E. destruct (HT E) as (C0 & DN & UD).
      assert (HI : forall s0, EntryState f s0 -> gL init_inv s0).
      { intros s0 [[Ie Is]|(h & m & sm & l1 & outs & ins & l2 & mid & R & EB & XB & B)].
        - destruct (HE f Ie) as [_ CP]. unfold init_inv. rewrite CP. apply HInit, Is.
        - assert (CE : cg_edge p h f).
          { exists m, outs, ins. rewrite EB. apply in_or_app. right. left. reflexivity. }
          pose proof (cg_preds_in h f CE) as IP.
          unfold all_in in AI. rewrite forallb_forall in AI. specialize (AI h IP). apply nmem_spec in AI.
          destruct (DN h AI) as [A _]. destruct (A m sm R) as [_ CV].
          specialize (CV l1 outs f ins l2 mid s0 EB XB B).
          unfold init_inv. destruct (cg_preds p f) as [|x xs] eqn:CP; [destruct IP|].
          destruct CV as [SN|(c & Ec & Gc)].
          + rewrite (C0 f SN). apply genvL_top.
          + rewrite Ec. exact Gc. }
      destruct (td2_fun f (t_ct acc) init_inv r Lf C0 HI RUN) as (ST & C1 & HP & HQ).
      cbn [t_ct t_pre t_post t_done].
      split; [exact C1|]. split.
      - intros h [<-|Ih].
        + unfold Cov. cbn [t_ct t_pre t_post].
          split; intros n s R; unfold fupd; rewrite Nat.eqb_refl; [apply HP, R|apply HQ, R].
        + assert (NE : h <> f).
          { intros ->. apply nmem_spec in Ih. rewrite Ih in ND. discriminate. }
          destruct (DN h Ih) as [A B]. unfold Cov. cbn [t_ct t_pre t_post].
          split; intros n s R; unfold fupd; (destruct (Nat.eqb_spec h f) as [EQ|_]; [contradiction|]).
          * destruct (A n s R) as [X Y]. split; [exact X|]. eapply CallsCovCT_step; eauto.
          * apply B, R.
      - intros h NI n s. assert (NE : h <> f) by (intros ->; apply NI; left; reflexivity).
        unfold fupd. destruct (Nat.eqb_spec h f) as [EQ|_]; [contradiction|].
        apply UD. intros I. apply NI. right. exact I.
    Qed.

    Lemma td2_phase_inv n :
      TI (iter n (td2_sweep p voff delay desc efuel wtos sums init)
               (mkTS (fun _ => None) (fun _ _ => e_top) (fun _ _ => e_top) [] false)).
    Proof.
      apply (iter_inv TI); [intros x; apply td2_sweep_inv|].
      intros _. cbn [t_ct t_done t_pre t_post]. split; [intros g _; reflexivity|].
      split; [intros f []|]. intros f _ m s. split; apply genv_top.
    Qed.
  End TopDown.

  (* ---------------------------------------------------------------- run(init) *)
  Theorem bu_run_sound entries init :
    (forall f, In f entries -> f < length p /\ cg_preds p f = []) ->
    let r := bu_run p voff delay desc efuel wtos init in
    b_err r = false ->
    forall Init : store -> Prop, (forall s, Init s -> gL init s) ->
    (forall f n s, IRPre p entries Init f n s -> genv (b_pre r f n) s) /\
    (forall f n s, IRPost p entries Init f n s -> genv (b_post r f n) s) /\
    (forall sm, In sm (bu_summaries p (b_sum r)) ->
       forall s0 s1, genv (s_pre sm) s0 -> exec_fun p (s_fn sm) s0 s1 -> genv (s_post sm) s1).
  Proof.
    intros HE. cbv zeta. unfold bu_run.
    destruct (forallb _ (seq 0 (length p))) eqn:NE.
    - (* the call graph has no edges *)
      assert (SI0 : SInv (fun _ => None)) by (intros g sum E; discriminate).
      match goal with |- b_err (match ?X with _ => _ end) = false -> _ => destruct X as [r|] eqn:RUN end;
        cbn [b_err b_pre b_post b_sum]; intros FN Init HI; [|discriminate].
      assert (HI0 : forall s0, EntryState entries Init 0 s0 -> gL init s0).
      { intros s0 [[_ Is]|(h & m & sm & l1 & outs & ins & l2 & mid & R & EB & XB & B)]; [apply HI, Is|].
        exfalso. assert (CE : cg_edge p h 0).
        { exists m, outs, ins. rewrite EB. apply in_or_app. right. left. reflexivity. }
        rewrite forallb_forall in NE. pose proof (cg_edge_lt p h 0 CE) as Lh.
        assert (J : In h (seq 0 (length p))) by (apply in_seq; lia).
        specialize (NE h J). apply cg_edge_callees, cg_succs_In in CE.
        destruct (cg_succs p h); [destruct CE|discriminate]. }
      assert (TD : 0 < length p ->
                   (forall n s, IRPre p entries Init 0 n s -> gL (se_pre env ctab r n) s) /\
                   (forall n s, IRPost p entries Init 0 n s -> gL (se_post env ctab r n) s)).
      { intros L0.
        destruct (td2_fun (fun _ => None) SI0 entries Init 0 (fun _ => None) init r L0
                    (fun g _ => eq_refl) HI0 RUN) as (_ & _ & HP & HQ).
        split; [intros n s R; apply HP, R|exact HQ]. }
      destruct (IRPre_lt entries Init HE) as [LA LB].
      split; [|split].
      + intros f n s R. destruct (Nat.eqb_spec f 0) as [->|N]; [|apply genv_top].
        apply (genvL_genv voff). apply (TD (LA _ _ _ R)), R.
      + intros f n s R. destruct (Nat.eqb_spec f 0) as [->|N]; [|apply genv_top].
        apply (genvL_genv voff). apply (TD (LB _ _ _ R)), R.
      + intros sm I. unfold bu_summaries in I. apply in_flat_map in I. destruct I as (f & _ & []).
    - (* bottom-up phase, then top-down phase *)
      pose proof (bu_phase_inv (length p)) as SIf.
      destruct (iter (length p) (bu_sweep p voff delay desc efuel wtos) (fun _ => None, [], false))
        as [[sums done] err] eqn:BU.
      cbn [fst] in SIf. cbn [b_err b_pre b_post b_sum]. intros FN Init HI.
      pose proof (td2_phase_inv sums SIf entries Init init HI HE (length p)) as HT.
      set (st := iter (length p) (td2_sweep p voff delay desc efuel wtos sums init)
                      (mkTS (fun _ => None) (fun _ _ => e_top) (fun _ _ => e_top) [] false)) in *.
      assert (E : t_err st = false).
      { destruct (t_err st); [|reflexivity]. rewrite orb_true_r in FN. cbn in FN. discriminate. }
      destruct (HT E) as (_ & DN & UD).
      split; [|split].
      + intros f n s R. destruct (in_dec Nat.eq_dec f (t_done st)) as [I|NI].
        * apply (genvL_genv voff). apply (DN f I), R.
        * apply (UD f NI).
      + intros f n s R. destruct (in_dec Nat.eq_dec f (t_done st)) as [I|NI].
        * apply (genvL_genv voff). apply (DN f I), R.
        * apply (UD f NI).
      + intros sm I s0 s1 _ XF. unfold bu_summaries in I. apply in_flat_map in I. destruct I as (f & _ & I).
        destruct (sums f) as [sum|] eqn:SF; [|destruct I]. destruct I as [<-|[]]. cbn [s_fn s_post] in *.
        destruct (SIf f sum SF) as (X & EQ & SS). rewrite EQ.
        apply (e_project_sound _ _ s1); [apply (SS s0 s1 XF)|auto].
  Qed.
End BUModel.

(* ------------------------------------------------------------------ the entries computed by the model *)
Lemma filter_nil {A : Type} (P : A -> bool) l : (forall x, In x l -> P x = false) -> filter P l = [].
Proof.
  induction l as [|x l IH]; intros H; cbn [filter]; [reflexivity|].
  rewrite (H x (or_introl eq_refl)). apply IH. intros y I. apply H. right. exact I.
Qed.

Lemma not_called_no_preds p f :
  nmem f (flat_map (cg_succs p) (seq 0 (length p))) = false -> cg_preds p f = [].
Proof.
  intros H. unfold cg_preds. apply filter_nil. intros g I.
  destruct (nmem f (cg_succs p g)) eqn:E; [|reflexivity].
  assert (X : nmem f (flat_map (cg_succs p) (seq 0 (length p))) = true).
  { apply nmem_spec. apply in_flat_map. exists g. split; [exact I|apply nmem_spec, E]. }
  rewrite X in H. discriminate.
Qed.

Lemma called_has_pred p f :
  nmem f (flat_map (cg_succs p) (seq 0 (length p))) = true -> cg_preds p f <> [].
Proof.
  intros H. apply nmem_spec in H. apply in_flat_map in H. destruct H as (g & I & J).
  assert (X : In g (cg_preds p f)).
  { unfold cg_preds. apply filter_In. split; [exact I|apply nmem_spec, J]. }
  intros E. rewrite E in X. destruct X.
Qed.

(* when every function has a caller nothing is ever processed by the top-down phase *)
Lemma td2_sweep_stuck p voff delay desc efuel wtos sums init st :
  (forall f, f < length p -> cg_preds p f <> []) -> t_done st = [] ->
  t_done (td2_sweep p voff delay desc efuel wtos sums init st) = [].
Proof.
  intros H. unfold td2_sweep. apply (fold_left_inv (fun acc => t_done acc = [])).
  intros acc f If E. cbv beta zeta. rewrite E. cbn [nmem existsb].
  apply in_seq in If. destruct (cg_preds p f) as [|x xs] eqn:CP; [exfalso; apply (H f); [lia|exact CP]|].
  cbn [all_in forallb nmem existsb andb]. exact E.
Qed.

Lemma bu_run_entries p voff delay desc efuel wtos init :
  b_err (bu_run p voff delay desc efuel wtos init) = false ->
  forall f, In f (cg_entries p) -> f < length p /\ cg_preds p f = [].
Proof.
  intros FN f I. split; [apply cg_entries_lt, I|].
  unfold cg_entries in I.
  destruct (filter (fun f => negb (nmem f (flat_map (cg_succs p) (seq 0 (length p))))) (seq 0 (length p)))
    as [|x l] eqn:FE.
  - (* every function has a caller: the error flag is raised *)
    exfalso.
    assert (ALL : forall h, h < length p -> cg_preds p h <> []).
    { intros h L. apply called_has_pred.
      destruct (nmem h (flat_map (cg_succs p) (seq 0 (length p)))) eqn:E; [reflexivity|].
      assert (X : In h (filter (fun f => negb (nmem f (flat_map (cg_succs p) (seq 0 (length p))))) (seq 0 (length p)))).
      { apply filter_In. split; [apply in_seq; lia|rewrite E; reflexivity]. }
      rewrite FE in X. destruct X. }
    apply in_seq in I. assert (Lf : f < length p) by lia.
    unfold bu_run in FN.
    destruct (forallb _ (seq 0 (length p))) eqn:NE.
    + (* no edges: impossible, f has a caller *)
      pose proof (ALL f Lf) as CP. apply CP. unfold cg_preds. apply filter_nil. intros g J.
      rewrite forallb_forall in NE. specialize (NE g J). destruct (cg_succs p g); [reflexivity|discriminate].
    + destruct (iter (length p) (bu_sweep p voff delay desc efuel wtos) (fun _ => None, [], false)) as [[sums done] err].
      cbn [b_err] in FN.
      assert (TD : t_done (iter (length p) (td2_sweep p voff delay desc efuel wtos sums init)
                                (mkTS (fun _ => None) (fun _ _ => e_top) (fun _ _ => e_top) [] false)) = []).
      { apply (iter_inv (fun st => t_done st = [])); [|reflexivity].
        intros st. apply td2_sweep_stuck. exact ALL. }
      rewrite TD in FN. cbn [length] in FN.
      destruct (length p) as [|k]; [lia|]. cbn in FN. rewrite !orb_true_r in FN. discriminate.
  - rewrite <- FE in I. apply filter_In in I. destruct I as [_ I].
    apply negb_true_iff in I. apply not_called_no_preds, I.
Qed.

(* ------------------------------------------------------------------ prog_voff is above every variable *)
Lemma lmax_ge : forall l acc, (acc <= fold_left N.max l acc)%N /\ forall x, In x l -> (x <= fold_left N.max l acc)%N.
Proof.
  induction l as [|y l IH]; intros acc; cbn [fold_left].
  - split; [lia|intros x []].
  - destruct (IH (N.max acc y)) as [A B]. split; [lia|].
    intros x [<-|I]; [lia|apply B, I].
Qed.

Lemma prog_voff_low p : iprog_lowb p (prog_voff p) = true.
Proof.
  unfold iprog_lowb. apply forallb_forall. intros fn If. apply forallb_forall. intros b Ib.
  apply forallb_forall. intros st Ist. unfold InterSyntax.below. apply forallb_forall. intros x Ix.
  apply N.ltb_lt. unfold prog_voff, lmax.
  match goal with |- (x < N.succ (fold_left N.max ?l 0%N))%N => destruct (lmax_ge l 0%N) as [_ H]; specialize (H x) end.
  assert (J : (x <= fold_left N.max
                     (flat_map (fun fn => fn_formals fn ++ flat_map (fun b => flat_map istmt_vars b) (f_blocks fn)) p) 0%N)%N).
  { apply H. apply in_flat_map. exists fn. split; [exact If|]. apply in_or_app. right.
    apply in_flat_map. exists b. split; [exact Ib|]. apply in_flat_map. exists st. split; [exact Ist|exact Ix]. }
  lia.
Qed.

(* ------------------------------------------------------------------ the theorem for the model's configuration *)
Theorem bu_model_sound p delay desc efuel wtos init :
  let voff := prog_voff p in
  iprog_wfb p voff = true ->
  (forall f, f < length p -> build (fn_graph (get_fn p f)) 0 = Some (wtos f)) ->
  let r := bu_run p voff delay desc efuel wtos init in
  b_err r = false ->
  forall Init : store -> Prop,
  (forall s s', Init s -> (forall k, (k < voff)%N -> s' k = s k) -> genv init s') ->
  (forall f n s, IRPre p (cg_entries p) Init f n s -> genv (b_pre r f n) s) /\
  (forall f n s, IRPost p (cg_entries p) Init f n s -> genv (b_post r f n) s) /\
  (forall sm, In sm (bu_summaries p (b_sum r)) ->
     forall s0 s1, genv (s_pre sm) s0 -> exec_fun p (s_fn sm) s0 s1 -> genv (s_post sm) s1).
Proof.
  intros voff WF WTO r FN Init HI.
  apply (bu_run_sound p voff WF (prog_voff_low p) delay desc efuel wtos WTO (cg_entries p) init
           (bu_run_entries p voff delay desc efuel wtos init FN) FN Init).
  intros s Is s' A. apply (HI s s' Is A).
Qed.

(* the summaries of the model hold whatever the inputs *)
Corollary bu_model_summary_any_input p delay desc efuel wtos init :
  let voff := prog_voff p in
  iprog_wfb p voff = true ->
  (forall f, f < length p -> build (fn_graph (get_fn p f)) 0 = Some (wtos f)) ->
  let r := bu_run p voff delay desc efuel wtos init in
  b_err r = false ->
  forall f sum, f < length p -> b_sum r f = Some sum ->
  forall s0 s1, exec_fun p f s0 s1 -> genv sum s1.
Proof.
  intros voff WF WTO r FN f sum L E s0 s1 X.
  destruct (bu_model_sound p delay desc efuel wtos init WF WTO FN (fun _ => False)) as (_ & _ & C).
  { intros s s' []. }
  apply (C (mkSumm f e_top sum)) with (s0 := s0); auto.
  - unfold bu_summaries. apply in_flat_map. exists f. split; [apply in_seq; lia|].
    subst r voff. rewrite E. left. reflexivity.
  - apply genv_top.
Qed.
