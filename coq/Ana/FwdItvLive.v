(* FwdItvLive.v — the forward analyzer model with the two remaining configurations of
   intra_fwd_analyzer:

   (1) liveness pruning (analysis/fwd_analyzer.hpp, prune_dead_variables): when a
       live_and_dead_analysis object is given, analyze(node, inv) runs the statements of the
       block and then, unless the result is bottom or top, forgets
            dead_exit(node) \ formals
       = (variables used or defined in the block) \ live-out(block), the empty set when
       live-out(block) is empty (live_and_dead_analysis::exec skips such blocks).  The liveness is the model of
       property C18 (Ana/Liveness.v) run on the same CFG; the CFGs of the harness have no
       function declaration (no formals, no outputs).  The initial value is not pruned.
   (2) widening with thresholds (max_thresholds > 0): extrapolate uses
       widening_thresholds with the set that wto_thresholds collected for the head
       (Fix/WtoThresholds.v); max_thresholds = 0: plain widening.

   fwd_run_gen is generic in the per-head thresholds and the per-block dead sets (the theorems
   of FwdItvFullSound.v hold for all of them); fwd_run_full instantiates them as the C++ does. *)
From Coq Require Import ZArith NArith List Bool Arith.
From CrabV Require Import Base.ZInf Scalar.Itv Ir.Syntax Ir.Cfg Dom.ItvEnv Dom.ItvEnvSound Dom.ItvDomain
     Fix.Wto Fix.Engine Fix.EngineCheck Fix.EngineFS Fix.Thresholds Fix.WtoThresholds Ana.Transformer Ana.FwdItv.
From CrabV Require Ana.CfgSem Ana.Liveness.
Import ListNotations.

(* ------------------------------------------------------------------ the CFG as cfg.hpp stores it
   (Ana/CfgSem.v): blocks b0..b(n-1), successor / predecessor vectors without duplicates in
   insertion order, optional exit, no function declaration *)
Definition cv_operand (o : operand) : CfgSem.operand :=
  match o with OVar v => CfgSem.OVar v | OCst k => CfgSem.OCst k end.
Definition cv_stmt (s : stmt) : CfgSem.stmt :=
  match s with
  | SAssign x e => CfgSem.SAssign x e
  | SArith op x y z => CfgSem.SArith op x y (cv_operand z)
  | SBit op x y z => CfgSem.SBit op x y (cv_operand z)
  | SAssume c => CfgSem.SAssume c
  | SAssert c id => CfgSem.SAssert c (N.of_nat id)
  | SHavoc x => CfgSem.SHavoc x
  | SSelect x c e1 e2 => CfgSem.SSelect x c e1 e2
  | SUnreach => CfgSem.SUnreach
  end.
Definition cv_prog (p : prog) (ex : option nat) : CfgSem.cfg :=
  CfgSem.mkCfg 0%N (option_map N.of_nat ex)
    (map (fun i => (N.of_nat i,
                    CfgSem.mkBlock (map cv_stmt (p_block p i))
                                   (map N.of_nat (dedup (p_preds p i)))
                                   (map N.of_nat (p_succs p i))))
         (seq 0 (length (p_blocks p))))
    [].

(* live_and_dead_analysis::exec + dead_exit for every block; None: the liveness model ran
   out of its fuel (never observed; the driver reports it) *)
Definition dead_table (p : prog) (ex : option nat) : option (list (list var)) :=
  let P := cv_prog p ex in
  match Liveness.liveness P with
  | None => None
  | Some m => Some (map (fun i => Liveness.dead_exit P m (N.of_nat i)) (seq 0 (length (p_blocks p))))
  end.
Definition dead_of (dt : list (list var)) (n : nat) : list var := nth n dt [].

(* ------------------------------------------------------------------ analyze with pruning *)
Definition tr_block_pruned (dead : list var) (b : block) (e : env) : env :=
  d_forget dead (tr_block b e).

Definition itv_ops_gen (use_thr : bool) (t : nat -> thr) : aops env :=
  mkOps env EBot e_top e_join e_meet
        (fun h => if use_thr then e_widen_thr (thr_prev (t h)) (thr_next (t h)) else e_widen)
        e_narrow e_leq.

Definition fwd_run_gen (use_thr : bool) (t : nat -> thr) (dead : nat -> list var)
           (p : prog) (w : wto) (entry delay desc : nat) (use_asm : bool)
           (asm : nat -> option env) (fuel : nat) (init : env) : option (est env) :=
  run env (itv_ops_gen use_thr t) (fun n e => tr_block_pruned (dead n) (p_block p n) e)
      (p_preds p) (nest_of w) entry delay desc use_asm asm init fuel w.

(* the per-head thresholds of the C++ for max_thresholds = thr > 0 *)
Definition prog_thr (maxthr : N) (p : prog) (w : wto) : nat -> thr :=
  let m := wto_thr_map maxthr (p_block p) (fun h => dedup (p_preds p h)) w in
  tm_get m.
(* the per-block dead sets of the C++ (no pruning if live = false) *)
Definition prog_dead (live : bool) (p : prog) (ex : option nat) : nat -> list var :=
  if live then match dead_table p ex with Some dt => dead_of dt | None => fun _ => [] end
  else fun _ => [].

(* intra_fwd_analyzer with fixpoint parameters (delay, desc, maxthr) and, if live, the liveness of
   the CFG whose exit block is ex *)
Definition fwd_run_full (p : prog) (w : wto) (entry delay desc : nat) (maxthr : N) (live : bool)
           (ex : option nat) (use_asm : bool) (asm : nat -> option env) (fuel : nat) (init : env)
  : option (est env) :=
  let t := prog_thr maxthr p w in
  let dead := prog_dead live p ex in
  fwd_run_gen (negb (maxthr =? 0)%N) t dead p w entry delay desc use_asm asm fuel init.

(* the table checker for the pruned transformer *)
Definition fwd_check_gen (dead : nat -> list var) (p : prog) (entry : nat) (use_asm : bool)
           (asm : nat -> option env) (init : env) (pre post : nat -> env) : bool :=
  forallb (fun b => forallb stmt_wfb b) (p_blocks p) &&
  forallb (fun e => (fst e <? length (p_blocks p)) && (snd e <? length (p_blocks p))) (p_edges p) &&
  (entry <? length (p_blocks p)) &&
  inductive_ok env itv_ops (fun n e => tr_block_pruned (dead n) (p_block p n) e) (p_preds p) entry
               use_asm asm init (seq 0 (length (p_blocks p))) pre post.
Definition fwd_check_full (live : bool) (ex : option nat) (p : prog) (entry : nat) (use_asm : bool)
           (asm : nat -> option env) (init : env) (pre post : nat -> env) : bool :=
  let dead := prog_dead live p ex in
  fwd_check_gen dead p entry use_asm asm init pre post.

(* plain configuration = the model of FwdItv.v *)
Lemma d_forget_nil e : d_forget [] e = e.
Proof. unfold d_forget. destruct (e_is_bot e || e_is_top e); reflexivity. Qed.
