(* InterTDRecset.v — the recursive set computed by the model of the top-down analyzer
   (cg_recset: the nodes of the cycles of the weak topological orderings of the call graph built
   from every entry) contains every function that is reachable from an entry and lies on a call
   graph cycle: the hypothesis of Ana/InterTDModelSound.v on the recursive set holds for the
   model's own configuration.  Also: an executable sufficient test for an arbitrary recursive
   set (rec_okb), and the entries computed by the model are functions of the program. *)
From Coq Require Import ZArith NArith List Bool Arith Lia Relations.
From CrabV Require Import Base.ZInf Scalar.Itv Ir.Syntax Ir.Cfg Dom.ItvEnv Dom.ItvEnvSound Dom.ItvDomain Ana.Transformer Fix.Wto Fix.WtoCheck Fix.WtoSound Fix.EngineRel
     Ana.InterSyntax Ana.InterSem Ana.InterTD Ana.InterTDModelSound.
Import ListNotations.

(* ------------------------------------------------------------------ call graph edges *)
Lemma insert_nat_In x y : forall l, In x (insert_nat y l) <-> x = y \/ In x l.
Proof.
  induction l as [|h t IH]; cbn [insert_nat].
  - cbn [In]. split; intros [H|[]]; left; congruence.
  - destruct (y <? h).
    + cbn [In]. split; (intros [H|H]; [left; congruence|right; exact H]).
    + destruct (Nat.eqb_spec y h) as [->|N].
      * cbn [In]. split; [intros H; right; exact H|intros [->|H]; [left; reflexivity|exact H]].
      * cbn [In]. rewrite IH. tauto.
Qed.

Lemma cg_succs_In p f v : In v (cg_succs p f) <-> In v (callees_of (get_fn p f)).
Proof.
  unfold cg_succs. induction (callees_of (get_fn p f)) as [|h t IH]; cbn [fold_right]; [tauto|].
  rewrite insert_nat_In, IH. cbn [In]. split; (intros [H|H]; [left; congruence|right; exact H]).
Qed.

Lemma cg_edge_lt p f g : cg_edge p f g -> f < length p.
Proof.
  intros (n & outs & ins & I). destruct (Nat.lt_ge_cases f (length p)) as [L|L]; auto.
  exfalso. unfold get_fn in I. rewrite nth_overflow in I by exact L.
  unfold fn_block, dummy_func in I. cbn in I. destruct n; destruct I.
Qed.

Lemma cg_edge_callees p f g : cg_edge p f g <-> In g (callees_of (get_fn p f)).
Proof.
  unfold callees_of. split.
  - intros (n & outs & ins & I). apply in_flat_map. exists (fn_block (get_fn p f) n).
    split; [eapply fn_block_in; eauto|]. apply in_flat_map. exists (ICall outs g ins). split; [exact I|left; reflexivity].
  - intros I. apply in_flat_map in I. destruct I as (b & Ib & I). apply in_flat_map in I.
    destruct I as (st & Is & I). destruct st as [s|outs g' ins]; [destruct I|]. destruct I as [<-|[]].
    apply In_nth with (d := []) in Ib. destruct Ib as (n & _ & E).
    exists n, outs, ins. unfold fn_block. subst b. exact Is.
Qed.

Lemma cg_graph_succs p f : f < length p -> succs (cg_graph p) f = cg_succs p f.
Proof.
  intros L. unfold succs, cg_graph.
  rewrite (nth_indep _ [] (cg_succs p 0)) by (rewrite map_length, seq_length; exact L).
  rewrite map_nth, seq_nth by exact L. reflexivity.
Qed.

Lemma cg_edge_succs p f g : cg_edge p f g -> In g (succs (cg_graph p) f).
Proof.
  intros E. rewrite cg_graph_succs by (eapply cg_edge_lt; eauto).
  apply cg_succs_In, cg_edge_callees, E.
Qed.

Lemma cg_reach_reachable p e f : clos_refl_trans nat (cg_edge p) e f -> reachable (cg_graph p) e f.
Proof.
  intros H. apply clos_rt_rtn1 in H. induction H as [|y z E _ IH]; [apply reach_refl|].
  apply reach_step with y; [exact IH|apply cg_edge_succs, E].
Qed.

(* ------------------------------------------------------------------ the nodes of the cycles *)
Lemma cycle_nodes_true : forall c, cycle_nodes true c = cnodes c.
Proof.
  induction c as [n|h body IH] using comp_ind'; [reflexivity|].
  rewrite cnodes_cycle. cbn [cycle_nodes]. f_equal.
  induction body as [|c r IHr]; [reflexivity|].
  inversion IH as [|? ? Hc Hr]; subst. cbn [flat]. rewrite Hc, (IHr Hr). reflexivity.
Qed.

Lemma cycle_nodes_cycle b h body : cycle_nodes b (Cycle h body) = h :: flat body.
Proof.
  cbn [cycle_nodes]. f_equal. induction body as [|c r IH]; [reflexivity|].
  cbn [flat]. rewrite cycle_nodes_true, IH. reflexivity.
Qed.

(* a node of the ordering that is in no cycle is a top-level vertex *)
Lemma not_cycle_vertex w f : In f (flat w) -> ~ In f (flat_map (cycle_nodes false) w) -> In (Vertex f) w.
Proof.
  intros I N. apply in_flat in I. destruct I as (c & Ic & I). destruct c as [n|h body].
  - destruct I as [->|[]]. exact Ic.
  - exfalso. apply N. apply in_flat_map. exists (Cycle h body). split; [exact Ic|].
    rewrite cycle_nodes_cycle. rewrite cnodes_cycle in I. exact I.
Qed.

(* no cycle of the graph goes through a top-level vertex of a well-formed ordering *)
Section TopVertex.
  Variable g : graph.
  Variable e : nat.
  Variable w : wto.
  Variable nst : nat -> option (list nat).
  Variable dom : list nat.
  Hypothesis W : WF g e w nst dom.
  Variable f : nat.
  Variables w1 w2 : list comp.
  Hypothesis EW : w = w1 ++ Vertex f :: w2.

  Definition gedge (u v : nat) : Prop := reachable g e u /\ In v (succs g u).

  Lemma ND_w : NoDup (flat (w1 ++ Vertex f :: w2)).
  Proof. rewrite <- EW. exact (wf_nodup _ _ _ _ _ W). Qed.

  Lemma edge_lok u v : gedge u v -> In v (flat w) /\ lok w u v.
  Proof.
    intros [R S]. split.
    - apply (wf_reach _ _ _ _ _ W). apply reach_step with u; assumption.
    - exact (wf_edge _ _ _ _ _ W u v R S).
  Qed.

  Lemma lok_vertex_self : ~ lok [Vertex f] f f.
  Proof.
    intros [L|L].
    - destruct L as [l1 [l2 [l3 L]]]. cbn in L.
      destruct l1 as [|a l1]; cbn [app] in L; inversion L as [[L1 L2]].
      + destruct l2; discriminate.
      + destruct l1; discriminate.
    - destruct L as [c [[<-|[]] L]]. inversion L.
  Qed.

  Lemma after_vertex u v : gedge u v -> u = f \/ In u (flat w2) -> In v (flat w2).
  Proof.
    intros E H. destruct (edge_lok u v E) as [Iv L]. rewrite EW in Iv, L.
    pose proof ND_w as ND.
    rewrite flat_app in Iv. cbn [flat cnodes] in Iv. apply in_app_or in Iv.
    destruct H as [->|Iu].
    - destruct Iv as [Iv|[<-|Iv]]; [| |exact Iv].
      + exfalso. apply (lok_app_back w1 (Vertex f :: w2) f v ND); auto. cbn. left. reflexivity.
      + exfalso. apply lok_vertex_self.
        assert (If : In f (flat (Vertex f :: w2))) by (cbn; left; reflexivity).
        pose proof (lok_app_right w1 (Vertex f :: w2) f f ND If If L) as L2.
        rewrite flat_app in ND. apply nodup_app_r in ND.
        change (Vertex f :: w2) with ([Vertex f] ++ w2) in L2, ND.
        apply (lok_app_left [Vertex f] w2 f f ND); auto; left; reflexivity.
    - destruct Iv as [Iv|[<-|Iv]]; [| |exact Iv]; exfalso.
      + apply (lok_app_back w1 (Vertex f :: w2) u v ND); auto. cbn. right. exact Iu.
      + change (w1 ++ Vertex f :: w2) with (w1 ++ [Vertex f] ++ w2) in L, ND.
        rewrite app_assoc in L, ND.
        apply (lok_app_back (w1 ++ [Vertex f]) w2 u f ND); auto.
        rewrite flat_app. apply in_or_app. right. left. reflexivity.
  Qed.

  Lemma path_after : forall u x, clos_trans_1n nat gedge u x -> u = f \/ In u (flat w2) -> In x (flat w2).
  Proof.
    induction 1 as [u x E|u y z E _ IH]; intros H.
    - eapply after_vertex; eauto.
    - apply IH. right. eapply after_vertex; eauto.
  Qed.

  Lemma no_cycle_top_vertex : ~ clos_trans nat gedge f f.
  Proof.
    intros P. apply clos_trans_t1n in P.
    pose proof (path_after f f P (or_introl eq_refl)) as I.
    pose proof ND_w as ND. rewrite flat_app in ND. apply nodup_app_r in ND.
    cbn [flat cnodes app] in ND. inversion ND. contradiction.
  Qed.
End TopVertex.

Lemma cg_path_gedge p e : forall f x, reachable (cg_graph p) e f -> cg_path p f x ->
  clos_trans nat (gedge (cg_graph p) e) f x /\ reachable (cg_graph p) e x.
Proof.
  intros f x R P. apply clos_trans_tn1 in P. induction P as [y E|y z E _ IH].
  - split; [apply t_step; split; [exact R|apply cg_edge_succs, E]|].
    apply reach_step with f; [exact R|apply cg_edge_succs, E].
  - destruct IH as [IH1 IH2]. split.
    + eapply t_trans; [exact IH1|]. apply t_step. split; [exact IH2|apply cg_edge_succs, E].
    + apply reach_step with y; [exact IH2|apply cg_edge_succs, E].
Qed.

(* ------------------------------------------------------------------ cg_recset *)
Lemma recset_fold p : forall l acc rs,
  fold_left (fun acc e =>
               match acc, build (cg_graph p) e with
               | Some l, Some w => Some (l ++ flat_map (cycle_nodes false) w)
               | _, _ => None
               end) l acc = Some rs ->
  (exists a, acc = Some a /\ incl a rs) /\
  forall e, In e l -> exists w, build (cg_graph p) e = Some w /\ incl (flat_map (cycle_nodes false) w) rs.
Proof.
  induction l as [|e l IH]; intros acc rs H; cbn [fold_left] in H.
  - split; [exists rs; split; [exact H|apply incl_refl]|intros e []].
  - destruct (IH _ _ H) as [(a' & E' & I') IHl].
    destruct acc as [a|]; [|discriminate].
    destruct (build (cg_graph p) e) as [w|] eqn:B; [|discriminate].
    inversion E'; subst a'. split.
    + exists a. split; [reflexivity|]. intros x X. apply I'. apply in_or_app. left. exact X.
    + intros e' [<-|I].
      * exists w. split; [exact B|]. intros x X. apply I'. apply in_or_app. right. exact X.
      * apply IHl, I.
Qed.

Theorem cg_recset_ok p rs : cg_recset p = Some rs ->
  forall f, cg_reach p (cg_entries p) f -> cg_path p f f -> In f rs.
Proof.
  intros H f (e & Ie & R) P. unfold cg_recset in H.
  destruct (recset_fold p _ _ _ H) as [_ HE]. destruct (HE e Ie) as (w & B & INC).
  pose proof (build_WF _ _ _ B) as W.
  pose proof (cg_reach_reachable p e f R) as RF.
  destruct (in_dec Nat.eq_dec f (flat_map (cycle_nodes false) w)) as [I|N]; [apply INC, I|].
  exfalso.
  assert (If : In f (flat w)) by (apply (wf_reach _ _ _ _ _ W); exact RF).
  pose proof (not_cycle_vertex w f If N) as IV. apply in_split in IV. destruct IV as (w1 & w2 & EW).
  apply (no_cycle_top_vertex (cg_graph p) e w _ _ W f w1 w2 EW).
  apply (cg_path_gedge p e f f RF P).
Qed.

Lemma cg_entries_lt p f : In f (cg_entries p) -> f < length p.
Proof.
  unfold cg_entries. intros I.
  assert (J : In f (seq 0 (length p))).
  { destruct (filter _ (seq 0 (length p))) as [|x l] eqn:E; [exact I|].
    rewrite <- E in I. apply filter_In in I. tauto. }
  apply in_seq in J. lia.
Qed.

(* ------------------------------------------------------------------ an executable test for any recursive set
   rank does not increase along call edges and, where it stays the same, the caller is in the
   recursive set: then every function on a call graph cycle is in the recursive set *)
Definition rec_okb (p : iprog) (recset : list nat) (rank : nat -> nat) : bool :=
  forallb (fun f => forallb (fun g => (rank g <? rank f) || (Nat.eqb (rank g) (rank f) && nmem f recset))
                            (callees_of (get_fn p f)))
          (seq 0 (length p)).

Lemma rec_okb_sound p recset rank : rec_okb p recset rank = true ->
  forall f, cg_path p f f -> In f recset.
Proof.
  intros H.
  assert (E : forall f g, cg_edge p f g -> rank g < rank f \/ (rank g = rank f /\ In f recset)).
  { intros f g X. pose proof (cg_edge_lt p f g X) as L. apply cg_edge_callees in X.
    unfold rec_okb in H. rewrite forallb_forall in H.
    assert (J : In f (seq 0 (length p))) by (apply in_seq; lia).
    specialize (H f J). rewrite forallb_forall in H. specialize (H g X).
    apply orb_true_iff in H. destruct H as [H|H].
    - left. apply Nat.ltb_lt. exact H.
    - right. apply andb_true_iff in H. destruct H as [H1 H2]. apply Nat.eqb_eq in H1.
      apply nmem_spec in H2. auto. }
  assert (Q : forall f g, cg_path p f g -> rank g <= rank f /\ (rank g = rank f -> In f recset)).
  { intros f g X. induction X as [x y X|x y z _ [A1 A2] _ [B1 B2]].
    - destruct (E x y X) as [L|[L I]]; split; try lia; auto.
    - split; [lia|]. intros EQ. apply A2. lia. }
  intros f X. apply (Q f f X). reflexivity.
Qed.

(* ------------------------------------------------------------------ the model's own configuration:
   entries and recursive set computed from the call graph as the analyzer does *)
Theorem td_model_sound_cfg p voff exact_reuse delay desc efuel wtos rs depth init :
  iprog_wfb p voff = true ->
  (forall f, f < length p -> build (fn_graph (get_fn p f)) 0 = Some (wtos f)) ->
  cg_recset p = Some rs ->
  let g := td_run p voff None exact_reuse delay desc efuel wtos rs depth (cg_entries p) init in
  g_err g = false ->
  forall Init : store -> Prop, (forall s, Init s -> genv init s) ->
  (forall f n s, IRPre p (cg_entries p) Init f n s -> genv (g_pre g f n) s) /\
  (forall f n s, IRPost p (cg_entries p) Init f n s -> genv (g_post g f n) s) /\
  (forall sm, In sm (g_summaries p g) ->
     forall s0 s1, genv (s_pre sm) s0 -> exec_fun p (s_fn sm) s0 s1 ->
                   genv (s_post sm) s1).
Proof.
  intros WF WTO RS.
  apply (td_model_sound p voff exact_reuse delay desc efuel wtos rs depth (cg_entries p) init WF WTO
           (cg_entries_lt p) (cg_recset_ok p rs RS)).
Qed.

(* ------------------------------------------------------------------ a recursive entry function (fixes/inter-6)
   f(a) { if (a >= 1) r := f(a - 1) else r := 0 } is the only function, hence the entry; the
   initial value is a = 5.  Its recursive call is replaced by top and never analysed, so f is
   analysed from top: the activation with a = 4 enters block 0 in a state of the table (before
   the repair the table had a = 5 only). *)
Definition re_prog : iprog :=
  [mkFunc [0%N] [1%N]
     [[];
      [IBase (SAssume (mkLC INEQ (mkLE [((-1)%Z, 0%N)] 1%Z)));
       IBase (SArith OpSub 2%N 0%N (OCst 1%Z)); ICall [1%N] 0 [2%N]];
      [IBase (SAssume (mkLC INEQ (mkLE [(1%Z, 0%N)] 0%Z))); IBase (SAssign 1%N (mkLE [] 0%Z))];
      []]
     [(0, 1); (0, 2); (1, 3); (2, 3)] (Some 3)].
Definition re_init : env := tr_stmt (SAssign 0%N (mkLE [] 5%Z)) e_top.

Theorem recursive_entry_example :
  exists w0 rs s,
    build (fn_graph (get_fn re_prog 0)) 0 = Some w0 /\ cg_recset re_prog = Some rs /\
    cg_entries re_prog = [0] /\ iprog_wfb re_prog (prog_voff re_prog) = true /\
    let g := td_run re_prog (prog_voff re_prog) None true 2 2 100 (fun _ => w0) rs 5 [0] re_init in
    g_err g = false /\
    IRPre re_prog [0] (genv re_init) 0 0 s /\ s 0%N = 4%Z /\ genv (g_pre g 0 0) s /\
    e_at (g_pre g 0 0) 0%N = itop /\ e_at (g_post g 0 2) 0%N = mkI MInf (Fin 0%Z).
Proof.
  set (s5 := fun k : var => if N.eqb k 0 then 5%Z else 0%Z).
  set (s4 := fun k : var => if N.eqb k 0 then 4%Z else 0%Z).
  eexists. eexists. exists s4.
  split; [vm_compute; reflexivity|]. split; [vm_compute; reflexivity|].
  split; [vm_compute; reflexivity|]. split; [vm_compute; reflexivity|].
  cbv zeta. split; [vm_compute; reflexivity|]. split; [|split; [reflexivity|split]].
  - assert (A : IRPre re_prog [0] (genv re_init) 0 0 s5).
    { apply IR_init; [left; reflexivity|]. apply InterTDSound.menv_true. vm_compute. reflexivity. }
    assert (B : IRPost re_prog [0] (genv re_init) 0 0 s5).
    { apply IR_post with s5; [exact A|]. apply XB_nil. }
    assert (C : IRPre re_prog [0] (genv re_init) 0 1 s5).
    { apply IR_edge with 0; [left; reflexivity|exact B]. }
    apply (IR_call re_prog [0] (genv re_init) 0 1 s5
             [IBase (SAssume (mkLC INEQ (mkLE [((-1)%Z, 0%N)] 1%Z))); IBase (SArith OpSub 2%N 0%N (OCst 1%Z))]
             [1%N] 0 [2%N] [] (Syntax.upd s5 2%N 4%Z) s4 C eq_refl).
    + eapply XB_cons; [apply XS_base|eapply XB_cons; [apply XS_base|apply XB_nil]].
      * split; [|reflexivity]. vm_compute. intros H. discriminate H.
      * exists 4%Z. split; reflexivity.
    + constructor; [reflexivity|constructor].
  - apply InterTDSound.menv_true. vm_compute. reflexivity.
  - vm_compute. split; reflexivity.
Qed.
