(* FwdBwdSound.v — property C02 for the forward+backward analyzer model Ana/FwdBwd.v (mirror
   of intra_forward_backward_analyzer::run + intra_checker::run over intervals).

   For every program of the backward fragment (well-formed statements, in-range edges, the
   statements covered by Ana/BackwardSound.v), every set of initial states, every parameter
   setting (widening delay, descending iterations, max_refine_iterations,
   use_refined_invariants) and every fuel: if the model returns, then for every execution
   from the initial states that enters a block,
     (a) an assertion of the block that the execution reaches and that is reported SAFE
         holds there;
     (b) with use_refined_invariants = false, no assertion that the execution reaches is
         reported UNREACHABLE.
   With use_refined_invariants = true (b) is false, of the model and of the C++ (known
   finding): [fb_unreachable_refined_refuted].

   The proof follows the refinement loop.  Invariant of the loop: every execution from the
   initial states that goes on to violate some assertion satisfies, at every block entry,
   the current refined assumption of that block.  Hence the forward run restricted by the
   assumptions still contains these executions (soundness of the engine for any assumption
   map, Fix/EngineSound.v), the backward run from the error states with these forward
   invariants contains them too (Ana/BwdItvEngineSound.v; this is where the guard "every
   block with an assertion can reach the exit" is needed), and so does old && new.
   Discharge: if the refined assumption of u is bottom no violating execution enters u; if u
   strictly dominates m every execution that enters m entered u before, so no execution
   violates an assertion of m. *)
From Coq Require Import ZArith NArith List Bool Arith Lia.
From CrabV Require Import Base.ZInf Scalar.Itv Ir.Syntax Ir.Cfg Dom.ItvEnv Dom.ItvEnvSound Dom.ItvDomain
     Dom.ItvDomainSound
     Fix.Wto Fix.WtoCheck Fix.WtoSound Fix.WtoTotal Fix.WtoRoot Fix.Engine Fix.EngineCheck Fix.EngineSound
     Ana.Transformer Ana.FwdItv Ana.FwdItvSound Ana.FwdItvEngineSound
     Ana.Backward Ana.BackwardSound Ana.BackwardCheck Ana.BwdItv Ana.BwdItvEngineSound Ana.Checker Ana.FwdBwd.
Import ListNotations.

(* ------------------------------------------------------------------ what the verdicts must guarantee *)
(* as sound_verdicts of Ana/Checker.v, for the checker with a proved set; [ur] = the
   'unreachable' verdicts are part of the claim *)
Fixpoint fb_sound_verdicts (ur : bool) (proved : bool) (bl : block) (inv : env) (a : store) : Prop :=
  match bl with
  | [] => True
  | s :: r =>
    (match s with
     | SAssert c _ =>
       (fb_verdict_of proved c inv = VSafe -> sat c a) /\
       (ur = true -> fb_verdict_of proved c inv = VUnreach -> False)
     | _ => True
     end) /\
    forall m, sstep s a m -> fb_sound_verdicts ur proved r (fb_next_inv proved s inv) m
  end.

Lemma sat_dec c a : sat c a \/ ~ sat c a.
Proof.
  destruct (satb c a) eqn:E.
  - left. apply satb_spec. exact E.
  - right. intros H. apply satb_spec in H. congruence.
Qed.

(* not in the proved set: the rule of Checker.v *)
Lemma fb_sv_of_sound ur bl : forall inv a,
  sound_verdicts bl inv a -> fb_sound_verdicts ur false bl inv a.
Proof.
  induction bl as [|s r IH]; intros inv a H; [exact I|].
  cbn [sound_verdicts] in H. destruct H as [H1 H2]. cbn [fb_sound_verdicts]. split.
  - destruct s; auto. unfold fb_verdict_of. destruct H1 as [S U]. split; [exact S|].
    intros _. exact U.
  - intros m ST. unfold fb_next_inv. apply IH. apply H2. exact ST.
Qed.

(* in the proved set: no execution entering the block in state a fails one of its assertions *)
Lemma fb_sv_proved ur bl : forall inv a,
  (forall id, ~ bfails bl a id) -> fb_sound_verdicts ur true bl inv a.
Proof.
  induction bl as [|s r IH]; intros inv a NF; [exact I|].
  cbn [fb_sound_verdicts]. split.
  - destruct s; auto. unfold fb_verdict_of. split; [|discriminate].
    intros _. destruct (sat_dec c a) as [S|N]; [exact S|].
    exfalso. apply (NF id). cbn [bfails]. left. split; [reflexivity|exact N].
  - intros m ST. apply IH. intros id F. apply (NF id). cbn [bfails]. right. exists m. split; assumption.
Qed.

(* 'safe' verdicts from an invariant that is only known to contain the states from which the
   block fails an assertion *)
Lemma fb_sv_safe_under_fail bl : forall inv a, block_wf bl ->
  ((exists id, bfails bl a id) -> genv inv a) -> fb_sound_verdicts false false bl inv a.
Proof.
  induction bl as [|s r IH]; intros inv a W H; [exact I|].
  assert (Ws : stmt_wf s) by (apply W; left; reflexivity).
  assert (Wr : block_wf r) by (intros s' I'; apply W; right; exact I').
  cbn [fb_sound_verdicts]. split.
  - destruct s; auto. unfold fb_verdict_of. split; [|discriminate].
    intros V. destruct (sat_dec c a) as [S|N]; [exact S|].
    assert (G : genv inv a).
    { apply H. exists id. cbn [bfails]. left. split; [reflexivity|exact N]. }
    pose proof (check_block_sound (SAssert c id :: r) inv a W G) as SV.
    cbn [sound_verdicts] in SV. destruct SV as [[SV _] _]. exact (SV V).
  - intros m ST. unfold fb_next_inv. apply IH; [exact Wr|].
    intros [id F]. apply (next_inv_sound s inv a m Ws); [|exact ST].
    apply H. exists id. cbn [bfails]. right. exists m. split; assumption.
Qed.

Lemma bfails_has_assert bl : forall a id, bfails bl a id -> has_assert bl = true.
Proof.
  induction bl as [|s r IH]; intros a id F; [destruct F|].
  unfold has_assert. cbn [existsb]. cbn [bfails] in F. destruct F as [F|[m [_ F]]].
  - destruct s; try contradiction. reflexivity.
  - apply orb_true_iff. right. exact (IH m id F).
Qed.

Lemma mem_nat_In x l : mem_nat x l = true <-> In x l.
Proof.
  unfold mem_nat. rewrite existsb_exists. split.
  - intros [y [I E]]. apply Nat.eqb_eq in E. subst. exact I.
  - intros I. exists x. split; [exact I|apply Nat.eqb_refl].
Qed.

(* ------------------------------------------------------------------ executions *)
Section FB.
  Variable p : prog.
  Hypothesis p_wf : prog_wfb p = true.
  Hypothesis p_ok : forallb block_bwd_ok (p_blocks p) = true.
  Variable entry : nat.
  Variable Init : store -> Prop.
  Variable init : env.
  Hypothesis init_s : forall s, Init s -> genv init s.

  (* an execution from the initial states enters block n with store a *)
  Definition Reach : nat -> store -> Prop := ReachPre p entry false (fun _ => None) Init.
  (* ... and from there some execution goes on to violate an assertion *)
  Definition Viol : nat -> store -> Prop := Bad p (fun _ => e_top).

  (* the same executions with their history: the block entries visited before, latest first *)
  Inductive Trace : nat -> store -> list (nat * store) -> Prop :=
  | T_init a : Init a -> Trace entry a []
  | T_step n a b s t : Trace n a t -> bstep (p_block p n) a b -> In s (p_succs p n) ->
      Trace s b ((n, a) :: t).

  Lemma preds_succs : forall n q, In q (p_preds p n) -> In n (p_succs p q).
  Proof. intros n q I. apply p_succs_edge. apply p_preds_edge. exact I. Qed.
  Lemma succs_preds : forall n q, In n (p_succs p q) -> In q (p_preds p n).
  Proof. intros n q I. apply p_preds_edge. apply p_succs_edge. exact I. Qed.

  Lemma reach_trace : forall n a, Reach n a -> exists t, Trace n a t.
  Proof.
    unfold Reach, ReachPre.
    apply (RPre_mut env store genv (fun n => bstep (p_block p n)) (p_preds p) entry false (fun _ => None) Init
             (fun n a _ => exists t, Trace n a t)
             (fun n b _ => exists a t, Trace n a t /\ bstep (p_block p n) a b)).
    - intros s I _. exists []. apply T_init. exact I.
    - intros n q s I _ [a [t [T B]]] _. exists ((q, a) :: t).
      apply T_step; [exact T|exact B|]. apply preds_succs. exact I.
    - intros n s s' _ [t T] B. exists s, t. split; assumption.
  Qed.

  Lemma viol_step : forall n a b s, bstep (p_block p n) a b -> In s (p_succs p n) -> Viol s b -> Viol n a.
  Proof.
    intros n a b s B I V. unfold Viol. apply Bad_later with b s; [|apply genv_top|exact B|exact I|exact V].
    exact (succs_src_in_range p p_wf n s I).
  Qed.

  Lemma bfails_viol : forall n a id, bfails (p_block p n) a id -> Viol n a.
  Proof.
    intros n a id F. unfold Viol. apply Bad_here with id; [|apply genv_top|exact F].
    destruct (lt_dec n (length (p_blocks p))) as [L|L]; [exact L|exfalso].
    unfold p_block in F. rewrite nth_overflow in F by lia. exact F.
  Qed.

  (* every earlier point of an execution that goes on to a violation is itself such a point *)
  Lemma trace_history : forall n a t, Trace n a t -> Viol n a ->
    forall m c, In (m, c) t -> Viol m c /\ exists t', Trace m c t'.
  Proof.
    induction 1 as [a I|n a b s t T IH B HI]; intros V m c HIn; [destruct HIn|].
    assert (Vn : Viol n a) by exact (viol_step n a b s B HI V).
    destruct HIn as [E|HIn].
    - inversion E; subst m c. split; [exact Vn|]. exists t. exact T.
    - exact (IH Vn m c HIn).
  Qed.

  Lemma trace_entry : forall n a t, Trace n a t -> Viol n a ->
    exists a0 t0, Trace entry a0 t0 /\ Viol entry a0.
  Proof.
    induction 1 as [a I|n a b s t T IH B HI]; intros V.
    - exists a, []. split; [apply T_init; exact I|exact V].
    - apply IH. exact (viol_step n a b s B HI V).
  Qed.

  (* ---------------------------------------------------------------- invariant of the loop *)
  Definition AsmInv (use : bool) (asm : nat -> option env) : Prop :=
    forall n a t, Trace n a t -> Viol n a -> asm_holds env store genv use asm n a.

  Lemma asminv_none : AsmInv (asm_use None) (asm_of None).
  Proof. intros n a t _ _. exact I. Qed.

  Lemma asminv_reach : forall use asm, AsmInv use asm ->
    forall n a t, Trace n a t -> Viol n a -> ReachPre p entry use asm Init n a.
  Proof.
    intros use asm AI. induction 1 as [a I|n a b s t T IH B HI]; intros V.
    - apply RP_init; [exact I|]. apply (AI entry a []); [apply T_init; exact I|exact V].
    - apply RP_edge with n; [apply succs_preds; exact HI| |].
      + apply RPo with a; [|exact B]. apply IH. exact (viol_step n a b s B HI V).
      + apply (AI s b ((n, a) :: t)); [apply T_step; assumption|exact V].
  Qed.

  Variables delay desc fuel : nat.
  Variable e0 : nat.                   (* entry block of the CFG *)
  Variable w : wto.
  Hypothesis w_build : build (p_graph p) e0 = Some w.
  Hypothesis entry_in : In entry (flat w).
  Variable exit_block : nat.
  Variable wrev : wto.
  Hypothesis wrev_build : wto_build (p_rev_graph p) exit_block = Some wrev.
  Hypothesis guard : asserts_reach_exit p wrev = true.
  Variable fresh : var.

  Lemma assert_block_reaches_exit : forall n a id, bfails (p_block p n) a id ->
    reaches_exit p exit_block n.
  Proof.
    intros n a id F.
    assert (L : n < length (p_blocks p)).
    { destruct (lt_dec n (length (p_blocks p))) as [L|L]; [exact L|exfalso].
      unfold p_block in F. rewrite nth_overflow in F by lia. exact F. }
    unfold wto_build in wrev_build.
    apply (wrev_reaches_exit p exit_block p_wf _ _ wrev (build_WF _ _ _ wrev_build)).
    apply wto_mem_In. unfold asserts_reach_exit in guard. rewrite forallb_forall in guard.
    assert (X := guard n ltac:(unfold all_blocks, nblocks; apply in_seq; lia)).
    rewrite (bfails_has_assert _ _ _ F) in X. exact X.
  Qed.

  (* one round: forward run under the assumptions, backward run from the error states *)
  Lemma round_fwd : forall use asm F, AsmInv use asm ->
    fwd_run p w entry delay desc use asm fuel init = Some F ->
    forall n a t, Trace n a t -> Viol n a -> genv (e_pre env F n) a.
  Proof.
    intros use asm F AI RUN n a t T V.
    destruct (fwd_run_sound_any_entry p p_wf use asm Init init init_s delay desc fuel e0 entry w F w_build entry_in RUN)
      as [S _].
    apply S. exact (asminv_reach use asm AI n a t T V).
  Qed.

  Lemma round_badr : forall finv,
    (forall n a t, Trace n a t -> Viol n a -> genv (finv n) a) ->
    forall n a, Viol n a -> forall t, Trace n a t -> BadR p exit_block finv n a.
  Proof.
    intros finv FS. unfold Viol. induction 1 as [n a id L _ F|n a b s L _ B HI V IH]; intros t T.
    - apply BadR_here with id; [exact (assert_block_reaches_exit n a id F)| |exact F].
      apply (FS n a t T). exact (bfails_viol n a id F).
    - apply BadR_later with b s; [|exact B|exact HI|].
      + apply (FS n a t T). exact (viol_step n a b s B HI V).
      + apply (IH ((n, a) :: t)). apply T_step; assumption.
  Qed.

  Lemma round_bwd : forall finv bt,
    (forall n a t, Trace n a t -> Viol n a -> genv (finv n) a) ->
    bwd_run p wrev exit_block delay desc fuel fresh false finv EBot = Some bt ->
    forall n a t, Trace n a t -> Viol n a -> genv (bt n) a.
  Proof.
    intros finv bt FS RUN n a t T V.
    apply (bwd_run_error_sound p fresh exit_block EBot finv delay desc fuel wrev bt p_wf p_ok wrev_build RUN).
    exact (round_badr finv FS n a V t T).
  Qed.

  Lemma round_refine : forall ref bt, AsmInv (asm_use ref) (asm_of ref) ->
    (forall n a t, Trace n a t -> Viol n a -> genv (bt n) a) ->
    let nm := refine_tab p ref bt in
    AsmInv (asm_use (if snd nm then Some (fst nm) else ref)) (asm_of (if snd nm then Some (fst nm) else ref)).
  Proof.
    intros ref bt AI BS nm. destruct (snd nm) eqn:M; [|exact AI].
    intros n a t T V. unfold asm_holds, asm_use, asm_of. subst nm. unfold refine_tab.
    destruct ref as [o|]; cbn [fst].
    - apply e_narrow_sound; [|exact (BS n a t T V)].
      exact (AI n a t T V).
    - exact (BS n a t T V).
  Qed.

  Theorem fb_loop_inv : forall k ref r,
    AsmInv (asm_use ref) (asm_of ref) ->
    fb_loop p w wrev entry exit_block delay desc fuel fresh init k ref = Some r ->
    AsmInv (asm_use (r_ref r)) (asm_of (r_ref r)) /\
    (forall n a t, Trace n a t -> Viol n a -> genv (r_last r n) a).
  Proof.
    induction k as [|k IH]; intros ref r AI RUN; cbn [fb_loop] in RUN.
    - destruct (fwd_run p w entry delay desc (asm_use ref) (asm_of ref) fuel init) as [F|] eqn:FR; [|discriminate].
      destruct (bwd_run p wrev exit_block delay desc fuel fresh false (e_pre env F) EBot) as [bt|] eqn:BR; [|discriminate].
      pose proof (round_fwd _ _ F AI FR) as FS.
      pose proof (round_bwd _ bt FS BR) as BS.
      pose proof (round_refine ref bt AI BS) as AI'. cbv zeta in AI'.
      inversion RUN; subst r. cbn [r_ref r_last]. split; [exact AI'|exact FS].
    - destruct (fwd_run p w entry delay desc (asm_use ref) (asm_of ref) fuel init) as [F|] eqn:FR; [|discriminate].
      destruct (bwd_run p wrev exit_block delay desc fuel fresh false (e_pre env F) EBot) as [bt|] eqn:BR; [|discriminate].
      pose proof (round_fwd _ _ F AI FR) as FS.
      pose proof (round_bwd _ bt FS BR) as BS.
      pose proof (round_refine ref bt AI BS) as AI'. cbv zeta in AI'.
      destruct (snd (refine_tab p ref bt)) eqn:M.
      + destruct (fb_loop p w wrev entry exit_block delay desc fuel fresh init k (Some (fst (refine_tab p ref bt)))) as [r'|] eqn:RL;
          [|discriminate].
        inversion RUN; subst r. cbn [r_ref r_last]. exact (IH _ r' AI' RL).
      + inversion RUN; subst r. cbn [r_ref r_last]. split; [exact AI'|exact FS].
  Qed.

  Lemma fb_loop_first : forall k r,
    fb_loop p w wrev entry exit_block delay desc fuel fresh init k None = Some r ->
    exists F, fwd_run p w entry delay desc false (fun _ => None) fuel init = Some F /\ r_first r = e_pre env F.
  Proof.
    intros k r RUN. destruct k as [|k]; cbn [fb_loop] in RUN;
      change (asm_use None) with false in RUN; change (asm_of None) with (fun _ : nat => @None env) in RUN;
      destruct (fwd_run p w entry delay desc false (fun _ => None) fuel init) as [F|]; try discriminate;
      destruct (bwd_run p wrev exit_block delay desc fuel fresh false (e_pre env F) EBot) as [bt|]; try discriminate;
      exists F; (split; [reflexivity|]).
    - inversion RUN. reflexivity.
    - destruct (snd (refine_tab p None bt)).
      + destruct (fb_loop p w wrev entry exit_block delay desc fuel fresh init k (Some (fst (refine_tab p None bt)))) as [r'|];
          [|discriminate].
        inversion RUN. reflexivity.
      + inversion RUN. reflexivity.
  Qed.

  (* ---------------------------------------------------------------- dominance *)
  Lemma cut_succs : forall u q, q <> u -> q < length (p_blocks p) -> succs (p_graph_cut p u) q = p_succs p q.
  Proof.
    intros u q NE L. unfold succs, p_graph_cut, all_blocks, nblocks.
    rewrite (nth_indep _ [] ((fun q => if Nat.eqb q u then [] else p_succs p q) 0))
      by (rewrite map_length, seq_length; exact L).
    rewrite (map_nth (fun q => if Nat.eqb q u then [] else p_succs p q)), seq_nth by exact L.
    cbn [Nat.add]. destruct (Nat.eqb_spec q u) as [E|_]; [contradiction|reflexivity].
  Qed.

  (* an execution entered u, or it runs inside the CFG without the edges leaving u *)
  Lemma trace_through : forall u n a t, Trace n a t ->
    (n = u \/ exists c, In (u, c) t) \/ reachable (p_graph_cut p u) entry n.
  Proof.
    intros u. induction 1 as [a I|n a b s t T IH B HI].
    - right. apply reach_refl.
    - destruct IH as [[E|[c HIn]]|R].
      + left. right. exists a. left. rewrite E. reflexivity.
      + left. right. exists c. right. exact HIn.
      + destruct (Nat.eq_dec n u) as [E|NE].
        * left. right. exists a. left. rewrite E. reflexivity.
        * right. apply reach_step with n; [exact R|].
          rewrite cut_succs; [exact HI|exact NE|exact (succs_src_in_range p p_wf n s HI)].
  Qed.

  Lemma sdom_sound : forall wd u m, sdom p wd entry u m = true ->
    forall a t, Trace m a t -> exists c, In (u, c) t.
  Proof.
    intros wd u m SD a t T. unfold sdom in SD.
    apply andb_true_iff in SD. destruct SD as [SD CUT]. apply andb_true_iff in SD. destruct SD as [NE _].
    apply negb_true_iff in NE. apply Nat.eqb_neq in NE.
    destruct (build (p_graph_cut p u) entry) as [w'|] eqn:BU; [|discriminate].
    apply negb_true_iff in CUT.
    destruct (trace_through u m a t T) as [[E|X]|R]; [congruence|exact X|exfalso].
    apply (wf_reach _ _ _ _ _ (build_WF _ _ _ BU)) in R. apply wto_mem_In in R. congruence.
  Qed.

  Theorem discharge_sound : forall wd ref m,
    AsmInv true (fun n => Some (ref n)) ->
    In m (discharge p wd entry ref) ->
    forall a, Reach m a -> forall id, ~ bfails (p_block p m) a id.
  Proof.
    intros wd ref m AI HIn a R id F.
    destruct (reach_trace m a R) as [t T].
    pose proof (bfails_viol m a id F) as V.
    unfold discharge in HIn. destruct (idom_empty p wd entry).
    - destruct (e_is_bot (ref entry)) eqn:B; [|destruct HIn].
      destruct (trace_entry m a t T V) as [a0 [t0 [T0 V0]]].
      apply (e_is_bot_sound _ a0 B). exact (AI entry a0 t0 T0 V0).
    - apply filter_In in HIn. destruct HIn as [_ EX]. apply existsb_exists in EX.
      destruct EX as [u [_ EX]]. apply andb_true_iff in EX. destruct EX as [B SD].
      destruct (sdom_sound wd u m SD a t T) as [c HC].
      destruct (trace_history m a t T V u c HC) as [Vu [t' Tu]].
      apply (e_is_bot_sound _ c B). exact (AI u c t' Tu Vu).
  Qed.
End FB.

(* ------------------------------------------------------------------ the analyzer and its checker *)
Theorem fb_run_verdicts_sound :
  forall p, prog_wfb p = true -> forallb block_bwd_ok (p_blocks p) = true ->
  forall (Init : store -> Prop) init, (forall s, Init s -> genv init s) ->
  forall e0 entry exit_block delay desc fuel fresh use_refined maxref o,
  fb_run p e0 entry exit_block delay desc fuel fresh use_refined maxref init = Some o ->
  forall n a, ReachPre p entry false (fun _ => None) Init n a ->
  fb_sound_verdicts (negb use_refined) (mem_nat n (fb_proved o)) (p_block p n) (fb_inv o n) a.
Proof.
  intros p W OK Init init IS e0 entry exit_block delay desc fuel fresh use_refined maxref o RUN n a R.
  assert (BW : block_wf (p_block p n)).
  { unfold prog_wfb in W. apply andb_true_iff in W. destruct W as [WB _]. exact (blocks_wf p WB n). }
  unfold fb_run in RUN.
  destruct (build (p_graph p) e0) as [w|] eqn:BU; [|discriminate].
  destruct (wto_mem entry w) eqn:EI; cbn [negb] in RUN; [|discriminate].
  apply wto_mem_In in EI.
  (* the forward-only result *)
  assert (FO : match fwd_run p w entry delay desc false (fun _ => None) fuel init with
               | Some F => Some (mkFbOut (e_pre env F) [])
               | None => None
               end = Some o ->
               fb_sound_verdicts (negb use_refined) (mem_nat n (fb_proved o)) (p_block p n) (fb_inv o n) a).
  { intros H. destruct (fwd_run p w entry delay desc false (fun _ => None) fuel init) as [F|] eqn:FR; [|discriminate].
    inversion H; subst o. cbn [fb_proved fb_inv mem_nat existsb].
    destruct (fwd_run_sound_any_entry p W false (fun _ => None) Init init IS delay desc fuel e0 entry w F BU EI FR) as [S _].
    apply fb_sv_of_sound. apply check_block_sound; [exact BW|]. apply S. exact R. }
  destruct exit_block as [ex|]; [|exact (FO RUN)].
  destruct (wto_build (p_rev_graph p) ex) as [wrev|] eqn:BR; [|discriminate].
  destruct (asserts_reach_exit p wrev) eqn:G; cbn [negb] in RUN; [|exact (FO RUN)].
  destruct (no_asserts p); [exact (FO RUN)|].
  destruct (build (p_graph p) entry) as [wd|] eqn:BD; [|discriminate].
  destruct (fb_loop p w wrev entry ex delay desc fuel fresh init maxref None) as [r|] eqn:RL; [|discriminate].
  inversion RUN; subst o. cbn [fb_proved fb_inv]. clear RUN FO.
  destruct (fb_loop_inv p W OK entry Init init IS delay desc fuel e0 w BU EI ex wrev BR G fresh maxref None r
              (asminv_none p entry Init) RL) as [AI LS].
  destruct (fb_loop_first p entry init delay desc fuel w ex wrev fresh maxref r RL) as [F [FR EF]].
  destruct (mem_nat n (match r_ref r with Some t => discharge p wd entry t | None => [] end)) eqn:PR.
  - (* the block is in the proved set *)
    apply fb_sv_proved. intros id.
    destruct (r_ref r) as [t|] eqn:ER; [|discriminate].
    apply mem_nat_In in PR.
    exact (discharge_sound p W entry Init wd t n AI PR a R id).
  - destruct use_refined; cbn [negb].
    + (* invariants of the last round: they contain the states from which the block fails *)
      apply fb_sv_safe_under_fail; [exact BW|]. intros [id FL].
      destruct (reach_trace p entry Init n a R) as [t T].
      exact (LS n a t T (bfails_viol p n a id FL)).
    + (* invariants of the first round: a plain forward analysis *)
      rewrite EF.
      destruct (fwd_run_sound_any_entry p W false (fun _ => None) Init init IS delay desc fuel e0 entry w F BU EI FR) as [S _].
      apply fb_sv_of_sound. apply check_block_sound; [exact BW|]. apply S. exact R.
Qed.

(* the two halves of the property, as the verdict list of the model reports them *)
Corollary fb_safe_verdicts_sound :
  forall p, prog_wfb p = true -> forallb block_bwd_ok (p_blocks p) = true ->
  forall (Init : store -> Prop) init, (forall s, Init s -> genv init s) ->
  forall e0 entry exit_block delay desc fuel fresh use_refined maxref o,
  fb_run p e0 entry exit_block delay desc fuel fresh use_refined maxref init = Some o ->
  forall n a, ReachPre p entry false (fun _ => None) Init n a ->
  fb_sound_verdicts false (mem_nat n (fb_proved o)) (p_block p n) (fb_inv o n) a.
Proof.
  intros p W OK Init init IS e0 entry ex delay desc fuel fresh ur maxref o RUN n a R.
  pose proof (fb_run_verdicts_sound p W OK Init init IS e0 entry ex delay desc fuel fresh ur maxref o RUN n a R) as H.
  revert H. generalize (mem_nat n (fb_proved o)) (fb_inv o n) a. generalize (p_block p n).
  induction b as [|s r IH]; intros pr inv a0 H; [exact I|].
  cbn [fb_sound_verdicts] in *. destruct H as [H1 H2]. split.
  - destruct s; auto. destruct H1 as [S _]. split; [exact S|discriminate].
  - intros m ST. apply IH. apply H2. exact ST.
Qed.

(* ------------------------------------------------------------------ use_refined_invariants: 'unreachable' is not sound *)
(* the claim (b) without the restriction use_refined_invariants = false *)
Definition fb_unreachable_statement : Prop :=
  forall p, prog_wfb p = true -> forallb block_bwd_ok (p_blocks p) = true ->
  forall (Init : store -> Prop) init, (forall s, Init s -> genv init s) ->
  forall e0 entry exit_block delay desc fuel fresh use_refined maxref o,
  fb_run p e0 entry exit_block delay desc fuel fresh use_refined maxref init = Some o ->
  forall n a, ReachPre p entry false (fun _ => None) Init n a ->
  fb_sound_verdicts true (mem_nat n (fb_proved o)) (p_block p n) (fb_inv o n) a.

(* the input of the known finding (known_findings.json, C02, stream fwd-bwd-verdicts-oracle):
   b0: x := 2; assert (x + 1 <> 0)   b1 (exit): assume (2x + 2 < 0); x := y - 7   edge b0 -> b1,
   delay 1, descending 1, max_refine_iterations 5, use_refined_invariants.  No violation is
   possible, the refined assumption of b0 is bottom, so is the exported invariant of b0, and the
   checker reports the assertion as unreachable although every execution reaches it.  (The
   C++ prints the same verdict U.) *)
Definition fb_known_finding_prog : prog :=
  mkProg [[SAssign 0%N (mkLE [] 2); SAssert (mkLC DISEQ (mkLE [(1%Z, 0%N)] 1)) 1];
          [SAssume (mkLC STRICT (mkLE [(2%Z, 0%N)] 2)); SAssign 0%N (mkLE [(1%Z, 1%N)] (-7))]]
         [(0, 1)].

Example fb_known_finding_verdicts :
  fb_analyze fb_known_finding_prog 0 0 (Some 1) 1 1 400 1002%N true 5 e_top = Some [(1, VUnreach)] /\
  fb_analyze fb_known_finding_prog 0 0 (Some 1) 1 1 400 1002%N false 5 e_top = Some [(1, VSafe)].
Proof. split; vm_compute; reflexivity. Qed.

Lemma fb_unreachable_refined_refuted : ~ fb_unreachable_statement.
Proof.
  intros ST.
  set (s1 := SAssign 0%N (mkLE [] 2)).
  set (c := mkLC DISEQ (mkLE [(1%Z, 0%N)] 1)).
  assert (RUN : exists o,
            fb_run fb_known_finding_prog 0 0 (Some 1) 1 1 400 1002%N true 5 e_top = Some o /\
            fb_verdict_of (mem_nat 0 (fb_proved o)) c
                          (fb_next_inv (mem_nat 0 (fb_proved o)) s1 (fb_inv o 0)) = VUnreach).
  { eexists. split; vm_compute; reflexivity. }
  destruct RUN as [o [RUN U]].
  assert (W : prog_wfb fb_known_finding_prog = true) by (vm_compute; reflexivity).
  assert (OK : forallb block_bwd_ok (p_blocks fb_known_finding_prog) = true) by (vm_compute; reflexivity).
  pose proof (ST fb_known_finding_prog W OK (fun _ => True) e_top (fun s _ => genv_top s)
                 0 0 (Some 1) 1 1 400 1002%N true 5 o RUN 0 (fun _ => 0%Z)) as H.
  assert (R : ReachPre fb_known_finding_prog 0 false (fun _ => None) (fun _ => True) 0 (fun _ => 0%Z)).
  { apply RP_init; exact I. }
  specialize (H R).
  change (p_block fb_known_finding_prog 0) with [s1; SAssert c 1] in H.
  cbn [fb_sound_verdicts] in H. destruct H as [_ H].
  specialize (H _ eq_refl). cbn [fb_sound_verdicts] in H. destruct H as [[_ H] _].
  exact (H eq_refl U).
Qed.

(* ------------------------------------------------------------------ non-vacuity: the backward refinement proves more *)
(* b0: y := x   b1 (exit): assume (x <= 0); assert (y <= 0)   edge b0 -> b1.  The forward
   interval analysis loses x = y and reports a warning; the backward run from the error states
   (y >= 1 and x <= 0 at b1) gives bottom at b0 (x = y), b0 strictly dominates b1, and the
   assertion is discharged.  The theorem applies: the assertion holds on every execution. *)
Definition fb_example_prog : prog :=
  mkProg [[SAssign 1%N (mkLE [(1%Z, 0%N)] 0)];
          [SAssume (mkLC INEQ (mkLE [(1%Z, 0%N)] 0)); SAssert (mkLC INEQ (mkLE [(1%Z, 1%N)] 0)) 1]]
         [(0, 1)].

Example fb_backward_proves_more_example :
  prog_wfb fb_example_prog = true /\ forallb block_bwd_ok (p_blocks fb_example_prog) = true /\
  (* forward analysis alone (no exit block: the backward refinement is skipped) *)
  fb_analyze fb_example_prog 0 0 None 1 1 400 1002%N false 5 e_top = Some [(1, VWarn)] /\
  (* forward + backward *)
  fb_analyze fb_example_prog 0 0 (Some 1) 1 1 400 1002%N false 5 e_top = Some [(1, VSafe)] /\
  exists o, fb_run fb_example_prog 0 0 (Some 1) 1 1 400 1002%N false 5 e_top = Some o /\
            fb_proved o = [1] /\
            forall a, ReachPre fb_example_prog 0 false (fun _ => None) (fun _ => True) 1 a ->
                      (a 0%N <= 0)%Z -> (a 1%N <= 0)%Z.
Proof.
  assert (W : prog_wfb fb_example_prog = true) by (vm_compute; reflexivity).
  assert (OK : forallb block_bwd_ok (p_blocks fb_example_prog) = true) by (vm_compute; reflexivity).
  split; [exact W|]. split; [exact OK|]. split; [vm_compute; reflexivity|]. split; [vm_compute; reflexivity|].
  assert (RUN : exists o, fb_run fb_example_prog 0 0 (Some 1) 1 1 400 1002%N false 5 e_top = Some o /\
                          fb_proved o = [1]).
  { eexists. split; vm_compute; reflexivity. }
  destruct RUN as [o [RUN PR]]. exists o. split; [exact RUN|]. split; [exact PR|].
  intros a R LE.
  pose proof (fb_run_verdicts_sound fb_example_prog W OK (fun _ => True) e_top (fun s _ => genv_top s)
                0 0 (Some 1) 1 1 400 1002%N false 5 o RUN 1 a R) as H.
  rewrite PR in H.
  change (p_block fb_example_prog 1)
    with [SAssume (mkLC INEQ (mkLE [(1%Z, 0%N)] 0)); SAssert (mkLC INEQ (mkLE [(1%Z, 1%N)] 0)) 1] in H.
  change (mem_nat 1 [1]) with true in H.
  cbn [fb_sound_verdicts] in H. destruct H as [_ H].
  assert (S0 : sat (mkLC INEQ (mkLE [(1%Z, 0%N)] 0)) a).
  { unfold sat, eval_le. cbn [lc_kind lc_exp le_terms le_cst eval_terms]. lia. }
  specialize (H a (conj S0 eq_refl)). cbn [fb_sound_verdicts] in H. destruct H as [[H _] _].
  specialize (H eq_refl). unfold sat, eval_le in H. cbn [lc_kind lc_exp le_terms le_cst eval_terms] in H. lia.
Qed.

(* ------------------------------------------------------------------ analysis started at a block that is not the CFG entry *)
(* b0: x := 0   b1: skip   b2 (exit): assert (x >= 1)   edges b0 -> b1 -> b2; the analysis
   starts at b2 (run(entry = b2, init = top, ...)).  The execution that starts at b2 with x = 0
   violates the assertion.  The refined assumptions of b0 and b1 are bottom (the forward pass
   does not visit them) and b0, b1 dominate b2 on the paths from the CFG entry: the C++ before
   fixes/fwdbwd-2.diff reported the assertion SAFE.  The dominator tree must be rooted at the
   block where the executions start (here only b2 is reachable from it): warning. *)
Example fb_entry_not_cfg_entry_example :
  let p := mkProg [[SAssign 0%N (mkLE [] 0)]; []; [SAssert (mkLC INEQ (mkLE [((-1)%Z, 0%N)] 1)) 1]]
                  [(0, 1); (1, 2)] in
  fb_analyze p 0 2 (Some 2) 1 1 400 1001%N false 5 e_top = Some [(1, VWarn)] /\
  ReachPre p 2 false (fun _ => None) (fun _ => True) 2 (fun _ => 0%Z) /\
  bfails (p_block p 2) (fun _ => 0%Z) 1 /\
  (* dominance from the CFG entry would discharge it *)
  (exists w, build (p_graph p) 0 = Some w /\ sdom p w 0 0 2 = true).
Proof.
  cbv zeta. split; [vm_compute; reflexivity|]. split; [apply RP_init; exact I|]. split.
  - left. split; [reflexivity|]. unfold sat. vm_compute. intros H. apply H. reflexivity.
  - eexists. split; vm_compute; reflexivity.
Qed.
