(* CrawlerCall.v — mirror of the call-site step of the assertion crawler
   (include/crab/analysis/dataflow/assertion_crawler.hpp after commit e852a9c):
   transfer_function::callee_to_caller, transfer_function::apply_summary and the body of
   transfer_function::visit(callsite_t&) when a summary of the callee is available.
   Model only, the proofs are in CrawlerCallSound.v.

   Representation.  Variables are N (ikos::index_t of the variable name).  A set of variables
   (ikos::discrete_domain<variable_t>) is a duplicate-free list `vset` of CfgSem.v; the order
   of the list is irrelevant (the driver prints sets sorted).  The two maps of the crawler
   (discrete_pair_domain<Key, var_dom_t>, a patricia tree Key -> set) are association lists
   `vmap`; the first binding of a key is the one that counts.  Exactly as in
   discrete_domains.hpp:
     - `m[k]` of a missing key is bottom = the empty set            (`get`)
     - `set(k, v)` binds k even when v is the empty set: a key with an empty set stays in the
       map and is printed (apply_summary re-inserts every key of its argument)
     - `a | b` binds every key of a or b to the union of the two sets (join_op with
       default_is_absorbing = false)                                (`join`)
   TOP.  discrete_domain and discrete_pair_domain have a top element.  It is not modelled: the
   crawler builds every set from bottom with `+=` of single variables / of other such sets and
   every map from bottom with `set`, `top()` is never called in assertion_crawler.hpp after the
   repair (the old outputs_to_inputs lambda was the only place), so neither the sets nor the maps
   that reach visit(callsite_t&) can be top; the `is_top()` tests of the three functions are dead.
   SIZES.  callee_to_caller / apply_summary call CRAB_ERROR when the two vectors that are
   indexed in parallel have different lengths.  The model is total (`nth` with a default); the
   generator only produces vectors of equal lengths, which is what crab's type checker of
   call sites guarantees. *)
From Coq Require Import ZArith List Bool.
From CrabV Require Import Ir.Syntax Ana.CfgSem.
Import ListNotations.

Definition vmap := list (N * vset).

Fixpoint get (k : N) (m : vmap) : vset :=
  match m with
  | [] => []
  | (k', V) :: r => if N.eqb k k' then V else get k r
  end.

Fixpoint haskey (k : N) (m : vmap) : bool :=
  match m with
  | [] => false
  | (k', _) :: r => N.eqb k k' || haskey k r
  end.

(* std::find(l.begin(), l.end(), x) as a distance: the first position wins *)
Fixpoint index_of (x : N) (l : list N) : option nat :=
  match l with
  | [] => None
  | y :: r => if N.eqb x y then Some O else option_map S (index_of x r)
  end.

(* one variable of the callee seen from the caller: formal input -> actual, others unchanged *)
Definition subst1 (fins ins : list N) (v : N) : N :=
  match index_of v fins with
  | Some k => nth k ins v
  | None => v
  end.

(* transfer_function::callee_to_caller(callee_vars, callee_inputs, callsite_inputs) *)
Definition callee_to_caller (vars : vset) (fins ins : list N) : vset :=
  fold_right (fun v acc => vadd (subst1 fins ins v) acc) [] vars.

(* the loop body of apply_summary over one set *)
Definition apply_set (sdd : vmap) (outs fouts fins ins : list N) (V : vset) : vset :=
  fold_right (fun v acc =>
                match index_of v outs with
                | None => vadd v acc
                | Some j => union (callee_to_caller (get (nth j fouts 0%N) sdd) fins ins) acc
                end) [] V.

(* transfer_function::apply_summary(dpd, sdd, callsite_outputs, callee_outputs, callee_inputs,
   callsite_inputs): every key keeps its place *)
Definition apply_summary (dpd sdd : vmap) (outs fouts fins ins : list N) : vmap :=
  map (fun kv => (fst kv, apply_set sdd outs fouts fins ins (snd kv))) dpd.

(* the renaming loop over callee_amd in visit(callsite_t&) *)
Definition rename_map (m : vmap) (fins ins : list N) : vmap :=
  map (fun kv => (fst kv, callee_to_caller (snd kv) fins ins)) m.

(* discrete_pair_domain::operator| *)
Definition join (a b : vmap) : vmap :=
  map (fun kv => (fst kv, union (snd kv) (get (fst kv) b))) a
  ++ filter (fun kv => negb (haskey (fst kv) a)) b.

(* visit(callsite_t&), summary found: (amd, sdm) is the crawler's pair after the call,
   (camd, csdd) the callee's summary pair *)
Definition callsite_step (cur callee : vmap * vmap) (outs fouts fins ins : list N) : vmap * vmap :=
  (join (apply_summary (fst cur) (snd callee) outs fouts fins ins) (rename_map (fst callee) fins ins),
   apply_summary (snd cur) (snd callee) outs fouts fins ins).

(* ---------------------------------------------------------------- the algorithm before e852a9c
   rename(dpd, outs, fouts); apply_summary(dpd, sdd); rename(dpd, fins, ins) where
   discrete_domain::rename substitutes one pair after the other and the old apply_summary
   replaced every variable that is a key of sdd with a non-empty set. *)
Fixpoint rename_seq (from to : list N) (V : vset) : vset :=
  match from, to with
  | f :: fr, t :: tr =>
      rename_seq fr tr
        (if N.eqb f t then V
         else if mem f V then vadd t (filter (fun x => negb (N.eqb x f)) V) else V)
  | _, _ => V
  end.
Definition old_outputs_to_inputs (sdd : vmap) (V : vset) : vset :=
  fold_right (fun v acc => match get v sdd with [] => vadd v acc | _ :: _ => union (get v sdd) acc end) [] V.
Definition old_apply (sdd : vmap) (outs fouts fins ins : list N) (V : vset) : vset :=
  rename_seq fins ins (old_outputs_to_inputs sdd (rename_seq outs fouts V)).

(* ---------------------------------------------------------------- canonical printing helpers
   (used by the driver; sorting itself is done in OCaml on the extracted lists) *)
Definition set_eqb (A B : vset) : bool := subset A B && subset B A.
