(* Transformer.v — mirror of intra_abs_transformer::exec (analysis/abs_transformer.hpp) for
   the modelled statements over the interval domain, and of fwd_analyzer::analyze for a
   block (liveness pruning off). *)
From Coq Require Import ZArith List Bool.
From CrabV Require Import Base.ZInf Scalar.Itv Ir.Syntax Ir.Cfg Dom.ItvEnv Dom.ItvEnvSound Dom.ItvDomain
     Dom.ItvDomainSound Dom.ItvSolverSound.
Import ListNotations.

Definition tr_stmt (s : stmt) (e : env) : env :=
  match s with
  | SAssign x ex => d_assign x ex e
  | SArith op x y z => d_apply_arith op x y z e
  | SBit op x y z => d_apply_bit op x y z e
  | SAssume c => d_add [c] e
  | SAssert c _ => d_add [c] e
  | SHavoc x => e_forget e x
  | SSelect x c e1 e2 => d_select x c e1 e2 e
  | SUnreach => EBot
  end.

Definition tr_block (b : block) (e : env) : env := fold_left (fun acc s => tr_stmt s acc) b e.

Definition stmt_wf (s : stmt) : Prop :=
  match s with
  | SAssume c | SAssert c _ | SSelect _ c _ _ => wf_lc c
  | _ => True
  end.
Definition block_wf (b : block) : Prop := forall s, In s b -> stmt_wf s.

Definition stmt_wfb (s : stmt) : bool :=
  match s with
  | SAssume c | SAssert c _ | SSelect _ c _ _ => wf_lcb c
  | _ => true
  end.

Arguments d_add : simpl never.
Arguments d_select : simpl never.

Theorem tr_stmt_sound s e a b : stmt_wf s -> genv e a -> sstep s a b -> genv (tr_stmt s e) b.
Proof.
  intros W G H. destruct s; simpl in *.
  - subst. apply d_assign_sound; auto.
  - destruct H as (v & A & ->). eapply d_apply_arith_sound; eauto.
  - destruct H as (v & A & ->). eapply d_apply_bit_sound; eauto.
  - destruct H as [S ->]. apply d_add_sound; auto. intros c' [<-|[]]; auto.
  - destruct H as [S ->]. apply d_add_sound; auto. intros c' [<-|[]]; auto.
  - destruct H as (v & ->). apply e_forget_sound; auto.
  - subst. apply d_select_sound; auto.
  - contradiction.
Qed.

Theorem tr_block_sound bl : forall e a b, block_wf bl -> genv e a -> bstep bl a b -> genv (tr_block bl e) b.
Proof.
  induction bl as [|s r IH]; simpl; intros e a b W G H.
  - subst; auto.
  - destruct H as (m & S & B). unfold tr_block in *. simpl. apply (IH _ m b); auto.
    + intros s' I. apply W. right; auto.
    + apply (tr_stmt_sound s e a m); auto. apply W. left; auto.
Qed.

Lemma stmt_wfb_sound s : stmt_wfb s = true -> stmt_wf s.
Proof. destruct s; simpl; auto; apply wf_lcb_sound. Qed.
