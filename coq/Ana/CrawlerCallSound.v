(* CrawlerCallSound.v — dependence semantics of a call statement and soundness of the
   call-site step of the assertion crawler (model: CrawlerCall.v).

   Stores are `var -> Z`.  A function f of the store DEPENDS ONLY ON V when two stores that
   agree on V give the same f.  The crawler's facts are of this kind: "the condition of
   assertion id, evaluated when the execution reaches it, is a function of the values that the
   variables of amd[id] have HERE".

   The callee.  A callee is a function `callee : store -> list Z` from its ENTRY store to the
   values of its formal outputs.  It is deterministic; non-determinism inside the callee (havoc,
   several successors) is covered by fixing the sequence of choices, exactly as the replay of the
   oracle of gen/intercrawl.py does: for every fixed choice sequence the outputs are a function of
   the entry store, and the theorems hold for each of them.  The entry store binds the k-th formal
   input to the value of the k-th actual; every other variable x of the callee is either a local
   of the callee with some fixed initial value (`loc x = Some z`, again a fixed choice) or is
   shared by name with the caller (`loc x = None`).  crab identifies variables by name, and a
   summary can mention variables of the callee that are not formal inputs (a formal output that
   the callee never assigns depends on itself, an uninitialised local, ...): callee_to_caller
   passes those names to the caller unchanged.  With `loc x = None` that is exactly what is
   needed; with `loc x = Some z` it only adds a superfluous name to the set.  So NO side
   condition on the summary's non-formal variables is needed for soundness (the price is
   precision only).  The special case of the task statement, a callee that is a function
   `list Z -> list Z` of the values of its formal inputs, is `callee_of_list`; there the formal
   inputs have to be pairwise distinct (NoDup fins), otherwise "the k-th formal" is not a
   variable of the callee and the first-match of std::find picks the wrong actual.

   The call statement.  `call_sem` writes the j-th result into outs_j and leaves every other
   variable unchanged (first match, as the C++ does); `call_seq` is the usual sequence of
   assignments outs_0 := r_0; outs_1 := r_1; ...; they coincide when the outs are pairwise
   distinct (call_seq_sem), which is the hypothesis NoDup outs of the task statement. *)
From Coq Require Import ZArith List Bool Lia.
From CrabV Require Import Ir.Syntax Ana.CfgSem Ana.CrawlerCall.
Import ListNotations.

Definition depends_only {A : Type} (f : store -> A) (V : vset) : Prop :=
  forall s s', agree V s s' -> f s = f s'.

(* ---------------------------------------------------------------- semantics *)
Definition entry (fins ins : list N) (loc : N -> option Z) (s : store) : store :=
  fun x => match index_of x fins with
           | Some k => s (nth k ins x)
           | None => match loc x with Some z => z | None => s x end
           end.

Definition call_sem (outs fins ins : list N) (loc : N -> option Z)
           (callee : store -> list Z) (s : store) : store :=
  fun x => match index_of x outs with
           | Some j => nth j (callee (entry fins ins loc s)) 0%Z
           | None => s x
           end.

Definition assign_all (outs : list N) (vals : list Z) (s : store) : store :=
  fold_left (fun s ov => upd s (fst ov) (snd ov)) (combine outs vals) s.

Definition call_seq (outs fins ins : list N) (loc : N -> option Z)
           (callee : store -> list Z) (s : store) : store :=
  assign_all outs (callee (entry fins ins loc s)) s.

(* the j-th formal output is a function of the entry values of sdd[fouts_j] *)
Definition summary_ok (sdd : vmap) (fouts : list N) (callee : store -> list Z) : Prop :=
  forall j, (j < length fouts)%nat ->
            depends_only (fun e => nth j (callee e) 0%Z) (get (nth j fouts 0%N) sdd).

(* callee given as a function of the values of its formal inputs *)
Definition callee_of_list (fins : list N) (c : list Z -> list Z) : store -> list Z :=
  fun e => c (map e fins).
Definition summary_ok_list (sdd : vmap) (fins fouts : list N) (c : list Z -> list Z) : Prop :=
  forall j, (j < length fouts)%nat ->
  forall a a', length a = length fins -> length a' = length fins ->
    (forall k, (k < length fins)%nat -> In (nth k fins 0%N) (get (nth j fouts 0%N) sdd) ->
               nth k a 0%Z = nth k a' 0%Z) ->
    nth j (c a) 0%Z = nth j (c a') 0%Z.

(* ---------------------------------------------------------------- sets and maps *)
Lemma index_of_lt x l j : index_of x l = Some j -> (j < length l)%nat /\ nth j l 0%N = x.
Proof.
  revert j. induction l as [|y r IH]; simpl; intros j H; [discriminate|].
  destruct (N.eqb x y) eqn:E.
  - inversion H; subst. apply N.eqb_eq in E. split; [lia|auto].
  - destruct (index_of x r) as [k|]; simpl in H; [|discriminate].
    inversion H; subst. destruct (IH k eq_refl). split; [lia|auto].
Qed.

Lemma index_of_None x l : index_of x l = None <-> ~ In x l.
Proof.
  induction l as [|y r IH]; simpl.
  - split; auto.
  - destruct (N.eqb x y) eqn:E.
    + apply N.eqb_eq in E. split; [discriminate|]. intros H. exfalso. apply H. auto.
    + apply N.eqb_neq in E. destruct (index_of x r) as [k|]; simpl.
      * split; [discriminate|]. intros H. exfalso. apply H. right.
        destruct (in_dec N.eq_dec x r) as [i|n]; auto. apply IH in n. discriminate.
      * split; auto. intros _ [H|H]; [congruence|]. apply (proj1 IH); auto.
Qed.

Lemma index_of_nth_NoDup l k d :
  NoDup l -> (k < length l)%nat -> index_of (nth k l d) l = Some k.
Proof.
  revert k. induction l as [|y r IH]; simpl; intros k ND Hk; [lia|].
  inversion ND; subst. destruct k as [|k].
  - rewrite N.eqb_refl. auto.
  - assert (Hk' : (k < length r)%nat) by lia.
    destruct (N.eqb (nth k r d) y) eqn:E.
    + apply N.eqb_eq in E. exfalso. apply H1. rewrite <- E. apply nth_In. auto.
    + rewrite IH; auto.
Qed.

Lemma c2c_In x W fins ins :
  In x (callee_to_caller W fins ins) <-> exists v, In v W /\ x = subst1 fins ins v.
Proof.
  unfold callee_to_caller. induction W as [|w r IH]; simpl.
  - split; [tauto|]. intros [v [[] _]].
  - rewrite vadd_In, IH. split.
    + intros [H|[v [H1 H2]]]; [exists w; auto | exists v; auto].
    + intros [v [[H|H] H2]]; [subst; auto | right; exists v; auto].
Qed.

Lemma apply_set_In y sdd outs fouts fins ins V :
  In y (apply_set sdd outs fouts fins ins V) <->
  exists v, In v V /\
    ((index_of v outs = None /\ y = v) \/
     (exists j, index_of v outs = Some j /\
                In y (callee_to_caller (get (nth j fouts 0%N) sdd) fins ins))).
Proof.
  unfold apply_set. induction V as [|w r IH]; simpl.
  - split; [tauto|]. intros [v [[] _]].
  - destruct (index_of w outs) as [j|] eqn:E.
    + rewrite union_In, IH. split.
      * intros [H|[v [H1 H2]]].
        -- exists w. split; auto. right. exists j. auto.
        -- exists v. auto.
      * intros [v [[H|H] H2]].
        -- subst v. destruct H2 as [[H2 _]|[j' [H2 H3]]]; [congruence|].
           left. congruence.
        -- right. exists v. auto.
    + rewrite vadd_In, IH. split.
      * intros [H|[v [H1 H2]]].
        -- exists w. split; auto.
        -- exists v. auto.
      * intros [v [[H|H] H2]].
        -- subst v. destruct H2 as [[_ H2]|[j' [H2 _]]]; [auto|congruence].
        -- right. exists v. auto.
Qed.

Lemma get_apply_summary k dpd sdd outs fouts fins ins :
  haskey k dpd = true ->
  get k (apply_summary dpd sdd outs fouts fins ins) = apply_set sdd outs fouts fins ins (get k dpd).
Proof.
  unfold apply_summary. induction dpd as [|[k' V] r IH]; simpl; [discriminate|].
  destruct (N.eqb k k'); simpl; auto.
Qed.

Lemma haskey_apply_summary k dpd sdd outs fouts fins ins :
  haskey k (apply_summary dpd sdd outs fouts fins ins) = haskey k dpd.
Proof.
  unfold apply_summary. induction dpd as [|[k' V] r IH]; simpl; auto. rewrite IH. auto.
Qed.

Lemma get_rename_map k m fins ins :
  haskey k m = true -> get k (rename_map m fins ins) = callee_to_caller (get k m) fins ins.
Proof.
  unfold rename_map. induction m as [|[k' V] r IH]; simpl; [discriminate|].
  destruct (N.eqb k k'); simpl; auto.
Qed.

Lemma get_nokey k m : haskey k m = false -> get k m = [].
Proof.
  induction m as [|[k' V] r IH]; simpl; auto.
  destruct (N.eqb k k'); simpl; [discriminate|auto].
Qed.

Lemma get_filter_nokey k a b :
  haskey k a = false -> get k (filter (fun kv : N * vset => negb (haskey (fst kv) a)) b) = get k b.
Proof.
  intros H. induction b as [|[k' V] r IH]; simpl; auto.
  destruct (haskey k' a) eqn:E; simpl.
  - destruct (N.eqb k k') eqn:E2; auto. apply N.eqb_eq in E2. congruence.
  - rewrite IH. auto.
Qed.

(* the join of discrete_pair_domain is the pointwise union *)
Lemma get_map_app k a b c :
  get k (map (fun kv : N * vset => (fst kv, union (snd kv) (get (fst kv) b))) a ++ c)
  = if haskey k a then union (get k a) (get k b) else get k c.
Proof.
  induction a as [|[k' V] r IH]; simpl; auto.
  destruct (N.eqb k k') eqn:E2; simpl; auto.
  apply N.eqb_eq in E2. subst k'. auto.
Qed.

Lemma join_In x k a b : In x (get k (join a b)) <-> In x (get k a) \/ In x (get k b).
Proof.
  unfold join. rewrite get_map_app. destruct (haskey k a) eqn:E.
  - apply union_In.
  - rewrite (get_nokey k a E). rewrite get_filter_nokey by auto. simpl. tauto.
Qed.

Lemma haskey_join k a b : haskey k (join a b) = haskey k a || haskey k b.
Proof.
  unfold join.
  assert (A : forall l c, haskey k (l ++ c) = haskey k l || haskey k c).
  { induction l as [|[k' V] r IH]; simpl; intros; auto. rewrite IH. apply orb_assoc. }
  rewrite A.
  assert (B : haskey k (map (fun kv : N * vset => (fst kv, union (snd kv) (get (fst kv) b))) a) = haskey k a).
  { induction a as [|[k' V] r IH]; simpl; auto. rewrite IH. auto. }
  rewrite B. clear B. destruct (haskey k a) eqn:E; simpl; auto.
  induction b as [|[k' V] r IH]; simpl; auto.
  destruct (haskey k' a) eqn:E2; simpl.
  - rewrite IH. destruct (N.eqb k k') eqn:E3; auto. apply N.eqb_eq in E3. congruence.
  - rewrite IH. auto.
Qed.

Lemma depends_only_mono {A} (f : store -> A) V V' :
  (forall x, In x V -> In x V') -> depends_only f V -> depends_only f V'.
Proof. intros H D s s' Ag. apply D. intros x Hx. apply Ag. auto. Qed.

(* ---------------------------------------------------------------- the entry store *)
Lemma entry_subst fins ins loc s x :
  entry fins ins loc s x = match index_of x fins with
                           | Some _ => s (subst1 fins ins x)
                           | None => match loc x with Some z => z | None => s (subst1 fins ins x) end
                           end.
Proof. unfold entry, subst1. destruct (index_of x fins); auto. Qed.

Lemma entry_agree W fins ins loc s s' :
  agree (callee_to_caller W fins ins) s s' ->
  agree W (entry fins ins loc s) (entry fins ins loc s').
Proof.
  intros Ag x Hx. rewrite !entry_subst.
  assert (E : s (subst1 fins ins x) = s' (subst1 fins ins x)).
  { apply Ag. apply c2c_In. exists x. auto. }
  destruct (index_of x fins); auto. destruct (loc x); auto.
Qed.

(* callee assertions: a condition of the callee that is a function of the entry values of W is,
   before the call, a function of the caller's values of callee_to_caller W *)
Theorem callee_to_caller_sound {A} (g : store -> A) W fins ins loc :
  depends_only g W ->
  depends_only (fun s => g (entry fins ins loc s)) (callee_to_caller W fins ins).
Proof. intros D s s' Ag. apply D. apply entry_agree. auto. Qed.

(* ---------------------------------------------------------------- the call *)
Theorem apply_set_sound {A} (f : store -> A) V sdd outs fouts fins ins loc callee :
  summary_ok sdd fouts callee ->
  length outs = length fouts ->
  depends_only f V ->
  depends_only (fun s => f (call_sem outs fins ins loc callee s))
               (apply_set sdd outs fouts fins ins V).
Proof.
  intros SO L D s s' Ag. apply D. intros x Hx. unfold call_sem.
  destruct (index_of x outs) as [j|] eqn:E.
  - destruct (index_of_lt _ _ _ E) as [Hj _]. rewrite L in Hj.
    apply (SO j Hj). apply entry_agree. intros y Hy. apply Ag.
    apply apply_set_In. exists x. split; auto. right. exists j. auto.
  - apply Ag. apply apply_set_In. exists x. auto.
Qed.

Lemma assign_all_sem outs : forall vals s x,
  NoDup outs -> length vals = length outs ->
  assign_all outs vals s x = match index_of x outs with
                             | Some j => nth j vals 0%Z
                             | None => s x
                             end.
Proof.
  unfold assign_all. induction outs as [|o r IH]; intros vals s x ND L; simpl; auto.
  destruct vals as [|v vr]; simpl in L; [discriminate|]. simpl.
  inversion ND; subst. rewrite IH by (auto; lia).
  destruct (N.eqb x o) eqn:E.
  - apply N.eqb_eq in E. subst x.
    apply index_of_None in H1. rewrite H1. simpl. unfold upd. rewrite N.eqb_refl. auto.
  - destruct (index_of x r) as [j|]; simpl; auto. unfold upd. rewrite E. auto.
Qed.

Lemma call_seq_sem outs fins ins loc callee s :
  NoDup outs -> length (callee (entry fins ins loc s)) = length outs ->
  forall x, call_seq outs fins ins loc callee s x = call_sem outs fins ins loc callee s x.
Proof. intros ND L x. unfold call_seq, call_sem. apply assign_all_sem; auto. Qed.

(* the statement of the task: sequential assignment of pairwise distinct results *)
Theorem apply_set_sound_seq {A} (f : store -> A) V sdd outs fouts fins ins loc callee :
  summary_ok sdd fouts callee ->
  length outs = length fouts ->
  NoDup outs ->
  (forall e, length (callee e) = length fouts) ->
  depends_only f V ->
  depends_only (fun s => f (call_seq outs fins ins loc callee s))
               (apply_set sdd outs fouts fins ins V).
Proof.
  intros SO L ND LC D s s' Ag.
  assert (E : forall t, agree V (call_seq outs fins ins loc callee t) (call_sem outs fins ins loc callee t)).
  { intros t x _. apply call_seq_sem; auto. rewrite LC. auto. }
  rewrite (D _ _ (E s)), (D _ _ (E s')).
  apply (apply_set_sound f V sdd outs fouts fins ins loc callee SO L D). auto.
Qed.

(* callee as a function of the list of the values of its formal inputs *)
Lemma map_entry fins ins loc s :
  NoDup fins -> length ins = length fins -> map (entry fins ins loc s) fins = map s ins.
Proof.
  intros ND L. apply (nth_ext _ _ 0%Z 0%Z).
  - rewrite !map_length. auto.
  - intros k Hk. rewrite map_length in Hk.
    rewrite (nth_indep _ 0%Z (entry fins ins loc s 0%N)) by (rewrite map_length; auto).
    rewrite map_nth.
    rewrite (nth_indep (map s ins) 0%Z (s 0%N)) by (rewrite map_length; unfold var; rewrite L; exact Hk).
    rewrite map_nth. unfold entry. unfold var in *.
    rewrite (index_of_nth_NoDup fins k 0%N ND Hk).
    f_equal. apply nth_indep. rewrite L. exact Hk.
Qed.

Lemma summary_ok_of_list sdd fins fouts c :
  summary_ok_list sdd fins fouts c -> summary_ok sdd fouts (callee_of_list fins c).
Proof.
  intros SO j Hj e e' Ag. unfold callee_of_list. apply SO; auto.
  - apply map_length.
  - apply map_length.
  - intros k Hk Hin.
    rewrite (nth_indep (map e fins) 0%Z (e 0%N)) by (rewrite map_length; auto).
    rewrite (nth_indep (map e' fins) 0%Z (e' 0%N)) by (rewrite map_length; auto).
    rewrite !map_nth. apply Ag. auto.
Qed.

Definition call_list (outs ins : list N) (c : list Z -> list Z) (s : store) : store :=
  assign_all outs (c (map s ins)) s.

Theorem apply_set_sound_list {A} (f : store -> A) V sdd outs fouts fins ins c :
  summary_ok_list sdd fins fouts c ->
  length outs = length fouts -> length ins = length fins ->
  NoDup outs -> NoDup fins ->
  (forall a, length (c a) = length fouts) ->
  depends_only f V ->
  depends_only (fun s => f (call_list outs ins c s)) (apply_set sdd outs fouts fins ins V).
Proof.
  intros SO L1 L2 ND1 ND2 LC D.
  assert (E : forall s, call_list outs ins c s
                        = call_seq outs fins ins (fun _ => None) (callee_of_list fins c) s).
  { intros s. unfold call_list, call_seq, callee_of_list. rewrite map_entry; auto. }
  intros s s' Ag. rewrite !E.
  apply (apply_set_sound_seq f V sdd outs fouts fins ins (fun _ => None) (callee_of_list fins c)); auto.
  - apply summary_ok_of_list. auto.
  - intros e. apply LC.
Qed.

(* ---------------------------------------------------------------- lifted to the maps *)
(* every fact of a map: the observation obs k depends only on the set bound to k *)
Definition facts_ok {A} (m : vmap) (obs : N -> store -> A) : Prop :=
  forall k, haskey k m = true -> depends_only (obs k) (get k m).

Theorem apply_summary_sound {A} (dpd : vmap) (obs : N -> store -> A) sdd outs fouts fins ins loc callee :
  summary_ok sdd fouts callee ->
  length outs = length fouts ->
  facts_ok dpd obs ->
  facts_ok (apply_summary dpd sdd outs fouts fins ins)
           (fun k s => obs k (call_sem outs fins ins loc callee s)).
Proof.
  intros SO L F k Hk. rewrite haskey_apply_summary in Hk.
  rewrite get_apply_summary by auto.
  apply (apply_set_sound (obs k)); auto.
Qed.

(* the caller's own summary dependencies: `rest` = the caller's outputs as a function of the store
   after the call; couts = the caller's formal outputs, the keys of sdm *)
Theorem caller_summary_compose sdm couts (rest : store -> list Z) sdd outs fouts fins ins loc callee :
  summary_ok sdd fouts callee ->
  length outs = length fouts ->
  (forall j, (j < length couts)%nat -> haskey (nth j couts 0%N) sdm = true) ->
  summary_ok sdm couts rest ->
  summary_ok (apply_summary sdm sdd outs fouts fins ins) couts
             (fun s => rest (call_sem outs fins ins loc callee s)).
Proof.
  intros SO L HK SR j Hj.
  rewrite get_apply_summary by auto.
  apply (apply_set_sound (fun e => nth j (rest e) 0%Z)); auto.
Qed.

(* the whole step.  obs k = condition of the caller's assertion k as a function of the store
   after the call; cobs k = condition of the callee's assertion k as a function of the callee's
   entry store.  An assertion id that is in both maps (the callee was already called further
   down) gets the union, which is sound for both readings. *)
Theorem callsite_step_sound {A} amd sdm camd csdd (obs cobs : N -> store -> A)
        couts (rest : store -> list Z) outs fouts fins ins loc callee :
  summary_ok csdd fouts callee ->
  length outs = length fouts ->
  facts_ok amd obs ->
  facts_ok camd cobs ->
  (forall j, (j < length couts)%nat -> haskey (nth j couts 0%N) sdm = true) ->
  summary_ok sdm couts rest ->
  let r := callsite_step (amd, sdm) (camd, csdd) outs fouts fins ins in
  (forall k, haskey k amd = true ->
             depends_only (fun s => obs k (call_sem outs fins ins loc callee s)) (get k (fst r))) /\
  (forall k, haskey k camd = true ->
             depends_only (fun s => cobs k (entry fins ins loc s)) (get k (fst r))) /\
  (forall k, haskey k (fst r) = true -> haskey k amd = true \/ haskey k camd = true) /\
  summary_ok (snd r) couts (fun s => rest (call_sem outs fins ins loc callee s)).
Proof.
  intros SO L F CF HK SR r. unfold r, callsite_step. simpl.
  split; [|split; [|split]].
  - intros k Hk.
    apply (depends_only_mono _ (get k (apply_summary amd csdd outs fouts fins ins))).
    + intros x Hx. apply join_In. auto.
    + apply (apply_summary_sound amd obs csdd outs fouts fins ins loc callee SO L F k).
      rewrite haskey_apply_summary. auto.
  - intros k Hk.
    apply (depends_only_mono _ (get k (rename_map camd fins ins))).
    + intros x Hx. apply join_In. auto.
    + rewrite get_rename_map by auto. apply callee_to_caller_sound. apply CF. auto.
  - intros k Hk. rewrite haskey_join, haskey_apply_summary in Hk.
    apply orb_true_iff in Hk. destruct Hk as [Hk|Hk]; auto. right.
    clear - Hk. unfold rename_map in Hk. induction camd as [|[k' V] t IH]; simpl in *; auto.
    destruct (N.eqb k k'); simpl in *; auto.
  - apply caller_summary_compose; auto.
Qed.

(* ---------------------------------------------------------------- the defect inputs of e852a9c
   variables: p=1 q=2 r=3 a=4 x=5 o=6 i=7 *)
Example defect1_repaired :   (* f(p,q) returns (r): r := p - q;  main: (r) := f(q,p); assert(r >= 0) *)
  set_eqb (apply_set [(3, [1; 2])] [3] [3] [1; 2] [2; 1] [3])%N [1; 2]%N = true.
Proof. vm_compute. reflexivity. Qed.
Example defect1_old_refuted :
  mem 1%N (old_apply [(3, [1; 2])] [3] [3] [1; 2] [2; 1] [3])%N
  && mem 2%N (old_apply [(3, [1; 2])] [3] [3] [1; 2] [2; 1] [3])%N = false.
Proof. vm_compute. reflexivity. Qed.

Example defect2_repaired :   (* f(i) returns (o): o := i;  main: (x) := f(a); assert(x + o >= 0) *)
  set_eqb (apply_set [(6, [7])] [5] [6] [7] [4] [5; 6])%N [4; 6]%N = true.
Proof. vm_compute. reflexivity. Qed.
Example defect2_old_refuted :
  old_apply [(6, [7])]%N [5]%N [6]%N [7]%N [4]%N [5; 6]%N = [4]%N.
Proof. vm_compute. reflexivity. Qed.

Example defect3_repaired :   (* same f;  main: (x) := f(a); assert(x + i >= 0) *)
  set_eqb (apply_set [(6, [7])] [5] [6] [7] [4] [5; 7])%N [4; 7]%N = true.
Proof. vm_compute. reflexivity. Qed.
Example defect3_old_refuted :
  old_apply [(6, [7])]%N [5]%N [6]%N [7]%N [4]%N [5; 7]%N = [4]%N.
Proof. vm_compute. reflexivity. Qed.

(* the old answers are not sets the condition depends only on: semantic refutation on defect 1.
   callee r := p - q, condition r (its value), the two stores differ only outside the old set *)
Example defect1_old_unsound :
  let callee := fun e : store => [e 1%N - e 2%N]%Z in
  let f := fun s : store => s 3%N in
  let V := (old_apply [(3, [1; 2])] [3] [3] [1; 2] [2; 1] [3])%N in
  summary_ok [(3, [1; 2])]%N [3]%N callee /\ depends_only f [3]%N /\
  ~ depends_only (fun s => f (call_sem [3] [1; 2] [2; 1] (fun _ => None) callee s))%N V.
Proof.
  split; [|split].
  - intros j Hj e e' Ag. simpl in Hj. assert (j = 0)%nat by lia. subst. simpl.
    rewrite (Ag 1%N), (Ag 2%N); simpl; auto.
  - intros s s' Ag. apply Ag. simpl. auto.
  - intros D.
    assert (V0 : (old_apply [(3, [1; 2])] [3] [3] [1; 2] [2; 1] [3])%N = [1%N]) by (vm_compute; reflexivity).
    rewrite V0 in D.
    specialize (D (fun _ => 0%Z) (fun x => if N.eqb x 2 then 1%Z else 0%Z)).
    assert (Ag : agree [1%N] (fun _ : var => 0%Z) (fun x : var => if N.eqb x 2 then 1%Z else 0%Z)).
    { intros x [H|[]]. subst. reflexivity. }
    specialize (D Ag). vm_compute in D. discriminate.
Qed.

(* hypotheses are satisfiable by a non-trivial value: shared names and a permutation *)
Example callsite_step_example :
  (callsite_step ([(10, [3; 7])], [(3, [3])]) ([(20, [2; 9])], [(3, [1; 2])]) [3] [3] [1; 2] [2; 1])%N
  = ([(10, [2; 1; 7]); (20, [1; 9])], [(3, [2; 1])])%N.
Proof. vm_compute. reflexivity. Qed.
