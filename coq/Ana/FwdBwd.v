(* FwdBwd.v — mirror of intra_forward_backward_analyzer::run (analysis/bwd_analyzer.hpp) over
   intervals, on top of the forward analyzer model (Ana/FwdItv.v), the backward analyzer model
   (Ana/BwdItv.v) and the assertion checker model (Ana/Checker.v):

     gather_assertions, unproven_assertions_reach_exit (the backward refinement is skipped
     when the CFG has no exit block or when some assertion is in a block that cannot reach
     it), the loop  forward run with the current refined assumptions / backward run from the
     error states with the forward invariants / refine (old && new per block: operator&& of a
     crab domain is the NARROWING, not the meet; "more refinement" iff for some block
     not (old <= refined); the first round always refines) until
     no more refinement or iters > max_refine_iterations, discharge_assertions through the
     dominator tree, the stored invariants (first round, or last round with
     use_refined_invariants), and intra_checker::run + assert_property_checker::check with
     the set of proved assertions (checkers/checker.hpp, assertion.hpp).

   Dominance.  The C++ asks boost for the immediate-dominator tree rooted at the CFG entry
   and tests "v is a proper descendant of u in that tree", i.e. u strictly dominates v and v
   is reachable from the entry.  The model decides the same relation directly: v is reachable
   from the entry, u <> v, and v is no longer reachable once the edges leaving u are removed.
   Reachability is read off the ordering computed by the model of wto.hpp (Fix/Wto.v), whose
   blocks are exactly the reachable ones (wf_reach).  The tree is empty iff no block other
   than the entry is reachable.

   The proved set is a set of blocks: discharge_assertions decides per block (all the
   assertions of a block dominated by a block whose refined assumption is bottom).
   minimize() is the identity for interval_domain.  The initial assumption map is empty (as
   the harness calls run()). *)
From Coq Require Import ZArith List Bool Arith.
From CrabV Require Import Base.ZInf Scalar.Itv Ir.Syntax Ir.Cfg Dom.ItvEnv Dom.ItvDomain Fix.Wto Fix.Engine
     Ana.Transformer Ana.FwdItv Ana.Backward Ana.BackwardCheck Ana.BwdItv Ana.Checker.
Import ListNotations.

(* ------------------------------------------------------------------ assertions of the CFG *)
Definition is_assert (s : stmt) : bool := match s with SAssert _ _ => true | _ => false end.
Definition has_assert (bl : block) : bool := existsb is_assert bl.
Definition nblocks (p : prog) : nat := length (p_blocks p).
Definition all_blocks (p : prog) : list nat := seq 0 (nblocks p).

(* m_unproven_assertions.empty() after gather_assertions *)
Definition no_asserts (p : prog) : bool := forallb (fun bl => negb (has_assert bl)) (p_blocks p).

(* unproven_assertions_reach_exit: wrev is the ordering of the reversed CFG from the exit
   block; its blocks are those from which the exit block can be reached *)
Definition asserts_reach_exit (p : prog) (wrev : wto) : bool :=
  forallb (fun n => negb (has_assert (p_block p n)) || wto_mem n wrev) (all_blocks p).

(* ------------------------------------------------------------------ dominance *)
(* the CFG without the edges that leave u *)
Definition p_graph_cut (p : prog) (u : nat) : graph :=
  map (fun q => if Nat.eqb q u then [] else p_succs p q) (all_blocks p).

(* u strictly dominates v, v reachable from the entry (w = an ordering of the CFG built from the entry) *)
Definition sdom (p : prog) (w : wto) (entry u v : nat) : bool :=
  negb (Nat.eqb u v) && wto_mem v w &&
  match build (p_graph_cut p u) entry with
  | Some w' => negb (wto_mem v w')
  | None => false
  end.

(* idom_tree.empty(): only the entry is reachable *)
Definition idom_empty (p : prog) (w : wto) (entry : nat) : bool :=
  forallb (fun v => Nat.eqb v entry || negb (wto_mem v w)) (all_blocks p).

(* discharge_assertions: the blocks whose assertions are all moved to m_proved_assertions *)
Definition discharge (p : prog) (w : wto) (entry : nat) (ref : nat -> env) : list nat :=
  if idom_empty p w entry then
    (if e_is_bot (ref entry) then all_blocks p else [])
  else
    filter (fun m => existsb (fun n => e_is_bot (ref n) && sdom p w entry n m) (all_blocks p))
           (all_blocks p).

(* ------------------------------------------------------------------ the refinement loop *)
(* refined_assumptions: None = the empty map, Some t = a map defined on every block *)
Definition asm_use (ref : option (nat -> env)) : bool := match ref with None => false | Some _ => true end.
Definition asm_of (ref : option (nat -> env)) : nat -> option env :=
  fun n => match ref with None => None | Some t => Some (t n) end.

(* the lambda refine applied to every block: new table, more_refinement *)
Definition refine_tab (p : prog) (old : option (nat -> env)) (bt : nat -> env) : (nat -> env) * bool :=
  match old with
  | None => (bt, negb (Nat.eqb (nblocks p) 0))
  | Some o => (fun n => e_narrow (o n) (bt n),
               existsb (fun n => negb (e_leq (o n) (e_narrow (o n) (bt n)))) (all_blocks p))
  end.

Record fbloop := mkFbLoop {
  r_first : nat -> env;             (* forward pre-invariants of the first round *)
  r_last : nat -> env;              (* forward pre-invariants of the last round *)
  r_ref : option (nat -> env) }.    (* refined assumptions given to discharge_assertions *)

Section Loop.
  Variable p : prog.
  Variable w : wto.                 (* ordering of the CFG from the entry *)
  Variable wrev : wto.              (* ordering of the reversed CFG from the exit *)
  Variables entry exit_block delay desc fuel : nat.
  Variable fresh : var.
  Variable init : env.

  (* k = max_refine_iterations + 1 - iters: the round stops the loop when k = 0 *)
  Fixpoint fb_loop (k : nat) (ref : option (nat -> env)) : option fbloop :=
    match fwd_run p w entry delay desc (asm_use ref) (asm_of ref) fuel init with
    | None => None
    | Some F =>
      match bwd_run p wrev exit_block delay desc fuel fresh false (e_pre env F) EBot with
      | None => None
      | Some bt =>
        let nm := refine_tab p ref bt in
        let ref' := if snd nm then Some (fst nm) else ref in
        match k with
        | O => Some (mkFbLoop (e_pre env F) (e_pre env F) ref')
        | S k' =>
          if snd nm then
            match fb_loop k' ref' with
            | None => None
            | Some r => Some (mkFbLoop (e_pre env F) (r_last r) (r_ref r))
            end
          else Some (mkFbLoop (e_pre env F) (e_pre env F) ref')
        end
      end
    end.
End Loop.

(* ------------------------------------------------------------------ run *)
Record fbout := mkFbOut {
  fb_inv : nat -> env;              (* m_pre_invariants, as the checker reads them *)
  fb_proved : list nat }.           (* blocks whose assertions are in m_proved_assertions *)

(* e0 = entry block of the CFG (the forward ordering is built from it); entry = block where
   the analysis starts (run(entry, ...): e0 itself for the one-entry run()).  The dominator tree
   is rooted at the block where the executions start (fixes/fwdbwd-2.diff; the two coincide for
   the one-entry run()).  An analysis entry outside the ordering is not modelled (None). *)
Definition fb_run (p : prog) (e0 entry : nat) (exit_block : option nat) (delay desc fuel : nat) (fresh : var)
           (use_refined : bool) (maxref : nat) (init : env) : option fbout :=
  match build (p_graph p) e0 with
  | None => None
  | Some w =>
    if negb (wto_mem entry w) then None else
    let forward_only :=
      match fwd_run p w entry delay desc false (fun _ => None) fuel init with
      | None => None
      | Some F => Some (mkFbOut (e_pre env F) [])
      end in
    match exit_block with
    | None => forward_only                                  (* CFG has no exit block *)
    | Some ex =>
      match wto_build (p_rev_graph p) ex with
      | None => None
      | Some wrev =>
        if negb (asserts_reach_exit p wrev) then forward_only
        else if no_asserts p then forward_only
        else
          match build (p_graph p) entry with                (* the blocks reachable from entry *)
          | None => None
          | Some wd =>
            match fb_loop p w wrev entry ex delay desc fuel fresh init maxref None with
            | None => None
            | Some r =>
              Some (mkFbOut (if use_refined then r_last r else r_first r)
                            (match r_ref r with Some t => discharge p wd entry t | None => [] end))
            end
          end
      end
    end
  end.

(* ------------------------------------------------------------------ the checker *)
(* assert_property_checker::check: an assertion of the proved set is safe (and the invariant
   is propagated through it); otherwise the rule of Ana/Checker.v *)
Definition fb_verdict_of (proved : bool) (c : lincst) (inv : env) : verdict :=
  if proved then VSafe else verdict_of c inv.
Definition fb_next_inv (proved : bool) (s : stmt) (inv : env) : env :=
  if proved then tr_stmt s inv else next_inv s inv.

Fixpoint fb_check_block (proved : bool) (bl : block) (inv : env) : list (nat * verdict) :=
  match bl with
  | [] => []
  | s :: r =>
    (match s with SAssert c id => [(id, fb_verdict_of proved c inv)] | _ => [] end)
      ++ fb_check_block proved r (fb_next_inv proved s inv)
  end.

Definition mem_nat (x : nat) (l : list nat) : bool := existsb (Nat.eqb x) l.

(* intra_checker::run: (assertion id, verdict) for every assertion of every block *)
Definition fb_verdicts (p : prog) (o : fbout) : list (nat * verdict) :=
  concat (map (fun n => fb_check_block (mem_nat n (fb_proved o)) (p_block p n) (fb_inv o n)) (all_blocks p)).

Definition fb_analyze (p : prog) (e0 entry : nat) (exit_block : option nat) (delay desc fuel : nat) (fresh : var)
           (use_refined : bool) (maxref : nat) (init : env) : option (list (nat * verdict)) :=
  match fb_run p e0 entry exit_block delay desc fuel fresh use_refined maxref init with
  | None => None
  | Some o => Some (fb_verdicts p o)
  end.
