(* FwdItvFullSound.v — properties C01 and C05 for the forward interval analyzer model in ALL
   configurations of intra_fwd_analyzer (Ana/FwdItvLive.v): widening delay, descending
   iterations, assumption maps, alternative entry blocks, widening with the thresholds that
   wto_thresholds collects (any max_thresholds), liveness pruning.

   Soundness (instance of Fix/EngineSound.v): whenever the model terminates, its tables contain
   every state with which an execution from the initial states enters / leaves each block.
   Nothing is assumed about the thresholds (widening is not used by the proof) nor about the
   dead sets (forgetting ANY set of variables at the end of a block is sound: the proof does
   not depend on the liveness analysis being right).

   Termination (instance of Fix/EngineTerm.v): for every program, ordering, entry, parameters,
   max_thresholds and liveness switch there is a fuel for which the model answers; more fuel
   never changes the answer.  The per-head thresholds computed by the mirror of wto_thresholds
   always have the shape that the termination of widening_thresholds needs
   (WtoThresholds.wto_thr_wf), so the theorem has no hypothesis about them. *)
From Coq Require Import ZArith NArith List Bool Arith Lia.
From CrabV Require Import Base.ZInf Scalar.Itv Ir.Syntax Ir.Cfg Dom.ItvEnv Dom.ItvEnvSound Dom.ItvDomain
     Dom.ItvDomainSound Dom.ItvEnvWiden
     Fix.Wto Fix.WtoCheck Fix.WtoSound Fix.WtoRoot Fix.Engine Fix.EngineBelow Fix.EngineCheck Fix.EngineRel
     Fix.EngineFS Fix.EngineSound Fix.EngineTerm Fix.Thresholds Fix.ThresholdsSound Fix.WtoThresholds
     Ana.Transformer Ana.FwdItv Ana.FwdItvSound Ana.FwdItvEngineSound Ana.FwdItvTerm Ana.FwdItvLive.
Import ListNotations.

(* ------------------------------------------------------------------ the pruned transformer *)
Lemma tr_block_pruned_sound dead bl e a b :
  block_wf bl -> genv e a -> bstep bl a b -> genv (tr_block_pruned dead bl e) b.
Proof.
  intros W G B. unfold tr_block_pruned.
  apply (d_forget_sound dead (tr_block bl e) b b); [|reflexivity].
  exact (tr_block_sound bl e a b W G B).
Qed.

Lemma fold_forget_ok vs : forall e, env_ok e -> env_ok (fold_left e_forget vs e).
Proof.
  induction vs as [|v r IH]; cbn [fold_left]; intros e OK; [exact OK|].
  apply IH. apply env_ok_forget. exact OK.
Qed.
Lemma d_forget_ok vs e : env_ok e -> env_ok (d_forget vs e).
Proof.
  intros OK. unfold d_forget. destruct (e_is_bot e || e_is_top e); [exact OK|].
  apply fold_forget_ok. exact OK.
Qed.
Lemma tr_block_pruned_ok dead b e : env_ok e -> env_ok (tr_block_pruned dead b e).
Proof. intros OK. apply d_forget_ok, tr_block_ok, OK. Qed.

(* ------------------------------------------------------------------ C01: soundness *)
Section FullSound.
  Variable p : prog.
  Hypothesis p_wf : prog_wfb p = true.
  Variable use_asm : bool.
  Variable asm : nat -> option env.
  Variable Init : store -> Prop.
  Variable init : env.
  Hypothesis init_s : forall s, Init s -> genv init s.
  Variables delay desc fuel : nat.

  (* any thresholds, any dead sets, any ordering satisfying property C07, any start block *)
  Theorem fwd_run_gen_sound_WF : forall use_thr t dead e0 nst dom w entry e,
    WF (p_graph p) e0 w nst dom ->
    In entry (flat w) ->
    fwd_run_gen use_thr t dead p w entry delay desc use_asm asm fuel init = Some e ->
    (forall n s, ReachPre p entry use_asm asm Init n s -> genv (e_pre env e n) s) /\
    (forall n s, ReachPost p entry use_asm asm Init n s -> genv (e_post env e n) s).
  Proof.
    intros use_thr t dead e0 nst dom w entry e W IE RUN.
    assert (BW : forallb (fun b => forallb stmt_wfb b) (p_blocks p) = true).
    { unfold prog_wfb in p_wf. apply andb_true_iff in p_wf. tauto. }
    unfold fwd_run_gen in RUN. unfold ReachPre, ReachPost.
    exact (engine_sound_WF env store genv (itv_ops_gen use_thr t)
             (fun a b s H => e_join_sound a b s (or_introl H))
             (fun a b s H => e_join_sound a b s (or_intror H))
             e_meet_sound e_narrow_sound
             (fun a b s L G => e_leq_sound a b s L G)
             (fun n e => tr_block_pruned (dead n) (p_block p n) e) (fun n => bstep (p_block p n))
             (fun n a s s' G B => tr_block_pruned_sound (dead n) (p_block p n) a s s' (blocks_wf p BW n) G B)
             (p_preds p) (nest_of w) entry delay desc use_asm asm Init init init_s fuel
             (p_graph p) e0 nst dom w W
             (fun n q I _ => preds_in_graph p p_wf n q I) IE e RUN).
  Qed.

  (* the analyzer as configured by the C++: ordering built by the model of wto.hpp from e0 (the
     CFG entry), analysis started at any block of it, thresholds of wto_thresholds for
     max_thresholds = maxthr, pruning with the liveness of the CFG if live *)
  Theorem fwd_run_full_sound : forall maxthr live ex e0 entry w e,
    build (p_graph p) e0 = Some w -> In entry (flat w) ->
    fwd_run_full p w entry delay desc maxthr live ex use_asm asm fuel init = Some e ->
    (forall n s, ReachPre p entry use_asm asm Init n s -> genv (e_pre env e n) s) /\
    (forall n s, ReachPost p entry use_asm asm Init n s -> genv (e_post env e n) s).
  Proof.
    intros maxthr live ex e0 entry w e BU IE RUN. unfold fwd_run_full in RUN.
    exact (fwd_run_gen_sound_WF _ _ _ e0 _ _ w entry e (build_WF _ _ _ BU) IE RUN).
  Qed.

  Corollary fwd_run_full_bottom_unreachable : forall maxthr live ex e0 entry w e,
    build (p_graph p) e0 = Some w -> In entry (flat w) ->
    fwd_run_full p w entry delay desc maxthr live ex use_asm asm fuel init = Some e ->
    forall n, e_is_bot (e_pre env e n) = true -> forall s, ~ ReachPre p entry use_asm asm Init n s.
  Proof.
    intros maxthr live ex e0 entry w e BU IE RUN n Bn s R.
    destruct (fwd_run_full_sound maxthr live ex e0 entry w e BU IE RUN) as [S _].
    eapply e_is_bot_sound; eauto.
  Qed.

  (* tables accepted by the checker for the pruned transformer *)
  Theorem fwd_check_gen_sound : forall dead entry pre post,
    fwd_check_gen dead p entry use_asm asm init pre post = true ->
    (forall n s, ReachPre p entry use_asm asm Init n s -> genv (pre n) s) /\
    (forall n s, ReachPost p entry use_asm asm Init n s -> genv (post n) s).
  Proof.
    intros dead entry pre post H. unfold fwd_check_gen in H.
    apply andb_true_iff in H. destruct H as [H OK].
    apply andb_true_iff in H. destruct H as [H EN].
    apply andb_true_iff in H. destruct H as [WF ED].
    assert (S := inductive_sound env store genv itv_ops
              (fun a b s H => e_join_sound a b s (or_introl H))
              (fun a b s H => e_join_sound a b s (or_intror H))
              e_meet_sound
              (fun a b s L G => e_leq_sound a b s L G)
              (fun n e => tr_block_pruned (dead n) (p_block p n) e) (fun n => bstep (p_block p n))
              (fun n a s s' G B => tr_block_pruned_sound (dead n) (p_block p n) a s s' (blocks_wf p WF n) G B)
              (p_preds p) entry use_asm asm Init init init_s (seq 0 (length (p_blocks p)))).
    assert (NC : In entry (seq 0 (length (p_blocks p))) /\
                 forall n q, In q (p_preds p n) -> In n (seq 0 (length (p_blocks p)))).
    { split.
      - apply in_seq. apply Nat.ltb_lt in EN. lia.
      - intros n q I. unfold p_preds in I. apply in_map_iff in I. destruct I as ([a b] & E & I).
        apply filter_In in I. destruct I as [I F]. simpl in *. apply Nat.eqb_eq in F. subst.
        rewrite forallb_forall in ED. specialize (ED _ I). simpl in ED.
        apply andb_true_iff in ED. destruct ED as [_ E2]. apply Nat.ltb_lt in E2.
        apply in_seq. lia. }
    specialize (S NC pre post OK). destruct S as [S1 S2].
    split; intros n s R; [apply S1|apply S2]; exact R.
  Qed.

  Corollary fwd_check_full_sound : forall live ex entry pre post,
    fwd_check_full live ex p entry use_asm asm init pre post = true ->
    (forall n s, ReachPre p entry use_asm asm Init n s -> genv (pre n) s) /\
    (forall n s, ReachPost p entry use_asm asm Init n s -> genv (post n) s).
  Proof. intros live ex entry pre post. unfold fwd_check_full. apply fwd_check_gen_sound. Qed.
End FullSound.

(* ------------------------------------------------------------------ C05: termination *)
Theorem fwd_run_gen_fuel_mono use_thr t dead p w entry delay desc use_asm asm init fuel fuel' e :
  fwd_run_gen use_thr t dead p w entry delay desc use_asm asm fuel init = Some e -> fuel <= fuel' ->
  fwd_run_gen use_thr t dead p w entry delay desc use_asm asm fuel' init = Some e.
Proof. unfold fwd_run_gen. apply run_mono. Qed.

Theorem fwd_run_gen_terminates use_thr t dead p w entry delay desc use_asm asm init :
  (use_thr = true -> forall h, wf_thr (t h)) ->
  env_ok init -> (forall n a, use_asm = true -> asm n = Some a -> env_ok a) ->
  exists fuel e, fwd_run_gen use_thr t dead p w entry delay desc use_asm asm fuel init = Some e.
Proof.
  intros WT OKi OKa. unfold fwd_run_gen.
  apply (run_total env (itv_ops_gen use_thr t) (fun n e => tr_block_pruned (dead n) (p_block p n) e)
                   (p_preds p) (nest_of w) entry delay desc use_asm asm init env_ok)
    with (R := fun h => if use_thr then e_lt_thr (t h) else e_lt).
  - exact I.
  - exact env_ok_join.
  - exact env_ok_meet.
  - intros h a b. cbn [o_widen itv_ops_gen]. destruct use_thr; [apply env_ok_widen_thr|apply env_ok_widen].
  - exact env_ok_narrow.
  - intros n a. apply tr_block_pruned_ok.
  - exact OKa.
  - exact OKi.
  - intros h. destruct use_thr; [apply e_lt_thr_wf|exact e_lt_wf].
  - intros h. cbn [o_widen o_leq itv_ops_gen]. destruct use_thr.
    + apply e_widen_thr_progress. apply WT. reflexivity.
    + exact e_widen_progress.
Qed.

Theorem fwd_run_full_fuel_mono p w entry delay desc maxthr live ex use_asm asm init fuel fuel' e :
  fwd_run_full p w entry delay desc maxthr live ex use_asm asm fuel init = Some e -> fuel <= fuel' ->
  fwd_run_full p w entry delay desc maxthr live ex use_asm asm fuel' init = Some e.
Proof. unfold fwd_run_full. apply fwd_run_gen_fuel_mono. Qed.

(* no hypothesis on the thresholds: those of wto_thresholds are always well formed *)
Theorem fwd_run_full_terminates p w entry delay desc maxthr live ex use_asm asm init :
  env_ok init -> (forall n a, use_asm = true -> asm n = Some a -> env_ok a) ->
  exists fuel e, fwd_run_full p w entry delay desc maxthr live ex use_asm asm fuel init = Some e.
Proof.
  intros OKi OKa. unfold fwd_run_full. apply fwd_run_gen_terminates; [|exact OKi|exact OKa].
  intros _ h. unfold prog_thr. apply wto_thr_wf.
Qed.

Corollary fwd_run_full_deterministic p w entry delay desc maxthr live ex use_asm asm init f1 f2 e1 e2 :
  fwd_run_full p w entry delay desc maxthr live ex use_asm asm f1 init = Some e1 ->
  fwd_run_full p w entry delay desc maxthr live ex use_asm asm f2 init = Some e2 -> e1 = e2.
Proof.
  intros H1 H2.
  pose proof (fwd_run_full_fuel_mono _ _ _ _ _ _ _ _ _ _ _ _ (Nat.max f1 f2) _ H1 (Nat.le_max_l _ _)) as A.
  pose proof (fwd_run_full_fuel_mono _ _ _ _ _ _ _ _ _ _ _ _ (Nat.max f1 f2) _ H2 (Nat.le_max_r _ _)) as B.
  congruence.
Qed.

Theorem fwd_run_full_ok p w entry delay desc maxthr live ex use_asm asm init fuel e :
  env_ok init -> (forall n a, use_asm = true -> asm n = Some a -> env_ok a) ->
  fwd_run_full p w entry delay desc maxthr live ex use_asm asm fuel init = Some e ->
  forall n, env_ok (e_pre env e n) /\ env_ok (e_post env e n).
Proof.
  intros OKi OKa H.
  assert (S : SInv env env_ok e).
  { unfold fwd_run_full, fwd_run_gen in H. revert H.
    apply (run_inv env (itv_ops_gen (negb (maxthr =? 0)%N) (prog_thr maxthr p w))
                   (fun n e => tr_block_pruned (prog_dead live p ex n) (p_block p n) e)
                   (p_preds p) (nest_of w) entry delay desc use_asm asm init env_ok).
    - exact I.
    - exact env_ok_join.
    - exact env_ok_meet.
    - intros h a b. cbn [o_widen itv_ops_gen]. destruct (negb _); [apply env_ok_widen_thr|apply env_ok_widen].
    - exact env_ok_narrow.
    - intros n a. apply tr_block_pruned_ok.
    - exact OKa.
    - exact OKi. }
  destruct S as [P Q]. intros n. split; [apply P|apply Q].
Qed.

(* ------------------------------------------------------------------ examples *)
(* (1) thresholds:  x := 0; while (nondet) { if (x <= 9) x := x + 1 else skip }
     b0: x := 0   b1 (head)   b2: assume x <= 9; x := x + 1   b3: skip   b4: exit
     edges 0->1, 1->2, 2->1, 1->3, 3->1, 1->4.
   Plain widening leaves x in [0,+oo] at the loop head, and the descending iteration does not
   help (the branch b3 feeds the head invariant back).  With max_thresholds = 10 the cycle has
   the threshold 10 (= 9 + 1, from `assume x <= 9`) and the head invariant is [0,10].  Both runs
   are covered by the theorems. *)
Definition ex_thr_prog : prog :=
  mkProg [ [SAssign ex_i (mkLE [] 0)];
           [];
           [SAssume (mkLC INEQ (mkLE [(1%Z, ex_i)] (-9))); SArith OpAdd ex_i ex_i (OCst 1)];
           [];
           [] ]
         [(0, 1); (1, 2); (2, 1); (1, 3); (3, 1); (1, 4)].

Example fwd_run_full_thresholds_example :
  let p := ex_thr_prog in
  prog_wfb p = true /\
  exists w e0 e10, build (p_graph p) 0 = Some w /\
    prog_thr 10 p w 1 = [MInf; Fin 0; Fin 10; PInf] /\
    fwd_run_full p w 0 1 1 0 false None false (fun _ => None) 100 e_top = Some e0 /\
    fwd_run_full p w 0 1 1 10 false None false (fun _ => None) 100 e_top = Some e10 /\
    e_at (e_pre env e0 1) ex_i = mkI (Fin 0) PInf /\
    e_at (e_pre env e10 1) ex_i = mkI (Fin 0) (Fin 10) /\
    e_at (e_pre env e10 4) ex_i = mkI (Fin 0) (Fin 10) /\
    forall s, ReachPre p 0 false (fun _ => None) (fun _ => True) 4 s -> genv (e_pre env e10 4) s.
Proof.
  cbv zeta. split; [vm_compute; reflexivity|].
  eexists. eexists. eexists. split; [vm_compute; reflexivity|].
  split; [vm_compute; reflexivity|].
  split; [vm_compute; reflexivity|]. split; [vm_compute; reflexivity|].
  split; [vm_compute; reflexivity|]. split; [vm_compute; reflexivity|].
  split; [vm_compute; reflexivity|].
  intros s R.
  refine (proj1 (fwd_run_full_sound ex_thr_prog _ false (fun _ => None) (fun _ => True) e_top _ 1 1 100
                                    10%N false None 0 0 _ _ _ _ _) 4 s R).
  - vm_compute; reflexivity.
  - intros s0 _. apply genv_top.
  - vm_compute; reflexivity.
  - vm_compute; tauto.
  - vm_compute; reflexivity.
Qed.

(* (2) pruning: b0: x := 5; y := x + 1   b1: y := y + 1  (exit).  x is dead at the end of b0
   (used or defined in b0, not live-out), y is live: with live = true the analyzer forgets x there
   and keeps y; without, x = 5 is kept.  b1's live-out set is empty: nothing is pruned there. *)
Definition ex_live_prog : prog :=
  mkProg [ [SAssign 0%N (mkLE [] 5); SArith OpAdd 1%N 0%N (OCst 1)];
           [SArith OpAdd 1%N 1%N (OCst 1)] ]
         [(0, 1)].

Example fwd_run_full_pruning_example :
  let p := ex_live_prog in
  prog_wfb p = true /\
  prog_dead true p (Some 1) 0 = [0%N] /\ prog_dead true p (Some 1) 1 = [] /\
  exists w e el, build (p_graph p) 0 = Some w /\
    fwd_run_full p w 0 2 1 0 false (Some 1) false (fun _ => None) 10 e_top = Some e /\
    fwd_run_full p w 0 2 1 0 true (Some 1) false (fun _ => None) 10 e_top = Some el /\
    e_at (e_post env e 0) 0%N = mkI (Fin 5) (Fin 5) /\
    e_at (e_post env el 0) 0%N = itop /\
    e_at (e_post env el 0) 1%N = mkI (Fin 6) (Fin 6) /\
    e_at (e_post env el 1) 1%N = mkI (Fin 7) (Fin 7) /\
    forall s, ReachPost p 0 false (fun _ => None) (fun _ => True) 1 s -> genv (e_post env el 1) s.
Proof.
  cbv zeta. split; [vm_compute; reflexivity|].
  split; [vm_compute; reflexivity|]. split; [vm_compute; reflexivity|].
  eexists. eexists. eexists. split; [vm_compute; reflexivity|].
  split; [vm_compute; reflexivity|]. split; [vm_compute; reflexivity|].
  split; [vm_compute; reflexivity|]. split; [vm_compute; reflexivity|].
  split; [vm_compute; reflexivity|]. split; [vm_compute; reflexivity|].
  intros s R.
  refine (proj2 (fwd_run_full_sound ex_live_prog _ false (fun _ => None) (fun _ => True) e_top _ 2 1 10
                                    0%N true (Some 1) 0 0 _ _ _ _ _) 1 s R).
  - vm_compute; reflexivity.
  - intros s0 _. apply genv_top.
  - vm_compute; reflexivity.
  - vm_compute; tauto.
  - vm_compute; reflexivity.
Qed.
