(* Dce.v — model of transforms/dce.hpp: dead_code_elimination::run.

   Per round: liveness of the current CFG (liveness_analysis, live-out per block); every block
   is swept backwards with a running live set that starts at live-out(b); a statement is
   removed when it is not kept conservatively (asserts, in the modelled fragment) and one of
   its definitions is not in the running set (included_defs false); the running set is
   updated with the defs / uses of *every* statement, removed or not; at most 10 rounds,
   stopping at the first round that removes nothing. *)
From Coq Require Import ZArith List Bool.
From CrabV Require Import Ir.Syntax Ana.CfgSem Ana.Liveness.
Import ListNotations.

Definition keep_conservatively (s : stmt) : bool :=
  match s with SAssert _ _ => true | _ => false end.

Definition included_defs (s : stmt) (L : vset) : bool := forallb (fun d => mem d L) (defs s).

Definition dce_removes (s : stmt) (L : vset) : bool :=
  negb (keep_conservatively s) && negb (included_defs s L).

(* running set before s: (L \ DEFS(s)) U USES(s) *)
Definition dce_live (s : stmt) (L : vset) : vset := union (uses s) (diff L (defs s)).

(* result: kept statements, running set at the head of the list, statements removed *)
Fixpoint dce_stmts (ss : list stmt) (out : vset) : list stmt * vset * list stmt :=
  match ss with
  | [] => ([], out, [])
  | s :: r =>
    let '(r', L, rm) := dce_stmts r out in
    if dce_removes s L then (r', dce_live s L, s :: rm) else (s :: r', dce_live s L, rm)
  end.

Definition dce_kept (ss : list stmt) (out : vset) : list stmt := fst (fst (dce_stmts ss out)).
Definition dce_removed (ss : list stmt) (out : vset) : list stmt := snd (dce_stmts ss out).

Definition dce_blocks (P : cfg) (m : lmap) : list (label * block) :=
  map (fun lb => (fst lb, mkBlock (dce_kept (b_stmts (snd lb)) (live_out P m (fst lb)))
                                  (b_prev (snd lb)) (b_next (snd lb)))) (c_blocks P).

Definition dce_apply (P : cfg) (m : lmap) : cfg :=
  mkCfg (c_entry P) (c_exit P) (dce_blocks P m) (c_outs P).

Definition dce_round_removed (P : cfg) (m : lmap) : list stmt :=
  flat_map (fun lb => dce_removed (b_stmts (snd lb)) (live_out P m (fst lb))) (c_blocks P).

Definition nonempty {A} (l : list A) : bool := match l with [] => false | _ => true end.

(* one round; the flag says whether something was removed *)
Definition dce_round (P : cfg) : option (cfg * bool) :=
  match liveness P with
  | None => None
  | Some m => Some (dce_apply P m, nonempty (dce_round_removed P m))
  end.

(* do { round; --n } while (change && n > 0) *)
Fixpoint dce_loop (n : nat) (P : cfg) : option cfg :=
  match n with
  | O => Some P
  | S k => match dce_round P with
           | None => None
           | Some (P', changed) => if changed then dce_loop k P' else Some P'
           end
  end.

Definition dce (P : cfg) : option cfg := dce_loop 10 P.
