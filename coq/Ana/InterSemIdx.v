(* InterSemIdx.v — the big-step semantics of Ana/InterSem.v stratified by the depth of the
   call stack: the semantics of statements, blocks and function bodies is parametrised by the
   relation CR that interprets callsites; xfun n is the semantics of calls whose nested calls
   have depth < n (xfun 0 is empty).  exec_fun is the union of the xfun n; the reachability
   predicates IRPre / IRPost are the unions of their stratified versions GIRPre / GIRPost.
   Used for the induction on the depth of concrete recursion in Ana/InterTDRecSound.v. *)
From Coq Require Import ZArith NArith List Bool Arith Lia.
From CrabV Require Import Ir.Syntax Ir.Cfg Ana.InterSyntax Ana.InterSem.
Import ListNotations.

Section Gen.
  Variable p : iprog.
  Variable CR : nat -> store -> store -> Prop.

  Inductive gstmt : istmt -> store -> store -> Prop :=
  | GS_base s a b : sstep s a b -> gstmt (IBase s) a b
  | GS_call outs g ins a s0 s1 b :
      bind_ins (f_ins (get_fn p g)) ins a s0 -> CR g s0 s1 ->
      (forall k, b k = assign_outs a outs (f_outs (get_fn p g)) s1 k) ->
      gstmt (ICall outs g ins) a b.
  Inductive gblock : iblock -> store -> store -> Prop :=
  | GB_nil a : gblock [] a a
  | GB_cons s r a m b : gstmt s a m -> gblock r m b -> gblock (s :: r) a b.
  Inductive gfrom : nat -> nat -> store -> store -> Prop :=
  | GF_exit g n a b :
      f_exit (get_fn p g) = Some n -> gblock (fn_block (get_fn p g) n) a b -> gfrom g n a b
  | GF_step g n m a b c :
      gblock (fn_block (get_fn p g) n) a b -> In (n, m) (f_edges (get_fn p g)) ->
      gfrom g m b c -> gfrom g n a c.

  Lemma gfrom_exit g n a b : gfrom g n a b -> exists x, f_exit (get_fn p g) = Some x.
  Proof. induction 1; eauto. Qed.

  Variable entries : list nat.
  Variable Init : store -> Prop.
  Inductive GIRPre : nat -> nat -> store -> Prop :=
  | GIR_init f s : In f entries -> Init s -> GIRPre f 0 s
  | GIR_edge f q n s : In (q, n) (f_edges (get_fn p f)) -> GIRPost f q s -> GIRPre f n s
  | GIR_call f n s l1 outs g ins l2 m s0 :
      GIRPre f n s -> fn_block (get_fn p f) n = l1 ++ ICall outs g ins :: l2 ->
      gblock l1 s m -> bind_ins (f_ins (get_fn p g)) ins m s0 -> GIRPre g 0 s0
  with GIRPost : nat -> nat -> store -> Prop :=
  | GIR_post f n s s' : GIRPre f n s -> gblock (fn_block (get_fn p f) n) s s' -> GIRPost f n s'.

  Scheme GIRPre_mut := Minimality for GIRPre Sort Prop
    with GIRPost_mut := Minimality for GIRPost Sort Prop.
  Combined Scheme GIR_mutind from GIRPre_mut, GIRPost_mut.
End Gen.

Section Mono.
  Variable p : iprog.
  Variables CR CR' : nat -> store -> store -> Prop.
  Hypothesis SUB : forall g a b, CR g a b -> CR' g a b.

  Lemma gstmt_mono st a b : gstmt p CR st a b -> gstmt p CR' st a b.
  Proof. intros H. inversion H; subst; [apply GS_base; auto|eapply GS_call; eauto]. Qed.
  Lemma gblock_mono bl a b : gblock p CR bl a b -> gblock p CR' bl a b.
  Proof. induction 1; [constructor|econstructor; eauto using gstmt_mono]. Qed.
  Lemma gfrom_mono g n a b : gfrom p CR g n a b -> gfrom p CR' g n a b.
  Proof.
    induction 1.
    - apply GF_exit; auto using gblock_mono.
    - eapply GF_step; eauto using gblock_mono.
  Qed.
  Lemma GIR_mono entries Init :
    (forall f n s, GIRPre p CR entries Init f n s -> GIRPre p CR' entries Init f n s) /\
    (forall f n s, GIRPost p CR entries Init f n s -> GIRPost p CR' entries Init f n s).
  Proof.
    apply GIR_mutind.
    - intros. apply GIR_init; auto.
    - intros. eapply GIR_edge; eauto.
    - intros. eapply GIR_call; eauto using gblock_mono.
    - intros. eapply GIR_post; eauto using gblock_mono.
  Qed.
End Mono.

Section Strat.
  Variable p : iprog.

  Fixpoint xfun (n : nat) : nat -> store -> store -> Prop :=
    match n with
    | O => fun _ _ _ => False
    | S m => fun g s0 s1 => gfrom p (xfun m) g 0 s0 s1
    end.

  Lemma xfun_S n : forall g a b, xfun n g a b -> xfun (S n) g a b.
  Proof.
    induction n as [|n IH]; intros g a b H; [destruct H|].
    cbn [xfun] in *. eapply gfrom_mono; [|exact H]. exact IH.
  Qed.
  Lemma xfun_le n m : n <= m -> forall g a b, xfun n g a b -> xfun m g a b.
  Proof. induction 1; auto. intros. apply xfun_S. auto. Qed.

  (* the stratified semantics is included in the big-step semantics *)
  Section ToExec.
    Variable CR : nat -> store -> store -> Prop.
    Hypothesis SUB : forall g a b, CR g a b -> exec_fun p g a b.
    Lemma gstmt_exec st a b : gstmt p CR st a b -> exec_stmt p st a b.
    Proof. intros H. inversion H; subst; [apply XS_base; auto|eapply XS_call; eauto]. Qed.
    Lemma gblock_exec bl a b : gblock p CR bl a b -> exec_block p bl a b.
    Proof. induction 1; [constructor|econstructor; eauto using gstmt_exec]. Qed.
    Lemma gfrom_exec g n a b : gfrom p CR g n a b -> exec_from p g n a b.
    Proof.
      induction 1.
      - apply XF_exit; auto using gblock_exec.
      - eapply XF_step; eauto using gblock_exec.
    Qed.
  End ToExec.

  Lemma xfun_exec n : forall g a b, xfun n g a b -> exec_fun p g a b.
  Proof.
    induction n as [|n IH]; intros g a b H; [destruct H|].
    cbn [xfun] in H. apply XFun. eapply gfrom_exec; [|exact H]. exact IH.
  Qed.
  Lemma xblock_exec n bl a b : gblock p (xfun n) bl a b -> exec_block p bl a b.
  Proof. apply gblock_exec. apply xfun_exec. Qed.

  (* and conversely *)
  Lemma exec_strat :
    (forall st a b, exec_stmt p st a b -> exists n, gstmt p (xfun n) st a b) /\
    (forall bl a b, exec_block p bl a b -> exists n, gblock p (xfun n) bl a b) /\
    (forall g k a b, exec_from p g k a b -> exists n, gfrom p (xfun n) g k a b) /\
    (forall g a b, exec_fun p g a b -> exists n, xfun n g a b).
  Proof.
    apply exec_mutind.
    - intros s a b H. exists 0. apply GS_base. exact H.
    - intros outs g ins a s0 s1 b B _ [n H] E. exists n. eapply GS_call; eauto.
    - intros a. exists 0. constructor.
    - intros s r a m b _ [n1 H1] _ [n2 H2]. exists (Nat.max n1 n2). econstructor.
      + eapply gstmt_mono; [|exact H1]. apply xfun_le. lia.
      + eapply gblock_mono; [|exact H2]. apply xfun_le. lia.
    - intros g n a b E _ [k H]. exists k. apply GF_exit; auto.
    - intros g n m a b c _ [n1 H1] I _ [n2 H2]. exists (Nat.max n1 n2). eapply GF_step; [|exact I|].
      + eapply gblock_mono; [|exact H1]. apply xfun_le. lia.
      + eapply gfrom_mono; [|exact H2]. apply xfun_le. lia.
    - intros g s0 s1 _ [n H]. exists (S n). exact H.
  Qed.

  Lemma exec_fun_strat g a b : exec_fun p g a b -> exists n, xfun n g a b.
  Proof. apply exec_strat. Qed.
  Lemma exec_block_strat bl a b : exec_block p bl a b -> exists n, gblock p (xfun n) bl a b.
  Proof. apply exec_strat. Qed.

  Lemma IR_strat entries Init :
    (forall f n s, IRPre p entries Init f n s -> exists k, GIRPre p (xfun k) entries Init f n s) /\
    (forall f n s, IRPost p entries Init f n s -> exists k, GIRPost p (xfun k) entries Init f n s).
  Proof.
    apply IR_mutind.
    - intros f s I J. exists 0. apply GIR_init; auto.
    - intros f q n s E _ [k H]. exists k. eapply GIR_edge; eauto.
    - intros f n s l1 outs g ins l2 m s0 _ [k1 H1] EB X B.
      destruct (exec_block_strat _ _ _ X) as [k2 H2]. exists (Nat.max k1 k2).
      eapply GIR_call; [|exact EB| |exact B].
      + eapply (proj1 (GIR_mono p (xfun k1) _ (xfun_le k1 _ (Nat.le_max_l k1 k2)) entries Init)). exact H1.
      + eapply gblock_mono; [|exact H2]. apply xfun_le. lia.
    - intros f n s s' _ [k1 H1] X. destruct (exec_block_strat _ _ _ X) as [k2 H2]. exists (Nat.max k1 k2).
      eapply GIR_post.
      + eapply (proj1 (GIR_mono p (xfun k1) _ (xfun_le k1 _ (Nat.le_max_l k1 k2)) entries Init)). exact H1.
      + eapply gblock_mono; [|exact H2]. apply xfun_le. lia.
  Qed.
End Strat.
