(* DceSound.v — dead-code elimination preserves behaviour.

   One round (dce_apply P m, m any solution of the liveness equations of P) and the whole loop
   (dce): every execution of the original from the entry has an execution of the transformed
   CFG with the SAME trace (branches, assume / assertion outcomes, outputs at the exit), ending
   in a configuration of the same kind (running at the same block / finished / failed); the
   removed statements are silent steps.  Conversely, provided no removed statement can fail
   (the proviso of the property: e.g. a removed division whose divisor may be 0), every
   execution of the transformed CFG comes from an execution of the original with the same
   trace.  The graph (blocks, edges, entry, exit, outputs) is unchanged. *)
From Coq Require Import ZArith List Bool Lia.
From CrabV Require Import Ir.Syntax Ana.CfgSem Ana.Liveness Ana.LivenessSound Ana.Dce.
Import ListNotations.

(* ------------------------------------------------------------------ the sweep, statement by statement *)
Definition dce_run (ss : list stmt) (out : vset) : vset := snd (fst (dce_stmts ss out)).

Lemma dce_stmts_cons s r out :
  dce_stmts (s :: r) out =
  if dce_removes s (dce_run r out)
  then (dce_kept r out, dce_live s (dce_run r out), s :: dce_removed r out)
  else (s :: dce_kept r out, dce_live s (dce_run r out), dce_removed r out).
Proof.
  unfold dce_run, dce_kept, dce_removed. simpl.
  destruct (dce_stmts r out) as [[r' L] rm]. simpl. destruct (dce_removes s L); reflexivity.
Qed.

Lemma dce_kept_cons s r out :
  dce_kept (s :: r) out = if dce_removes s (dce_run r out) then dce_kept r out else s :: dce_kept r out.
Proof.
  unfold dce_kept at 1. rewrite dce_stmts_cons. destruct (dce_removes s (dce_run r out)); reflexivity.
Qed.
Lemma dce_removed_cons s r out :
  dce_removed (s :: r) out = if dce_removes s (dce_run r out) then s :: dce_removed r out else dce_removed r out.
Proof.
  unfold dce_removed at 1. rewrite dce_stmts_cons. destruct (dce_removes s (dce_run r out)); reflexivity.
Qed.
Lemma dce_run_cons s r out : dce_run (s :: r) out = dce_live s (dce_run r out).
Proof.
  unfold dce_run at 1. rewrite dce_stmts_cons. destruct (dce_removes s (dce_run r out)); reflexivity.
Qed.
Lemma dce_kept_nil out : dce_kept [] out = [].
Proof. reflexivity. Qed.

(* the running set of the sweep contains the live variables (it ignores `unreachable`) *)
Lemma dce_run_ge r out x : In x (live_stmts r out) -> In x (dce_run r out).
Proof.
  revert x. induction r as [|s r IH]; intros x; [auto|].
  rewrite dce_run_cons. simpl. unfold live_stmt, dce_live.
  destruct (is_unreach s); [simpl; tauto|].
  rewrite !union_In, !diff_In. intros [H|[H1 H2]]; auto.
Qed.

Lemma dce_removed_suffix pre rest out st :
  In st (dce_removed rest out) -> In st (dce_removed (pre ++ rest) out).
Proof.
  induction pre as [|p pre IH]; simpl; auto. intros H.
  rewrite dce_removed_cons. destruct (dce_removes p _); simpl; auto.
Qed.

(* a removed statement defines a variable that is not live after it, and is silent *)
Lemma removed_shape s L :
  dce_removes s L = true ->
  exists x, defs s = [x] /\ ~ In x L /\ is_unreach s = false /\
            (forall st ev st', exec_stmt s st ev st' -> ev = [] /\ exists v, st' = upd st x v).
Proof.
  unfold dce_removes, included_defs. rewrite andb_true_iff, !negb_true_iff.
  intros [K I].
  destruct s; simpl in *; try discriminate;
    rewrite andb_true_r in I; apply mem_false in I;
    eexists; (split; [reflexivity|]); (split; [exact I|]); (split; [reflexivity|]);
    intros st ev st' X; inversion X; subst; split; eauto.
Qed.

(* ------------------------------------------------------------------ one round *)
Section Round.
Variable P : cfg.
Variable m : lmap.
Hypothesis SOL : is_solution P m.

Let P' := dce_apply P m.

Lemma dce_get_block l :
  get_block P' l =
  match get_block P l with
  | Some b => Some (mkBlock (dce_kept (b_stmts b) (live_out P m l)) (b_prev b) (b_next b))
  | None => None
  end.
Proof.
  unfold get_block, P', dce_apply, dce_blocks. simpl.
  rewrite (lookup_map_blocks (fun lb => mkBlock (dce_kept (b_stmts (snd lb)) (live_out P m (fst lb)))
                                                (b_prev (snd lb)) (b_next (snd lb)))).
  destruct (lookup l (c_blocks P)); reflexivity.
Qed.

Lemma dce_succs l : succs P' l = succs P l.
Proof. unfold succs. rewrite dce_get_block. destruct (get_block P l); reflexivity. Qed.
Lemma dce_preds l : preds P' l = preds P l.
Proof. unfold preds. rewrite dce_get_block. destruct (get_block P l); reflexivity. Qed.
Lemma dce_stmts_of l : stmts_of P' l = dce_kept (stmts_of P l) (live_out P m l).
Proof. unfold stmts_of. rewrite dce_get_block. destruct (get_block P l); reflexivity. Qed.
Lemma dce_labels : labels P' = labels P.
Proof. unfold labels, P', dce_apply, dce_blocks. simpl. rewrite map_map. reflexivity. Qed.

(* original configuration ~ transformed configuration *)
Inductive rel : config -> config -> Prop :=
| RelRun l pre rest s s' :
    stmts_of P l = pre ++ rest ->
    agree (live_stmts rest (live_out P m l)) s s' ->
    rel (Run l rest s) (Run l (dce_kept rest (live_out P m l)) s')
| RelDone : rel Done Done
| RelErr : rel Err Err.

Lemma rel_init s : rel (init P s) (init P' s).
Proof.
  unfold init. change (c_entry P') with (c_entry P). rewrite dce_stmts_of.
  apply (RelRun _ []); [reflexivity|apply agree_refl].
Qed.

Lemma agree_after_removed st r out s s' x v :
  defs st = [x] -> is_unreach st = false -> ~ In x (live_stmts r out) ->
  agree (live_stmts (st :: r) out) s s' -> agree (live_stmts r out) (upd s x v) s'.
Proof.
  intros D U NX A y Hy. unfold upd. destruct (N.eqb_spec y x); [subst; contradiction|].
  apply A. simpl. unfold live_stmt. rewrite U, D. apply union_In. right. apply diff_In.
  split; auto. simpl. intros [?|[]]. congruence.
Qed.

Lemma goto_rel l l' b' s s' :
  In l' (succs P l) -> get_block P l' = Some b' -> agree (live_out P m l) s s' ->
  step P' (Run l [] s') [EvGoto l'] (Run l' (dce_kept (b_stmts b') (live_out P m l')) s') /\
  rel (Run l' (b_stmts b') s) (Run l' (dce_kept (b_stmts b') (live_out P m l')) s').
Proof.
  intros Hl Hb A. split.
  - set (nb := mkBlock (dce_kept (b_stmts b') (live_out P m l')) (b_prev b') (b_next b')).
    assert (G : get_block P' l' = Some nb) by (rewrite dce_get_block, Hb; reflexivity).
    change (dce_kept (b_stmts b') (live_out P m l')) with (b_stmts nb).
    apply (StGoto P' l l' nb s'); [rewrite dce_succs; auto|exact G].
  - apply (RelRun _ []); [unfold stmts_of; rewrite Hb; reflexivity|].
    intros x Hx. apply A. eapply live_in_succ; eauto.
Qed.

Lemma exit_step l s s' :
  c_exit P = Some l -> agree (live_out P m l) s s' ->
  step P' (Run l [] s') [EvExit (map s (c_outs P))] Done.
Proof.
  intros He A.
  assert (E : map s (c_outs P) = map s' (c_outs P')).
  { apply map_ext_in. intros x Hx. apply A. apply live_out_In. left. split; auto.
    unfold is_exit. rewrite He. apply N.eqb_refl. }
  rewrite E. apply StExit. exact He.
Qed.

(* forward: a step of the original is matched by zero or one step of the transformed CFG *)
Lemma fwd_step c c' ev c1 :
  rel c c' -> step P c ev c1 ->
  (ev = [] /\ rel c1 c') \/ exists c1', step P' c' ev c1' /\ rel c1 c1'.
Proof.
  intros R St.
  destruct St as [l st r s ev s1 X | l c0 id r s F | l l' b' s Hl Hb | l s He];
    inversion R as [l0 pre rest0 s0 s' Hpre A| |]; subst.
  - (* statement *)
    rewrite dce_kept_cons.
    assert (Hpre' : stmts_of P l = (pre ++ [st]) ++ r) by (rewrite <- app_assoc; exact Hpre).
    destruct (dce_removes st (dce_run r (live_out P m l))) eqn:RM.
    + left. destruct (removed_shape _ _ RM) as [x [D [NX [U SH]]]].
      destruct (SH _ _ _ X) as [-> [v ->]]. split; auto.
      apply (RelRun _ (pre ++ [st])); auto.
      eapply agree_after_removed; eauto. intros Hx. apply NX. apply dce_run_ge. exact Hx.
    + right. simpl in A. destruct (exec_stmt_agree _ _ _ _ _ _ A X) as [s1' [X' A']].
      exists (Run l (dce_kept r (live_out P m l)) s1'). split; [constructor; auto|].
      apply (RelRun _ (pre ++ [st])); auto.
  - (* failing assertion: kept *)
    right. rewrite dce_kept_cons.
    assert (RM : dce_removes (SAssert c0 id) (dce_run r (live_out P m l)) = false) by reflexivity.
    rewrite RM. simpl in A.
    assert (AU : agree (lc_vars c0) s s') by (apply (agree_live_uses (SAssert c0 id) _ _ _ eq_refl A)).
    exists Err. split; [|constructor]. constructor. rewrite <- (satb_agree c0 s s' AU). exact F.
  - (* goto *)
    right. rewrite dce_kept_nil. simpl in A.
    destruct (goto_rel l l' b' s s' Hl Hb A) as [S1 R1]. eauto.
  - (* exit *)
    right. rewrite dce_kept_nil. simpl in A. exists Done. split; [|constructor].
    apply exit_step; auto.
Qed.

Lemma fwd_star c c' tr c1 :
  rel c c' -> star P c tr c1 -> exists c1', star P' c' tr c1' /\ rel c1 c1'.
Proof.
  intros R St. revert c' R. induction St as [c|c ev c1 tr c2 S1 St IH]; intros c' R.
  - exists c'. split; [constructor|auto].
  - destruct (fwd_step _ _ _ _ R S1) as [[-> R1]|[c1' [S1' R1]]].
    + simpl. apply IH. exact R1.
    + destruct (IH _ R1) as [c2' [St' R2]]. exists c2'. split; auto. econstructor; eauto.
Qed.

(* the proviso: a statement that can always be executed *)
Definition no_fail (st : stmt) : Prop := forall s, exists s1, exec_stmt st s [] s1.

Definition removed_ok : Prop :=
  forall l b st, get_block P l = Some b ->
                 In st (dce_removed (b_stmts b) (live_out P m l)) -> no_fail st.

(* backward: a step of the transformed CFG is matched by the silent steps over the removed
   statements followed by the same step *)
Lemma bwd_step :
  removed_ok ->
  forall rest l pre s s' ev c1',
  stmts_of P l = pre ++ rest ->
  agree (live_stmts rest (live_out P m l)) s s' ->
  step P' (Run l (dce_kept rest (live_out P m l)) s') ev c1' ->
  exists c1, star P (Run l rest s) ev c1 /\ rel c1 c1'.
Proof.
  intros OK rest. induction rest as [|st r IH]; intros l pre s s' ev c1' Hpre A St.
  - rewrite dce_kept_nil in St. simpl in A.
    inversion St as [ | | l0 l' b'' s0 Hl' Hb' | l0 s0 He']; subst.
    + (* goto *)
      rewrite dce_succs in Hl'. rewrite dce_get_block in Hb'.
      destruct (get_block P l') as [b|] eqn:Hb; [|discriminate]. inversion Hb'; subst. simpl.
      exists (Run l' (b_stmts b) s). split; [apply star_one; econstructor; eauto|].
      apply (goto_rel l l' b s s'); auto.
    + (* exit *)
      change (c_exit P') with (c_exit P) in He'. change (c_outs P') with (c_outs P).
      exists Done. split; [|constructor]. apply star_one.
      assert (E : map s' (c_outs P) = map s (c_outs P)).
      { apply map_ext_in. intros x Hx. symmetry. apply A. apply live_out_In. left. split; auto.
        unfold is_exit. rewrite He'. apply N.eqb_refl. }
      rewrite E. apply StExit. exact He'.
  - assert (Hpre' : stmts_of P l = (pre ++ [st]) ++ r) by (rewrite <- app_assoc; exact Hpre).
    rewrite dce_kept_cons in St.
    destruct (dce_removes st (dce_run r (live_out P m l))) eqn:RM.
    + (* removed: the original executes it silently *)
      destruct (removed_shape _ _ RM) as [x [D [NX [U SH]]]].
      assert (NF : no_fail st).
      { unfold stmts_of in Hpre. destruct (get_block P l) as [b|] eqn:Hb.
        - apply (OK l b st Hb). rewrite Hpre. apply dce_removed_suffix.
          rewrite dce_removed_cons, RM. simpl; auto.
        - destruct pre; discriminate. }
      destruct (NF s) as [s1 X]. destruct (SH _ _ _ X) as [_ [v ->]].
      assert (A1 : agree (live_stmts r (live_out P m l)) (upd s x v) s').
      { eapply agree_after_removed; eauto. intros Hx. apply NX. apply dce_run_ge. exact Hx. }
      destruct (IH l (pre ++ [st]) _ _ _ _ Hpre' A1 St) as [c1 [S1 R1]].
      exists c1. split; auto. change ev with ([] ++ ev). eapply StarStep; [|exact S1].
      constructor. exact X.
    + (* kept *)
      simpl in A. inversion St as [l0 st0 r0 s0 ev0 s1' X' | l0 c id r0 s0 F' | |]; subst.
      * destruct (exec_stmt_agree _ _ _ _ _ _ (agree_sym _ _ _ A) X') as [s1 [X A']].
        exists (Run l r s1). split; [apply star_one; constructor; auto|].
        apply (RelRun _ (pre ++ [st])); auto. apply agree_sym. exact A'.
      * assert (AU : agree (lc_vars c) s s') by (apply (agree_live_uses (SAssert c id) _ _ _ eq_refl A)).
        exists Err. split; [|constructor]. apply star_one. constructor.
        rewrite (satb_agree c s s' AU). auto.
Qed.

Lemma bwd_star c c' tr c1' :
  removed_ok -> rel c c' -> star P' c' tr c1' -> exists c1, star P c tr c1 /\ rel c1 c1'.
Proof.
  intros OK R St. revert c R. induction St as [c'|c' ev c1' tr c2' S1 St IH]; intros c R.
  - exists c. split; [constructor|auto].
  - assert (E : exists c1, star P c ev c1 /\ rel c1 c1').
    { inversion R as [l pre rest s s' Hpre A| |]; subst.
      - eapply bwd_step; eauto.
      - inversion S1.
      - inversion S1. }
    destruct E as [c1 [S0 R1]]. destruct (IH _ R1) as [c2 [S2 R2]].
    exists c2. split; auto. eapply star_trans; eauto.
Qed.

End Round.

(* ------------------------------------------------------------------ observable behaviours *)
Inductive outcome := ORunning | ODone | OErr.
Definition kind (c : config) : outcome :=
  match c with Run _ _ _ => ORunning | Done => ODone | Err => OErr end.

(* an execution from the entry with initial store s, trace tr, ending in a configuration of kind o *)
Definition beh (P : cfg) (s : store) (tr : list event) (o : outcome) : Prop :=
  exists c, star P (init P s) tr c /\ kind c = o.

Lemma rel_kind P m c c' : rel P m c c' -> kind c = kind c'.
Proof. intros R. inversion R; reflexivity. Qed.

Theorem dce_round_forward P m s tr o :
  is_solution P m -> beh P s tr o -> beh (dce_apply P m) s tr o.
Proof.
  intros SOL [c [St K]].
  destruct (fwd_star P m SOL _ _ _ _ (rel_init P m s) St) as [c' [St' R]].
  exists c'. split; auto. rewrite <- (rel_kind _ _ _ _ R). exact K.
Qed.

Theorem dce_round_backward P m s tr o :
  is_solution P m -> removed_ok P m -> beh (dce_apply P m) s tr o -> beh P s tr o.
Proof.
  intros SOL OK [c' [St' K]].
  destruct (bwd_star P m SOL _ _ _ _ OK (rel_init P m s) St') as [c [St R]].
  exists c. split; auto. rewrite (rel_kind _ _ _ _ R). exact K.
Qed.

(* ------------------------------------------------------------------ the loop *)
(* the proviso for all rounds: no statement removed in any round can fail *)
Fixpoint dce_provisos (n : nat) (P : cfg) : Prop :=
  match n with
  | O => True
  | S k => match liveness P with
           | None => True
           | Some m => removed_ok P m /\
                       (if nonempty (dce_round_removed P m) then dce_provisos k (dce_apply P m) else True)
           end
  end.

Lemma dce_loop_forward n P Q s tr o : dce_loop n P = Some Q -> beh P s tr o -> beh Q s tr o.
Proof.
  revert P. induction n as [|k IH]; simpl; intros P H B.
  - inversion H; subst; auto.
  - unfold dce_round in H. destruct (liveness P) as [m|] eqn:L; [|discriminate].
    pose proof (dce_round_forward P m s tr o (liveness_is_solution _ _ L) B) as B1.
    destruct (nonempty (dce_round_removed P m)).
    + eapply IH; eauto.
    + inversion H; subst; auto.
Qed.

Lemma dce_loop_backward n P Q s tr o :
  dce_loop n P = Some Q -> dce_provisos n P -> beh Q s tr o -> beh P s tr o.
Proof.
  revert P. induction n as [|k IH]; simpl; intros P H OK B.
  - inversion H; subst; auto.
  - unfold dce_round in H. destruct (liveness P) as [m|] eqn:L; [|discriminate].
    destruct OK as [OK1 OK2].
    apply (dce_round_backward P m s tr o (liveness_is_solution _ _ L) OK1).
    destruct (nonempty (dce_round_removed P m)).
    + eapply IH; eauto.
    + inversion H; subst; auto.
Qed.

Theorem dce_forward P Q s tr o : dce P = Some Q -> beh P s tr o -> beh Q s tr o.
Proof. apply dce_loop_forward. Qed.

Theorem dce_backward P Q s tr o : dce P = Some Q -> dce_provisos 10 P -> beh Q s tr o -> beh P s tr o.
Proof. apply dce_loop_backward. Qed.

(* the property's reading for the executions that end at the exit block *)
Theorem dce_preserves_exit_executions P Q :
  dce P = Some Q ->
  (forall s tr, star P (init P s) tr Done -> star Q (init Q s) tr Done) /\
  (dce_provisos 10 P -> forall s tr, star Q (init Q s) tr Done -> star P (init P s) tr Done).
Proof.
  intros H. split.
  - intros s tr St. destruct (dce_forward P Q s tr ODone H) as [c [St' K]].
    + exists Done. auto.
    + destruct c; try discriminate. exact St'.
  - intros OK s tr St. destruct (dce_backward P Q s tr ODone H OK) as [c [St' K]].
    + exists Done. auto.
    + destruct c; try discriminate. exact St'.
Qed.

(* ------------------------------------------------------------------ structure *)
Definition same_graph (P Q : cfg) : Prop :=
  c_entry Q = c_entry P /\ c_exit Q = c_exit P /\ c_outs Q = c_outs P /\ labels Q = labels P /\
  forall l, succs Q l = succs P l /\ preds Q l = preds P l.

Lemma same_graph_refl P : same_graph P P.
Proof. repeat split; auto. Qed.
Lemma same_graph_trans P Q R : same_graph P Q -> same_graph Q R -> same_graph P R.
Proof.
  intros (A1 & A2 & A3 & A4 & A5) (B1 & B2 & B3 & B4 & B5).
  repeat split; try congruence; destruct (A5 l), (B5 l); congruence.
Qed.
Lemma dce_apply_same_graph P m : same_graph P (dce_apply P m).
Proof.
  repeat split; auto.
  - apply dce_labels.
  - apply dce_succs.
  - apply dce_preds.
Qed.

Theorem dce_same_graph P Q : dce P = Some Q -> same_graph P Q.
Proof.
  unfold dce. generalize 10. intros n. revert P. induction n as [|k IH]; simpl; intros P H.
  - inversion H; subst. apply same_graph_refl.
  - unfold dce_round in H. destruct (liveness P) as [m|]; [|discriminate].
    destruct (nonempty (dce_round_removed P m)).
    + eapply same_graph_trans; [apply dce_apply_same_graph|apply IH; exact H].
    + inversion H; subst. apply dce_apply_same_graph.
Qed.

(* ------------------------------------------------------------------ non-vacuity *)
(* statements that cannot fail *)
Lemma no_fail_assign x e : no_fail (SAssign x e).
Proof. intros s. eexists. constructor. Qed.
Lemma no_fail_havoc x : no_fail (SHavoc x).
Proof. intros s. exists (upd s x 0%Z). constructor. Qed.
Lemma no_fail_select x c e1 e2 : no_fail (SSelect x c e1 e2).
Proof. intros s. eexists. constructor. Qed.
Lemma no_fail_add x y z : no_fail (SArith OpAdd x y z).
Proof. intros s. eexists. constructor. reflexivity. Qed.

(* b0: z := 7; x := 5; goto b1.   b1 (exit): y := x     (output y): z := 7 is removed *)
Definition ex_cfg : cfg :=
  mkCfg 0%N (Some 1%N)
        [(0%N, mkBlock [SAssign 2%N (mkLE [] 7%Z); SAssign 0%N (mkLE [] 5%Z)] [] [1%N]);
         (1%N, mkBlock [SAssign 1%N (mkLE [(1%Z, 0%N)] 0%Z)] [0%N] [])]
        [1%N].
Example ex_dce : exists Q, dce ex_cfg = Some Q /\
  stmts_of Q 0%N = [SAssign 0%N (mkLE [] 5%Z)] /\ stmts_of Q 1%N = stmts_of ex_cfg 1%N.
Proof. eexists. split; [vm_compute; reflexivity|]. vm_compute. auto. Qed.
Example ex_provisos : dce_provisos 10 ex_cfg.
Proof.
  assert (L : exists m, liveness ex_cfg = Some m /\ dce_round_removed ex_cfg m = [SAssign 2%N (mkLE [] 7%Z)]
                             /\ exists m2, liveness (dce_apply ex_cfg m) = Some m2 /\ dce_round_removed (dce_apply ex_cfg m) m2 = []).
  { eexists. split; [vm_compute; reflexivity|]. split; [vm_compute; reflexivity|].
    eexists. split; vm_compute; reflexivity. }
  destruct L as [m [L1 [L2 [m2 [L3 L4]]]]].
  cbn -[liveness dce_round_removed dce_apply nonempty removed_ok ex_cfg]. rewrite L1. split.
  - intros l b st Hb Hin.
    assert (In st (dce_round_removed ex_cfg m)).
    { unfold dce_round_removed. apply in_flat_map. exists (l, b). split; [apply lookup_In; exact Hb|exact Hin]. }
    rewrite L2 in H. destruct H as [<-|[]]. apply no_fail_assign.
  - rewrite L2. cbn -[liveness dce_round_removed dce_apply removed_ok ex_cfg]. rewrite L3.
    split; [|rewrite L4; simpl; auto].
    intros l b st Hb Hin.
    assert (In st (dce_round_removed (dce_apply ex_cfg m) m2)).
    { unfold dce_round_removed. apply in_flat_map. exists (l, b). split; [apply lookup_In; exact Hb|exact Hin]. }
    rewrite L4 in H. destruct H.
Qed.

(* the proviso is necessary: b0 (entry and exit): x := y / z with x dead.  DCE removes the division;
   from a store with z = 0 the transformed CFG finishes, the original has no successor state *)
Definition ex_div : cfg :=
  mkCfg 0%N (Some 0%N) [(0%N, mkBlock [SArith OpSDiv 0%N 1%N (OVar 2%N)] [] [])] [].
Example ex_proviso_needed : exists Q, dce ex_div = Some Q /\
  star Q (init Q (fun _ => 0%Z)) [EvExit []] Done /\
  ~ star ex_div (init ex_div (fun _ => 0%Z)) [EvExit []] Done.
Proof.
  eexists. split; [vm_compute; reflexivity|]. split.
  - match goal with |- star ?Q _ _ _ =>
      change (star Q (Run 0%N [] (fun _ : var => 0%Z)) [EvExit (map (fun _ : var => 0%Z) (c_outs Q))] Done) end.
    apply star_one. apply StExit. reflexivity.
  - intros H. inversion H as [|c ev c1 tr c2 S1 St E1 E2 E3]; subst.
    inversion S1 as [l st r s ev0 s1 X | | |]; subst.
    inversion X; subst. simpl in *. discriminate.
Qed.
