(* InterTDRec.v — mirror of analysis/inter/top_down_inter_analyzer.hpp with
   analyze_recursive_functions = true, over the interval domain (the code after fixes/inter-1 ..
   inter-7 and the fix: commits of /repo on that file).  Reuses the pieces of Ana/InterTD.v
   (get_callee_entry, get_caller_continuation, calling contexts, the context sensitivity policy,
   the state-threading engine srun, the context-insensitive tables); td_run is not changed.

   What is new with respect to the imprecise mode:
     - m_func_fixpoint_table (r_fix): function -> (entry, exit) of the fixpoint that is running;
     - analyze_function on a member of the widening set (the heads of the cycles of the call
       graph WTOs of all entries) iterates the analysis of the body: the test
       new_entry <= old_entry && new_exit <= old_exit, then join (iteration < widening_delay) or
       widening of entry and exit; the invariants of the LAST iteration are stored (the
       intra-procedural analyzer of a function is shared by the iterations);
     - analyze_callee: propagate_from_caller (a member of the recursive set that is not a head
       starts from the calling context only if the fixpoints of all the heads of its nesting --
       in the WTO of the current call graph entry -- are running, otherwise from top); exact
       subsumption is never used for a head; a call to a function whose fixpoint is running
       returns the pre-fixpoint exit and joins the calling context into the entry of the next
       iteration; otherwise a function found on the call stack is replaced by top; otherwise
       the callee is analysed, and its summary is stored only if has_been_stabilized (its own
       fixpoint is not running; no fixpoint at all is running if it belongs to the recursive set;
       no fixpoint of its nesting is running); the stored precondition of a head is the invariant
       at the entry block after the fixpoint;
     - run(init): every entry is analysed from init.
   NOT mirrored: widening thresholds, liveness, the interleaved checker (it only observes).
   No proofs in this file (Ana/InterTDRecSound.v). *)
From Coq Require Import ZArith NArith List Bool Arith.
From CrabV Require Import Base.ZInf Scalar.Itv Ir.Syntax Ir.Cfg Dom.ItvEnv Dom.ItvDomain
     Fix.Wto Fix.WtoCheck Fix.Engine Fix.EngineFS Ana.Transformer Ana.FwdItv Ana.InterSyntax Ana.InterTD.
Import ListNotations.

(* ------------------------------------------------------------------ widening set *)
(* heads of the cycles of a WTO *)
Fixpoint cycle_heads (c : comp) : list nat :=
  match c with
  | Vertex _ => []
  | Cycle h body =>
    h :: (fix go (l : list comp) : list nat :=
            match l with [] => [] | c' :: r => cycle_heads c' ++ go r end) body
  end.
(* the WTO of the call graph built from entry e ([] if the construction ran out of fuel; the
   driver checks that cg_recset succeeds, which uses the same constructions) *)
Definition cg_wto (p : iprog) (e : nat) : wto :=
  match build (cg_graph p) e with Some w => w | None => [] end.
(* m_widening_set: union over the WTOs of the call graph built from every entry *)
Definition cg_wset (p : iprog) : list nat :=
  flat_map (fun e => flat_map cycle_heads (cg_wto p e)) (cg_entries p).

(* ------------------------------------------------------------------ the fixpoint table *)
Definition fixtab := list (nat * (env * env)).
Definition fix_find (f : nat) (t : fixtab) : option (env * env) :=
  match find (fun q => Nat.eqb (fst q) f) t with Some q => Some (snd q) | None => None end.
Definition fix_mem (f : nat) (t : fixtab) : bool :=
  match fix_find f t with Some _ => true | None => false end.
Definition fix_set (f : nat) (v : env * env) (t : fixtab) : fixtab :=
  map (fun q => if Nat.eqb (fst q) f then (f, v) else q) t.
Definition fix_erase (f : nat) (t : fixtab) : fixtab :=
  filter (fun q => negb (Nat.eqb (fst q) f)) t.
Definition fix_empty (t : fixtab) : bool := match t with [] => true | _ => false end.

(* the global context: the one of InterTD.v and m_func_fixpoint_table *)
Record rgst := mkRG { r_g : gst; r_fix : fixtab }.
Definition rg0 : rgst := mkRG g0 [].
Definition r_lift (h : gst -> gst) (g : rgst) : rgst := mkRG (h (r_g g)) (r_fix g).
Definition r_setfix (t : fixtab) (g : rgst) : rgst := mkRG (r_g g) t.

Section TDRec.
  Variable p : iprog.
  Variable voff : N.
  Variable maxc : option nat.          (* max_call_contexts *)
  Variable exact_reuse : bool.         (* exact_summary_reuse *)
  Variables delay desc : nat.          (* widening_delay, descending_iters *)
  Variable efuel : nat.                (* fuel of the intra-procedural engine *)
  Variable ifuel : nat.                (* bound on the iterations of a function fixpoint *)
  Variable wtos : nat -> wto.          (* WTO of the CFG of each function *)
  Variable cgwto : nat -> wto.         (* WTO of the call graph from each entry (m_wto_cg_map) *)
  Variable wset : list nat.            (* m_widening_set *)
  Variable recset : list nat.          (* m_recursive_set *)

  Definition rtr_istmt (trc : list var -> nat -> list var -> env -> rgst -> env * rgst)
             (st : istmt) (e : env) (g : rgst) : env * rgst :=
    match st with
    | IBase s => (tr_stmt s e, g)
    | ICall outs f ins => trc outs f ins e g
    end.
  Fixpoint rtr_iblock trc (bl : iblock) (e : env) (g : rgst) : env * rgst :=
    match bl with
    | [] => (e, g)
    | st :: r => let q := rtr_istmt trc st e g in rtr_iblock trc r (fst q) (snd q)
    end.

  (* get_current_entry(): m_call_stack[0] *)
  Definition cur_entry (g : rgst) : nat := hd 0 (g_stack (r_g g)).

  (* propagate_from_caller *)
  Definition propagate (g : rgst) (f : nat) : bool :=
    if negb (nmem f recset) then true
    else if nmem f wset then true
    else match nesting (cgwto (cur_entry g)) f with
         | None => false
         | Some hs => forallb (fun h => fix_mem h (r_fix g)) hs
         end.

  (* has_been_stabilized *)
  Definition stabilized (g : rgst) (f : nat) : bool :=
    if fix_mem f (r_fix g) then false
    else if nmem f recset && negb (fix_empty (r_fix g)) then false
    else match nesting (cgwto (cur_entry g)) f with
         | None => true
         | Some hs => forallb (fun h => negb (fix_mem h (r_fix g))) hs
         end.

  (* exec(callsite) / analyze_callee *)
  Definition rtr_call (td : nat -> env -> rgst -> (nat -> env) * (nat -> env) * rgst)
             (outs : list var) (f : nat) (ins : list var) (e : env) (g : rgst) : env * rgst :=
    if e_is_bot e then (e, g)
    else
      let fn := get_fn p f in
      let fi := f_ins fn in
      let fo := f_outs fn in
      let isw := nmem f wset in                     (* recursive_call_being_analyzed *)
      let ce := if propagate g f then callee_entry voff outs ins fi fo e else e_top in
      match find (fun c => is_subsumed c ce (exact_reuse && negb isw)) (g_cc (r_g g) f) with
      | Some c => (cont voff outs ins fi fo e (c_post c), g)
      | None =>
        match fix_find f (r_fix g) with
        | Some (en, ex) =>
          (* the fixpoint of f is running: pre-fixpoint exit, the calling context is joined into
             the entry of the next iteration *)
          (cont voff outs ins fi fo e (e_project ex (fi ++ fo)),
           r_setfix (fix_set f (e_join ce en, ex) (r_fix g)) g)
        | None =>
          if nmem f (g_stack (r_g g)) then (cont voff outs ins fi fo e (e_project e_top (fi ++ fo)), g)
          else
            let r := td f ce (r_lift (push f) g) in
            let g1 := r_lift pop (snd r) in
            let cexit := match f_exit fn with Some x => snd (fst r) x | None => EBot end in
            let cexit := e_project cexit (fi ++ fo) in
            let cpre := if isw then fst (fst r) 0 else ce in
            (cont voff outs ins fi fo e cexit,
             if stabilized g1 f then r_lift (fun g0 => add_ctx maxc g0 f (mkCtx cpre cexit true)) g1 else g1)
        end
      end.

  Definition r_err_set (g : rgst) : rgst := r_lift set_err g.

  (* the iterations of analyze_function on a function f of the widening set: [body en g] analyses
     the CFG of f from en; en is the entry of m_func_fixpoint_table[f] when the iteration starts *)
  Fixpoint riter (body : env -> rgst -> option (sest env rgst)) (f : nat)
           (k : nat) (iteration : nat) (en : env) (g : rgst) {struct k}
    : (nat -> env) * (nat -> env) * rgst :=
    match k with
    | O => (bot_tab, bot_tab, r_err_set (r_setfix (fix_erase f (r_fix g)) g))     (* out of fuel: error flag *)
    | S k' =>
      match body en g with
      | None => (bot_tab, bot_tab, r_err_set (r_setfix (fix_erase f (r_fix g)) g))
      | Some st =>
        let tp := se_pre env rgst st in
        let tq := se_post env rgst st in
        let g1 := se_g env rgst st in
        match fix_find f (r_fix g1) with
        | None => (tp, tq, r_lift (join_tables f tp tq) g1)
        | Some (new_en, old_ex) =>
          let new_ex := match f_exit (get_fn p f) with Some x => tq x | None => EBot end in
          if e_leq new_en en && e_leq new_ex old_ex then
            (* fixpoint reached: the table entry is erased, the invariants of this run are stored *)
            (tp, tq, r_lift (join_tables f tp tq) (r_setfix (fix_erase f (r_fix g1)) g1))
          else
            let ne := if delay <=? iteration then e_widen en new_en else e_join new_en en in
            let nx := if delay <=? iteration then e_widen old_ex new_ex else e_join new_ex old_ex in
            riter body f k' (S iteration) ne (r_setfix (fix_set f (ne, nx) (r_fix g1)) g1)
        end
      end
    end.

  (* analyze_function; d bounds the depth of the call stack *)
  Fixpoint rfun (d : nat) (f : nat) (entry : env) (g : rgst) {struct d}
    : (nat -> env) * (nat -> env) * rgst :=
    match d with
    | O => (bot_tab, bot_tab, r_err_set g)
    | S d' =>
      let fn := get_fn p f in
      let body := fun (en : env) (g : rgst) =>
        srun env rgst itv_ops
             (fun n e g => rtr_iblock (rtr_call (rfun d')) (fn_block fn n) e g)
             (fn_preds fn) (nest_of (wtos f)) 0 delay desc efuel (wtos f) en g in
      if nmem f wset then
        match fix_find f (r_fix g) with
        | None => riter body f ifuel 0 entry (r_setfix (r_fix g ++ [(f, (entry, EBot))]) g)
        | Some (en, _) => riter body f ifuel 0 en g
        end
      else
        match body entry g with
        | None => (bot_tab, bot_tab, r_err_set g)
        | Some st => (se_pre env rgst st, se_post env rgst st,
                      r_lift (join_tables f (se_pre env rgst st) (se_post env rgst st)) (se_g env rgst st))
        end
    end.

  (* top_down_inter_analyzer::run(init) *)
  Definition rec_run (depth : nat) (entries : list nat) (init : env) : rgst :=
    fold_left (fun g f => r_lift pop (snd (rfun depth f init (r_lift (push f) g)))) entries rg0.
End TDRec.

(* ------------------------------------------------------------------ side conditions of the soundness theorem
   (Ana/InterTDRecSound.v), as executable tests on the configuration:
     - the entry block of a function of the widening set is not a loop head of its CFG (the stored
       precondition of such a function is the invariant at its entry block);
     - an entry function that belongs to the recursive set is in the widening set;
     - in the call graph WTO of every entry, every call graph cycle through a function that is not in
       the widening set goes through a head of the nesting of that function (R: the functions
       reachable from f without entering a head of its nesting; f must not be in R).
   rec_run_checked sets the error flag when a test fails. *)
Fixpoint closeN (g : graph) (hs : list nat) (n : nat) (r : list nat) : list nat :=
  match n with
  | O => r
  | S n' => closeN g hs n' (add_all (filter (fun v => negb (nmem v hs)) (flat_map (succs g) r)) r)
  end.
Definition nest_ok1 (g : graph) (f : nat) (hs : list nat) : bool :=
  let init := filter (fun v => negb (nmem v hs)) (succs g f) in
  let R := closeN g hs (length g) init in
  negb (nmem f hs) && negb (nmem f R) && forallb (fun v => nmem v R) init &&
  forallb (fun u => forallb (fun v => nmem v hs || nmem v R) (succs g u)) R.
Definition nest_okb (p : iprog) (cgwto : nat -> wto) (wset entries : list nat) : bool :=
  forallb (fun e =>
    forallb (fun f => nmem f wset ||
                      match nesting (cgwto e) f with
                      | Some hs => nest_ok1 (cg_graph p) f hs
                      | None => true
                      end) (seq 0 (length p))) entries.
Definition headv_okb (wtos : nat -> wto) (wset : list nat) : bool :=
  forallb (fun f => match wtos f with Vertex 0 :: _ => true | _ => false end) wset.
Definition ent_okb (entries wset recset : list nat) : bool :=
  forallb (fun e => implb (nmem e recset) (nmem e wset)) entries.
Definition rec_cfg_okb (p : iprog) (wtos cgwto : nat -> wto) (wset recset entries : list nat) : bool :=
  headv_okb wtos wset && ent_okb entries wset recset && nest_okb p cgwto wset entries.

Definition rec_run_checked (p : iprog) (voff : N) (maxc : option nat) (exact_reuse : bool)
           (delay desc efuel ifuel : nat) (wtos cgwto : nat -> wto) (wset recset : list nat)
           (depth : nat) (entries : list nat) (init : env) : rgst :=
  if rec_cfg_okb p wtos cgwto wset recset entries
  then rec_run p voff maxc exact_reuse delay desc efuel ifuel wtos cgwto wset recset depth entries init
  else r_lift set_err rg0.
