(* InterBURecSound.v — property C10 for the model of the bottom-up inter-procedural analyzer on
   ANY call graph (Ana/InterBURec.v: bur_run, and its general form bur_run_ord over arbitrary
   orders of the two phases), directly and without the certificate checker.  Whenever the model
   returns without error flag (the flag is raised by fuel exhaustion only),
     - every summary of the bottom-up phase contains the final store of every terminating
       concrete execution of its function, whatever the inputs (a callsite whose callee has no
       summary yet - the function itself, a later member of its recursive component - forgets its
       lhs variables);
     - the tables of the top-down phase contain every state with which an execution started at
       an entry function (a function without callers, from an initial state; a member of a
       recursive component, from any state) enters / leaves a block, in any frame of the call
       stack, recursive activations included.
   The proof does not depend on the orders: the summaries are sound whatever the order; a function
   that is analysed from the call table must come after all its callers (tested by the model
   itself: all_in (cg_preds p f) done), any other function is analysed from top.  No property of
   the depth-first search or of the reachability test of the call graph is needed.
   Reuses the statement-level lemmas of Ana/InterBUModelSound.v; the invariant of the call table
   "a function without summary has no calling context" is weakened to "... has only calling
   contexts that contain every state" (the top context of a recursive main / of a recursive
   function without exit block). *)
From Coq Require Import ZArith NArith List Bool Arith Lia Relations.
From CrabV Require Import Base.ZInf Scalar.Itv Ir.Syntax Ir.Cfg Dom.ItvEnv Dom.ItvEnvSound Dom.ItvDomain
     Dom.ItvDomainSound Fix.Wto Fix.WtoCheck Fix.WtoSound Fix.WtoRoot Fix.Engine Fix.EngineCheck Fix.EngineRel
     Fix.EngineFS Fix.EngineSound Ana.CfgSem Ana.Transformer Ana.FwdItv Ana.FwdItvEngineSound
     Ana.InterSyntax Ana.InterSem Ana.InterTD Ana.InterTDSound Ana.InterBU Ana.InterBUSound
     Ana.InterEngineSound Ana.InterTDModelSound Ana.InterTDRecset Ana.InterBUModelSound Ana.InterBURec.
Import ListNotations.

Section BURecModel.
  Variable p : iprog.
  Variable voff : N.
  Hypothesis WF : iprog_wfb p voff = true.
  Hypothesis LOW : iprog_lowb p voff = true.
  Variables delay desc efuel : nat.
  Variable wtos : nat -> wto.
  Hypothesis WTO : forall f, f < length p -> build (fn_graph (get_fn p f)) 0 = Some (wtos f).

  Notation gL := (genvL voff).

  (* ---------------------------------------------------------------- the bottom-up phase, any order *)
  Lemma bur_bu_step_inv acc f : f < length p -> SInv p (fst acc) ->
    SInv p (fst (bur_bu_step p voff delay desc efuel wtos acc f)).
  Proof.
    intros L SI. unfold bur_bu_step.
    destruct (bu_summary p voff delay desc efuel wtos (fst acc) f) as [r|] eqn:BS; cbn [fst]; [|exact SI].
    intros g sum E. unfold fupd in E. destruct (Nat.eqb_spec g f) as [->|N]; [|exact (SI g sum E)].
    subst r. exact (bu_summary_ok p voff WF LOW delay desc efuel wtos WTO (fst acc) SI f sum L BS).
  Qed.

  (* a function index outside the program gets no summary that matters: bu_summary of a function
     >= length p is computed on the dummy function, which has no outputs... it is simpler to keep
     the table unchanged for such indices in the invariant: SumOK only speaks about executions *)
  Lemma exec_fun_lt g s0 s1 : exec_fun p g s0 s1 -> g < length p.
  Proof.
    intros X. destruct (exec_fun_exit p g s0 s1 X) as (x & E).
    destruct (Nat.lt_ge_cases g (length p)) as [L|G]; [exact L|].
    unfold get_fn in E. rewrite nth_overflow in E by exact G. cbn in E. discriminate.
  Qed.

  Lemma bur_bu_step_inv_any acc f : SInv p (fst acc) ->
    SInv p (fst (bur_bu_step p voff delay desc efuel wtos acc f)).
  Proof.
    intros SI. destruct (Nat.lt_ge_cases f (length p)) as [L|G]; [apply bur_bu_step_inv; assumption|].
    unfold bur_bu_step.
    destruct (bu_summary p voff delay desc efuel wtos (fst acc) f) as [r|] eqn:BS; cbn [fst]; [|exact SI].
    intros g sum E. unfold fupd in E. destruct (Nat.eqb_spec g f) as [->|N]; [|exact (SI g sum E)].
    subst r. unfold bu_summary in BS. destruct (Nat.eqb f 0); [discriminate|].
    unfold get_fn in BS. rewrite nth_overflow in BS by exact G. cbn in BS.
    inversion BS; subst sum. exists e_top. split; [reflexivity|]. intros. apply genv_top.
  Qed.

  Lemma bur_bu_inv ord : SInv p (fst (bur_bu p voff delay desc efuel wtos ord)).
  Proof.
    unfold bur_bu. apply (fold_left_inv (fun acc => SInv p (fst acc))).
    - intros acc f _ SI. apply bur_bu_step_inv_any, SI.
    - intros g sum E. discriminate.
  Qed.

  (* ---------------------------------------------------------------- the top-down phase *)
  Section TopDown.
    Variable sums : nat -> option env.
    Hypothesis SI : SInv p sums.
    Variable entries : list nat.
    Variable Init : store -> Prop.
    Variable init : env.
    Hypothesis HInit : forall s, Init s -> gL init s.
    Hypothesis HE : forall f, In f entries -> f < length p /\ (cg_preds p f = [] \/ cg_isrec p f = true).

    (* a function without summary has only calling contexts that contain every state *)
    Definition CTw (ct : ctab) : Prop := forall g, sums g = None -> forall c, ct g = Some c -> forall s, gL c s.

    Notation td2s := (td2_stmt p voff sums).
    Notation td2b := (td2_block p voff sums).
    Notation CovCT := (CovCT voff sums).
    Notation CallsCovCT := (CallsCovCT p voff sums).
    Notation ctstep := (ctstep voff).
    Notation EntryState := (EntryState p entries Init).

    Lemma td2_stmt_CTw st e ct : CTw ct -> CTw (snd (td2s st e ct)).
    Proof.
      intros C0. destruct st as [s|outs g ins]; cbn [td2_stmt snd]; [exact C0|].
      destruct (sums g) eqn:SG; cbn [snd]; [|exact C0].
      intros g0 E0 c. unfold ctab_insert, fupd. destruct (Nat.eqb_spec g0 g) as [->|N]; [|apply C0, E0].
      rewrite SG in E0. discriminate.
    Qed.
    Lemma td2_block_CTw : forall bl e ct, CTw ct -> CTw (snd (td2b bl e ct)).
    Proof.
      induction bl as [|st r IH]; intros e ct C0; cbn [td2_block]; [exact C0|].
      apply IH. apply td2_stmt_CTw, C0.
    Qed.

    Lemma td2_stmt_soundW fcur st e ct a : stmt_okL p voff fcur st -> gL e a ->
      (forall outs g ins s0, st = ICall outs g ins -> bind_ins (f_ins (get_fn p g)) ins a s0 ->
                             CovCT (snd (td2s st e ct)) g s0) /\
      (forall b, exec_stmt p st a b -> gL (fst (td2s st e ct)) b).
    Proof.
      intros OK Ga. split.
      - intros outs g ins s0 -> B. cbn [td2_stmt]. destruct OK as [W _].
        destruct (call_wf _ _ _ _ _ _ W) as (Lg & Li & Lo & NDo & Bi & Bo).
        destruct (fn_wf p voff WF g Lg) as (NDf & Bf & _).
        destruct (sums g) eqn:SG; cbn [snd]; [|left; exact SG]. right.
        set (ctx := bu_callee_ctx voff ins (f_ins (get_fn p g)) e).
        assert (GC : gL ctx s0).
        { intros s0' A.
          apply (bu_callee_ctx_sound voff outs ins _ _ Li Lo Bf Bi e a s0' (nodup_app_l _ _ NDf) (genvL_genv _ _ _ Ga)).
          apply (bind_ins_agree _ _ _ s0); [exact B|].
          intros f I. apply A. apply Bf. apply in_or_app. left. exact I. }
        unfold ctab_insert, fupd. rewrite Nat.eqb_refl. destruct (ct g) as [old|].
        + exists (e_join old ctx). split; [reflexivity|]. intros s' A. apply e_join_sound. right. apply GC, A.
        + exists ctx. split; [reflexivity|exact GC].
      - intros b X. rewrite td2_stmt_fst. eapply bu_stmt_soundL; eauto.
    Qed.

    Lemma td2_block_soundW fcur : forall bl e ct a, (forall st, In st bl -> stmt_okL p voff fcur st) -> gL e a ->
      (forall l1 outs g ins l2 mid s0, bl = l1 ++ ICall outs g ins :: l2 -> exec_block p l1 a mid ->
         bind_ins (f_ins (get_fn p g)) ins mid s0 -> CovCT (snd (td2b bl e ct)) g s0) /\
      (forall b, exec_block p bl a b -> gL (fst (td2b bl e ct)) b).
    Proof.
      induction bl as [|st r IH]; intros e ct a OK Ga; cbn [td2_block].
      - split.
        + intros l1 outs g ins l2 mid s0 E. destruct l1; discriminate.
        + intros b X. inversion X; subst. exact Ga.
      - set (q := td2s st e ct).
        destruct (td2_stmt_soundW fcur st e ct a (OK st (or_introl eq_refl)) Ga) as (HS1 & HS2).
        fold q in HS1, HS2.
        pose proof (td2_block_step p voff sums r (fst q) (snd q)) as STr.
        split.
        + intros l1 outs g ins l2 mid s0 E XB B. destruct l1 as [|st' l1'].
          * cbn [app] in E. inversion E; subst. inversion XB; subst.
            apply (CovCT_step _ _ _ _ _ _ STr). eapply HS1; eauto.
          * cbn [app] in E. inversion E; subst. inversion XB as [|? ? ? m ? XS XR]; subst.
            destruct (IH (fst q) (snd q) m (fun st' I => OK st' (or_intror I)) (HS2 m XS)) as (HB1 & _).
            eapply HB1; eauto.
        + intros b X. inversion X as [|? ? ? m ? XS XR]; subst.
          destruct (IH (fst q) (snd q) m (fun st' I => OK st' (or_intror I)) (HS2 m XS)) as (_ & HB2).
          apply HB2. exact XR.
    Qed.

    (* one function *)
    Lemma td2_funW f ct init_inv r : f < length p -> CTw ct ->
      (forall s0, EntryState f s0 -> gL init_inv s0) ->
      srun env ctab itv_ops (fun n e ct => td2b (fn_block (get_fn p f) n) e ct) (fn_preds (get_fn p f))
           (nest_of (wtos f)) 0 delay desc efuel (wtos f) init_inv ct = Some r ->
      ctstep ct (se_g env ctab r) /\ CTw (se_g env ctab r) /\
      (forall n s, IRPre p entries Init f n s -> gL (se_pre env ctab r n) s /\ CallsCovCT (se_g env ctab r) f n s) /\
      (forall n s, IRPost p entries Init f n s -> gL (se_post env ctab r n) s).
    Proof.
      intros L C0 HI RUN.
      destruct (wto_ok p voff WF wtos WTO f L) as (WN & WE & WS).
      set (an := fun (n : nat) (e : env) (ct : ctab) => td2b (fn_block (get_fn p f) n) e ct) in *.
      assert (ANS : forall (n : nat) (a : env) (g : ctab), True -> CTw g ->
                CTw (snd (an n a g)) /\
                forall s, gL a s -> CallsCovCT (snd (an n a g)) f n s /\
                                    forall s', bstepf p f n s s' -> gL (fst (an n a g)) s').
      { intros n a g _ Cg. unfold an.
        split; [apply td2_block_CTw, Cg|].
        intros s Gs. destruct (td2_block_soundW f _ a g s (block_okL p voff WF LOW f n L) Gs) as (H1 & H2).
        split; [|exact H2]. intros l1 outs g0 ins l2 mid s0 E XB B. eapply H1; eauto. }
      destruct (srun_sound env ctab store gL itv_ops
                  (fun a b s H s' A => e_join_sound a b s' (or_introl (H s' A)))
                  (fun a b s H s' A => e_join_sound a b s' (or_intror (H s' A)))
                  (fun a b s Ha Hb s' A => e_meet_sound a b s' (Ha s' A) (Hb s' A))
                  (fun a b s Ha Hb s' A => e_narrow_sound a b s' (Ha s' A) (Hb s' A))
                  (fun a b s Lq Ha s' A => e_leq_sound a b s' Lq (Ha s' A))
                  an (bstepf p f) ctstep (ctstep_refl voff) (ctstep_trans voff)
                  (fun n a g => td2_block_step p voff sums _ a g)
                  (fun _ => True) (fun _ _ _ _ => I) CTw
                  (fun n s g => CallsCovCT g f n s)
                  (fun n s g g' S H => CallsCovCT_step p voff sums g g' f n s S H) ANS
                  (fn_preds (get_fn p f)) (nest_of (wtos f)) 0 delay desc (EntryState f) efuel init_inv HI
                  (wtos f) WN WE WS ct r RUN I C0) as (ST & C1 & HP & HQ).
      destruct (frame p entries Init) as [FA FB].
      split; [exact ST|]. split; [exact C1|]. split.
      - intros n s R. apply HP. apply (proj1 (RP_gamma_irrel env store genv gL _ _ _ _ _)). apply FA, R.
      - intros n s R. apply HQ. apply (proj2 (RP_gamma_irrel env store genv gL _ _ _ _ _)). apply FB, R.
    Qed.

    (* ---------------------------------------------------------------- the functions one after the other *)
    Definition Cov (st : tdst) (f : nat) : Prop :=
      (forall n s, IRPre p entries Init f n s -> gL (t_pre st f n) s /\ CallsCovCT (t_ct st) f n s) /\
      (forall n s, IRPost p entries Init f n s -> gL (t_post st f n) s).
    Definition TI (st : tdst) : Prop :=
      t_err st = false ->
      CTw (t_ct st) /\ (forall f, In f (t_done st) -> Cov st f) /\
      (forall f, ~ In f (t_done st) -> forall n s, genv (t_pre st f n) s /\ genv (t_post st f n) s).

    Lemma IRPre_ltW : (forall f n s, IRPre p entries Init f n s -> f < length p) /\
                      (forall f n s, IRPost p entries Init f n s -> f < length p).
    Proof.
      apply (IR_mutind p entries Init (fun f _ _ => f < length p) (fun f _ _ => f < length p)).
      - intros f s I _. apply HE, I.
      - intros f q n s _ _ IH. exact IH.
      - intros f n s l1 outs g ins l2 m s0 _ IH EB _ _.
        destruct (fn_wf p voff WF f IH) as (_ & _ & _ & _ & Wb).
        assert (W : istmt_wfb p voff (get_fn p f) (ICall outs g ins) = true).
        { apply (Wb n). rewrite EB. apply in_or_app. right. left. reflexivity. }
        apply (call_wf _ _ _ _ _ _ W).
      - intros f n s s' _ IH _. exact IH.
    Qed.

    Lemma ctab_get_insert_top ct f s : gL (ctab_get (ctab_insert ct f e_top) f) s.
    Proof.
      unfold ctab_get, ctab_insert, fupd. rewrite Nat.eqb_refl.
      destruct (ct f) as [old|]; [|apply genvL_top].
      intros s' A. apply e_join_sound. right. apply genv_top.
    Qed.

    Lemma ctab_insert_top_CTw ct f : CTw ct -> CTw (ctab_insert ct f e_top).
    Proof.
      intros C0 g SN c E s. unfold ctab_insert, fupd in E. destruct (Nat.eqb_spec g f) as [->|N].
      - destruct (ct f) as [old|]; inversion E; subst c.
        + intros s' A. apply e_join_sound. right. apply genv_top.
        + apply genvL_top.
      - exact (C0 g SN c E s).
    Qed.

    Lemma bur_td_step_inv acc f : TI acc -> TI (bur_td_step p voff delay desc efuel wtos sums init acc f).
    Proof.
      intros HT. unfold bur_td_step.
      destruct (nmem f (t_done acc)) eqn:ND; [exact HT|]. cbv zeta.
      set (ct1 := if cg_isrec p f then ctab_insert (t_ct acc) f e_top else t_ct acc).
      set (init_inv := if cg_isrec p f then ctab_get ct1 f
                       else if all_in (cg_preds p f) (t_done acc)
                            then match cg_preds p f with [] => init | _ :: _ => ctab_get ct1 f end
                            else e_top).
      match goal with |- TI (match ?X with _ => _ end) => destruct X as [r|] eqn:RUN end.
      2: { intros E. cbn in E. discriminate. }
      intros E. cbn [t_err] in E. destruct (HT E) as (C0 & DN & UD).
      assert (ST1 : ctstep (t_ct acc) ct1).
      { unfold ct1. destruct (cg_isrec p f); [apply ctab_insert_step|apply ctstep_refl]. }
      assert (C1 : CTw ct1).
      { unfold ct1. destruct (cg_isrec p f); [apply ctab_insert_top_CTw, C0|exact C0]. }
      destruct (Nat.lt_ge_cases f (length p)) as [Lf|Gf].
      - assert (HI : forall s0, EntryState f s0 -> gL init_inv s0).
        { intros s0 ES. unfold init_inv, ct1. destruct (cg_isrec p f) eqn:RC.
          - apply ctab_get_insert_top.
          - destruct (all_in (cg_preds p f) (t_done acc)) eqn:AI; [|apply genvL_top].
            destruct ES as [[Ie Is]|(h & m & sm & l1 & outs & ins & l2 & mid & R & EB & XB & B)].
            + destruct (HE f Ie) as [_ [CP|RC']]; [|rewrite RC in RC'; discriminate].
              rewrite CP. apply HInit, Is.
            + assert (CE : cg_edge p h f).
              { exists m, outs, ins. rewrite EB. apply in_or_app. right. left. reflexivity. }
              pose proof (cg_preds_in p h f CE) as IP.
              unfold all_in in AI. rewrite forallb_forall in AI. specialize (AI h IP). apply nmem_spec in AI.
              destruct (DN h AI) as [A _]. destruct (A m sm R) as [_ CV].
              specialize (CV l1 outs f ins l2 mid s0 EB XB B).
              destruct (cg_preds p f) as [|x xs] eqn:CP; [destruct IP|].
              unfold ctab_get. destruct CV as [SN|(c & Ec & Gc)].
              * destruct (t_ct acc f) as [c|] eqn:Ec; [exact (C0 f SN c Ec s0)|apply genvL_top].
              * rewrite Ec. exact Gc. }
        destruct (td2_funW f ct1 init_inv r Lf C1 HI RUN) as (ST & C2 & HP & HQ).
        pose proof (ctstep_trans voff _ _ _ ST1 ST) as ST2.
        cbn [t_ct t_pre t_post t_done].
        split; [exact C2|]. split.
        + intros h [<-|Ih].
          * unfold Cov. cbn [t_ct t_pre t_post].
            split; intros n s R; unfold fupd; rewrite Nat.eqb_refl; [apply HP, R|apply HQ, R].
          * assert (NE : h <> f).
            { intros ->. apply nmem_spec in Ih. rewrite Ih in ND. discriminate. }
            destruct (DN h Ih) as [A B]. unfold Cov. cbn [t_ct t_pre t_post].
            split; intros n s R; unfold fupd; (destruct (Nat.eqb_spec h f) as [EQ|_]; [contradiction|]).
            -- destruct (A n s R) as [X Y]. split; [exact X|]. eapply CallsCovCT_step; eauto.
            -- apply B, R.
        + intros h NI n s. assert (NE : h <> f) by (intros ->; apply NI; left; reflexivity).
          unfold fupd. destruct (Nat.eqb_spec h f) as [EQ|_]; [contradiction|].
          apply UD. intros I. apply NI. right. exact I.
      - (* an index outside the program: its (dummy) body leaves the call table unchanged and no
           execution reaches it *)
        destruct IRPre_ltW as [LA LB].
        assert (EG : ct1 = se_g env ctab r).
        { apply (srun_step env ctab itv_ops _ (@eq ctab) (fun g => eq_refl) (fun a b c H1 H2 => eq_trans H1 H2)) in RUN;
            [exact RUN|].
          intros n a g. unfold get_fn. rewrite nth_overflow by exact Gf.
          unfold fn_block, dummy_func. cbn [f_blocks]. destruct n; reflexivity. }
        cbn [t_ct t_pre t_post t_done]. rewrite <- EG.
        split; [exact C1|]. split.
        + intros h [<-|Ih].
          * split; intros n s R; exfalso; [pose proof (LA _ _ _ R)|pose proof (LB _ _ _ R)]; lia.
          * assert (NE : h <> f).
            { intros ->. apply nmem_spec in Ih. rewrite Ih in ND. discriminate. }
            destruct (DN h Ih) as [A B]. unfold Cov. cbn [t_ct t_pre t_post].
            split; intros n s R; unfold fupd; (destruct (Nat.eqb_spec h f) as [EQ|_]; [contradiction|]).
            -- destruct (A n s R) as [X Y]. split; [exact X|]. eapply CallsCovCT_step; eauto.
            -- apply B, R.
        + intros h NI n s. assert (NE : h <> f) by (intros ->; apply NI; left; reflexivity).
          unfold fupd. destruct (Nat.eqb_spec h f) as [EQ|_]; [contradiction|].
          apply UD. intros I. apply NI. right. exact I.
    Qed.

    Lemma bur_td_inv ord : TI (bur_td p voff delay desc efuel wtos sums init ord).
    Proof.
      unfold bur_td. apply (fold_left_inv TI).
      - intros acc f _ HT. apply bur_td_step_inv, HT.
      - intros _. cbn [t_ct t_done t_pre t_post]. split; [intros g _ c E; discriminate|].
        split; [intros f []|]. intros f _ m s. split; apply genv_top.
    Qed.
  End TopDown.
  (* ---------------------------------------------------------------- run(init), any orders *)
  Lemma no_edges_no_preds : cg_no_edges p = true -> forall f, cg_preds p f = [].
  Proof.
    intros NE f. unfold cg_preds. apply filter_nil. intros g I.
    unfold cg_no_edges in NE. rewrite forallb_forall in NE. specialize (NE g I).
    destruct (cg_succs p g); [reflexivity|discriminate].
  Qed.

  Theorem bur_run_ord_sound obu otd entries init :
    (forall f, In f entries -> f < length p /\ (cg_preds p f = [] \/ cg_isrec p f = true)) ->
    let r := bur_run_ord p voff delay desc efuel wtos obu otd init in
    b_err r = false ->
    forall Init : store -> Prop, (forall s, Init s -> gL init s) ->
    (forall f n s, IRPre p entries Init f n s -> genv (b_pre r f n) s) /\
    (forall f n s, IRPost p entries Init f n s -> genv (b_post r f n) s) /\
    (forall sm, In sm (bu_summaries p (b_sum r)) ->
       forall s0 s1, genv (s_pre sm) s0 -> exec_fun p (s_fn sm) s0 s1 -> genv (s_post sm) s1).
  Proof.
    intros HE. cbv zeta. unfold bur_run_ord.
    destruct (cg_no_edges p) eqn:NE.
    - (* the call graph has no edges: bu_run *)
      intros FN Init HI.
      apply (bu_run_sound p voff WF LOW delay desc efuel wtos WTO entries init); [|exact FN|exact HI].
      intros f I. split; [apply HE, I|apply no_edges_no_preds, NE].
    - pose proof (bur_bu_inv obu) as SIf.
      destruct (bur_bu p voff delay desc efuel wtos obu) as [sums err] eqn:BU.
      cbn [fst snd] in *. cbn [b_err b_pre b_post b_sum]. intros FN Init HI.
      pose proof (bur_td_inv sums SIf entries Init init HI HE otd) as HT.
      set (st := bur_td p voff delay desc efuel wtos sums init otd) in *.
      assert (E : t_err st = false).
      { destruct (t_err st); [|reflexivity]. rewrite orb_true_r in FN. discriminate. }
      destruct (HT E) as (_ & DN & UD).
      split; [|split].
      + intros f n s R. destruct (in_dec Nat.eq_dec f (t_done st)) as [I|NI].
        * apply (genvL_genv voff). apply (DN f I), R.
        * apply (UD f NI).
      + intros f n s R. destruct (in_dec Nat.eq_dec f (t_done st)) as [I|NI].
        * apply (genvL_genv voff). apply (DN f I), R.
        * apply (UD f NI).
      + intros sm I s0 s1 _ XF. unfold bu_summaries in I. apply in_flat_map in I. destruct I as (f & _ & I).
        destruct (sums f) as [sum|] eqn:SF; [|destruct I]. destruct I as [<-|[]]. cbn [s_fn s_post] in *.
        destruct (SIf f sum SF) as (X & EQ & SS). rewrite EQ.
        apply (e_project_sound _ _ s1); [apply (SS s0 s1 XF)|auto].
  Qed.

  (* run(init) with the orders of the code *)
  Theorem bur_run_sound entries init :
    (forall f, In f entries -> f < length p /\ (cg_preds p f = [] \/ cg_isrec p f = true)) ->
    let r := bur_run p voff delay desc efuel wtos init in
    b_err r = false ->
    forall Init : store -> Prop, (forall s, Init s -> gL init s) ->
    (forall f n s, IRPre p entries Init f n s -> genv (b_pre r f n) s) /\
    (forall f n s, IRPost p entries Init f n s -> genv (b_post r f n) s) /\
    (forall sm, In sm (bu_summaries p (b_sum r)) ->
       forall s0 s1, genv (s_pre sm) s0 -> exec_fun p (s_fn sm) s0 s1 -> genv (s_post sm) s1).
  Proof. intros HE. exact (bur_run_ord_sound (cg_post p) (cg_rpost p) entries init HE). Qed.
End BURecModel.

Lemma bur_entries_ok p f : In f (bur_entries p) -> f < length p /\ (cg_preds p f = [] \/ cg_isrec p f = true).
Proof.
  unfold bur_entries. intros I. apply filter_In in I. destruct I as [I H]. apply in_seq in I.
  split; [lia|]. apply orb_true_iff in H. destruct H as [H|H]; [left|right; exact H].
  unfold cg_no_preds in H. destruct (cg_preds p f); [reflexivity|discriminate].
Qed.

(* ------------------------------------------------------------------ the theorem for the model's configuration *)
Theorem bur_model_sound p delay desc efuel wtos init :
  let voff := prog_voff p in
  iprog_wfb p voff = true ->
  (forall f, f < length p -> build (fn_graph (get_fn p f)) 0 = Some (wtos f)) ->
  let r := bur_run p voff delay desc efuel wtos init in
  b_err r = false ->
  forall Init : store -> Prop,
  (forall s s', Init s -> (forall k, (k < voff)%N -> s' k = s k) -> genv init s') ->
  (forall f n s, IRPre p (bur_entries p) Init f n s -> genv (b_pre r f n) s) /\
  (forall f n s, IRPost p (bur_entries p) Init f n s -> genv (b_post r f n) s) /\
  (forall sm, In sm (bu_summaries p (b_sum r)) ->
     forall s0 s1, genv (s_pre sm) s0 -> exec_fun p (s_fn sm) s0 s1 -> genv (s_post sm) s1).
Proof.
  intros voff WF WTO r FN Init HI.
  apply (bur_run_sound p voff WF (prog_voff_low p) delay desc efuel wtos WTO (bur_entries p) init
           (bur_entries_ok p) FN Init).
  intros s Is s' A. apply (HI s s' Is A).
Qed.

(* the summaries of the model hold whatever the inputs, members of recursive components included *)
Corollary bur_model_summary_any_input p delay desc efuel wtos init :
  let voff := prog_voff p in
  iprog_wfb p voff = true ->
  (forall f, f < length p -> build (fn_graph (get_fn p f)) 0 = Some (wtos f)) ->
  let r := bur_run p voff delay desc efuel wtos init in
  b_err r = false ->
  forall f sum, f < length p -> b_sum r f = Some sum ->
  forall s0 s1, exec_fun p f s0 s1 -> genv sum s1.
Proof.
  intros voff WF WTO r FN f sum L E s0 s1 X.
  destruct (bur_model_sound p delay desc efuel wtos init WF WTO FN (fun _ => False)) as (_ & _ & C).
  { intros s s' []. }
  apply (C (mkSumm f e_top sum)) with (s0 := s0); auto.
  - unfold bu_summaries. apply in_flat_map. exists f. split; [apply in_seq; lia|].
    subst r voff. rewrite E. left. reflexivity.
  - apply genv_top.
Qed.
