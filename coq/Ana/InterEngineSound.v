(* InterEngineSound.v — soundness of the state-threading fixpoint engine [srun] of Ana/InterTD.v
   (the copy of Fix/Engine.v whose block transformer reads and updates a global state: the
   context of the inter-procedural analysis).

   Generalisation of Fix/EngineSound.v: the transformer [analyze n a g] returns an abstract
   value and a new global state.  Nothing is assumed about it except
     - the global state only moves along a preorder [step];
     - "no error so far" ([Fin]) is downward closed along [step];
     - when the state it returns is error free, the transformer preserves the invariant [GI]
       of the global state, its abstract value is sound for the concrete block semantics, and
       a side condition [EffS n s g'] (anything monotone along [step]: here "the callees
       entered from state s of block n are covered by g'") holds for every concrete state s
       of its argument.
   Then a terminated run whose final state is error free, started with an ordering with
   distinct nodes, whose edges respect the ordering and which begins with the analysis
   entry, returns tables that contain the collecting semantics RPre / RPost of
   Fix/EngineCheck.v; the side condition holds at the end for every state of RPre, and the
   invariant holds for the final global state.  Any fuel, widening delay, number of
   descending iterations; no monotonicity, no checker. *)
From Coq Require Import List Bool Arith Lia.
From CrabV Require Import Fix.Wto Fix.WtoCheck Fix.WtoSound Fix.Engine Fix.EngineBelow Fix.EngineCheck
     Fix.EngineRel Ana.InterTD.
Import ListNotations.

Section StSound.
  Variables A G State : Type.
  Variable gamma : A -> State -> Prop.
  Variable OP : aops A.
  Hypothesis join_l : forall a b s, gamma a s -> gamma (o_join A OP a b) s.
  Hypothesis join_r : forall a b s, gamma b s -> gamma (o_join A OP a b) s.
  Hypothesis meet_s : forall a b s, gamma a s -> gamma b s -> gamma (o_meet A OP a b) s.
  Hypothesis narrow_s : forall a b s, gamma a s -> gamma b s -> gamma (o_narrow A OP a b) s.
  Hypothesis leq_s : forall a b s, o_leq A OP a b = true -> gamma a s -> gamma b s.

  Variable analyze : nat -> A -> G -> A * G.
  Variable bstep : nat -> State -> State -> Prop.

  Variable step : G -> G -> Prop.
  Hypothesis step_refl : forall g, step g g.
  Hypothesis step_trans : forall a b c, step a b -> step b c -> step a c.
  Hypothesis analyze_step : forall n a g, step g (snd (analyze n a g)).
  Variable Fin : G -> Prop.
  Hypothesis Fin_down : forall g g', step g g' -> Fin g' -> Fin g.
  Variable GI : G -> Prop.
  Variable EffS : nat -> State -> G -> Prop.
  Hypothesis EffS_mono : forall n s g g', step g g' -> EffS n s g -> EffS n s g'.
  Hypothesis analyze_s : forall n a g, Fin (snd (analyze n a g)) -> GI g ->
    GI (snd (analyze n a g)) /\
    forall s, gamma a s ->
      EffS n s (snd (analyze n a g)) /\ forall s', bstep n s s' -> gamma (fst (analyze n a g)) s'.

  Variable preds : nat -> list nat.
  Variable nest : nat -> list nat.
  Variable entry : nat.
  Variable delay descending : nat.
  Variable Init : State -> Prop.
  Variable fuel : nat.

  Notation pre := (se_pre A G).
  Notation post := (se_post A G).
  Notation skip := (se_skip A G).
  Notation sg := (se_g A G).
  Notation mkS := (mkSE A G).
  Notation tset := (tset A).
  Notation join_posts := (join_posts A OP).
  Notation head_inflow := (shead_inflow A G OP preds).
  Notation visit_vertex := (svisit_vertex A G OP analyze preds entry).
  Notation inc_loop := (sinc_loop A G OP analyze preds delay).
  Notation dec_loop := (sdec_loop A G OP analyze preds descending).
  Notation visit := (svisit A G OP analyze preds nest entry delay descending fuel).
  Notation visit_all := (svisit_all A G OP analyze preds nest entry delay descending fuel).
  Notation noasm := (fun _ : nat => @None A).
  Notation RRpre := (RRpre A State gamma bstep preds entry false noasm Init).
  Notation RRpost := (RRpost A State gamma bstep preds entry false noasm Init).
  Notation RPre := (RPre A State gamma bstep preds entry false noasm Init).
  Notation RPost := (RPost A State gamma bstep preds entry false noasm Init).
  Notation eok := (eok preds).

  (* ---------------------------------------------------------------- specifications *)
  Definition Ext_of (st : sest A G) : nat -> State -> Prop := fun p s => gamma (post st p) s.
  Definition EFalse : nat -> State -> Prop := fun _ _ => False.

  Definition SoundOn (C : list nat) (E : nat -> State -> Prop) (st : sest A G) : Prop :=
    (forall n s, RRpre C E n s -> gamma (pre st n) s /\ EffS n s (sg st)) /\
    (forall n s, RRpost C E n s -> gamma (post st n) s).
  Definition Frame (C : list nat) (st st' : sest A G) : Prop :=
    forall m, ~ In m C -> pre st' m = pre st m /\ post st' m = post st m.
  Definition VSpec (C : list nat) (v : sest A G -> option (sest A G)) : Prop :=
    forall st st', skip st = false -> v st = Some st' -> Fin (sg st') -> GI (sg st) ->
      skip st' = false /\ Frame C st st' /\ GI (sg st') /\ SoundOn C (Ext_of st) st'.
  Definition VStep (v : sest A G -> option (sest A G)) : Prop :=
    forall st st', v st = Some st' -> step (sg st) (sg st').

  Lemma tset_same (t : nat -> A) n v : tset t n v n = v.
  Proof. unfold Engine.tset. rewrite Nat.eqb_refl. reflexivity. Qed.
  Lemma tset_other (t : nat -> A) n v m : m <> n -> tset t n v m = t m.
  Proof. intros H. unfold Engine.tset. apply Nat.eqb_neq in H. rewrite H. reflexivity. Qed.

  Lemma Frame_refl C st : Frame C st st.
  Proof. intros m _. split; reflexivity. Qed.
  Lemma Frame_trans C st1 st2 st3 : Frame C st1 st2 -> Frame C st2 st3 -> Frame C st1 st3.
  Proof.
    intros F1 F2 m N. destruct (F1 m N) as [a b]. destruct (F2 m N) as [c d].
    split; congruence.
  Qed.

  Lemma SoundOn_mono C (E E' : nat -> State -> Prop) st :
    (forall p s, ~ In p C -> E' p s -> E p s) -> SoundOn C E st -> SoundOn C E' st.
  Proof.
    intros H [S1 S2].
    destruct (RR_mono A State gamma bstep preds entry false noasm Init C E' E) as [M1 M2].
    - intros m p s _ _ N X. apply H; assumption.
    - split; intros n s R; [apply S1, M1, R|apply S2, M2, R].
  Qed.

  Lemma refine_s i a b s : gamma a s -> gamma b s -> gamma (refine A OP i a b) s.
  Proof. intros Ga Gb. unfold refine. destruct (Nat.eqb i 1); [apply meet_s|apply narrow_s]; assumption. Qed.

  Lemma head_inflow_s h ep st s :
    ((exists p, In p (preds h) /\ gamma (post st p) s) \/ (exists ip, ep = Some ip /\ gamma ip s)) ->
    gamma (head_inflow h ep st) s.
  Proof.
    intros H. unfold shead_inflow.
    destruct H as [[p [I Gp]]|[ip [-> Gi]]].
    - pose proof (join_posts_sound A State gamma OP join_l join_r (post st) p (preds h) s I Gp) as J.
      destruct ep; [apply join_l|]; exact J.
    - apply join_r. exact Gi.
  Qed.

  (* ---------------------------------------------------------------- the global state only steps *)
  Lemma vertex_step n : VStep (fun st => Some (visit_vertex n st)).
  Proof.
    intros st st' V. inversion V as [V']. clear V V'. unfold svisit_vertex.
    destruct (if skip st && Nat.eqb n entry then false else skip st); cbn [se_g].
    - apply step_refl.
    - apply analyze_step.
  Qed.

  Lemma seq_step v1 v2 : VStep v1 -> VStep v2 ->
    VStep (fun st => match v1 st with None => None | Some s => v2 s end).
  Proof.
    intros V1 V2 st st' V. destruct (v1 st) as [s1|] eqn:E1; [|discriminate].
    eapply step_trans; [apply (V1 _ _ E1)|apply (V2 _ _ V)].
  Qed.

  Section CycleStep.
    Variable vbody : sest A G -> option (sest A G).
    Variable h : nat.
    Variable entry_pre : option A.
    Hypothesis VBS : VStep vbody.

    Lemma inc_loop_step : forall f i p0 st p' st',
      inc_loop vbody h entry_pre f i p0 st = Some (p', st') -> step (sg st) (sg st').
    Proof.
      induction f as [|f IH]; intros i p0 st p' st' H; [discriminate|].
      cbn [sinc_loop] in H.
      destruct (vbody _) as [st2|] eqn:V; [|discriminate].
      pose proof (VBS _ _ V) as S2. cbn [se_g] in S2.
      assert (S02 : step (sg st) (sg st2)).
      { eapply step_trans; [apply (analyze_step h p0 (sg st))|exact S2]. }
      destruct (o_leq A OP (head_inflow h entry_pre st2) p0).
      - inversion H; subst p' st'. cbn [se_g]. exact S02.
      - eapply step_trans; [exact S02|]. eapply IH; eauto.
    Qed.

    Lemma dec_loop_step : forall f i p0 st st',
      dec_loop vbody h entry_pre f i p0 st = Some st' -> step (sg st) (sg st').
    Proof.
      induction f as [|f IH]; intros i p0 st st' H; [discriminate|].
      cbn [sdec_loop] in H.
      destruct (vbody _) as [st2|] eqn:V; [|discriminate].
      pose proof (VBS _ _ V) as S2. cbn [se_g] in S2.
      assert (S02 : step (sg st) (sg st2)).
      { eapply step_trans; [apply (analyze_step h p0 (sg st))|exact S2]. }
      destruct (o_leq A OP p0 (head_inflow h entry_pre st2)).
      { inversion H; subst st'. exact S02. }
      destruct (descending <? i).
      { inversion H; subst st'. exact S02. }
      eapply step_trans; [exact S02|]. apply IH in H. cbn [se_g] in H. exact H.
    Qed.

    Definition cyc_core (pre0 : A) (st0 : sest A G) : option (sest A G) :=
      match inc_loop vbody h entry_pre fuel 1 pre0 st0 with
      | None => None
      | Some (p, st') =>
        if Nat.eqb descending 0 then Some st'
        else dec_loop vbody h entry_pre fuel 1 p st'
      end.

    Lemma cyc_core_step pre0 : VStep (cyc_core pre0).
    Proof.
      intros st st' H. unfold cyc_core in H.
      destruct (inc_loop vbody h entry_pre fuel 1 pre0 st) as [[p st1]|] eqn:IL; [|discriminate].
      pose proof (inc_loop_step _ _ _ _ _ _ IL) as S1.
      destruct (Nat.eqb descending 0).
      - inversion H; subst st'. exact S1.
      - eapply step_trans; [exact S1|]. eapply dec_loop_step; eauto.
    Qed.
  End CycleStep.

  Lemma visit_cycle_eq h body st :
    visit (Cycle h body) st =
      let entry_in := skip st && comp_member entry (Cycle h body) in
      if skip st && negb entry_in then Some st
      else
        let st0 := mkS (pre st) (post st) false (sg st) in
        let entry_pre := if entry_in then Some (pre st0 entry) else None in
        let pre0 :=
          if entry_in then pre st0 entry
          else fold_left (fun acc q => if deeper (nest q) (nest h) then acc
                                       else o_join A OP acc (post st0 q)) (preds h) (o_bot A OP) in
        cyc_core (visit_all body) h entry_pre pre0 st0.
  Proof. reflexivity. Qed.

  Lemma list_step : forall l, Forall (fun c => VStep (visit c)) l -> VStep (visit_all l).
  Proof.
    induction l as [|c r IH]; intros FA st st' V.
    - cbn in V. inversion V; subst. apply step_refl.
    - inversion FA as [|? ? Hc Hr]; subst. cbn [svisit_all] in V.
      destruct (visit c st) as [s1|] eqn:E1; [|discriminate].
      eapply step_trans; [apply (Hc _ _ E1)|apply (IH Hr _ _ V)].
  Qed.

  Lemma comp_step : forall c, VStep (visit c).
  Proof.
    induction c as [n|h body IH] using comp_ind'.
    - exact (vertex_step n).
    - intros st st' V. rewrite visit_cycle_eq in V. cbv zeta in V.
      destruct (skip st && negb (skip st && comp_member entry (Cycle h body))).
      + inversion V; subst. apply step_refl.
      + apply (cyc_core_step _ _ _ (list_step body IH)) in V. cbn [se_g] in V. exact V.
  Qed.

  Lemma visit_all_step l : VStep (visit_all l).
  Proof. apply list_step. apply Forall_forall. intros c _. apply comp_step. Qed.

  Lemma srun_step w i0 g e :
    srun A G OP analyze preds nest entry delay descending fuel w i0 g = Some e -> step g (sg e).
  Proof. unfold srun. intros H. apply visit_all_step in H. exact H. Qed.

  (* ---------------------------------------------------------------- vertex *)
  Lemma vertex_spec n : n <> entry -> ~ In n (preds n) ->
    VSpec [n] (fun st => Some (visit_vertex n st)).
  Proof.
    intros NE NS st st' SK V FN GI0.
    apply Nat.eqb_neq in NE.
    set (v := join_posts (post st) (preds n)).
    assert (E : st' = mkS (tset (pre st) n v) (tset (post st) n (fst (analyze n v (sg st)))) false
                          (snd (analyze n v (sg st)))).
    { inversion V as [V']. unfold svisit_vertex. rewrite SK. cbn [andb]. rewrite NE. reflexivity. }
    clear V. subst st'. cbn [se_g se_pre se_post se_skip] in *.
    destruct (analyze_s n v (sg st) FN GI0) as [GI1 AS].
    assert (PRE : forall s, RRpre [n] (Ext_of st) n s -> gamma v s).
    { intros s R. inversion R as [s0 I1 I2 I3 E1 E2|n0 p s0 I1 I2 I3 I4 I5 E1 E2|n0 p s0 I1 I2 I3 I4 I5 E1 E2]; subst.
      - apply Nat.eqb_neq in NE. exfalso. apply NE. reflexivity.
      - unfold v. eapply join_posts_sound; eauto.
      - exfalso. destruct I3 as [<-|[]]. exact (NS I2). }
    split; [reflexivity|]. split; [|split; [exact GI1|]].
    - intros m N. assert (m <> n) by (intros ->; apply N; left; reflexivity).
      cbn [se_pre se_post]. rewrite !tset_other by assumption. split; reflexivity.
    - split.
      + intros m s R. pose proof (RRpre_in _ _ _ _ _ _ _ _ _ _ _ _ _ R) as [<-|[]].
        cbn [se_pre se_g]. rewrite tset_same. split; [apply PRE, R|]. apply (AS s (PRE s R)).
      + intros m s R. inversion R as [n0 s0 s1 R0 B E1 E2]; subst.
        pose proof (RRpre_in _ _ _ _ _ _ _ _ _ _ _ _ _ R0) as [<-|[]].
        cbn [se_post]. rewrite tset_same. apply (AS s0 (PRE s0 R0)). exact B.
  Qed.

  (* ---------------------------------------------------------------- sequence *)
  Lemma seq_spec C1 C2 v1 v2 : VSpec C1 v1 -> VSpec C2 v2 -> VStep v2 ->
    (forall x, In x C1 -> In x C2 -> False) ->
    (forall p n, In p C2 -> In n C1 -> ~ In p (preds n)) ->
    VSpec (C1 ++ C2) (fun st => match v1 st with None => None | Some s => v2 s end).
  Proof.
    intros V1 V2 VS2 DJ NB st st' SK V FN GI0.
    destruct (v1 st) as [s1|] eqn:E1; [|discriminate].
    pose proof (VS2 _ _ V) as ST2.
    destruct (V1 st s1 SK E1 (Fin_down _ _ ST2 FN) GI0) as [K1 [F1 [GI1 [P1 Q1]]]].
    destruct (V2 s1 st' K1 V FN GI1) as [K2 [F2 [GI2 [P2 Q2]]]].
    split; [exact K2|]. split; [|split; [exact GI2|]].
    - intros m N. destruct (F1 m) as [a b]; [intros X; apply N, in_or_app; left; exact X|].
      destruct (F2 m) as [c d]; [intros X; apply N, in_or_app; right; exact X|].
      split; congruence.
    - destruct (RR_decomp A State gamma bstep preds entry false noasm Init
                  (C1 ++ C2) C1 (Ext_of st) (Ext_of st)) as [D1 D2].
      { intros x X. apply in_or_app. left. exact X. }
      { intros m p s Im Ip Ic Nc _. exfalso. apply in_app_or in Ic. destruct Ic as [Ic|Ic]; [contradiction|].
        exact (NB p m Ic Im Ip). }
      { intros m p s _ _ _ X. exact X. }
      destruct (RR_decomp A State gamma bstep preds entry false noasm Init
                  (C1 ++ C2) C2 (Ext_of st) (Ext_of s1)) as [D3 D4].
      { intros x X. apply in_or_app. right. exact X. }
      { intros m p s Im Ip Ic Nc R. apply in_app_or in Ic. destruct Ic as [Ic|Ic]; [|contradiction].
        unfold Ext_of. apply Q1. apply D2; assumption. }
      { intros m p s _ _ Nc X. unfold Ext_of in *. destruct (F1 p) as [_ b].
        - intros Y. apply Nc, in_or_app. left. exact Y.
        - rewrite b. exact X. }
      split; intros n s R.
      + pose proof (RRpre_in _ _ _ _ _ _ _ _ _ _ _ _ _ R) as I. apply in_app_or in I. destruct I as [I|I].
        * destruct (F2 n) as [a _]; [intros Y; exact (DJ n I Y)|]. rewrite a.
          destruct (P1 n s (D1 n s R I)) as [X1 X2]. split; [exact X1|].
          eapply EffS_mono; [exact ST2|exact X2].
        * apply P2, D3; assumption.
      + pose proof (RRpost_in _ _ _ _ _ _ _ _ _ _ _ _ _ R) as I. apply in_app_or in I. destruct I as [I|I].
        * destruct (F2 n) as [_ b]; [intros Y; exact (DJ n I Y)|]. rewrite b. apply Q1, D2; assumption.
        * apply Q2, D4; assumption.
  Qed.

  (* ---------------------------------------------------------------- cycle *)
  Section CycleSound.
    Variable vbody : sest A G -> option (sest A G).
    Variable B : list nat.
    Variable h : nat.
    Variable entry_pre : option A.
    Hypothesis VB : VSpec B vbody.
    Hypothesis VBS : VStep vbody.
    Hypothesis HB : ~ In h B.
    Hypothesis EP : match entry_pre with
                    | Some ip => forall s, Init s -> gamma ip s
                    | None => h <> entry
                    end.
    Let C := h :: B.

    Lemma inflow_covers st (E : nat -> State -> Prop) :
      (forall p s, ~ In p C -> E p s -> gamma (post st p) s) ->
      (forall p s, RRpost C E p s -> gamma (post st p) s) ->
      forall s, RRpre C E h s -> gamma (head_inflow h entry_pre st) s.
    Proof.
      intros HE HP s R.
      inversion R as [s0 I1 I2 I3 E1 E2|n0 p s0 I1 I2 I3 I4 I5 E1 E2|n0 p s0 I1 I2 I3 I4 I5 E1 E2]; subst.
      - apply head_inflow_s. right. destruct entry_pre as [ip|].
        + exists ip. split; [reflexivity|apply EP, I2].
        + exfalso. apply EP. reflexivity.
      - apply head_inflow_s. left. exists p. split; [exact I2|apply HE; assumption].
      - apply head_inflow_s. left. exists p. split; [exact I2|apply HP; assumption].
    Qed.

    (* the last pass of the increasing iteration *)
    Lemma inc_exit st pre_old st2 :
      skip st = false ->
      vbody (mkS (tset (pre st) h pre_old) (tset (post st) h (fst (analyze h pre_old (sg st))))
                 (skip st) (snd (analyze h pre_old (sg st)))) = Some st2 ->
      o_leq A OP (head_inflow h entry_pre st2) pre_old = true ->
      Fin (sg st2) -> GI (sg st) ->
      let st' := mkS (tset (pre st2) h (head_inflow h entry_pre st2)) (post st2) (skip st2) (sg st2) in
      skip st' = false /\ Frame C st st' /\ GI (sg st') /\ SoundOn C (Ext_of st) st'.
    Proof.
      intros SK V LE FN GI0 st'.
      set (r := analyze h pre_old (sg st)) in *.
      set (st1 := mkS (tset (pre st) h pre_old) (tset (post st) h (fst r)) (skip st) (snd r)) in *.
      set (new_pre := head_inflow h entry_pre st2) in *.
      pose proof (VBS _ _ V) as ST12. unfold st1 in ST12. cbn [se_g] in ST12.
      destruct (analyze_s h pre_old (sg st) (Fin_down _ _ ST12 FN) GI0) as [GI1 AS]. fold r in GI1, AS.
      destruct (VB st1 st2 SK V FN GI1) as [K2 [F2 [GI2 [P2 Q2]]]].
      assert (PH : post st2 h = fst r).
      { destruct (F2 h HB) as [_ b]. rewrite b. unfold st1. cbn [se_post]. apply tset_same. }
      assert (FO : forall m, ~ In m C -> pre st2 m = pre st m /\ post st2 m = post st m).
      { intros m N. assert (m <> h) by (intros ->; apply N; left; reflexivity).
        destruct (F2 m) as [a b]; [intros X; apply N; right; exact X|].
        rewrite a, b. unfold st1. cbn [se_pre se_post]. rewrite !tset_other by assumption. split; reflexivity. }
      assert (GG : (forall n s, RRpre C (Ext_of st) n s ->
                     (n = h -> gamma new_pre s) /\ (In n B -> RRpre B (Ext_of st1) n s)) /\
                  (forall n s, RRpost C (Ext_of st) n s ->
                     (n = h -> gamma (fst r) s) /\ (In n B -> RRpost B (Ext_of st1) n s))).
      { apply (RR_mutind A State gamma bstep preds entry false noasm Init C (Ext_of st)
                 (fun n s => (n = h -> gamma new_pre s) /\ (In n B -> RRpre B (Ext_of st1) n s))
                 (fun n s => (n = h -> gamma (fst r) s) /\ (In n B -> RRpost B (Ext_of st1) n s))).
        - intros s I1 I2 I3. split.
          + intros EH. unfold new_pre. apply head_inflow_s.
            right. destruct entry_pre as [ip|].
            * exists ip. split; [reflexivity|apply EP, I2].
            * exfalso. apply EP. symmetry. exact EH.
          + intros X. apply RR_init; assumption.
        - intros n p s I1 I2 I3 I4 I5. split.
          + intros ->. unfold new_pre. apply head_inflow_s. left. exists p.
            split; [exact I2|]. destruct (FO p I3) as [_ b]. rewrite b. exact I4.
          + intros X. apply RR_out with p; auto.
            * intros Y. apply I3. right. exact Y.
            * assert (p <> h) by (intros ->; apply I3; left; reflexivity).
              unfold Ext_of, st1. cbn [se_post]. rewrite tset_other by assumption. exact I4.
        - intros n p s I1 I2 I3 _ [Q1' Q2'] I5. split.
          + intros ->. unfold new_pre. apply head_inflow_s. left. exists p.
            split; [exact I2|]. destruct I3 as [<-|I3].
            * rewrite PH. apply Q1'. reflexivity.
            * apply Q2, Q2', I3.
          + intros X. destruct I3 as [<-|I3].
            * apply RR_out with h; auto. unfold Ext_of, st1. cbn [se_post]. rewrite tset_same.
              apply Q1'. reflexivity.
            * apply RR_in with p; auto.
        - intros n s s' _ [P1' P2'] BS. split.
          + intros ->. apply (AS s); [|exact BS]. eapply leq_s; [exact LE|]. apply P1'. reflexivity.
          + intros X. apply RR_step with s; auto. }
      destruct GG as [G1 G2].
      split; [exact K2|]. split; [|split; [exact GI2|]].
      - intros m N. assert (m <> h) by (intros ->; apply N; left; reflexivity).
        unfold st'. cbn [se_pre se_post]. rewrite tset_other by assumption. apply FO, N.
      - split; intros n s R.
        + destruct (G1 n s R) as [X1 X2]. unfold st'. cbn [se_pre se_g].
          pose proof (RRpre_in _ _ _ _ _ _ _ _ _ _ _ _ _ R) as [<-|I].
          * rewrite tset_same. split; [apply X1; reflexivity|].
            apply (EffS_mono _ _ _ _ ST12). apply (AS s). eapply leq_s; [exact LE|]. apply X1. reflexivity.
          * assert (n <> h) by (intros ->; contradiction).
            rewrite tset_other by assumption. apply P2, X2, I.
        + destruct (G2 n s R) as [X1 X2]. unfold st'. cbn [se_post].
          pose proof (RRpost_in _ _ _ _ _ _ _ _ _ _ _ _ _ R) as [<-|I].
          * rewrite PH. apply X1. reflexivity.
          * apply Q2, X2, I.
    Qed.

    Lemma inc_loop_spec : forall f i p0 st p' st',
      skip st = false -> inc_loop vbody h entry_pre f i p0 st = Some (p', st') ->
      Fin (sg st') -> GI (sg st) ->
      skip st' = false /\ Frame C st st' /\ GI (sg st') /\ SoundOn C (Ext_of st) st' /\
      (forall s, RRpre C (Ext_of st) h s -> gamma p' s).
    Proof.
      induction f as [|f IH]; intros i p0 st p' st' SK H FN GI0; [discriminate|].
      cbn [sinc_loop] in H.
      destruct (vbody _) as [st2|] eqn:V; [|discriminate].
      destruct (o_leq A OP (head_inflow h entry_pre st2) p0) eqn:LE.
      - inversion H; subst p' st'. clear H. cbn [se_g] in FN.
        destruct (inc_exit st p0 st2 SK V LE FN GI0) as [K [F [GI' S]]].
        split; [exact K|]. split; [exact F|]. split; [exact GI'|]. split; [exact S|].
        intros s R. destruct S as [S1 _]. destruct (S1 h s R) as [S1' _]. cbn [se_pre] in S1'.
        rewrite tset_same in S1'. exact S1'.
      - pose proof (inc_loop_step vbody h entry_pre VBS _ _ _ _ _ _ H) as ST2'.
        pose proof (Fin_down _ _ ST2' FN) as FN2.
        pose proof (VBS _ _ V) as ST12. cbn [se_g] in ST12.
        destruct (analyze_s h p0 (sg st) (Fin_down _ _ ST12 FN2) GI0) as [GI1 _].
        destruct (VB (mkS (tset (pre st) h p0) (tset (post st) h (fst (analyze h p0 (sg st)))) (skip st)
                          (snd (analyze h p0 (sg st)))) st2 SK V FN2 GI1) as [K2 [F2 [GI2 _]]].
        destruct (IH _ _ _ _ _ K2 H FN GI2) as [K [F [GI' [S HP]]]].
        assert (F02 : Frame C st st2).
        { intros m N. assert (m <> h) by (intros ->; apply N; left; reflexivity).
          destruct (F2 m) as [a b]; [intros X; apply N; right; exact X|].
          rewrite a, b. cbn [se_pre se_post]. rewrite !tset_other by assumption. split; reflexivity. }
        assert (EE : forall p s, ~ In p C -> Ext_of st p s -> Ext_of st2 p s).
        { intros p s N X. unfold Ext_of in *. destruct (F02 p N) as [_ b]. rewrite b. exact X. }
        split; [exact K|]. split; [exact (Frame_trans C st st2 st' F02 F)|]. split; [exact GI'|].
        pose proof (SoundOn_mono C (Ext_of st2) (Ext_of st) st' EE S) as S'.
        split; [exact S'|].
        intros s R. apply HP.
        destruct (RR_mono A State gamma bstep preds entry false noasm Init C (Ext_of st) (Ext_of st2)) as [M1 _].
        + intros m p s0 _ _ N X. apply EE; assumption.
        + apply M1, R.
    Qed.

    (* one pass of the decreasing iteration keeps the tables sound *)
    Lemma dec_pass (E : nat -> State -> Prop) st p0 st2 :
      skip st = false -> SoundOn C E st ->
      (forall p s, ~ In p C -> E p s -> gamma (post st p) s) ->
      (forall s, RRpre C E h s -> gamma p0 s) ->
      vbody (mkS (pre st) (tset (post st) h (fst (analyze h p0 (sg st)))) (skip st)
                 (snd (analyze h p0 (sg st)))) = Some st2 ->
      Fin (sg st2) -> GI (sg st) ->
      skip st2 = false /\ Frame C st st2 /\ GI (sg st2) /\ SoundOn C E st2 /\
      (forall s, RRpre C E h s -> gamma (head_inflow h entry_pre st2) s).
    Proof.
      intros SK [S1 S2] HE HP V FN GI0.
      set (r := analyze h p0 (sg st)) in *.
      set (st1 := mkS (pre st) (tset (post st) h (fst r)) (skip st) (snd r)) in *.
      pose proof (VBS _ _ V) as ST12. unfold st1 in ST12. cbn [se_g] in ST12.
      destruct (analyze_s h p0 (sg st) (Fin_down _ _ ST12 FN) GI0) as [GI1 AS]. fold r in GI1, AS.
      destruct (VB st1 st2 SK V FN GI1) as [K2 [F2 [GI2 [P2 Q2]]]].
      assert (POSTH : forall s, RRpost C E h s -> gamma (fst r) s).
      { intros s R. inversion R as [n0 s0 s1 R0 BS E1 E2]; subst. apply (AS s0 (HP s0 R0)). exact BS. }
      assert (F02 : Frame C st st2).
      { intros m N. assert (m <> h) by (intros ->; apply N; left; reflexivity).
        destruct (F2 m) as [a b]; [intros X; apply N; right; exact X|].
        rewrite a, b. unfold st1. cbn [se_pre se_post]. rewrite tset_other by assumption. split; reflexivity. }
      destruct (RR_decomp A State gamma bstep preds entry false noasm Init C B E (Ext_of st1)) as [D1 D2].
      { intros x X. right. exact X. }
      { intros m p s Im Ip Ic Nc R. destruct Ic as [<-|Ic]; [|contradiction].
        unfold Ext_of, st1. cbn [se_post]. rewrite tset_same. apply POSTH, R. }
      { intros m p s _ _ Nc X. assert (p <> h) by (intros ->; apply Nc; left; reflexivity).
        unfold Ext_of, st1. cbn [se_post]. rewrite tset_other by assumption. apply HE; assumption. }
      assert (SND : SoundOn C E st2).
      { split; intros n s R.
        - pose proof (RRpre_in _ _ _ _ _ _ _ _ _ _ _ _ _ R) as [<-|I].
          + destruct (F2 h HB) as [a _]. rewrite a. unfold st1. cbn [se_pre].
            split; [apply S1, R|]. apply (EffS_mono _ _ _ _ ST12). apply (AS s (HP s R)).
          + apply P2, D1; assumption.
        - pose proof (RRpost_in _ _ _ _ _ _ _ _ _ _ _ _ _ R) as [<-|I].
          + destruct (F2 h HB) as [_ b]. rewrite b. unfold st1. cbn [se_post]. rewrite tset_same.
            apply POSTH, R.
          + apply Q2, D2; assumption. }
      split; [exact K2|]. split; [exact F02|]. split; [exact GI2|]. split; [exact SND|].
      apply inflow_covers.
      - intros p s N X. destruct (F02 p N) as [_ b]. rewrite b. apply HE; assumption.
      - destruct SND as [_ X]. exact X.
    Qed.

    Lemma dec_loop_spec (E : nat -> State -> Prop) : forall f i p0 st st',
      skip st = false -> SoundOn C E st ->
      (forall p s, ~ In p C -> E p s -> gamma (post st p) s) ->
      (forall s, RRpre C E h s -> gamma p0 s) ->
      dec_loop vbody h entry_pre f i p0 st = Some st' ->
      Fin (sg st') -> GI (sg st) ->
      skip st' = false /\ Frame C st st' /\ GI (sg st') /\ SoundOn C E st'.
    Proof.
      induction f as [|f IH]; intros i p0 st st' SK SO HE HP H FN GI0; [discriminate|].
      cbn [sdec_loop] in H.
      destruct (vbody _) as [st2|] eqn:V; [|discriminate].
      assert (FN2 : Fin (sg st2)).
      { destruct (o_leq A OP p0 (head_inflow h entry_pre st2)); [inversion H; subst; exact FN|].
        destruct (descending <? i); [inversion H; subst; exact FN|].
        apply (dec_loop_step vbody h entry_pre VBS) in H. cbn [se_g] in H. exact (Fin_down _ _ H FN). }
      destruct (dec_pass E st p0 st2 SK SO HE HP V FN2 GI0) as [K2 [F2 [GI2 [S2 NP]]]].
      destruct (o_leq A OP p0 (head_inflow h entry_pre st2)).
      { inversion H; subst st'. split; [exact K2|]. split; [exact F2|]. split; [exact GI2|exact S2]. }
      destruct (descending <? i).
      { inversion H; subst st'. split; [exact K2|]. split; [exact F2|]. split; [exact GI2|exact S2]. }
      set (p1 := refine A OP i p0 (head_inflow h entry_pre st2)) in *.
      set (st3 := mkS (tset (pre st2) h p1) (post st2) (skip st2) (sg st2)) in *.
      assert (HP1 : forall s, RRpre C E h s -> gamma p1 s).
      { intros s R. unfold p1. apply refine_s; [apply HP, R|apply NP, R]. }
      assert (S3 : SoundOn C E st3).
      { destruct S2 as [X1 X2]. split; intros n s R; unfold st3; cbn [se_pre se_post se_g].
        - destruct (X1 n s R) as [Y1 Y2]. split; [|exact Y2].
          destruct (Nat.eq_dec n h) as [->|NE].
          + rewrite tset_same. apply HP1, R.
          + rewrite tset_other by assumption. exact Y1.
        - apply X2, R. }
      assert (HE3 : forall p s, ~ In p C -> E p s -> gamma (post st3 p) s).
      { intros p s N X. unfold st3. cbn [se_post]. destruct (F2 p N) as [_ b]. rewrite b. apply HE; assumption. }
      destruct (IH (S i) p1 st3 st' K2 S3 HE3 HP1 H FN GI2) as [K [F [GI' S']]].
      split; [exact K|]. split; [|split; [exact GI'|exact S']].
      apply (Frame_trans C st st2 st' F2). intros m N.
      assert (m <> h) by (intros ->; apply N; left; reflexivity).
      destruct (F m N) as [a b]. rewrite a, b. unfold st3. cbn [se_pre se_post].
      rewrite tset_other by assumption. split; reflexivity.
    Qed.

    Lemma cyc_core_spec pre0 st0 st' : skip st0 = false ->
      cyc_core vbody h entry_pre pre0 st0 = Some st' -> Fin (sg st') -> GI (sg st0) ->
      skip st' = false /\ Frame C st0 st' /\ GI (sg st') /\ SoundOn C (Ext_of st0) st'.
    Proof.
      intros SK H FN GI0. unfold cyc_core in H.
      destruct (inc_loop vbody h entry_pre fuel 1 pre0 st0) as [[p st1]|] eqn:IL; [|discriminate].
      assert (FN1 : Fin (sg st1)).
      { destruct (Nat.eqb descending 0); [inversion H; subst; exact FN|].
        apply (dec_loop_step vbody h entry_pre VBS) in H. exact (Fin_down _ _ H FN). }
      destruct (inc_loop_spec fuel 1 pre0 st0 p st1 SK IL FN1 GI0) as [K1 [F1 [GI1 [S1 HP]]]].
      destruct (Nat.eqb descending 0).
      - inversion H; subst st'. split; [exact K1|]. split; [exact F1|]. split; [exact GI1|exact S1].
      - assert (HE : forall q s, ~ In q C -> Ext_of st0 q s -> gamma (post st1 q) s).
        { intros q s N X. destruct (F1 q N) as [_ b]. rewrite b. exact X. }
        destruct (dec_loop_spec (Ext_of st0) fuel 1 p st1 st' K1 S1 HE HP H FN GI1) as [K [F [GI' S]]].
        split; [exact K|]. split; [exact (Frame_trans C st0 st1 st' F1 F)|]. split; [exact GI'|exact S].
    Qed.
  End CycleSound.

  (* ---------------------------------------------------------------- components that do not contain the entry *)
  Definition comp_ok (c : comp) : Prop :=
    NoDup (cnodes c) -> eok [c] -> ~ In entry (cnodes c) -> VSpec (cnodes c) (visit c).

  Lemma list_spec : forall l, Forall comp_ok l ->
    NoDup (flat l) -> eok l -> ~ In entry (flat l) -> VSpec (flat l) (visit_all l).
  Proof.
    induction l as [|c r IH]; intros FA ND EO NE.
    - intros st st' SK V FN GI0. cbn in V. inversion V; subst st'.
      split; [exact SK|]. split; [apply Frame_refl|]. split; [exact GI0|].
      split; intros n s R; exfalso;
        [exact (RRpre_in _ _ _ _ _ _ _ _ _ _ _ _ _ R)|exact (RRpost_in _ _ _ _ _ _ _ _ _ _ _ _ _ R)].
    - inversion FA as [|? ? OKc FAr]; subst.
      destruct (eok_cons preds c r ND EO) as [E1 [E2 E3]].
      cbn [flat] in ND, NE |- *.
      assert (V1 : VSpec (cnodes c) (visit c)).
      { apply OKc; [exact (nodup_app_left _ _ ND)|exact E1|].
        intros X. apply NE, in_or_app. left. exact X. }
      assert (V2 : VSpec (flat r) (visit_all r)).
      { apply IH; [exact FAr|exact (nodup_app_r _ _ ND)|exact E2|].
        intros X. apply NE, in_or_app. right. exact X. }
      exact (seq_spec (cnodes c) (flat r) (visit c) (visit_all r) V1 V2 (visit_all_step r)
               (fun x X Y => nodup_app_disj _ _ x ND X Y) E3).
  Qed.

  Lemma comp_spec : forall c, comp_ok c.
  Proof.
    induction c as [n|h body IH] using comp_ind'; intros ND EO NE.
    - cbn [cnodes] in *.
      apply (vertex_spec n); [intros ->; apply NE; left; reflexivity|exact (eok_vertex preds n EO)].
    - rewrite cnodes_cycle in *. inversion ND as [|? ? HB ND']; subst.
      assert (VB : VSpec (flat body) (visit_all body)).
      { apply list_spec; [exact IH|exact ND'|exact (eok_cycle preds h body ND EO)|].
        intros X. apply NE. right. exact X. }
      intros st st' SK V FN GI0. rewrite visit_cycle_eq in V. rewrite SK in V. cbn [andb] in V. cbv zeta in V.
      set (st0 := mkS (pre st) (post st) false (sg st)) in V.
      assert (EP : match @None A with
                   | Some ip => forall s, Init s -> gamma ip s
                   | None => h <> entry
                   end).
      { intros ->. apply NE. left. reflexivity. }
      destruct (cyc_core_spec (visit_all body) (flat body) h None VB (visit_all_step body) HB EP _ st0 st' eq_refl V FN GI0)
        as [K [F [GI' S]]].
      split; [exact K|]. split; [exact F|]. split; [exact GI'|exact S].
  Qed.

  (* ---------------------------------------------------------------- the first component: the entry *)
  Variable init : A.
  Hypothesis init_s : forall s, Init s -> gamma init s.

  Lemma first_spec c st st' :
    (c = Vertex entry \/ exists body, c = Cycle entry body) ->
    NoDup (cnodes c) -> eok [c] ->
    skip st = true -> pre st entry = init ->
    visit c st = Some st' -> Fin (sg st') -> GI (sg st) ->
    skip st' = false /\ Frame (cnodes c) st st' /\ GI (sg st') /\ SoundOn (cnodes c) EFalse st'.
  Proof.
    intros SH ND EO SK PI V FN GI0. destruct SH as [->|[body ->]].
    - assert (E : st' = mkS (tset (pre st) entry init) (tset (post st) entry (fst (analyze entry init (sg st)))) false
                            (snd (analyze entry init (sg st)))).
      { cbn [svisit] in V. inversion V as [V']. unfold svisit_vertex. rewrite SK, Nat.eqb_refl. cbn [andb].
        rewrite PI. reflexivity. }
      clear V. subst st'. cbn [se_g se_pre se_post se_skip cnodes] in *.
      destruct (analyze_s entry init (sg st) FN GI0) as [GI1 AS].
      pose proof (eok_vertex preds entry EO) as NS.
      assert (PRE : forall s, RRpre [entry] EFalse entry s -> gamma init s).
      { intros s R. inversion R as [s0 I1 I2 I3 E1 E2|n0 p s0 I1 I2 I3 I4 I5 E1 E2|n0 p s0 I1 I2 I3 I4 I5 E1 E2]; subst.
        - apply init_s, I2.
        - destruct I4.
        - exfalso. destruct I3 as [<-|[]]. exact (NS I2). }
      split; [reflexivity|]. split; [|split; [exact GI1|]].
      + intros m N. assert (m <> entry) by (intros ->; apply N; left; reflexivity).
        cbn [se_pre se_post]. rewrite !tset_other by assumption. split; reflexivity.
      + split.
        * intros m s R. pose proof (RRpre_in _ _ _ _ _ _ _ _ _ _ _ _ _ R) as [<-|[]].
          cbn [se_pre se_g]. rewrite tset_same. split; [apply PRE, R|]. apply (AS s (PRE s R)).
        * intros m s R. inversion R as [n0 s0 s1 R0 B E1 E2]; subst.
          pose proof (RRpre_in _ _ _ _ _ _ _ _ _ _ _ _ _ R0) as [<-|[]].
          cbn [se_post]. rewrite tset_same. apply (AS s0 (PRE s0 R0)). exact B.
    - rewrite cnodes_cycle in *. pose proof ND as ND0. apply NoDup_cons_iff in ND0. destruct ND0 as [HB ND'].
      assert (VB : VSpec (flat body) (visit_all body)).
      { apply list_spec; [|exact ND'|exact (eok_cycle preds entry body ND EO)|exact HB].
        apply Forall_forall. intros c' _. apply comp_spec. }
      rewrite visit_cycle_eq in V. rewrite SK in V.
      assert (M : comp_member entry (Cycle entry body) = true).
      { apply comp_member_In. rewrite cnodes_cycle. left. reflexivity. }
      rewrite M in V. cbn [andb negb] in V. cbv zeta in V. cbn [se_pre] in V. rewrite PI in V.
      set (st0 := mkS (pre st) (post st) false (sg st)) in V.
      destruct (cyc_core_spec (visit_all body) (flat body) entry (Some init) VB (visit_all_step body) HB init_s
                  _ st0 st' eq_refl V FN GI0) as [K [F [GI' S]]].
      split; [exact K|]. split; [exact F|]. split; [exact GI'|].
      apply (SoundOn_mono _ (Ext_of st0) EFalse); [|exact S]. intros q s _ [].
  Qed.

  (* ---------------------------------------------------------------- main theorem *)
  Section Main.
    Variable w : list comp.
    Hypothesis w_nodup : NoDup (flat w).
    Hypothesis w_edges : forall n p, In p (preds n) -> In p (flat w) -> In n (flat w) /\ lok w p n.
    Hypothesis w_first : starts_with entry w.

    Theorem srun_sound : forall g e,
      srun A G OP analyze preds nest entry delay descending fuel w init g = Some e ->
      Fin (sg e) -> GI g ->
      step g (sg e) /\ GI (sg e) /\
      (forall n s, RPre n s -> gamma (pre e n) s /\ EffS n s (sg e)) /\
      (forall n s, RPost n s -> gamma (post e n) s).
    Proof.
      intros g e RUN FN GI0.
      assert (EO : eok w).
      { intros p n Hp Hn He. apply (w_edges n p He Hp). }
      destruct w_first as [c [r [EW SH]]].
      pose proof w_nodup as ND. rewrite EW in ND.
      pose proof EO as EO'. rewrite EW in EO'.
      destruct (eok_cons preds c r ND EO') as [EOc [EOr NB]].
      cbn [flat] in ND.
      unfold srun in RUN. rewrite EW in RUN. cbn [svisit_all] in RUN.
      set (st0 := mkS (tset (fun _ => o_bot A OP) entry init) (fun _ => o_bot A OP) true g) in *.
      destruct (visit c st0) as [s1|] eqn:VC; [|discriminate].
      pose proof (visit_all_step r _ _ RUN) as ST2.
      pose proof (comp_step c _ _ VC) as ST1. cbn [se_g] in ST1.
      assert (IEc : In entry (cnodes c)).
      { destruct SH as [->|[body ->]]; [left; reflexivity|rewrite cnodes_cycle; left; reflexivity]. }
      assert (NEr : ~ In entry (flat r)).
      { intros X. exact (nodup_app_disj _ _ entry ND IEc X). }
      destruct (first_spec c st0 s1 SH (nodup_app_left _ _ ND) EOc eq_refl (tset_same _ _ _) VC
                  (Fin_down _ _ ST2 FN) GI0) as [K1 [F1 [GI1 [P1 Q1]]]].
      assert (V2 : VSpec (flat r) (visit_all r)).
      { apply list_spec; [|exact (nodup_app_r _ _ ND)|exact EOr|exact NEr].
        apply Forall_forall. intros c' _. apply comp_spec. }
      destruct (V2 s1 e K1 RUN FN GI1) as [K2 [F2 [GI2 [P2 Q2]]]].
      set (C := flat w).
      assert (CE : forall x, In x C <-> In x (cnodes c) \/ In x (flat r)).
      { intros x. unfold C. rewrite EW. cbn [flat]. rewrite in_app_iff. tauto. }
      assert (w_entry : In entry C) by (apply CE; left; exact IEc).
      destruct (R_global_rel A State gamma bstep preds entry false noasm Init C EFalse w_entry) as [GL1 GL2].
      { intros n p He Hp. apply (w_edges n p He Hp). }
      destruct (RR_decomp A State gamma bstep preds entry false noasm Init C (cnodes c) EFalse EFalse) as [D1 D2].
      { intros x X. apply CE. tauto. }
      { intros m p s Im Ip Ic Nc R. apply CE in Ic. destruct Ic as [Ic|Ic]; [contradiction|].
        exact (NB p m Ic Im Ip). }
      { intros m p s _ _ _ []. }
      destruct (RR_decomp A State gamma bstep preds entry false noasm Init C (flat r) EFalse (Ext_of s1)) as [D3 D4].
      { intros x X. apply CE. tauto. }
      { intros m p s Im Ip Ic Nc R. apply CE in Ic. destruct Ic as [Ic|Ic]; [|contradiction].
        unfold Ext_of. apply Q1. apply D2; assumption. }
      { intros m p s _ _ _ []. }
      assert (DJ : forall x, In x (cnodes c) -> In x (flat r) -> False).
      { intros x X Y. exact (nodup_app_disj _ _ x ND X Y). }
      split; [eapply step_trans; eauto|]. split; [exact GI2|].
      split; intros n s R.
      - apply GL1 in R. pose proof (RRpre_in _ _ _ _ _ _ _ _ _ _ _ _ _ R) as I.
        apply CE in I. destruct I as [I|I].
        + destruct (F2 n) as [a _]; [intros Y; exact (DJ n I Y)|]. rewrite a.
          destruct (P1 n s (D1 n s R I)) as [X1 X2]. split; [exact X1|].
          eapply EffS_mono; [exact ST2|exact X2].
        + apply P2, D3; assumption.
      - apply GL2 in R. pose proof (RRpost_in _ _ _ _ _ _ _ _ _ _ _ _ _ R) as I.
        apply CE in I. destruct I as [I|I].
        + destruct (F2 n) as [_ b]; [intros Y; exact (DJ n I Y)|]. rewrite b. apply Q1, D2; assumption.
        + apply Q2, D4; assumption.
    Qed.
  End Main.
End StSound.
