(* InterBURec.v — bottom_up_inter_analyzer.hpp (intervals for both phases, after fixes/inter-2 and
   inter-7) for ANY call graph, recursive components included.

   What the code does with a recursive component of the call graph (read from run()):
   - order.  scc_graph<cg_ref>(cg, false) sorts the functions by a depth-first search of the call
     graph (sccg.hpp sort<postorder_visitor>: first from the first function, in index order, that
     has no incoming edge, then from every function not yet visited, in index order; successors
     in increasing index: out-edges of a boost adjacency_list with setS) and lists the members of
     a component in the order in which they are FINISHED.  The components are visited in reverse
     topological order (bottom-up phase) and in topological order (top-down phase).
   - bottom-up phase.  Every function but main gets a summary, members of recursive components
     included.  A callsite whose callee has no summary yet (the function itself, a member of the
     same component that comes later in the member order, main, a function without exit block)
     forgets its lhs variables (bu_summ_abs_transformer::exec).  So the summaries of a recursive
     component depend on the member order, and only on it: callees of other components are done
     before, whatever the topological order.  The finish order of the depth-first search is such
     an order (a callee in another component is finished before its caller) and lists the members
     of every component in the code's order: cg_post below is the bottom-up order of the mirror.
   - top-down phase.  For every member of a recursive component (more than one member, or a
     function that calls itself) a top calling context is joined into the call table just before
     the member is analysed, and the member starts from the table's entry (top); also when it is
     the root (fixes/inter-7).  A member of a non-recursive component starts from the join of the
     calling contexts stored by its callers, all analysed before (from init if it is the root).
     The tables therefore do not depend on the order inside a component nor on the topological
     order chosen (up to the choice of the root): the mirror analyses the functions in reverse
     finish order (cg_rpost).
   - root.  As in InterBU.v the model gives init to every function without callers (the code:
     to the first component of its topological order): equal when the call graph has one
     component without external callers or init is top.

   The general form bur_run_ord takes the two orders as parameters and is proved sound for ALL
   orders (Ana/InterBURecSound.v): a function that is neither recursive nor preceded by all its
   callers would be analysed from top (never the case for cg_rpost: Ana/InterBURecOrder.v).  bur_run instantiates it
   with the orders of the code.  bu_run of InterBU.v is unchanged. *)
From Coq Require Import ZArith NArith List Bool Arith.
From CrabV Require Import Base.ZInf Scalar.Itv Ir.Syntax Ir.Cfg Dom.ItvEnv Dom.ItvDomain
     Fix.Wto Fix.Engine Fix.EngineFS Ana.Transformer Ana.FwdItv Ana.InterSyntax Ana.InterTD Ana.InterBU.
Import ListNotations.

Section CG.
  Variable p : iprog.

  (* boost::depth_first_visit on the call graph: st = (discovered, finished, latest first) *)
  Fixpoint cg_dfs (fuel : nat) (u : nat) (st : list nat * list nat) : list nat * list nat :=
    match fuel with
    | O => st
    | S k =>
      if nmem u (fst st) then st
      else let st' := fold_left (fun acc v => cg_dfs k v acc) (cg_succs p u) (u :: fst st, snd st) in
           (fst st', u :: snd st')
    end.

  Definition cg_no_preds (f : nat) : bool := match cg_preds p f with [] => true | _ => false end.

  (* sort<postorder_visitor>(): the root is the first function with in-degree 0 *)
  Definition cg_dfs_roots : list nat :=
    match filter cg_no_preds (seq 0 (length p)) with [] => [] | r :: _ => [r] end ++ seq 0 (length p).

  (* reverse finish order / finish order *)
  Definition cg_rpost : list nat :=
    snd (fold_left (fun acc u => cg_dfs (S (length p)) u acc) cg_dfs_roots ([], [])).
  Definition cg_post : list nat := rev cg_rpost.

  (* functions reachable by at least one call *)
  Definition cg_reach1 (l : list nat) : list nat := fold_right insert_nat l (flat_map (cg_succs p) l).
  Definition cg_reach_plus (f : nat) : list nat := iter (length p) cg_reach1 (cg_succs p f).
  Definition cg_closed (l : list nat) : bool :=
    forallb (fun x => forallb (fun y => nmem y l) (cg_succs p x)) l.
  (* is_recursive: the component of f has several members or f calls itself, i.e. f is reachable
     from f by at least one call.  (length p rounds reach the closure; the second disjunct, never
     true, makes the completeness of the test independent of that fact.) *)
  Definition cg_isrec (f : nat) : bool := nmem f (cg_reach_plus f) || negb (cg_closed (cg_reach_plus f)).
End CG.

Section BURec.
  Variable p : iprog.
  Variable voff : N.
  Variables delay desc : nat.
  Variable efuel : nat.
  Variable wtos : nat -> wto.

  (* ---------------------------------------------------------------- bottom-up phase *)
  Definition bur_bu_step (acc : (nat -> option env) * bool) (f : nat) : (nat -> option env) * bool :=
    match bu_summary p voff delay desc efuel wtos (fst acc) f with
    | Some r => (fupd (fst acc) f r, snd acc)
    | None => (fst acc, true)
    end.
  Definition bur_bu (ord : list nat) : (nat -> option env) * bool :=
    fold_left bur_bu_step ord (fun _ => None, false).

  (* ---------------------------------------------------------------- top-down phase *)
  Definition ctab_get (ct : ctab) (f : nat) : env := match ct f with Some c => c | None => e_top end.

  Definition bur_td_step (sums : nat -> option env) (init : env) (acc : tdst) (f : nat) : tdst :=
    if nmem f (t_done acc) then acc
    else
      let fn := get_fn p f in
      let isrec := cg_isrec p f in
      (* m_call_tbl.insert(fdecl, make_td_top()) *)
      let ct1 := if isrec then ctab_insert (t_ct acc) f e_top else t_ct acc in
      let init_inv :=
          if isrec then ctab_get ct1 f
          else if all_in (cg_preds p f) (t_done acc) then
                 match cg_preds p f with [] => init | _ => ctab_get ct1 f end
               else e_top in
      match srun env ctab itv_ops (fun n e ct => td2_block p voff sums (fn_block fn n) e ct)
                 (fn_preds fn) (nest_of (wtos f)) 0 delay desc efuel (wtos f) init_inv ct1 with
      | Some r => mkTS (se_g env ctab r) (fupd (t_pre acc) f (se_pre env ctab r))
                       (fupd (t_post acc) f (se_post env ctab r)) (f :: t_done acc) (t_err acc)
      | None => mkTS ct1 (t_pre acc) (t_post acc) (f :: t_done acc) true
      end.

  Definition bur_td (sums : nat -> option env) (init : env) (ord : list nat) : tdst :=
    fold_left (bur_td_step sums init) ord
              (mkTS (fun _ => None) (fun _ _ => e_top) (fun _ _ => e_top) [] false).

  Definition cg_no_edges : bool :=
    forallb (fun f => match cg_succs p f with [] => true | _ => false end) (seq 0 (length p)).

  (* run(init) with the bottom-up order obu and the top-down order otd *)
  Definition bur_run_ord (obu otd : list nat) (init : env) : bures :=
    if cg_no_edges then bu_run p voff delay desc efuel wtos init   (* only main is analysed *)
    else
      let bu := bur_bu obu in
      let st := bur_td (fst bu) init otd in
      mkBU (fst bu) (t_pre st) (t_post st) (snd bu || t_err st).

  (* bottom_up_inter_analyzer::run(init) *)
  Definition bur_run (init : env) : bures := bur_run_ord (cg_post p) (cg_rpost p) init.
End BURec.

(* the functions whose executions the tables cover from the initial states: those without callers
   (started from init) and the members of recursive components (started from top) *)
Definition bur_entries (p : iprog) : list nat :=
  filter (fun f => cg_no_preds p f || cg_isrec p f) (seq 0 (length p)).
